//! C18: RDF/XML serialisation (sophia_xml::serializer::RdfXmlSerializer over rio_xml's formatter)
//! round-trips through sophia_xml::parser::RdfXmlParser (rio_xml's parser) and through an
//! independent strict reference reader (XML 1.0 + Namespaces + the RDF/XML rules for the
//! vocabulary the formatter uses), against the Coq model C18/Model.v.
use sophia_api::prelude::*;
use sophia_api::serializer::{Stringifier, TripleSerializer};
use sophia_api::source::TripleSource;
use sophia_api::term::SimpleTerm;
use sophia_inmem::graph::FastGraph;
use sophia_isomorphism::isomorphic_graphs;
use sophia_xml::serializer::{RdfXmlConfig, RdfXmlSerializer};
use std::collections::HashMap;
use std::panic::{AssertUnwindSafe, catch_unwind};
use std::sync::atomic::{AtomicBool, Ordering};
use verif_harness::*;

type T3 = [ST; 3];
static QUIET: AtomicBool = AtomicBool::new(false);
fn quiet<R>(f: impl FnOnce() -> R) -> std::thread::Result<R> {
    QUIET.store(true, Ordering::SeqCst); let r = catch_unwind(AssertUnwindSafe(f)); QUIET.store(false, Ordering::SeqCst); r
}

// ---------------------------------------------------------------------------------------------
// character classes (XML 1.0 fifth edition), written independently of the Coq model
// ---------------------------------------------------------------------------------------------
fn is_xml_char(c: char) -> bool { matches!(c, '\t' | '\n' | '\r' | '\u{20}'..='\u{D7FF}' | '\u{E000}'..='\u{FFFD}' | '\u{10000}'..='\u{10FFFF}') }
fn is_name_start(c: char) -> bool {
    matches!(c, ':' | 'A'..='Z' | '_' | 'a'..='z' | '\u{C0}'..='\u{D6}' | '\u{D8}'..='\u{F6}' | '\u{F8}'..='\u{2FF}' | '\u{370}'..='\u{37D}' | '\u{37F}'..='\u{1FFF}'
        | '\u{200C}'..='\u{200D}' | '\u{2070}'..='\u{218F}' | '\u{2C00}'..='\u{2FEF}' | '\u{3001}'..='\u{D7FF}' | '\u{F900}'..='\u{FDCF}' | '\u{FDF0}'..='\u{FFFD}' | '\u{10000}'..='\u{EFFFF}')
}
fn is_name_char(c: char) -> bool { is_name_start(c) || matches!(c, '-' | '.' | '0'..='9' | '\u{B7}' | '\u{300}'..='\u{36F}' | '\u{203F}'..='\u{2040}') }
fn is_ncname(s: &str) -> bool { let mut it = s.chars(); match it.next() { Some(c) if is_name_start(c) && c != ':' => it.all(|c| is_name_char(c) && c != ':'), _ => false } }
fn is_xml_ws(c: char) -> bool { matches!(c, ' ' | '\t' | '\n' | '\r') }
/// the longest NCName suffix of an IRI ("" if none): what a QName local part can be
fn ncname_suffix(iri: &str) -> &str {
    let mut best = "";
    for (i, _) in iri.char_indices() { if is_ncname(&iri[i..]) { best = &iri[i..]; break; } }
    best
}
const RESERVED: [&str; 12] = ["about", "aboutEach", "aboutEachPrefix", "bagID", "datatype", "ID", "li", "nodeID", "parseType", "RDF", "resource", "Description"];

// ---------------------------------------------------------------------------------------------
// reference reader: a strict XML 1.0 + Namespaces parser for elements / attributes / character
// data / references (no DTD, comments, PIs, CDATA: Err("unsupported ...")), then the RDF/XML
// rules for rdf:RDF > rdf:Description(rdf:about|rdf:nodeID) > property elements
// ---------------------------------------------------------------------------------------------
#[derive(Debug)]
enum Node { Elem(Elem), Text(String) }
#[derive(Debug)]
struct Elem { ns: String, local: String, attrs: Vec<(String, String, String)>, children: Vec<Node> }
struct Px<'a> { s: &'a [char], i: usize }
const XML_NS: &str = "http://www.w3.org/XML/1998/namespace";
impl<'a> Px<'a> {
    fn peek(&self) -> Option<char> { self.s.get(self.i).copied() }
    fn starts(&self, t: &str) -> bool { let t: Vec<char> = t.chars().collect(); self.s[self.i..].starts_with(&t) }
    fn skip_ws(&mut self) -> bool { let st = self.i; while self.peek().map_or(false, is_xml_ws) { self.i += 1; } self.i > st }
    fn name(&mut self) -> Result<String, String> {
        let st = self.i;
        match self.peek() { Some(c) if is_name_start(c) => self.i += 1, _ => return Err("name expected".into()) }
        while self.peek().map_or(false, is_name_char) { self.i += 1; }
        Ok(self.s[st..self.i].iter().collect())
    }
    fn reference(&mut self) -> Result<char, String> { // after '&'
        let st = self.i;
        while let Some(c) = self.peek() { if c == ';' { break; } if c == '&' || c == '<' { return Err("unterminated reference".into()); } self.i += 1; }
        if self.peek() != Some(';') { return Err("unterminated reference".into()); }
        let name: String = self.s[st..self.i].iter().collect(); self.i += 1;
        let c = match name.as_str() {
            "lt" => '<', "gt" => '>', "amp" => '&', "apos" => '\'', "quot" => '"',
            n if n.starts_with("#x") => { let h = &n[2..]; if h.is_empty() || !h.chars().all(|c| c.is_ascii_hexdigit()) { return Err("bad char ref".into()); } u32::from_str_radix(h, 16).ok().and_then(char::from_u32).ok_or("bad char ref")? }
            n if n.starts_with('#') => { let d = &n[1..]; if d.is_empty() || !d.chars().all(|c| c.is_ascii_digit()) { return Err("bad char ref".into()); } d.parse::<u32>().ok().and_then(char::from_u32).ok_or("bad char ref")? }
            _ => return Err(format!("unknown entity {name}")),
        };
        if name.starts_with('#') && !is_xml_char(c) { return Err("char ref to a non-Char".into()); }
        Ok(c)
    }
    fn attr_value(&mut self) -> Result<String, String> {
        let q = match self.peek() { Some(c @ ('"' | '\'')) => c, _ => return Err("quote expected".into()) }; self.i += 1;
        let mut out = String::new();
        loop {
            match self.peek() {
                None => return Err("unterminated attribute".into()),
                Some(c) if c == q => { self.i += 1; return Ok(out); }
                Some('<') => return Err("< in attribute value".into()),
                Some('&') => { self.i += 1; out.push(self.reference()?); }
                Some(c) if is_xml_ws(c) => { self.i += 1; out.push(' '); } // 3.3.3 (input is already 2.11-normalised)
                Some(c) => { self.i += 1; out.push(c); }
            }
        }
    }
    fn element(&mut self, scope: &HashMap<String, String>) -> Result<Elem, String> {
        if self.peek() != Some('<') { return Err("< expected".into()); } self.i += 1;
        let qn = self.name()?;
        let mut raw: Vec<(String, String)> = vec![];
        let empty;
        loop {
            let ws = self.skip_ws();
            if self.starts("/>") { self.i += 2; empty = true; break; }
            if self.peek() == Some('>') { self.i += 1; empty = false; break; }
            if !ws { return Err("whitespace expected before attribute".into()); }
            let an = self.name()?; self.skip_ws();
            if self.peek() != Some('=') { return Err("= expected".into()); } self.i += 1; self.skip_ws();
            let v = self.attr_value()?;
            if raw.iter().any(|(k, _)| *k == an) { return Err("duplicate attribute".into()); }
            raw.push((an, v));
        }
        let mut scope = scope.clone();
        for (k, v) in &raw {
            if k == "xmlns" { scope.insert(String::new(), v.clone()); }
            else if let Some(p) = k.strip_prefix("xmlns:") { if !is_ncname(p) || v.is_empty() || p == "xmlns" { return Err("bad namespace declaration".into()); } scope.insert(p.to_string(), v.clone()); }
        }
        let split = |qn: &str, is_attr: bool| -> Result<(String, String), String> {
            match qn.split_once(':') {
                Some((p, l)) => { if !is_ncname(p) || !is_ncname(l) { return Err(format!("{qn:?} is not a QName")); }
                    if p == "xml" { return Ok((XML_NS.into(), l.into())); }
                    scope.get(p).cloned().map(|ns| (ns, l.to_string())).ok_or(format!("unbound prefix {p}")) }
                None => { if !is_ncname(qn) { return Err(format!("{qn:?} is not a QName")); }
                    Ok((if is_attr { String::new() } else { scope.get("").cloned().unwrap_or_default() }, qn.to_string())) }
            }
        };
        let (ns, local) = split(&qn, false)?;
        let mut attrs = vec![];
        for (k, v) in &raw { if k == "xmlns" || k.starts_with("xmlns:") { continue; } let (a, l) = split(k, true)?; attrs.push((a, l, v.clone())); }
        let mut children = vec![];
        if !empty {
            let mut text = String::new();
            loop {
                match self.peek() {
                    None => return Err("unexpected end of document".into()),
                    Some('<') => {
                        if self.starts("</") { break; }
                        if self.starts("<!") || self.starts("<?") { return Err("unsupported markup".into()); }
                        if !text.is_empty() { children.push(Node::Text(std::mem::take(&mut text))); }
                        children.push(Node::Elem(self.element(&scope)?));
                    }
                    Some('&') => { self.i += 1; text.push(self.reference()?); }
                    Some(_) => { if self.starts("]]>") { return Err("]]> in character data".into()); } text.push(self.peek().unwrap()); self.i += 1; }
                }
            }
            if !text.is_empty() { children.push(Node::Text(text)); }
            self.i += 2; let en = self.name()?; if en != qn { return Err("mismatched end tag".into()); } self.skip_ws();
            if self.peek() != Some('>') { return Err("> expected".into()); } self.i += 1;
        }
        Ok(Elem { ns, local, attrs, children })
    }
}
fn ref_parse_xml(doc: &str) -> Result<Elem, String> {
    if let Some(c) = doc.chars().find(|c| !is_xml_char(*c)) { return Err(format!("U+{:04X} is not an XML Char", c as u32)); }
    let norm = doc.replace("\r\n", "\n").replace('\r', "\n");
    let chars: Vec<char> = norm.chars().collect();
    let mut p = Px { s: &chars, i: 0 };
    if p.starts("<?xml") { while !p.starts("?>") { if p.peek().is_none() { return Err("unterminated declaration".into()); } p.i += 1; } p.i += 2; }
    p.skip_ws();
    let root = p.element(&HashMap::new())?;
    p.skip_ws();
    if p.peek().is_some() { return Err("content after the root element".into()); }
    Ok(root)
}
fn ref_read(doc: &str) -> Result<Vec<T3>, String> {
    let root = ref_parse_xml(doc)?;
    if root.ns != RDF || root.local != "RDF" { return Err("root is not rdf:RDF".into()); }
    let mut out = vec![];
    for n in &root.children {
        let d = match n { Node::Text(t) => { if t.chars().all(is_xml_ws) { continue } else { return Err("text in rdf:RDF".into()) } } Node::Elem(e) => e };
        if d.ns != RDF || d.local != "Description" { return Err("unsupported node element".into()); }
        let about = d.attrs.iter().find(|a| a.0 == RDF && a.1 == "about"); let nid = d.attrs.iter().find(|a| a.0 == RDF && a.1 == "nodeID");
        let subj = match (about, nid) { (Some(a), None) => iri(&a.2), (None, Some(b)) => { if !is_ncname(&b.2) { return Err("rdf:nodeID is not an NCName".into()); } bnode(&b.2) } _ => return Err("unsupported subject".into()) };
        for (ns, l, v) in &d.attrs { // property attributes (used by the reader stream only)
            if ns == RDF && (l == "about" || l == "nodeID") { continue; }
            if ns.is_empty() || ns == RDF || ns == XML_NS { return Err("unsupported node element attribute".into()); }
            out.push([subj.clone(), iri(&format!("{ns}{l}")), lit_dt(v, &format!("{XSD}string"))]);
        }
        let mut li = 0u64;
        for pn in &d.children {
            let pe = match pn { Node::Text(t) => { if t.chars().all(is_xml_ws) { continue } else { return Err("text in node element".into()) } } Node::Elem(e) => e };
            if pe.ns.is_empty() { return Err("property element without namespace".into()); }
            let mut piri = format!("{}{}", pe.ns, pe.local);
            if piri == format!("{RDF}li") { li += 1; piri = format!("{RDF}_{li}"); }
            else if pe.ns == RDF && RESERVED.contains(&pe.local.as_str()) { return Err(format!("{piri} is not a property element name")); }
            let (mut res, mut nid, mut lang, mut dt) = (None, None, None, None);
            for (a, l, v) in &pe.attrs {
                match (a.as_str(), l.as_str()) { (RDF, "resource") => res = Some(v), (RDF, "nodeID") => nid = Some(v), (XML_NS, "lang") => lang = Some(v.to_ascii_lowercase()), (RDF, "datatype") => dt = Some(v), _ => return Err("unsupported property attribute".into()) }
            }
            let mut text = String::new();
            for c in &pe.children { match c { Node::Text(t) => text.push_str(t), Node::Elem(_) => return Err("unsupported nested node element".into()) } }
            let obj = match (res, nid) {
                (Some(_), Some(_)) => return Err("both rdf:resource and rdf:nodeID".into()),
                (Some(r), None) => { if !text.is_empty() { return Err("content in an empty property element".into()); } iri(r) }
                (None, Some(b)) => { if !text.is_empty() { return Err("content in an empty property element".into()); } if !is_ncname(b) { return Err("rdf:nodeID is not an NCName".into()); } bnode(b) }
                (None, None) => match (dt, &lang) { (Some(d), _) => lit_dt(&text, d), (None, Some(l)) => lit_lang(&text, l), (None, None) => lit_dt(&text, &format!("{XSD}string")) },
            };
            out.push([subj.clone(), iri(&piri), obj]);
        }
    }
    Ok(out)
}

// ---------------------------------------------------------------------------------------------
// the implementation under test
// ---------------------------------------------------------------------------------------------
enum Ser { Doc(String), Err(String), Panic }
fn serialize(g: &Vec<T3>, ind: usize) -> Ser {
    match quiet(|| { let mut ser = RdfXmlSerializer::new_stringifier_with_config(RdfXmlConfig::new().with_indentation(ind)); ser.serialize_triples(g.triples()).map(|s| s.to_string()).map_err(|e| e.to_string()) }) {
        Ok(Ok(d)) => Ser::Doc(d), Ok(Err(e)) => Ser::Err(e), Err(_) => Ser::Panic,
    }
}
fn rio_read(doc: &str) -> Result<Vec<T3>, String> {
    match quiet(|| { let r: Result<Vec<T3>, _> = sophia_xml::parser::parse_str(doc).collect_triples(); r.map_err(|e| e.to_string()) }) { Ok(r) => r, Err(_) => Err("PANIC".into()) }
}
fn representable(t: &T3) -> bool {
    matches!(t[0], SimpleTerm::Iri(_) | SimpleTerm::BlankNode(_)) && matches!(t[1], SimpleTerm::Iri(_))
        && matches!(t[2], SimpleTerm::Iri(_) | SimpleTerm::BlankNode(_) | SimpleTerm::LiteralDatatype(..) | SimpleTerm::LiteralLanguage(..))
}
fn has_quoted(t: &T3) -> bool { t.iter().any(|x| matches!(x, SimpleTerm::Triple(_))) }
fn iso(a: &[T3], b: &[T3]) -> bool {
    let ga: FastGraph = a.iter().cloned().collect_triples_from(); let gb: FastGraph = b.iter().cloned().collect_triples_from();
    isomorphic_graphs(&ga, &gb).unwrap_or(false)
}
trait CollectFrom { fn collect_triples_from(self) -> FastGraph; }
impl<I: Iterator<Item = T3>> CollectFrom for I { fn collect_triples_from(self) -> FastGraph { let mut g = FastGraph::new(); for t in self { MutableGraph::insert(&mut g, &t[0], &t[1], &t[2]).unwrap(); } g } }
fn lex_of(t: &ST) -> Option<String> { match t { SimpleTerm::LiteralDatatype(l, _) | SimpleTerm::LiteralLanguage(l, _) => Some(l.to_string()), _ => None } }
fn bcp47_simple(tag: &str) -> bool { // the tags the generator treats as well-formed: language 2-3 or 5-8 letters or x-..., subtags of 2-8 alphanumerics, singletons followed by a subtag
    let subs: Vec<&str> = tag.split('-').collect();
    if subs[0].eq_ignore_ascii_case("x") { return subs.len() > 1 && subs[1..].iter().all(|s| (1..=8).contains(&s.len())); }
    if !((2..=3).contains(&subs[0].len()) || (5..=8).contains(&subs[0].len())) || !subs[0].chars().all(|c| c.is_ascii_alphabetic()) { return false; }
    let mut i = 1; while i < subs.len() { let s = subs[i]; if s.len() == 1 { if i + 1 >= subs.len() || !(2..=8).contains(&subs[i + 1].len()) { return false; } } else if !(2..=8).contains(&s.len()) { return false; } i += 1; }
    true
}

// ---------------------------------------------------------------------------------------------
// Coq printing
// ---------------------------------------------------------------------------------------------
fn c_t3(t: &T3) -> String { format!("({}, {}, {})", coq_term(&t[0]), coq_term(&t[1]), coq_term(&t[2])) }
fn c_graph(g: &[T3]) -> String { coq_list(g.iter().map(c_t3)) }
fn c_parse(r: &Result<Vec<T3>, String>) -> String { match r { Ok(g) => format!("(Some {})", c_graph(g)), Err(_) => "None".into() } }
fn c_optstr(r: &Option<String>) -> String { match r { Some(s) => format!("(Some {})", coq_str(s)), None => "None".into() } }

// ---------------------------------------------------------------------------------------------
// generation
// ---------------------------------------------------------------------------------------------
#[derive(Clone, Copy, PartialEq, Debug)]
enum Flavour { Clean, WsOnly, BnodeDigit, ReservedPred, NoSplitPred, IllegalChar, Cr, BadLang, Generalised, Quoted }
const SUBJECTS: [&str; 7] = ["http://e/s", "http://e/s?a=1&b='2'", "http://example.org/ns#x", "urn:x:y", "http://e/\u{e9}", "http://e/\u{1F600}/p", "http://e/t"];
const BNODES: [&str; 11] = ["b", "b1", "a-b", "b.c", "_x", "__x", "_1", "_0a", "\u{e9}t", "riog00000001", "\u{10000}a"];
const BAD_BNODES: [&str; 4] = ["0", "0a", "1.2", "9_"];
const PREDS: [&str; 24] = ["http://example.org/ns/temp\u{b0}C", "http://e/2\u{d7}two", "http://e/a\u{f7}b", "http://e/\u{d7}", "http://e/p", "http://e/q", "http://example.org/ns#name", "http://e/a%20b", "http://e/1a", "http://e/-a", "http://e/.a", "http://e/a.b", "http://e/a-", "urn:x:y",
    "http://e/a:b", "http://e/\u{e9}", "http://e/\u{b7}a", "http://e/\u{10000}", "http://e/p?x=1&y='2'z", "http://www.w3.org/1999/02/22-rdf-syntax-ns#type", "http://www.w3.org/1999/02/22-rdf-syntax-ns#_1",
    "http://www.w3.org/1999/02/22-rdf-syntax-ns#value", "http://e/xmlns", "http://e/x\u{300}y\u{203f}"];
const NOSPLIT_PREDS: [&str; 7] = ["http://e/", "http://e/123", "urn:1", "http://e/ns#", "http://e/p?x=1", "http://e/p?x=1&y='2'", "http://e/-1."];
const DATATYPES: [&str; 12] = ["http://www.w3.org/2001/XMLSchema#String", "http://www.w3.org/2001/XMLSchema#STRING", "http://www.w3.org/2001/xmlschema#string", "HTTP://www.w3.org/2001/XMLSchema#string", "http://www.w3.org/2001/XMLSchema#strin", "http://www.w3.org/2001/XMLSchema#strings", "http://www.w3.org/2001/XMLSchema#integer", "http://www.w3.org/1999/02/22-rdf-syntax-ns#XMLLiteral", "http://www.w3.org/1999/02/22-rdf-syntax-ns#HTML", "http://e/dt?a&b'", "http://www.w3.org/2001/XMLSchema#token", "urn:dt"];
const LANGS: [&str; 7] = ["en", "EN-us", "fr-BE", "de-Latn-DE-1996", "x-private", "zh-Hant", "en-a-bbb"];
const BAD_LANGS: [&str; 4] = ["e", "abcdefghi", "en-a", "a1"];
const PIECES: [&str; 40] = ["<", ">", "&", "\"", "'", " ", " ", "  ", "\t", "\n", "\n", "a", "b", "Z", "0", ";", "#", "x", "]", "]]>", "&amp;", "&#32;", "&lt;", "<b>", "</b>", "<!--", "\u{e9}", "\u{1F600}", "\u{10FFFF}", "\u{FFFD}", "\u{D7FF}", "\u{E000}", "\u{85}", "\u{2028}", "\u{A0}", "=", "/", "?", "-", "."];
const ILLEGAL: [&str; 9] = ["\u{0}", "\u{1}", "\u{8}", "\u{B}", "\u{C}", "\u{E}", "\u{1F}", "\u{FFFE}", "\u{FFFF}"];
const WS: [&str; 3] = [" ", "\t", "\n"];
fn gen_text(r: &mut Rng) -> String {
    let mut s = String::new();
    if r.chance(1, 4) { for _ in 0..r.range(1, 3) { s.push_str(r.ps(&WS)); } }                    // leading whitespace / newlines
    loop { for _ in 0..r.below(8) { s.push_str(r.ps(&PIECES)); } if !s.chars().all(is_xml_ws) || s.is_empty() { break; } }
    if r.chance(1, 4) && !s.is_empty() { for _ in 0..r.range(1, 3) { s.push_str(r.ps(&WS)); } }  // trailing
    s
}
fn gen_pred(r: &mut Rng) -> String {
    if r.chance(2, 3) { return r.ps(&PREDS).to_string(); }
    // random path: the split point falls wherever the last non-NCName character is
    const PC: [&str; 34] = ["a", "b", "Z", "_", "1", "9", "-", ".", ":", "%41", "/", "#", "\u{e9}", "\u{b7}", "\u{300}", "\u{203f}", "~", "!", "$", "(", ")", "*", "+", ",", "=", "@", "&", "'", ";", "\u{10000}", "\u{b0}", "\u{d7}", "\u{f7}", "\u{2190}"];
    let mut s = String::from("http://e/"); let mut frag = false;
    for _ in 0..r.range(1, 7) { let p = r.ps(&PC); if p == "#" { if frag { continue; } frag = true; } s.push_str(p); }
    if ncname_suffix(&s).is_empty() { s.push('k'); }
    s
}
fn gen_node(r: &mut Rng) -> ST { if r.chance(2, 3) { iri(r.ps(&SUBJECTS)) } else { bnode(r.ps(&BNODES)) } }
fn gen_lit(r: &mut Rng) -> ST {
    let t = gen_text(r);
    match r.below(4) { 0 | 1 => lit_dt(&t, &format!("{XSD}string")), 2 => lit_lang(&t, r.ps(&LANGS)), _ => lit_dt(&t, r.ps(&DATATYPES)) }
}
fn gen_obj(r: &mut Rng) -> ST { if r.chance(3, 5) { gen_lit(r) } else { gen_node(r) } }

fn main() {
    let a = parse_args();
    let default_hook = std::panic::take_hook();
    std::panic::set_hook(Box::new(move |info| { if !QUIET.load(Ordering::SeqCst) { default_hook(info) } }));
    let mut sum = Summary::default();
    sum.rule = "case = (A, 5 of 6) a graph of 0..5 triples (subjects IRI/blank with repeated and interleaved subjects; predicates from a list of namespace split points plus random paths; objects IRI/blank/literal with text over markup characters, whitespace runs, leading/trailing newlines, TAB, entity look-alikes, ]]>, non-BMP and boundary code points; language tags; datatypes incl. rdf:XMLLiteral), \
of one flavour: clean, or exactly one kind of input outside a class (whitespace-only literal, blank node label starting with a digit, reserved rdf: name as predicate, predicate without NCName suffix, non-XML character, CR, non-BCP47 tag, generalised triple, quoted triple), serialised with every indentation 0..8; \
(B, 1 of 6) a raw element text and a raw attribute value (references, stray ampersands, CR/LF/TAB, non-XML characters) fed to the real parser and to the reference reader; \
non-trivial = A: at least one representable triple and (a literal with a character that needs escaping or whitespace at an end, or a predicate not ending in a plain ASCII name after '/' or '#'), B: the raw string contains '&' or whitespace; distinct = distinct inputs".into();
    // Which serializer is under test?  The proposed repair (build/proposed/C18.diff) refuses text outside XML's Char
    // production; the Coq model has both variants (guard = true / false) and the cases are checked against the one present.
    let guard = matches!(serialize(&vec![[iri("http://e/s"), iri("http://e/p"), lit_dt("\u{1}", &format!("{XSD}string"))]], 0), Ser::Err(_));
    sum.extra.push(("serializer_has_repair".into(), guard.to_string()));
    let cg = coq_bool(guard);
    let base = Rng::new(a.seed);
    let mut cases = vec![]; let mut seen = std::collections::HashSet::new();
    let range: Vec<usize> = match a.only { Some(i) => vec![i], None => (0..a.n).collect() };
    let verbose = a.only.is_some();
    for idx in range {
        let mut r = base.fork(idx as u64);
        sum.evaluations += 1;
        if r.chance(1, 6) {
            // ---------------- stream B: the readers on raw text / attribute values ----------------
            const RP: [&str; 34] = ["&", "&", ";", "#", "#x", "lt", "gt", "amp", "apos", "quot", "&lt;", "&gt;", "&amp;", "&apos;", "&quot;", "&#32;", "&#x20;", "&#10;", "&#13;", "&#9;", "&#x1F600;", "&#0;", "&#1;", "&#xD800;", "&#x110000;", "&#65534;",
                "a", "1", " ", "\n", "\r", "\t", "\u{e9}", "\u{1}"];
            const RP2: [&str; 8] = ["&#4294967296;", "&#+32;", "&#x;", "&#;", "&#xZ;", "&#00065;", "&#X41;", "&&"];
            let mut raw = String::new();
            if r.chance(1, 8) { for _ in 0..r.range(1, 4) { raw.push_str(r.ps(&[" ", "\n", "\t", "\r"])); } }     // whitespace-only
            else { for _ in 0..r.below(7) { raw.push_str(if r.chance(1, 8) { r.ps(&RP2) } else { r.ps(&RP) }); } }
            let tdoc = format!("<?xml version=\"1.0\" encoding=\"UTF-8\"?><rdf:RDF xmlns:rdf=\"{RDF}\"><rdf:Description rdf:about=\"http://e/s\"><p xmlns=\"http://e/\">{raw}</p></rdf:Description></rdf:RDF>");
            let adoc = format!("<?xml version=\"1.0\" encoding=\"UTF-8\"?><rdf:RDF xmlns:rdf=\"{RDF}\" xmlns:e=\"http://e/\"><rdf:Description rdf:about=\"http://e/s\" e:p=\"{raw}\"/></rdf:RDF>");
            let one = |r: Result<Vec<T3>, String>| -> Option<String> { r.ok().and_then(|g| if g.len() == 1 { lex_of(&g[0][2]) } else { None }) };
            let (t_rio, t_ref) = (one(rio_read(&tdoc)), one(ref_read(&tdoc)));
            let (a_rio, a_ref) = (one(rio_read(&adoc)), one(ref_read(&adoc)));
            if verbose { println!("CASE {idx} (readers): raw={raw:?}\n text: rio={t_rio:?} ref={t_ref:?}\n attr: rio={a_rio:?} ref={a_ref:?}"); }
            // oracle for the readers: where both succeed on CR-free, Char-only, non-whitespace-only input they agree
            if let (Some(x), Some(y)) = (&t_rio, &t_ref) { if x != y && !raw.contains('\r') && !raw.chars().all(is_xml_ws) { sum.oracle_failures.push((idx.to_string(), format!("RDF/XML reader disagreement: element text {raw:?} is read as {x:?} by RdfXmlParser and as {y:?} by the reference XML reader"))); } }
            if !raw.is_empty() && raw.chars().all(is_xml_ws) && t_rio.as_deref() != Some("") { sum.oracle_failures.push((idx.to_string(), format!("RDF/XML reader: whitespace-only element text {raw:?} read as {t_rio:?} (expected the known behaviour \"\")"))); }
            if seen.insert(format!("B{raw}")) && (raw.contains('&') || raw.chars().any(is_xml_ws)) { sum.distinct_nontrivial += 1; }
            sum.bump("stream:readers"); sum.bump(if t_rio.is_some() { "readers:text-accepted" } else { "readers:text-rejected" });
            if sum.samples.len() < 2 { sum.samples.push(format!("case {idx}: raw text {raw:?} => RdfXmlParser {t_rio:?}, reference reader {t_ref:?}")); }
            cases.push((idx, format!("text_ok {r} {} && xtext_ok {r} {} && attr_ok {r} {} && xattr_ok {r} {}", c_optstr(&t_rio), c_optstr(&t_ref), c_optstr(&a_rio), c_optstr(&a_ref), r = coq_str(&raw))));
            continue;
        }
        // ---------------- stream A: graphs ----------------
        let flavour = match r.below(20) { 0..=10 => Flavour::Clean, 11 => Flavour::WsOnly, 12 => Flavour::BnodeDigit, 13 => Flavour::ReservedPred, 14 => Flavour::NoSplitPred, 15 => Flavour::IllegalChar, 16 => Flavour::Cr, 17 => Flavour::BadLang, 18 => Flavour::Generalised, _ => Flavour::Quoted };
        let n = if r.chance(1, 25) { 0 } else { r.range(1, 5) };
        let mut g: Vec<T3> = vec![];
        let mut prev_s: Option<ST> = None;
        for _ in 0..n {
            let s = match &prev_s { Some(p) if r.chance(1, 2) => p.clone(), _ => gen_node(&mut r) };
            prev_s = Some(s.clone());
            g.push([s, iri(&gen_pred(&mut r)), gen_obj(&mut r)]);
        }
        if r.chance(1, 12) && !g.is_empty() { let d = g[r.below(g.len())].clone(); g.push(d); } // duplicate triple
        // inject the flavour's single out-of-class ingredient
        let k = if g.is_empty() { 0 } else { r.below(g.len()) };
        let some_s = iri("http://e/s"); let some_p = iri("http://e/p");
        if g.is_empty() && flavour != Flavour::Clean { g.push([some_s.clone(), some_p.clone(), some_s.clone()]); }
        match flavour {
            Flavour::Clean => {}
            Flavour::WsOnly => { let mut w = String::new(); for _ in 0..r.range(1, 3) { w.push_str(r.ps(&WS)); } g[k][2] = if r.chance(1, 3) { lit_lang(&w, "en") } else if r.chance(1, 2) { lit_dt(&w, r.ps(&DATATYPES)) } else { lit_dt(&w, &format!("{XSD}string")) }; }
            Flavour::BnodeDigit => { let l = r.ps(&BAD_BNODES); let b = bnode(l); if r.chance(1, 2) { g[k][0] = b } else { g[k][2] = b }
                // the label a renaming scheme would choose for it (underscore prefix) is present as well: they must stay two nodes
                if r.chance(1, 2) { let twin = bnode(&format!("_{l}")); let t: T3 = if r.chance(1, 2) { [twin, some_p.clone(), lit_dt("twin", &format!("{XSD}string"))] } else { [some_s.clone(), iri("http://e/q"), twin] }; g.push(t); } }
            Flavour::ReservedPred => { g[k][1] = iri(&format!("{RDF}{}", r.ps(&RESERVED))); }
            Flavour::NoSplitPred => { g[k][1] = iri(r.ps(&NOSPLIT_PREDS)); }
            Flavour::IllegalChar => { let t = format!("{}{}{}", gen_text(&mut r), r.ps(&ILLEGAL), gen_text(&mut r)); g[k][2] = lit_dt(&t, &format!("{XSD}string")); }
            Flavour::Cr => { let t = format!("a{}{}b", gen_text(&mut r), r.ps(&["\r", "\r\n", "\r\r", "\n\r"])); g[k][2] = if r.chance(1, 2) { lit_dt(&t, &format!("{XSD}string")) } else { lit_lang(&t, "en") }; }
            Flavour::BadLang => { g[k][2] = lit_lang("x y", r.ps(&BAD_LANGS)); }
            Flavour::Generalised => { let t: T3 = match r.below(4) { 0 => [lit_dt("1", &format!("{XSD}string")), some_p.clone(), some_s.clone()], 1 => [some_s.clone(), bnode("b"), some_s.clone()], 2 => [some_s.clone(), some_p.clone(), var("v")], _ => [var("v"), some_p.clone(), lit_lang("x", "en")] }; let at = r.below(g.len() + 1); g.insert(at, t); }
            Flavour::Quoted => { let q = triple(some_s.clone(), some_p.clone(), if r.chance(1, 4) { var("v") } else { lit_dt("x", &format!("{XSD}string")) }); let t: T3 = if r.chance(1, 2) { [q, some_p.clone(), some_s.clone()] } else { [some_s.clone(), some_p.clone(), q] }; let at = r.below(g.len() + 1); g.insert(at, t); }
        }
        let expected: Vec<T3> = g.iter().filter(|t| representable(t)).cloned().collect();
        // the class in which the property promises success without loss
        let quoted = g.iter().any(has_quoted);
        let text_legal = expected.iter().all(|t| lex_of(&t[2]).map_or(true, |l| l.chars().all(is_xml_char)));
        let preds_ok = expected.iter().all(|t| { let p = t[1].iri().unwrap(); let p = p.as_str(); !ncname_suffix(p).is_empty() && !RESERVED.iter().any(|l| p == format!("{RDF}{l}")) });
        let in_class = !quoted && text_legal && preds_ok;
        let what = format!("flavour {flavour:?}, graph {g:?}");
        let describe = |k: &str, detail: String| -> String {
            let head = match flavour {
                Flavour::WsOnly => "RDF/XML whitespace-only literal", Flavour::BnodeDigit => "RDF/XML blank node label that is not an NCName",
                Flavour::ReservedPred => "RDF/XML reserved rdf: name used as predicate", Flavour::NoSplitPred => "RDF/XML predicate without NCName local part",
                Flavour::IllegalChar => "RDF/XML character outside the XML Char production", Flavour::Cr => "RDF/XML carriage return in a literal",
                Flavour::BadLang => "RDF/XML language tag that is not well-formed BCP47", _ => "RDF/XML round trip",
            };
            format!("{head}: {k}: {detail}; {what}")
        };
        // run every indentation
        let mut fails: Vec<String> = vec![];
        let mut runs: Vec<(Ser, Option<Result<Vec<T3>, String>>, Option<Result<Vec<T3>, String>>)> = vec![];
        for ind in 0..=8usize {
            let s = serialize(&g, ind);
            let (pr, rr) = match &s { Ser::Doc(d) => (Some(rio_read(d)), Some(ref_read(d))), _ => (None, None) };
            runs.push((s, pr, rr));
        }
        for (ind, (s, pr, rr)) in runs.iter().enumerate() {
            match s {
                Ser::Panic => fails.push(describe("panic", format!("serialize_triples panicked (indentation {ind})"))),
                Ser::Err(e) => { if in_class { fails.push(describe("serialisation failed inside the guaranteed class", format!("indentation {ind}: {e}"))); } }
                Ser::Doc(d) => {
                    match rr.as_ref().unwrap() {
                        Err(e) => fails.push(describe("the document is not a well-formed namespace-conformant RDF/XML document", format!("indentation {ind}: reference reader: {e}; document {d:?}"))),
                        Ok(back) => if !iso(&expected, back) { fails.push(describe("the document does not denote the graph (reference XML reader)", format!("indentation {ind}: read {back:?}, expected {expected:?}; document {d:?}"))); }
                    }
                    match pr.as_ref().unwrap() {
                        Err(e) => fails.push(describe("RdfXmlParser rejects the serialiser's output", format!("indentation {ind}: {e}; document {d:?}"))),
                        Ok(back) => if !iso(&expected, back) { fails.push(describe("RdfXmlParser reads back a different graph", format!("indentation {ind}: read {back:?}, expected {expected:?}; document {d:?}"))); }
                    }
                    // indentation must not change the outcome
                    if let (Ser::Doc(_), Some(p0)) = (&runs[0].0, &runs[0].1) {
                        let same = match (p0, pr.as_ref().unwrap()) { (Ok(x), Ok(y)) => x.len() == y.len() && x.iter().zip(y).all(|(u, v)| (0..3).all(|i| Term::eq(&u[i], &v[i]))), (Err(_), Err(_)) => true, _ => false };
                        if !same { fails.push(format!("RDF/XML indentation changes the parsed result: indentation 0 gives {p0:?}, indentation {ind} gives {:?}; {what}", pr.as_ref().unwrap())); }
                    } else { fails.push(format!("RDF/XML indentation changes the outcome: indentation 0 failed, indentation {ind} succeeded; {what}")); }
                }
            }
            if !matches!(s, Ser::Doc(_)) && matches!(runs[0].0, Ser::Doc(_)) { fails.push(format!("RDF/XML indentation changes the outcome: indentation 0 succeeded, indentation {ind} failed; {what}")); }
        }
        if let Some(f) = fails.first() { let extra = fails.len() - 1; sum.oracle_failures.push((idx.to_string(), if extra > 0 { format!("{f} (+{extra} more findings of this case over indentations 0..8)") } else { f.clone() })); }
        // distribution
        sum.bump(&format!("flavour:{flavour:?}"));
        sum.bump(match &runs[0].0 { Ser::Doc(_) => "serialise:ok", Ser::Err(_) => "serialise:error", Ser::Panic => "serialise:panic" });
        if let Some(Ok(_)) = &runs[0].1 { sum.bump("rio-reparse:ok"); } else if let Some(Err(_)) = &runs[0].1 { sum.bump("rio-reparse:error"); }
        if !fails.is_empty() { sum.bump("oracle:failing-case"); }
        for t in &expected { match &t[2] { SimpleTerm::LiteralLanguage(..) => sum.bump("object:lang-literal"), SimpleTerm::LiteralDatatype(..) => sum.bump("object:literal"), SimpleTerm::BlankNode(_) => sum.bump("object:blank"), _ => sum.bump("object:iri") } if matches!(t[0], SimpleTerm::BlankNode(_)) { sum.bump("subject:blank"); } }
        let nontrivial = !expected.is_empty() && expected.iter().any(|t| lex_of(&t[2]).map_or(false, |l| l.contains(['<', '>', '&', '"', '\'', '\r']) || l.starts_with(is_xml_ws) || l.ends_with(is_xml_ws))
            || { let p = t[1].iri().unwrap(); let p = p.as_str().to_string(); let loc = ncname_suffix(&p); loc.is_empty() || !loc.is_ascii() || !matches!(p[..p.len() - loc.len()].chars().last(), Some('/' | '#')) });
        if seen.insert(format!("A{g:?}")) && nontrivial { sum.distinct_nontrivial += 1; }
        if sum.samples.len() < 6 && nontrivial && matches!(flavour, Flavour::Clean | Flavour::WsOnly) { if let Ser::Doc(d) = &runs[2].0 { sum.samples.push(format!("case {idx}: {what} => indentation 2: {d:?}")); } }
        if verbose { println!("CASE {idx}: {what}\n in_class={in_class} expected={expected:?}"); for (ind, (s, pr, rr)) in runs.iter().enumerate() { match s { Ser::Doc(d) => println!(" [{ind}] doc={d:?}\n      rio={pr:?}\n      ref={rr:?}"), Ser::Err(e) => println!(" [{ind}] error {e}"), Ser::Panic => println!(" [{ind}] PANIC") } } for f in &fails { println!(" ORACLE: {f}"); } }
        // Coq: the exact document for one indentation (0 on even cases, a random 1..8 on odd ones),
        // the outcome and both parses for both
        let k1 = r.range(1, 8);
        let rio_modelled = flavour != Flavour::BadLang; // oxilangtag's validation is not modelled
        let node_out = |x: &ST| -> ST { match x { SimpleTerm::BlankNode(b) if guard && b.as_str().starts_with(|c: char| c.is_ascii_digit() || c == '_') => bnode(&format!("_{}", b.as_str())), _ => x.clone() } };
        let lower_tag = |t: &T3| -> T3 { let mut t = [node_out(&t[0]), t[1].clone(), node_out(&t[2])]; if let SimpleTerm::LiteralLanguage(l, tag) = &t[2] { t[2] = lit_lang(l, &tag.as_str().to_ascii_lowercase()); } t };
        let std_parse: Vec<String> = expected.iter().map(|t| c_t3(&lower_tag(t))).collect();
        let c_obs_parse = |strict: bool, ind: usize, pr: &Result<Vec<T3>, String>| -> String {
            match pr { Ok(b) if b.iter().map(c_t3).collect::<Vec<_>>() == std_parse => format!("parse_std {cg} {} {ind} g", coq_bool(strict)), _ => format!("parse_ok {cg} {} {ind} g {}", coq_bool(strict), c_parse(pr)) }
        };
        let mut parts = vec![];
        for ind in [0usize, k1] {
            let (s, pr, rr) = &runs[ind];
            let with_doc = (ind == 0) == (idx % 2 == 0);
            let obs = match s { Ser::Doc(d) => if with_doc { format!("(ObsDoc {})", coq_str(d)) } else { "ObsSomeDoc".into() }, Ser::Err(e) if e.contains("named or blank subject") => "ObsErrSubj".into(), Ser::Err(e) if e.contains("named, blank or literal object") => "ObsErrObj".into(), Ser::Err(e) if e.contains("RDF/XML can not express") => "ObsErrInput".into(), _ => "ObsOther".into() };
            parts.push(format!("ser_ok {cg} {ind} g {obs}"));
            if let (Some(pr), Some(rr)) = (pr, rr) {
                if rio_modelled { parts.push(c_obs_parse(false, ind, pr)); }
                parts.push(c_obs_parse(true, ind, rr));
            }
        }
        cases.push((idx, format!("let g := {} in {}", c_graph(&g), parts.join(" && "))));
    }
    if a.only.is_none() {
        let header = "From Sophia.C18 Require Import Model.\n";
        sum.shards = write_shards(&a.out, header, &cases, a.shards);
        sum.extra.push(("coq_cases".into(), cases.len().to_string()));
        std::fs::write(format!("{}/summary.json", a.out), sum.to_json()).unwrap();
    }
    println!("c18: {} cases, {} distinct non-trivial, {} oracle failures", sum.evaluations, sum.distinct_nontrivial, sum.oracle_failures.len());
}
