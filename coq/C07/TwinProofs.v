(* C07/TwinProofs.v -- the blank-blind order separates exactly what the blank-blind equality separates,
   at every ground atom of a statement; consequences for twins (statements differing in one ground atom),
   for coarser orders / equalities (refuted), and for copies whose language tags are in another case mix. *)
From Sophia.C02 Require Import Model Proofs.
From Sophia.C07 Require Import Model Keys Isort Proofs TwinModel.
From Coq Require Import Permutation.

(* ================= order and equality agree ================= *)
Lemma iso_cmp_refl t : iso_cmp t t = Eq.
Proof.
  induction t as [s|s|l d|l t|s IHs p IHp o IHo|s]; cbn [iso_cmp]; auto;
    try (cbn [term_cmp kind_of kind_rank datatype lexical]; rewrite ?N.compare_refl, ?str_cmp_refl; reflexivity).
  rewrite IHs, IHp, IHo. reflexivity.
Qed.

Theorem iso_order_as_fine_as_equality a b : wf a -> wf b -> (iso_cmp a b = Eq <-> iso_eqb a b = true).
Proof. intros Wa Wb. symmetry. apply iso_eqb_cmp; assumption. Qed.

Lemma gn_eqb_cmp a b :
  match a with Some g => wf g | None => True end -> match b with Some g => wf g | None => True end ->
  (gn_cmp iso_cmp a b = Eq <-> gn_eqb iso_eqb a b = true).
Proof.
  destruct a, b; simpl; intros Wa Wb; try (split; congruence).
  apply iso_order_as_fine_as_equality; assumption.
Qed.

Theorem quad_order_as_fine_as_equality a b : wfq a -> wfq b ->
  (quad_cmp iso_cmp a b = Eq <-> quad_eqb iso_eqb a b = true).
Proof.
  intros Wa Wb. rewrite quad_cmp_key, quad_eqb_key by assumption. apply str_cmp_eq.
Qed.

(* on terms without blank nodes the blank-blind relations are Term::cmp / Term::eq themselves: no ground
   atom is ignored *)
Lemma iso_cmp_ground a : forall b, bnodes_t a = [] -> bnodes_t b = [] -> iso_cmp a b = term_cmp a b.
Proof.
  induction a as [s|s|l d|l t|s IHs p IHp o IHo|s]; intros [s'|s'|l' d'|l' t'|s' p' o'|s'] Ha Hb;
    try reflexivity; try discriminate.
  simpl in Ha, Hb. apply app_eq_nil in Ha as [Ha1 Ha2]. apply app_eq_nil in Ha2 as [Ha2 Ha3].
  apply app_eq_nil in Hb as [Hb1 Hb2]. apply app_eq_nil in Hb2 as [Hb2 Hb3].
  cbn [iso_cmp]. rewrite IHs, IHp, IHo by assumption.
  cbn [term_cmp kind_of kind_rank]. rewrite N.compare_refl. reflexivity.
Qed.
Lemma iso_eqb_ground a : forall b, bnodes_t a = [] -> bnodes_t b = [] -> iso_eqb a b = term_eqb a b.
Proof.
  induction a as [s|s|l d|l t|s IHs p IHp o IHo|s]; intros [s'|s'|l' d'|l' t'|s' p' o'|s'] Ha Hb;
    try reflexivity; try discriminate.
  simpl in Ha, Hb. apply app_eq_nil in Ha as [Ha1 Ha2]. apply app_eq_nil in Ha2 as [Ha2 Ha3].
  apply app_eq_nil in Hb as [Hb1 Hb2]. apply app_eq_nil in Hb2 as [Hb2 Hb3].
  cbn [iso_eqb term_eqb]. rewrite IHs, IHp, IHo by assumption. reflexivity.
Qed.
Theorem ground_terms_distinguished a b : wf a -> wf b -> bnodes_t a = [] -> bnodes_t b = [] ->
  term_eqb a b = false -> iso_cmp a b <> Eq /\ iso_eqb a b = false.
Proof.
  intros Wa Wb Ha Hb He. rewrite iso_eqb_ground by assumption. split; auto.
  intros Hc. apply iso_order_as_fine_as_equality in Hc; auto. rewrite iso_eqb_ground in Hc by assumption. congruence.
Qed.

(* every kind of ground atom, spelled out: what decides the order of two atoms differing in one feature *)
Theorem iso_cmp_language_tag l t1 t2 : iso_cmp (LitLang l t1) (LitLang l t2) = str_cmp (lower t1) (lower t2).
Proof.
  cbn [iso_cmp term_cmp kind_of kind_rank]. rewrite N.compare_refl, str_cmp_refl.
  apply then_cmp_eq_r.
Qed.
Theorem iso_cmp_lexical_tagged l1 l2 t : iso_cmp (LitLang l1 t) (LitLang l2 t) = str_cmp l1 l2.
Proof. cbn [iso_cmp term_cmp kind_of kind_rank]. rewrite N.compare_refl, str_cmp_refl. reflexivity. Qed.
Theorem iso_cmp_datatype l d1 d2 : iso_cmp (LitDt l d1) (LitDt l d2) = str_cmp d1 d2.
Proof.
  cbn [iso_cmp term_cmp kind_of kind_rank datatype lexical]. rewrite N.compare_refl, str_cmp_refl.
  apply then_cmp_eq_r.
Qed.
Theorem iso_cmp_lexical l1 l2 d : iso_cmp (LitDt l1 d) (LitDt l2 d) = str_cmp l1 l2.
Proof. cbn [iso_cmp term_cmp kind_of kind_rank datatype lexical]. rewrite N.compare_refl, str_cmp_refl. reflexivity. Qed.
Theorem iso_cmp_tagged_vs_typed l t d : d <> rdf_langString ->
  iso_cmp (LitLang l t) (LitDt l d) = str_cmp rdf_langString d /\ iso_cmp (LitLang l t) (LitDt l d) <> Eq.
Proof.
  intros Hd. cbn [iso_cmp term_cmp kind_of kind_rank datatype lexical]. rewrite N.compare_refl, str_cmp_refl.
  rewrite then_cmp_eq_r. split; auto. rewrite str_cmp_eq. congruence.
Qed.
Theorem iso_cmp_iri a b : iso_cmp (Iri a) (Iri b) = str_cmp a b.
Proof. reflexivity. Qed.
Theorem iso_cmp_variable a b : iso_cmp (Var a) (Var b) = str_cmp a b.
Proof. reflexivity. Qed.
Theorem iso_cmp_bnode a b : iso_cmp (Bnode a) (Bnode b) = Eq.
Proof. reflexivity. Qed.
Theorem language_tags_distinguished l t1 t2 :
  iso_cmp (LitLang l t1) (LitLang l t2) = Eq <-> lower t1 = lower t2.
Proof. rewrite iso_cmp_language_tag. apply str_cmp_eq. Qed.

(* ================= one position of a statement ================= *)
Lemma iso_eqb_triple_l s p o b : iso_eqb (Triple s p o) b = true ->
  exists s' p' o', b = Triple s' p' o' /\ iso_eqb s s' = true /\ iso_eqb p p' = true /\ iso_eqb o o' = true.
Proof.
  destruct b as [x|x|l d|l t|s' p' o'|x]; simpl; try discriminate.
  rewrite !andb_true_iff. intros [[H1 H2] H3]. eauto 8.
Qed.

(* templates equal up to blank node labels: what is put at a position decides the order *)
Lemma put_t_cmp path : forall t1 t2 x y, wf t1 -> wf t2 -> iso_eqb t1 t2 = true -> valid_t path t1 = true ->
  iso_cmp (put_t path x t1) (put_t path y t2) = iso_cmp x y.
Proof.
  induction path as [|d path IH]; intros t1 t2 x y W1 W2 He Hv; [reflexivity|].
  destruct t1 as [a|a|l dt|l tg|s p o|a]; simpl in Hv; try discriminate.
  apply iso_eqb_triple_l in He as (s' & p' & o' & -> & Hs & Hp & Ho).
  destruct W1 as (Ws & Wp & Wo), W2 as (Ws' & Wp' & Wo').
  assert (Cs := proj1 (iso_eqb_cmp s s' Ws Ws') Hs). assert (Cp := proj1 (iso_eqb_cmp p p' Wp Wp') Hp).
  assert (Co := proj1 (iso_eqb_cmp o o' Wo Wo') Ho).
  cbn [put_t]. destruct (d =? 0); [|destruct (d =? 1)]; cbn [iso_cmp].
  - rewrite IH, Cp, Co by assumption. apply then_cmp_eq_r.
  - rewrite IH, Cs, Co by assumption. cbn [then_cmp]. apply then_cmp_eq_r.
  - rewrite IH, Cs, Cp by assumption. reflexivity.
Qed.
Lemma put_t_valid path : forall t x, valid_t path t = true -> valid_t path (put_t path x t) = true.
Proof.
  induction path as [|d path IH]; intros t x Hv; [reflexivity|].
  destruct t as [a|a|l dt|l tg|s p o|a]; simpl in Hv; try discriminate.
  cbn [put_t]. destruct (d =? 0) eqn:E0; [|destruct (d =? 1) eqn:E1]; cbn [valid_t]; rewrite ?E0, ?E1; apply IH; exact Hv.
Qed.
Lemma put_t_wf path : forall t x, wf t -> wf x -> wf (put_t path x t).
Proof.
  induction path as [|d path IH]; intros t x Wt Wx; [exact Wx|].
  destruct t as [a|a|l dt|l tg|s p o|a]; cbn [put_t]; auto.
  destruct Wt as (Ws & Wp & Wo). destruct (d =? 0); [|destruct (d =? 1)]; simpl; auto.
Qed.

Definition wf_opt (x : option term) : Prop := match x with Some t => wf t | None => True end.

Theorem put_q_cmp pos path q1 q2 x y : wfq q1 -> wfq q2 ->
  quad_eqb iso_eqb q1 q2 = true -> valid_q pos path x q1 = true -> valid_q pos path y q2 = true ->
  quad_cmp iso_cmp (put_q pos path x q1) (put_q pos path y q2) = atom_cmp x y.
Proof.
  intros (A1 & A2 & A3 & A4) (B1 & B2 & B3 & B4) He Hx Hy.
  unfold quad_eqb in He. rewrite !andb_true_iff in He. destruct He as [[[Es Ep] Eo] Eg].
  assert (Cs := proj1 (iso_eqb_cmp _ _ A1 B1) Es). assert (Cp := proj1 (iso_eqb_cmp _ _ A2 B2) Ep).
  assert (Co := proj1 (iso_eqb_cmp _ _ A3 B3) Eo).
  assert (Cg : gn_cmp iso_cmp (qg q1) (qg q2) = Eq) by (apply gn_eqb_cmp; assumption).
  unfold put_q, valid_q, atom_cmp in *.
  destruct (pos =? 0); [|destruct (pos =? 1); [|destruct (pos =? 2)]].
  - destruct x as [x|], y as [y|]; try discriminate. simpl in Hx. unfold quad_cmp. cbn [qs qp qo qg gn_cmp].
    rewrite put_t_cmp, Cp, Co, Cg by assumption. apply then_cmp_eq_r.
  - destruct x as [x|], y as [y|]; try discriminate. simpl in Hx. unfold quad_cmp. cbn [qs qp qo qg gn_cmp].
    rewrite put_t_cmp, Cs, Co, Cg by assumption. cbn [then_cmp]. apply then_cmp_eq_r.
  - destruct x as [x|], y as [y|]; try discriminate. simpl in Hx. unfold quad_cmp. cbn [qs qp qo qg gn_cmp].
    rewrite put_t_cmp, Cs, Cp, Cg by assumption. cbn [then_cmp]. apply then_cmp_eq_r.
  - destruct path as [|d path].
    + unfold quad_cmp. cbn [qs qp qo qg]. rewrite Cs, Cp, Co. reflexivity.
    + destruct x as [x|], y as [y|]; try discriminate.
      destruct (qg q1) as [g1|] eqn:G1; try discriminate. destruct (qg q2) as [g2|] eqn:G2; try discriminate.
      unfold quad_cmp. cbn [qs qp qo qg gn_cmp]. rewrite Cs, Cp, Co. cbn [then_cmp].
      simpl in Eg. apply put_t_cmp; assumption.
Qed.

(* ... hence two twins compare Eq exactly when the things put at the position are blank-blind equal, and the
   pairwise comparison of the sorted statements says the same *)
Theorem put_q_eqb pos path q1 q2 x y : wfq q1 -> wfq q2 -> wf_opt x -> wf_opt y ->
  quad_eqb iso_eqb q1 q2 = true -> valid_q pos path x q1 = true -> valid_q pos path y q2 = true ->
  (quad_cmp iso_cmp (put_q pos path x q1) (put_q pos path y q2) = Eq <-> atom_eqb x y = true).
Proof.
  intros W1 W2 Wx Wy He Hx Hy. rewrite put_q_cmp by assumption. apply gn_eqb_cmp; assumption.
Qed.

Lemma put_q_wfq pos path q x : wfq q -> wf_opt x -> wfq (put_q pos path x q).
Proof.
  intros (A1 & A2 & A3 & A4) Wx. unfold put_q.
  destruct (pos =? 0); [|destruct (pos =? 1); [|destruct (pos =? 2)]].
  - destruct x as [x|]; [|repeat split; assumption]. repeat split; simpl; auto. apply put_t_wf; assumption.
  - destruct x as [x|]; [|repeat split; assumption]. repeat split; simpl; auto. apply put_t_wf; assumption.
  - destruct x as [x|]; [|repeat split; assumption]. repeat split; simpl; auto. apply put_t_wf; assumption.
  - destruct path as [|d path]; [repeat split; assumption|].
    destruct x as [x|]; [|repeat split; assumption]. unfold wfq. cbn [qs qp qo qg]. repeat split; auto.
    destruct (qg q); auto. apply (put_t_wf (d :: path)); assumption.
Qed.

Theorem twins_order_iff_equality pos path q1 q2 x y : wfq q1 -> wfq q2 -> wf_opt x -> wf_opt y ->
  quad_eqb iso_eqb q1 q2 = true -> valid_q pos path x q1 = true -> valid_q pos path y q2 = true ->
  (quad_eqb iso_eqb (put_q pos path x q1) (put_q pos path y q2) = true <-> atom_eqb x y = true).
Proof.
  intros W1 W2 Wx Wy He Hx Hy.
  rewrite <- quad_order_as_fine_as_equality by (apply put_q_wfq; assumption).
  apply put_q_eqb; assumption.
Qed.

(* ================= sorting does not depend on the enumeration order ================= *)
Lemma wfq_copy pi d1 d2 : Forall wfq d1 -> Permutation d2 (map (rename_q pi) d1) -> Forall wfq d2.
Proof.
  intros W1 Hp. eapply Forall_perm; [apply Permutation_sym; exact Hp|]. apply Forall_forall. intros x Hx.
  apply in_map_iff in Hx as [y [<- Hy]]. apply rename_wfq. eapply Forall_forall in W1; eauto.
Qed.
(* the sequences of blanked statements after sorting are EQUAL, whatever the relative order of the
   statements (twins included) in the two arguments and whatever the labels *)
Theorem sorted_keys_order_independent pi d1 d2 :
  Forall wfq d1 -> Permutation d2 (map (rename_q pi) d1) ->
  map key (sort_q iso_cmp d1) = map key (sort_q iso_cmp d2).
Proof.
  intros W1 Hp. assert (W2 := wfq_copy pi d1 d2 W1 Hp).
  destruct (sort_q_key d1 W1) as [K1 _], (sort_q_key d2 W2) as [K2 _]. rewrite K1, K2.
  apply ssort_perm_eq. apply Permutation_sym.
  eapply perm_trans; [apply Permutation_map; exact Hp|]. rewrite map_map.
  rewrite (map_ext _ key) by (intros; apply key_rename). apply Permutation_refl.
Qed.
(* so the pairwise blank-blind comparison of the sorted statements succeeds on every copy *)
Theorem precheck_passes_on_copies pi d1 d2 :
  Forall wfq d1 -> Permutation d2 (map (rename_q pi) d1) ->
  all2 (quad_eqb iso_eqb) (sort_q iso_cmp d1) (sort_q iso_cmp d2) = true.
Proof.
  intros W1 Hp. assert (W2 := wfq_copy pi d1 d2 W1 Hp).
  destruct (sort_q_key d1 W1) as [_ S1], (sort_q_key d2 W2) as [_ S2].
  apply all2_keys; auto.
  - rewrite <- (Permutation_length (sort_q_perm iso_cmp d1)), <- (Permutation_length (sort_q_perm iso_cmp d2)).
    rewrite (Permutation_length Hp). symmetry. apply map_length.
  - apply (sorted_keys_order_independent pi); assumption.
Qed.

(* ================= a coarser order, or a coarser equality, is a defect ================= *)
Section Coarse.
Variable Hv : vquad -> N.
Definition stmt (s p x : term) : quad := mkQ s p x None.

(* ANY order that calls Eq two objects the equality tells apart gives a false negative that depends on the
   enumeration order: {x, y} against {y, x} *)
Theorem coarser_order_false_negative (tcmp : term -> term -> comparison) s p x y fuel :
  tcmp s s = Eq -> tcmp p p = Eq -> tcmp x y = Eq -> tcmp y x = Eq -> iso_eqb x y = false ->
  isomorphic Hv iso_eqb tcmp fuel [stmt s p x; stmt s p y] [stmt s p y; stmt s p x] = Some false
  /\ Permutation [stmt s p y; stmt s p x] [stmt s p x; stmt s p y].
Proof.
  intros Hs Hp Hxy Hyx He. split; [|apply perm_swap].
  unfold isomorphic. cbn [length Nat.eqb negb sort_q fold_right insert_q].
  unfold quad_cmp at 1 2. cbn [stmt qs qp qo qg gn_cmp]. rewrite Hs, Hp, Hxy, Hyx. cbn [then_cmp].
  cbn [all2]. unfold quad_eqb at 1. cbn [stmt qs qp qo qg]. rewrite He, !andb_false_r. reflexivity.
Qed.
(* the same with the twins anywhere inside the statements: an order that is Eq on two statements the
   equality tells apart *)
Theorem coarser_order_false_negative_q (tcmp : term -> term -> comparison) a b fuel :
  quad_cmp tcmp a b = Eq -> quad_cmp tcmp b a = Eq -> quad_eqb iso_eqb a b = false ->
  isomorphic Hv iso_eqb tcmp fuel [a; b] [b; a] = Some false.
Proof.
  intros Hab Hba He. unfold isomorphic. cbn [length Nat.eqb negb sort_q fold_right insert_q].
  rewrite Hab, Hba. cbn [all2]. rewrite He. reflexivity.
Qed.
(* ANY equality that accepts two objects the order separates gives a false positive *)
Theorem coarser_equality_false_positive (teq : term -> term -> bool) s p x y fuel :
  teq s s = true -> teq p p = true -> teq x y = true ->
  bnodes_t s = [] -> bnodes_t p = [] -> bnodes_t x = [] -> bnodes_t y = [] ->
  isomorphic Hv teq iso_cmp (S fuel) [stmt s p x] [stmt s p y] = Some true.
Proof.
  intros Hs Hp Hxy Bs Bp Bx By. unfold isomorphic. cbn [length Nat.eqb negb sort_q fold_right insert_q all2].
  unfold quad_eqb. cbn [stmt qs qp qo qg gn_eqb opt_eqb]. rewrite Hs, Hp, Hxy. cbn [andb negb].
  unfold bn_of, bnodes_q. cbn [flat_map stmt qs qp qo qg]. rewrite Bs, Bp, Bx, By. reflexivity.
Qed.
End Coarse.

(* instances: the order / the equality that forget the language tag *)
Definition chat (tag : str) : term := LitLang [99;104;97;116] tag.
Example notag_order_false_negative : forall Hv fuel,
  isomorphic Hv iso_eqb iso_cmp_notag fuel
    [stmt (Bnode [120]) (Iri [112]) (chat [102;114]); stmt (Bnode [120]) (Iri [112]) (chat [101;110])]
    [stmt (Bnode [121]) (Iri [112]) (chat [101;110]); stmt (Bnode [121]) (Iri [112]) (chat [102;114])] = Some false.
Proof. intros. reflexivity. Qed.
Example real_order_accepts :
  iso_run
    [stmt (Bnode [120]) (Iri [112]) (chat [102;114]); stmt (Bnode [120]) (Iri [112]) (chat [101;110])]
    [stmt (Bnode [121]) (Iri [112]) (chat [101;110]); stmt (Bnode [121]) (Iri [112]) (chat [102;114])] = Some true.
Proof. vm_compute. reflexivity. Qed.
Example notag_equality_false_positive : forall Hv fuel,
  isomorphic Hv iso_eqb_notag iso_cmp (S fuel)
    [stmt (Iri [115]) (Iri [112]) (chat [102;114])] [stmt (Iri [115]) (Iri [112]) (chat [101;110])] = Some true.
Proof. intros. reflexivity. Qed.
Example real_equality_rejects : forall Hv fuel,
  isomorphic Hv iso_eqb iso_cmp fuel
    [stmt (Iri [115]) (Iri [112]) (chat [102;114])] [stmt (Iri [115]) (Iri [112]) (chat [101;110])] = Some false.
Proof. intros. reflexivity. Qed.

(* ================= perms enumerates every relative order ================= *)
Lemma insert_everywhere_perm {A} (x : A) l l' : In l' (insert_everywhere x l) -> Permutation (x :: l) l'.
Proof.
  revert l'. induction l as [|y r IH]; simpl; intros l' H.
  - destruct H as [<-|[]]. apply Permutation_refl.
  - destruct H as [<-|H]; [apply Permutation_refl|].
    apply in_map_iff in H as [m [<- Hm]]. eapply perm_trans; [apply perm_swap|]. apply perm_skip. apply IH. exact Hm.
Qed.
Lemma insert_everywhere_in {A} (x : A) a b : In (a ++ x :: b) (insert_everywhere x (a ++ b)).
Proof.
  induction a as [|y a IH]; simpl.
  - destruct b; simpl; auto.
  - right. apply in_map. exact IH.
Qed.
Theorem perms_sound {A} (l l' : list A) : In l' (perms l) -> Permutation l l'.
Proof.
  revert l'. induction l as [|x r IH]; simpl; intros l' H.
  - destruct H as [<-|[]]. apply perm_nil.
  - apply in_flat_map in H as [m [Hm Hi]]. eapply perm_trans; [apply perm_skip; apply IH; exact Hm|].
    apply insert_everywhere_perm. exact Hi.
Qed.
Theorem perms_complete {A} (l : list A) : forall l', Permutation l l' -> In l' (perms l).
Proof.
  induction l as [|x r IH]; intros l' Hp.
  - apply Permutation_nil in Hp. subst. simpl. auto.
  - assert (Hin : In x l') by (eapply Permutation_in; [exact Hp|left; reflexivity]).
    apply in_split in Hin as (a & b & ->). apply Permutation_cons_app_inv in Hp.
    simpl. apply in_flat_map. exists (a ++ b). split; [apply IH; exact Hp|apply insert_everywhere_in].
Qed.
(* what all_orders_ok evaluates is what the theorems promise: on a copy, every relative order of the group is
   answered like the first one (never Some false) *)
Theorem all_orders_never_false Hv pi d1 front group back g fuel :
  Forall wfq d1 -> Permutation (front ++ group ++ back) (map (rename_q pi) d1) ->
  inj_on pi (flat_map bnodes_q d1) -> In g (perms group) ->
  isomorphic Hv iso_eqb iso_cmp fuel d1 (front ++ g ++ back) <> Some false.
Proof.
  intros W Hp Hi Hg. apply (iso_no_false_negative Hv pi); auto.
  eapply perm_trans; [|exact Hp]. apply Permutation_app_head. apply Permutation_app_tail.
  apply Permutation_sym. apply perms_sound. exact Hg.
Qed.

(* ================= language tags in another case mix ================= *)
Lemma canon_idem t : canon (canon t) = canon t.
Proof. induction t; simpl; auto; try (rewrite lower_idem; reflexivity). congruence. Qed.
Lemma canon_wf t : wf t -> wf (canon t).
Proof. induction t; simpl; auto. intros (H1 & H2 & H3). auto. Qed.
Lemma iso_cmp_canon_r a : forall b, iso_cmp a (canon b) = iso_cmp a b.
Proof.
  induction a as [s|s|l d|l t|s IHs p IHp o IHo|s]; intros [s'|s'|l' d'|l' t'|s' p' o'|s']; try reflexivity.
  - cbn [canon iso_cmp term_cmp kind_of kind_rank]. rewrite lower_idem. reflexivity.
  - cbn [canon iso_cmp]. rewrite IHs, IHp, IHo. reflexivity.
Qed.
Lemma iso_cmp_canon_l a : forall b, iso_cmp (canon a) b = iso_cmp a b.
Proof.
  induction a as [s|s|l d|l t|s IHs p IHp o IHo|s]; intros [s'|s'|l' d'|l' t'|s' p' o'|s']; try reflexivity.
  - cbn [canon iso_cmp term_cmp kind_of kind_rank]. rewrite lower_idem. reflexivity.
  - cbn [canon iso_cmp]. rewrite IHs, IHp, IHo. reflexivity.
Qed.
Lemma iso_eqb_canon_r a : forall b, iso_eqb a (canon b) = iso_eqb a b.
Proof.
  induction a as [s|s|l d|l t|s IHs p IHp o IHo|s]; intros [s'|s'|l' d'|l' t'|s' p' o'|s']; try reflexivity.
  - cbn [canon iso_eqb term_eqb]. unfold str_eqb_ci. rewrite lower_idem. reflexivity.
  - cbn [canon iso_eqb]. rewrite IHs, IHp, IHo. reflexivity.
Qed.
Lemma bnodes_canon t : bnodes_t (canon t) = bnodes_t t.
Proof. induction t; simpl; auto. congruence. Qed.
Lemma bnodes_canon_q q : bnodes_q (canon_q q) = bnodes_q q.
Proof. unfold bnodes_q, canon_q. simpl. rewrite !bnodes_canon. destruct (qg q); simpl; rewrite ?bnodes_canon; reflexivity. Qed.
Lemma view_t_canon c ctx t : view_t c ctx (canon t) = view_t c ctx t.
Proof. induction t; simpl; auto; try (rewrite lower_idem; reflexivity). congruence. Qed.
Lemma view_q_canon c ctx q : view_q c ctx (canon_q q) = view_q c ctx q.
Proof. unfold view_q, canon_q. simpl. rewrite !view_t_canon. destruct (qg q); simpl; rewrite ?view_t_canon; reflexivity. Qed.
Lemma has_bnode_canon b q : has_bnode b (canon_q q) = has_bnode b q.
Proof. unfold has_bnode. rewrite bnodes_canon_q. reflexivity. Qed.
Lemma quad_cmp_canon_r a b : quad_cmp iso_cmp a (canon_q b) = quad_cmp iso_cmp a b.
Proof.
  unfold quad_cmp, canon_q. simpl. rewrite !iso_cmp_canon_r.
  destruct (qg a), (qg b); simpl; rewrite ?iso_cmp_canon_r; reflexivity.
Qed.
Lemma quad_cmp_canon_l a b : quad_cmp iso_cmp (canon_q a) b = quad_cmp iso_cmp a b.
Proof.
  unfold quad_cmp, canon_q. simpl. rewrite !iso_cmp_canon_l.
  destruct (qg a), (qg b); simpl; rewrite ?iso_cmp_canon_l; reflexivity.
Qed.
Lemma quad_eqb_canon_r a b : quad_eqb iso_eqb a (canon_q b) = quad_eqb iso_eqb a b.
Proof.
  unfold quad_eqb, canon_q. simpl. rewrite !iso_eqb_canon_r.
  destruct (qg a), (qg b); simpl; rewrite ?iso_eqb_canon_r; reflexivity.
Qed.
Lemma insert_q_canon x l : insert_q iso_cmp (canon_q x) (map canon_q l) = map canon_q (insert_q iso_cmp x l).
Proof.
  induction l as [|y l IH]; simpl; auto.
  rewrite quad_cmp_canon_l, quad_cmp_canon_r. destruct (quad_cmp iso_cmp x y); simpl; auto. rewrite IH. reflexivity.
Qed.
Lemma sort_q_canon d : sort_q iso_cmp (map canon_q d) = map canon_q (sort_q iso_cmp d).
Proof.
  induction d as [|x d IH]; simpl; auto. unfold sort_q in *. simpl. rewrite IH. apply insert_q_canon.
Qed.
Lemma all2_canon_r a : forall b, all2 (quad_eqb iso_eqb) a (map canon_q b) = all2 (quad_eqb iso_eqb) a b.
Proof. induction a as [|x a IH]; intros [|y b]; simpl; auto. rewrite quad_eqb_canon_r, IH. reflexivity. Qed.
Lemma flat_map_bnodes_canon d : flat_map bnodes_q (map canon_q d) = flat_map bnodes_q d.
Proof. induction d as [|x d IH]; simpl; auto. rewrite bnodes_canon_q, IH. reflexivity. Qed.
Lemma bn_of_canon d : bn_of (map canon_q d) = bn_of d.
Proof. unfold bn_of. rewrite flat_map_bnodes_canon. reflexivity. Qed.
Lemma filter_has_canon b d : filter (has_bnode b) (map canon_q d) = map canon_q (filter (has_bnode b) d).
Proof.
  induction d as [|x d IH]; simpl; auto. rewrite has_bnode_canon. destruct (has_bnode b x); simpl; rewrite IH; reflexivity.
Qed.
Lemma new_colour_canon Hv d c b : new_colour Hv (map canon_q d) c b = new_colour Hv d c b.
Proof.
  unfold new_colour. rewrite filter_has_canon, map_map. f_equal. apply map_ext. intros q. rewrite view_q_canon. reflexivity.
Qed.
Lemma round_canon Hv d bn c : round Hv (map canon_q d) bn c = round Hv d bn c.
Proof. unfold round. apply map_ext. intros b. rewrite new_colour_canon. reflexivity. Qed.
Lemma init_canon d bn : init_colouring (map canon_q d) bn = init_colouring d bn.
Proof. unfold init_colouring. apply map_ext. intros b. rewrite filter_has_canon, map_length. reflexivity. Qed.
Lemma refine_canon_r Hv fuel : forall d1 d2 bn1 bn2 c1 c2 o1 o2,
  refine Hv fuel d1 (map canon_q d2) bn1 bn2 c1 c2 o1 o2 = refine Hv fuel d1 d2 bn1 bn2 c1 c2 o1 o2.
Proof.
  induction fuel as [|f IH]; intros; simpl; auto. rewrite !round_canon, IH. reflexivity.
Qed.

(* the answer does not depend on the case of the language tags of either argument *)
Theorem iso_canon_r Hv fuel d1 d2 :
  isomorphic Hv iso_eqb iso_cmp fuel d1 (map canon_q d2) = isomorphic Hv iso_eqb iso_cmp fuel d1 d2.
Proof.
  unfold isomorphic. rewrite map_length, sort_q_canon, all2_canon_r, bn_of_canon, init_canon, refine_canon_r.
  reflexivity.
Qed.
Theorem iso_canon_l Hv fuel d1 d2 :
  isomorphic Hv iso_eqb iso_cmp fuel (map canon_q d1) d2 = isomorphic Hv iso_eqb iso_cmp fuel d1 d2.
Proof. rewrite iso_symmetric, iso_canon_r. apply iso_symmetric. Qed.

Lemma canon_rename pi t : canon (rename_t pi t) = rename_t pi (canon t).
Proof. induction t; simpl; auto. congruence. Qed.
Lemma canon_rename_q pi q : canon_q (rename_q pi q) = rename_q pi (canon_q q).
Proof.
  unfold canon_q, rename_q. simpl. rewrite !canon_rename. destruct (qg q); simpl; rewrite ?canon_rename; reflexivity.
Qed.
Lemma canon_wfq q : wfq q -> wfq (canon_q q).
Proof.
  intros (A1 & A2 & A3 & A4). unfold wfq, canon_q. simpl. repeat split; try apply canon_wf; auto.
  destruct (qg q); auto. apply canon_wf; auto.
Qed.

(* no false negative on a copy whose blank nodes are renamed, whose statements are reordered AND whose
   language tags are spelled in any other case mix ([d2] agrees with a renamed permutation of [d1] once all
   tags are lower-cased) *)
Theorem iso_no_false_negative_recased (Hv : vquad -> N) (pi : str -> str) (d1 d2 : list quad) fuel :
  Forall wfq d1 ->
  Permutation (map canon_q d2) (map canon_q (map (rename_q pi) d1)) ->
  inj_on pi (flat_map bnodes_q d1) ->
  isomorphic Hv iso_eqb iso_cmp fuel d1 d2 <> Some false.
Proof.
  intros W Hp Hi. rewrite <- iso_canon_r, <- iso_canon_l.
  apply (iso_no_false_negative Hv pi).
  - apply Forall_forall. intros x Hx. apply in_map_iff in Hx as [y [<- Hy]]. apply canon_wfq.
    eapply Forall_forall in W; eauto.
  - rewrite map_map in Hp. rewrite map_map. rewrite (map_ext _ _ (canon_rename_q pi)) in Hp. exact Hp.
  - rewrite flat_map_bnodes_canon. exact Hi.
Qed.
Example recased_copy :
  let d1 := [stmt (Bnode [120]) (Iri [112]) (chat [102;114]); stmt (Bnode [120]) (Iri [112]) (chat [101;110])] in
  let d2 := [stmt (Bnode [121]) (Iri [112]) (chat [69;78]); stmt (Bnode [121]) (Iri [112]) (chat [70;114])] in
  Permutation (map canon_q d2) (map canon_q (map (rename_q (fun _ => [121])) d1))
  /\ iso_run d1 d2 = Some true.
Proof. split; [apply perm_swap|vm_compute; reflexivity]. Qed.

(* ================= the per-case twin check is what the theorems predict ================= *)
Lemma cmp_eqb_refl c : cmp_eqb c c = true.
Proof. destruct c; reflexivity. Qed.
Lemma cmp_eqb_eq a b : cmp_eqb a b = true <-> a = b.
Proof. destruct a, b; simpl; split; congruence. Qed.
Lemma iso_cmp_antisym a b : wf a -> wf b -> iso_cmp b a = CompOpp (iso_cmp a b).
Proof. intros Wa Wb. rewrite !iso_cmp_blank. apply term_cmp_antisym; apply blank_wf; assumption. Qed.
Lemma atom_cmp_antisym x y : wf_opt x -> wf_opt y -> atom_cmp y x = CompOpp (atom_cmp x y).
Proof. destruct x, y; simpl; intros Wx Wy; auto. apply iso_cmp_antisym; assumption. Qed.

(* for well-formed templates that are equal up to blank node labels and two things the equality tells apart,
   every conjunct of twin_pair_ok holds: a failing twin_ok in a generated case can only mean that the
   generated statements were not twins *)
Theorem twin_pair_ok_holds pos path t1 t2 x1 x2 : wfq t1 -> wfq t2 -> wf_opt x1 -> wf_opt x2 ->
  quad_eqb iso_eqb t1 t2 = true -> valid_q pos path x1 t1 = true -> valid_q pos path x2 t2 = true ->
  atom_eqb x1 x2 = false ->
  twin_pair_ok pos path (t1, x1) (t2, x2) = true.
Proof.
  intros W1 W2 Wx1 Wx2 He V1 V2 Hne. unfold twin_pair_ok.
  assert (He' : quad_eqb iso_eqb t2 t1 = true) by (rewrite quad_eqb_sym; exact He).
  rewrite He, Hne. rewrite (proj2 (quad_order_as_fine_as_equality t1 t2 W1 W2) He).
  rewrite (put_q_cmp pos path t1 t2 x1 x2) by assumption.
  rewrite (put_q_cmp pos path t2 t1 x2 x1) by assumption.
  rewrite (atom_cmp_antisym x1 x2) by assumption. rewrite !cmp_eqb_refl. cbn [andb negb].
  assert (Hc : cmp_eqb (atom_cmp x1 x2) Eq = false).
  { apply not_true_is_false. rewrite cmp_eqb_eq. unfold atom_cmp. rewrite gn_eqb_cmp by assumption.
    unfold atom_eqb in Hne. congruence. }
  rewrite Hc. cbn [andb negb].
  apply negb_true_iff. apply not_true_is_false.
  rewrite (twins_order_iff_equality pos path t1 t2 x1 x2) by assumption. congruence.
Qed.
