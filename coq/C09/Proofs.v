(* C09/Proofs.v -- consequences of the two equivalence theorems for the validators of sophia_iri,
   facts about the RFC 3986 5.2 specification, and the recorded defects. *)
From Sophia.Common Require Import Prelude.
From Sophia.C09 Require Import Regex Rfc3987 Resolve Model PreFix.
From Sophia.C09 Require Lang EquivIri EquivIrel Classify SchemeAscii.

(* ---------- part (1): validation = RFC 3987 ---------- *)
Theorem is_absolute_iri_ref_spec : forall s, is_absolute_iri_ref s = matchb IRI s.
Proof. exact EquivIri.iri_regex_is_rfc3987. Qed.

Theorem is_relative_iri_ref_spec : forall s, is_relative_iri_ref s = matchb irelative_ref s.
Proof. exact EquivIrel.irel_regex_is_rfc3987. Qed.

Theorem is_valid_iri_ref_spec : forall s, is_valid_iri_ref s = matchb IRI_reference s.
Proof.
  intro s. unfold is_valid_iri_ref, IRI_reference. rewrite Lang.matchb_alt.
  rewrite EquivIri.iri_regex_is_rfc3987, EquivIrel.irel_regex_is_rfc3987. reflexivity.
Qed.

Theorem iri_new_spec : forall s, iri_new_ok s = matchb IRI s.
Proof. exact is_absolute_iri_ref_spec. Qed.
Theorem iriref_new_spec : forall s, iriref_new_ok s = matchb IRI_reference s.
Proof. exact is_valid_iri_ref_spec. Qed.

Theorem namespace_get_spec : forall ns suffix,
  namespace_get_ok ns suffix = matchb IRI_reference ns && matchb IRI_reference (ns ++ suffix).
Proof.
  intros. unfold namespace_get_ok, is_valid_suffixed_iri_ref. rewrite !is_valid_iri_ref_spec. reflexivity.
Qed.

(* the same with the denotation of the grammar in the model of languages over code points *)
Theorem is_absolute_iri_ref_lang : forall s, is_absolute_iri_ref s = true <-> Lang.langc IRI s.
Proof. intro s. rewrite is_absolute_iri_ref_spec. apply Lang.matchb_spec. Qed.
Theorem is_relative_iri_ref_lang : forall s, is_relative_iri_ref s = true <-> Lang.langc irelative_ref s.
Proof. intro s. rewrite is_relative_iri_ref_spec. apply Lang.matchb_spec. Qed.

(* classification: an accepted reference is absolute or relative, never both *)
Theorem absolute_relative_exclusive : forall s,
  is_absolute_iri_ref s = true -> is_relative_iri_ref s = false.
Proof.
  intros s H. rewrite is_absolute_iri_ref_spec in H. rewrite is_relative_iri_ref_spec.
  apply Classify.iri_irelative_ref_disjoint. exact H.
Qed.
Theorem valid_iff_absolute_xor_relative : forall s,
  is_valid_iri_ref s = xorb (is_absolute_iri_ref s) (is_relative_iri_ref s).
Proof.
  intro s. unfold is_valid_iri_ref. fold (is_absolute_iri_ref s). fold (is_relative_iri_ref s).
  destruct (is_absolute_iri_ref s) eqn:E; [|destruct (is_relative_iri_ref s); reflexivity].
  rewrite (absolute_relative_exclusive s E). reflexivity.
Qed.

(* everything of part (1) in one statement (one Print Assumptions walks the two big `ka` proofs once) *)
Theorem validation_is_rfc3987 :
  (forall w, matchb iri_regex w = matchb IRI w) /\
  (forall w, matchb irelative_ref_regex w = matchb irelative_ref w) /\
  (forall s, is_absolute_iri_ref s = matchb IRI s) /\
  (forall s, is_relative_iri_ref s = matchb irelative_ref s) /\
  (forall s, is_valid_iri_ref s = matchb IRI_reference s) /\
  (forall s, iri_new_ok s = matchb IRI s) /\
  (forall s, iriref_new_ok s = matchb IRI_reference s) /\
  (forall ns suffix, namespace_get_ok ns suffix = matchb IRI_reference ns && matchb IRI_reference (ns ++ suffix)) /\
  (forall s, is_absolute_iri_ref s = true <-> Lang.langc IRI s) /\
  (forall s, is_relative_iri_ref s = true <-> Lang.langc irelative_ref s) /\
  (forall w, matchb IRI w = true -> matchb irelative_ref w = false) /\
  (forall s, is_absolute_iri_ref s = true -> is_relative_iri_ref s = false) /\
  (forall s, is_valid_iri_ref s = xorb (is_absolute_iri_ref s) (is_relative_iri_ref s)).
Proof.
  repeat split.
  - exact EquivIri.iri_regex_is_rfc3987.
  - exact EquivIrel.irel_regex_is_rfc3987.
  - exact is_absolute_iri_ref_spec.
  - exact is_relative_iri_ref_spec.
  - exact is_valid_iri_ref_spec.
  - exact iri_new_spec.
  - exact iriref_new_spec.
  - exact namespace_get_spec.
  - apply is_absolute_iri_ref_lang.
  - apply is_absolute_iri_ref_lang.
  - apply is_relative_iri_ref_lang.
  - apply is_relative_iri_ref_lang.
  - exact Classify.iri_irelative_ref_disjoint.
  - exact absolute_relative_exclusive.
  - exact valid_iff_absolute_xor_relative.
Qed.

(* ---------- the pre-fix regexes (frozen copy) are NOT the grammar ---------- *)
Definition s_valid_rejected : str :=    (* "http://[1:2::3]/" *)
  [104;116;116;112;58;47;47;91;49;58;50;58;58;51;93;47].
Definition s_invalid_accepted : str :=  (* "http://[:1::2:3:4:5:6]/" *)
  [104;116;116;112;58;47;47;91;58;49;58;58;50;58;51;58;52;58;53;58;54;93;47].
Definition s_port_junk : str :=         (* "s://a:b/" *)
  [115;58;47;47;97;58;98;47].
Definition s_upper_v : str :=           (* "http://[V1.x]/" *)
  [104;116;116;112;58;47;47;91;86;49;46;120;93;47].
Definition s_ka_word : str :=           (* "a://a@a@", the word printed by `ka` *)
  [97;58;47;47;97;64;97;64].

Example prefix_iri_refuted :
  (matchb PreFix.iri_regex s_valid_rejected = false /\ matchb IRI s_valid_rejected = true) /\
  (matchb PreFix.iri_regex s_invalid_accepted = true /\ matchb IRI s_invalid_accepted = false) /\
  (matchb PreFix.iri_regex s_port_junk = true /\ matchb IRI s_port_junk = false) /\
  (matchb PreFix.iri_regex s_upper_v = false /\ matchb IRI s_upper_v = true) /\
  (matchb PreFix.iri_regex s_ka_word = true /\ matchb IRI s_ka_word = false).
Proof. vm_compute. repeat split; reflexivity. Qed.

Example prefix_irel_refuted :
  exists w, matchb PreFix.irelative_ref_regex w = true /\ matchb irelative_ref w = false.
Proof. exists [47;47;97;64;97;64]. vm_compute. split; reflexivity. Qed.   (* "//a@a@" *)

(* ---------- parts (2)/(3): resolution ---------- *)
Definition str_s_slash_a : str := [115;58;47;97].              (* "s:/a" *)
Definition str_ref_amb : str := [47;46;47;47;120].             (* "/.//x" *)
Definition str_ref_port : str := [47;46;47;47;104;58;120;47].  (* "/.//h:x/" *)
Definition str_base_http : str := [104;116;116;112;58;47;47;97;47;98;47;99].   (* "http://a/b/c" *)
Definition str_ref_abs_dots : str := [104;116;116;112;58;47;47;97;47;98;47;46;46;47;99].  (* "http://a/b/../c" *)
Definition str_z_root : str := [122;58;47].                    (* "z:/" *)
Definition str_dotdot_slash : str := [46;46;47].               (* "../" *)

(* (3) with the checked entry point an accepted reference against an accepted base can make the
   resolver fail, and sophia unwraps the error *)
Example resolve_panics_refuted :
  matchb IRI str_s_slash_a = true /\ matchb IRI_reference str_ref_amb = true /\
  resolve_gen true str_s_slash_a str_ref_amb = None.
Proof. vm_compute. repeat split; reflexivity. Qed.

(* (3) with the unchecked entry point resolution cannot fail, whatever the base and the reference *)
Lemma ox_path_unchecked_total has_auth : forall inp p, ox_path false has_auth p inp <> None.
Proof.
  induction inp as [|c rest IH]; intro p; cbn [ox_path].
  - destruct (ox_close has_auth p false). cbn [andb]. discriminate.
  - destruct (N.eqb c k_slash).
    + destruct (ox_close has_auth p true). cbn [andb]. apply IH.
    + destruct (N.eqb c k_qmark || N.eqb c k_hash).
      * destruct (ox_close has_auth p false). cbn [andb]. discriminate.
      * apply IH.
Qed.
Theorem resolve_unchecked_total : forall base ref, resolve_gen false base ref <> None.
Proof.
  intros base ref. unfold resolve_gen.
  destruct (p_scheme (parse5 ref)); [discriminate|].
  destruct ref as [|c rest]; [discriminate|].
  set (ha := match p_authority (parse5 base) with Some _ => true | None => false end).
  destruct (N.eqb c k_slash).
  - destruct rest as [|d rest'].
    + pose proof (ox_path_unchecked_total ha [] [k_slash]) as H.
      destruct (ox_path false ha [k_slash] []) as [[p t]|]; [discriminate | congruence].
    + destruct (N.eqb d k_slash); [discriminate|].
      pose proof (ox_path_unchecked_total ha (d :: rest') [k_slash]) as H.
      destruct (ox_path false ha [k_slash] (d :: rest')) as [[p t]|]; [discriminate | congruence].
  - destruct (N.eqb c k_qmark); [discriminate|]. destruct (N.eqb c k_hash); [discriminate|].
    pose proof (ox_path_unchecked_total ha (c :: rest) (ox_remove_last ha (p_path (parse5 base)))) as H.
    destruct (ox_path false ha (ox_remove_last ha (p_path (parse5 base))) (c :: rest)) as [[p t]|]; [discriminate | congruence].
Qed.
Corollary resolve_impl_total : typed_resolve_is_checked = false -> forall base ref, resolve_impl base ref <> None.
Proof. intros H base ref. unfold resolve_impl. rewrite H. apply resolve_unchecked_total. Qed.

(* (2) the resolver is not the algorithm of RFC 3986 5.2 ... *)
Example resolve_keeps_dots_refuted :      (* reference with a scheme: dot segments are kept *)
  matchb IRI str_base_http = true /\ matchb IRI_reference str_ref_abs_dots = true /\
  (forall chk, resolve_gen chk str_base_http str_ref_abs_dots = Some str_ref_abs_dots) /\
  resolve str_base_http str_ref_abs_dots = [104;116;116;112;58;47;47;97;47;99].   (* "http://a/c" *)
Proof. repeat split; try (intros []); vm_compute; reflexivity. Qed.
Example resolve_above_root_refuted :      (* ".." above the root of a base without authority *)
  matchb IRI str_z_root = true /\ matchb IRI_reference str_dotdot_slash = true /\
  (forall chk, resolve_gen chk str_z_root str_dotdot_slash = Some [122;58]) /\       (* "z:" *)
  resolve str_z_root str_dotdot_slash = [122;58;47].                 (* "z:/" *)
Proof. repeat split; try (intros []); vm_compute; reflexivity. Qed.
(* ... and the letter of 5.2 itself does not preserve validity (a path becomes an authority) *)
Example rfc_resolution_not_closed :
  matchb IRI str_s_slash_a = true /\ matchb IRI_reference str_ref_port = true /\
  matchb IRI (resolve str_s_slash_a str_ref_port) = false /\
  ambiguous_result str_s_slash_a str_ref_port = true.
Proof. vm_compute. repeat split; reflexivity. Qed.

(* ---------- the specification loses nothing: splitting and recomposing is the identity ---------- *)
Lemma split_first_app p s : forall a b, split_first p s = (a, b) ->
  s = a ++ match b with Some (c, r) => c :: r | None => [] end.
Proof.
  induction s as [|x s IH]; simpl; intros a b H.
  - injection H as <- <-. reflexivity.
  - destruct (p x).
    + injection H as <- <-. reflexivity.
    + destruct (split_first p s) as [a' b'] eqn:E. injection H as <- <-.
      simpl. f_equal. apply IH. reflexivity.
Qed.
Lemma split_first_char p s a c r : split_first p s = (a, Some (c, r)) -> p c = true.
Proof.
  revert a. induction s as [|x s IH]; simpl; intros a H; [discriminate|].
  destruct (p x) eqn:E.
  - injection H as <- <- <-. exact E.
  - destruct (split_first p s) as [a' b'] eqn:E'. injection H as <- ->. eapply IH. reflexivity.
Qed.

Theorem recompose_parse5 : forall s, recompose (parse5 s) = s.
Proof.
  intro s. unfold parse5.
  destruct (split_first (N.eqb k_hash) s) as [s1 f] eqn:Ef.
  destruct (split_first (N.eqb k_qmark) s1) as [s2 q] eqn:Eq.
  destruct (split_first (fun c => N.eqb c k_colon || N.eqb c k_slash) s2) as [pre d] eqn:Ed.
  pose proof (split_first_app _ _ _ _ Ef) as Hs. pose proof (split_first_app _ _ _ _ Eq) as Hs1.
  pose proof (split_first_app _ _ _ _ Ed) as Hs2.
  (* the scheme/rest pair always recomposes to s2 *)
  set (sr := match d with
             | Some (c, after) => if N.eqb c k_colon && negb (match pre with [] => true | _ => false end)
                                  then (Some pre, after) else (None, s2)
             | None => (None, s2) end).
  assert (Hsr : (match fst sr with Some x => x ++ [k_colon] | None => [] end) ++ snd sr = s2).
  { unfold sr. destruct d as [[c after]|]; [|reflexivity].
    destruct (N.eqb c k_colon && negb (match pre with [] => true | _ => false end)) eqn:E; [|reflexivity].
    apply andb_true_iff in E. destruct E as [E _]. apply N.eqb_eq in E. subst c.
    simpl. rewrite Hs2. rewrite <- app_assoc. reflexivity. }
  destruct sr as [sch s3] eqn:Esr. simpl in Hsr.
  set (ap := match s3 with
             | a :: b :: r => if N.eqb a k_slash && N.eqb b k_slash
                 then let (au, rest) := split_first (N.eqb k_slash) r in
                      (Some au, match rest with Some (c, after) => c :: after | None => [] end)
                 else (None, s3)
             | _ => (None, s3) end).
  assert (Hap : (match fst ap with Some a => k_slash :: k_slash :: a | None => [] end) ++ snd ap = s3).
  { unfold ap. destruct s3 as [|a [|b r]]; try reflexivity.
    destruct (N.eqb a k_slash && N.eqb b k_slash) eqn:E; [|reflexivity].
    apply andb_true_iff in E. destruct E as [E1 E2]. apply N.eqb_eq in E1, E2. subst a b.
    destruct (split_first (N.eqb k_slash) r) as [au rest] eqn:Er.
    pose proof (split_first_app _ _ _ _ Er) as Hr. simpl. rewrite Hr. reflexivity. }
  destruct ap as [auth pth] eqn:Eap. simpl in Hap.
  unfold recompose. simpl.
  assert (Hq : match option_map snd q with Some q0 => k_qmark :: q0 | None => [] end =
               match q with Some (c, r) => c :: r | None => [] end).
  { destruct q as [[c r]|]; [|reflexivity]. simpl.
    pose proof (split_first_char _ _ _ _ _ Eq) as H. apply N.eqb_eq in H. subst c. reflexivity. }
  assert (Hf : match option_map snd f with Some f0 => k_hash :: f0 | None => [] end =
               match f with Some (c, r) => c :: r | None => [] end).
  { destruct f as [[c r]|]; [|reflexivity]. simpl.
    pose proof (split_first_char _ _ _ _ _ Ef) as H. apply N.eqb_eq in H. subst c. reflexivity. }
  rewrite Hq, Hf. clear Hq Hf Ef Eq Ed Esr Eap.
  rewrite Hs. rewrite Hs1. rewrite <- Hsr. rewrite <- Hap.
  rewrite <- !app_assoc. reflexivity.
Qed.

(* a reference that is only a fragment, only a query, or empty: the resolver returns exactly the
   result of RFC 3986 5.2 (no dot-segment removal is involved), for every base *)
Lemma parse5_query_ref rest :
  let (a, f) := split_first (N.eqb k_hash) rest in
  parse5 (k_qmark :: rest) = mk_parts None None [] (Some a) (option_map snd f).
Proof.
  destruct (split_first (N.eqb k_hash) rest) as [a f] eqn:E.
  unfold parse5. cbn [split_first]. change (N.eqb k_hash k_qmark) with false. cbv iota. rewrite E.
  cbn [split_first]. change (N.eqb k_qmark k_qmark) with true. cbv iota. cbn. reflexivity.
Qed.

Lemma parse5_frag_ref rest :
  parse5 (k_hash :: rest) = mk_parts None None [] None (Some rest).
Proof. unfold parse5. cbn [split_first]. change (N.eqb k_hash k_hash) with true. cbn. reflexivity. Qed.

Lemma parse5_empty : parse5 [] = mk_parts None None [] None None.
Proof. reflexivity. Qed.

Theorem resolve_impl_no_path_spec : forall base ref,
  match ref with [] => true | c :: _ => N.eqb c k_qmark || N.eqb c k_hash end = true ->
  resolve_impl base ref = Some (resolve base ref).
Proof.
  intros base ref H. destruct ref as [|c rest].
  - unfold resolve_impl. generalize typed_resolve_is_checked as chk. intro chk. unfold resolve_gen, resolve, transform. rewrite parse5_empty. cbn [p_scheme p_authority p_path p_query p_fragment].
    unfold recompose. cbn [p_scheme p_authority p_path p_query p_fragment].
    destruct (p_query (parse5 base)); rewrite ?app_nil_r, <- ?app_assoc; reflexivity.
  - apply orb_true_iff in H. destruct H as [H|H]; apply N.eqb_eq in H; subst c.
    + pose proof (parse5_query_ref rest) as P.
      destruct (split_first (N.eqb k_hash) rest) as [a f] eqn:E.
      unfold resolve_impl. generalize typed_resolve_is_checked as chk. intro chk. unfold resolve_gen, resolve, transform. rewrite P.
      cbn [p_scheme p_authority p_path p_query p_fragment].
      change (N.eqb k_qmark k_slash) with false. change (N.eqb k_qmark k_qmark) with true. cbv iota.
      unfold recompose. cbn [p_scheme p_authority p_path p_query p_fragment].
      f_equal. rewrite <- !app_assoc. f_equal. f_equal. f_equal.
      rewrite (split_first_app _ _ _ _ E). simpl. f_equal. f_equal.
      destruct f as [[d r]|]; [|reflexivity]. simpl.
      pose proof (split_first_char _ _ _ _ _ E) as Hd. apply N.eqb_eq in Hd. subst d. reflexivity.
    + unfold resolve_impl. generalize typed_resolve_is_checked as chk. intro chk. unfold resolve_gen, resolve, transform. rewrite parse5_frag_ref.
      cbn [p_scheme p_authority p_path p_query p_fragment].
      change (N.eqb k_hash k_slash) with false. change (N.eqb k_hash k_qmark) with false.
      change (N.eqb k_hash k_hash) with true. cbv iota.
      unfold recompose. cbn [p_scheme p_authority p_path p_query p_fragment].
      f_equal. rewrite <- !app_assoc. reflexivity.
Qed.

Corollary resolve_impl_no_path : forall base ref,
  match ref with [] => true | c :: _ => N.eqb c k_qmark || N.eqb c k_hash end = true ->
  resolve_impl base ref <> None.
Proof. intros base ref H. rewrite (resolve_impl_no_path_spec base ref H). discriminate. Qed.

(* ====================================================================================================
   the other public entry points of the anchored files (Model.v, last section)
   ==================================================================================================== *)
(* ---------- the other public entry points ---------- *)
Theorem is_valid_suffixed_iri_ref_spec : forall ns suf,
  is_valid_suffixed_iri_ref ns suf = matchb IRI_reference (ns ++ match suf with Some x => x | None => [] end).
Proof. intros ns [x|]; cbn [is_valid_suffixed_iri_ref]; rewrite ?app_nil_r; apply is_valid_iri_ref_spec. Qed.

(* where the text is cut into namespace and suffix does not matter *)
Theorem suffixed_split_irrelevant : forall s n,
  is_valid_suffixed_iri_ref (firstn n s) (Some (skipn n s)) = is_valid_iri_ref s.
Proof. intros. cbn [is_valid_suffixed_iri_ref]. rewrite firstn_skipn. reflexivity. Qed.

Theorem base_new_spec : forall s,
  base_iri_new_ok s = matchb IRI s /\ base_iriref_new_ok s = matchb IRI_reference s.
Proof. intro s. split; [apply is_absolute_iri_ref_spec | apply is_valid_iri_ref_spec]. Qed.

Lemma opt_str_eqb_eq (a b : option str) : opt_eqb str_eqb a b = true -> a = b.
Proof. destruct a, b; cbn; try congruence. intro H. apply str_eqb_eq in H. congruence. Qed.

(* components that pass parts_ok determine the text (RFC 3986 5.3), and is_absolute = "has a scheme" *)
Theorem parts_ok_recompose : forall s abs sch auth pth q f,
  parts_ok s abs sch auth pth q f = true ->
  recompose (mk_parts sch auth pth q f) = s /\ abs = is_some sch.
Proof.
  intros s abs sch auth pth q f H. unfold parts_ok, parts_eqb, base_parts in H.
  rewrite !andb_true_iff in H. cbn [p_scheme p_authority p_path p_query p_fragment] in H.
  destruct H as [Habs [[[[H1 H2] H3] H4] H5]].
  apply opt_str_eqb_eq in H1, H2, H4, H5. apply str_eqb_eq in H3.
  apply Bool.eqb_prop in Habs.
  split.
  - rewrite <- (recompose_parse5 s). destruct (parse5 s); cbn in *. subst. reflexivity.
  - rewrite <- Habs, H1. reflexivity.
Qed.

(* the wrappers compare as their texts: equality is equality of texts, the order is a total order *)
Theorem wrap_eqb_eq : forall a b, wrap_eqb a b = true <-> a = b.
Proof. intros a b. unfold wrap_eqb, wrap_cmp. rewrite <- str_cmp_eq. destruct (str_cmp a b); split; congruence. Qed.
Theorem wrap_cmp_antisym : forall a b, wrap_cmp b a = CompOpp (wrap_cmp a b).
Proof. exact str_cmp_antisym. Qed.
Theorem wrap_cmp_trans : forall c a b d, wrap_cmp a b = c -> wrap_cmp b d = c -> wrap_cmp a d = c.
Proof. exact str_cmp_trans. Qed.
Theorem cmp_ok_sound : forall a b c, cmp_ok a b c = true <-> wrap_cmp a b = c.
Proof. intros a b c. unfold cmp_ok. destruct (wrap_cmp a b), c; cbn; split; congruence. Qed.

(* ---------- resolution through the other entry points ---------- *)
Theorem protect_result_absolute : forall base ref o,
  is_some (p_scheme (base_parts base)) = true -> protect_result base ref o = o.
Proof. intros base ref o H. unfold protect_result, needs_protection. rewrite H. reflexivity. Qed.

(* a reference given as &str: rejected when invalid; otherwise, on an absolute base, what the typed entry point
   gives with today's wiring (the checked resolver), except that a failure is returned instead of unwrapped *)
Theorem resolve_str_invalid : forall base ref, is_valid_iri_ref ref = false -> resolve_str_impl base ref = None.
Proof. intros base ref H. unfold resolve_str_impl. rewrite H. reflexivity. Qed.
Theorem resolve_str_typed_agree : forall base ref,
  typed_resolve_is_checked = true -> is_valid_iri_ref ref = true ->
  is_some (p_scheme (base_parts base)) = true ->
  resolve_str_impl base ref = resolve_impl base ref.
Proof.
  intros base ref Hc Hv Ha. unfold resolve_str_impl, resolve_impl. rewrite Hv, Hc.
  destruct (resolve_gen true base ref) as [o|]; cbn [option_map]; [rewrite protect_result_absolute by exact Ha|]; reflexivity.
Qed.
(* on any base: whatever the typed entry point of BaseIriRef returns, the &str entry point returns too *)
Theorem resolve_str_rel_agree : forall base ref o,
  typed_resolve_is_checked = true -> is_valid_iri_ref ref = true ->
  resolve_rel_impl base ref = Some o -> resolve_str_impl base ref = Some o.
Proof.
  intros base ref o Hc Hv H. unfold resolve_rel_impl, resolve_impl in H. rewrite Hc in H.
  unfold resolve_str_impl. rewrite Hv.
  destruct (resolve_gen true base ref) as [x|]; [|discriminate]. cbn [option_map].
  destruct (iriref_new_unchecked_ok (protect_result base ref x)); congruence.
Qed.

(* in a dev build the value returned by IriRef::resolve is a valid IRI reference (or the call panics) *)
Theorem resolve_rel_impl_valid : forall base ref o,
  resolve_rel_impl base ref = Some o -> matchb IRI_reference o = true.
Proof.
  intros base ref o H. unfold resolve_rel_impl in H.
  destruct (resolve_impl base ref) as [x|]; [|discriminate].
  destruct (iriref_new_unchecked_ok (protect_result base ref x)) eqn:E; [|discriminate].
  injection H as <-. unfold iriref_new_unchecked_ok, debug_assertions in E. rewrite <- iriref_new_spec. exact E.
Qed.

(* the first segment of a protected result has no colon ... *)
Lemma first_segment_protect : forall o, has_colon (first_segment (protect_first_segment o)) = false.
Proof.
  intro o. unfold protect_first_segment. destruct (has_colon (first_segment o)) eqn:E; [|exact E].
  reflexivity.
Qed.

Lemma split_first_cons p c s :
  split_first p (c :: s) = if p c then ([], Some (c, s)) else (c :: fst (split_first p s), snd (split_first p s)).
Proof. cbn [split_first]. destruct (p c); [reflexivity|]. destruct (split_first p s); reflexivity. Qed.

Definition is_cs (c : N) : bool := N.eqb c k_colon || N.eqb c k_slash.
(* the delimiter found by parse5 when it looks for a scheme *)
Definition scheme_split (s : str) : str * option (N * str) :=
  split_first is_cs (fst (split_first (N.eqb k_qmark) (fst (split_first (N.eqb k_hash) s)))).

Lemma p_scheme_split s :
  p_scheme (parse5 s) =
  match snd (scheme_split s) with
  | Some (c, _) => if N.eqb c k_colon && negb (match fst (scheme_split s) with [] => true | _ => false end)
                   then Some (fst (scheme_split s)) else None
  | None => None
  end.
Proof.
  unfold parse5, scheme_split.
  destruct (split_first (N.eqb k_hash) s) as [s1 f]. cbn [fst].
  destruct (split_first (N.eqb k_qmark) s1) as [s2 q]. cbn [fst].
  change (fun c : N => N.eqb c k_colon || N.eqb c k_slash) with is_cs.
  destruct (split_first is_cs s2) as [pre d]. cbn [fst snd].
  destruct d as [[c after]|].
  - destruct (N.eqb c k_colon && negb match pre with [] => true | _ :: _ => false end).
    + match goal with |- context [let '(_, _) := ?X in _] => destruct X end. reflexivity.
    + match goal with |- context [let '(_, _) := ?X in _] => destruct X end. reflexivity.
  - match goal with |- context [let '(_, _) := ?X in _] => destruct X end. reflexivity.
Qed.

Lemma scheme_split_no_colon : forall s, has_colon (first_segment s) = false ->
  match snd (scheme_split s) with Some (c, _) => N.eqb c k_colon = false | None => True end.
Proof.
  induction s as [|c s IH]; intro H.
  - exact I.
  - unfold scheme_split. rewrite (split_first_cons (N.eqb k_hash)).
    destruct (N.eqb k_hash c) eqn:Eh; [exact I|]. cbn [fst].
    rewrite (split_first_cons (N.eqb k_qmark)).
    destruct (N.eqb k_qmark c) eqn:Eq; [exact I|]. cbn [fst].
    rewrite (split_first_cons is_cs).
    destruct (is_cs c) eqn:Ec.
    + cbn [snd]. unfold is_cs in Ec. destruct (N.eqb c k_colon) eqn:Ecol; [|reflexivity].
      (* c = ':' : then the first segment has a colon *)
      exfalso. apply N.eqb_eq in Ecol. subst c.
      unfold first_segment in H. cbn in H. discriminate.
    + cbn [snd]. apply IH.
      unfold is_cs in Ec. apply orb_false_iff in Ec. destruct Ec as [Ecol Esl].
      unfold first_segment in H |- *. cbn [take_while] in H.
      unfold seg_end in H at 1. rewrite Esl in H.
      rewrite (N.eqb_sym c k_qmark), Eq, (N.eqb_sym c k_hash), Eh in H. cbn [orb negb] in H.
      cbn [has_colon existsb] in H. unfold has_colon.
      rewrite (N.eqb_sym k_colon c), Ecol in H. exact H.
Qed.

(* a text whose first segment (up to the first "/", "?" or "#") has no colon has no scheme (appendix B) *)
Theorem no_colon_no_scheme : forall s, has_colon (first_segment s) = false -> p_scheme (parse5 s) = None.
Proof.
  intros s H. rewrite p_scheme_split. pose proof (scheme_split_no_colon s H) as D.
  destruct (snd (scheme_split s)) as [[c after]|]; [|reflexivity]. rewrite D. reflexivity.
Qed.

(* the content of the repair of BaseIriRef::resolve: two references without a scheme resolve to a reference
   without a scheme, which (dev build) is a valid IRI reference *)
Theorem resolve_rel_no_scheme : forall base ref o,
  p_scheme (parse5 base) = None -> has_colon (first_segment ref) = false ->
  resolve_rel_impl base ref = Some o ->
  p_scheme (parse5 o) = None /\ matchb IRI_reference o = true.
Proof.
  intros base ref o Hb Hr H. split; [|eapply resolve_rel_impl_valid; exact H].
  unfold resolve_rel_impl in H. destruct (resolve_impl base ref) as [x|]; [|discriminate].
  destruct (iriref_new_unchecked_ok (protect_result base ref x)); [|discriminate].
  injection H as <-. apply no_colon_no_scheme.
  unfold protect_result, needs_protection, base_parts. rewrite Hb, Hr. cbn [is_some negb andb].
  apply first_segment_protect.
Qed.

(* the regression cases of that repair, and what oxiri alone returns for them *)
Example resolve_rel_colon_protected :
  is_valid_iri_ref [] = true /\ is_valid_iri_ref [46;47;58] = true /\                       (* "" and "./:" *)
  resolve_gen true [] [46;47;58] = Some [58] /\ matchb IRI_reference [58] = false /\        (* ":" *)
  resolve_rel_impl [] [46;47;58] = Some [46;47;58] /\
  resolve_rel_impl [47;64] [47;46;46;47;44;58;118] = Some [46;47;44;58;118] /\              (* "/@" + "/../,:v" = "./,:v" *)
  resolve_str_impl [97] [46;47;98;58;99] = Some [46;47;98;58;99].                           (* "a" + "./b:c" = "./b:c" *)
Proof. vm_compute. repeat split; reflexivity. Qed.

(* the statements above that rest on the two `ka` equivalences, in one theorem (one Print Assumptions walk) *)
Theorem wide_entry_points_rfc3987 :
  (forall ns suf, is_valid_suffixed_iri_ref ns suf =
                  matchb IRI_reference (ns ++ match suf with Some x => x | None => [] end)) /\
  (forall s, base_iri_new_ok s = matchb IRI s /\ base_iriref_new_ok s = matchb IRI_reference s) /\
  (forall base ref o, resolve_rel_impl base ref = Some o -> matchb IRI_reference o = true) /\
  (forall base ref o, p_scheme (parse5 base) = None -> has_colon (first_segment ref) = false ->
     resolve_rel_impl base ref = Some o -> p_scheme (parse5 o) = None /\ matchb IRI_reference o = true).
Proof.
  repeat split.
  - apply is_valid_suffixed_iri_ref_spec.
  - apply base_new_spec.
  - apply base_new_spec.
  - apply resolve_rel_impl_valid.
  - eapply resolve_rel_no_scheme; eassumption.
  - eapply resolve_rel_no_scheme; eassumption.
Qed.

(* ====================================================================================================
   the serde entry points (Model.v, last section) and the scheme of an accepted text
   ==================================================================================================== *)
Theorem iri_deserialize_spec : forall s, iri_deserialize s = if matchb IRI s then Some s else None.
Proof. intro s. unfold iri_deserialize. rewrite iri_new_spec. reflexivity. Qed.
Theorem iriref_deserialize_spec : forall s,
  iriref_deserialize s = if matchb IRI_reference s then Some s else None.
Proof. intro s. unfold iriref_deserialize. rewrite iriref_new_spec. reflexivity. Qed.

(* a deserialized value holds the text it was read from *)
Theorem deserialize_keeps_text : forall s t,
  iri_deserialize s = Some t \/ iriref_deserialize s = Some t -> t = s.
Proof.
  intros s t [H|H]; [unfold iri_deserialize in H; destruct (iri_new_ok s) | unfold iriref_deserialize in H; destruct (iriref_new_ok s)];
    congruence.
Qed.

(* a relative reference is never read as an Iri, wherever its colons are ("?a:b", "#a:b", "a/b:c" ...) *)
Theorem relative_ref_never_deserialized_as_iri : forall s,
  matchb irelative_ref s = true -> iri_deserialize s = None /\ iriref_deserialize s = Some s.
Proof.
  intros s H. rewrite iri_deserialize_spec, iriref_deserialize_spec. split.
  - destruct (matchb IRI s) eqn:E; [|reflexivity].
    rewrite (Classify.iri_irelative_ref_disjoint s E) in H. discriminate.
  - unfold IRI_reference. rewrite Lang.matchb_alt, H, orb_true_r. reflexivity.
Qed.

(* what is read as an Iri is read as an IriRef *)
Theorem iri_deserialize_is_iriref : forall s t, iri_deserialize s = Some t -> iriref_deserialize s = Some t.
Proof.
  intros s t H. rewrite iri_deserialize_spec in H. rewrite iriref_deserialize_spec.
  unfold IRI_reference. rewrite Lang.matchb_alt. destruct (matchb IRI s); [exact H | discriminate].
Qed.

(* Serialize then Deserialize gives the value back *)
Theorem iri_roundtrip_spec : forall s, iri_roundtrip s = iri_deserialize s.
Proof.
  intro s. unfold iri_roundtrip, wrapper_serialize. destruct (iri_deserialize s) as [t|] eqn:E; [|reflexivity].
  assert (t = s) by (apply (deserialize_keeps_text s t); left; exact E). subst t. exact E.
Qed.
Theorem iriref_roundtrip_spec : forall s, iriref_roundtrip s = iriref_deserialize s.
Proof.
  intro s. unfold iriref_roundtrip, wrapper_serialize. destruct (iriref_deserialize s) as [t|] eqn:E; [|reflexivity].
  assert (t = s) by (apply (deserialize_keeps_text s t); right; exact E). subst t. exact E.
Qed.

(* the untagged enum { Abs(Iri), Ref(IriRef) } classifies like RFC 3987 *)
Theorem untagged_classifies : forall s,
  untagged_abs_or_ref s =
  if matchb IRI s then Some (true, s) else if matchb irelative_ref s then Some (false, s) else None.
Proof.
  intro s. unfold untagged_abs_or_ref. rewrite iri_deserialize_spec, iriref_deserialize_spec.
  unfold IRI_reference. rewrite Lang.matchb_alt. destruct (matchb IRI s); [reflexivity|].
  cbn [orb]. destruct (matchb irelative_ref s); reflexivity.
Qed.

(* a deserialized Iri is accepted by the resolver's recogniser (Iri::as_base does not panic) *)
Theorem deserialized_iri_is_a_base : forall s t, iri_deserialize s = Some t -> base_iri_new_ok t = true.
Proof.
  intros s t H. assert (t = s) by (apply (deserialize_keeps_text s t); left; exact H). subst t.
  unfold iri_deserialize in H. unfold base_iri_new_ok. unfold iri_new_ok in H.
  destruct (is_absolute_iri_ref s); [reflexivity | discriminate].
Qed.

(* the scheme of a text accepted by any validating constructor is an RFC 3986 scheme, hence ASCII: the characters
   that Unicode case folding ties to ASCII letters (U+017F, U+212A ...) cannot occur there *)
Theorem accepted_scheme_is_ascii : forall s, iri_new_ok s = true ->
  exists sch rest, s = sch ++ 58 :: rest /\ matchb scheme sch = true /\ Forall (fun c => c < 128) sch.
Proof. intros s H. rewrite iri_new_spec in H. exact (SchemeAscii.iri_scheme_is_ascii s H). Qed.
Theorem non_ascii_before_colon_rejected : forall pre c rest,
  Forall (fun x => x <> 58) pre -> 128 <= c ->
  iri_new_ok (pre ++ c :: rest) = false /\ iri_deserialize (pre ++ c :: rest) = None.
Proof.
  intros pre c rest Hp Hc.
  assert (E : iri_new_ok (pre ++ c :: rest) = false).
  { rewrite iri_new_spec. exact (SchemeAscii.non_ascii_before_colon_not_iri pre c rest Hp Hc). }
  split; [exact E|]. unfold iri_deserialize. rewrite E. reflexivity.
Qed.

Definition str_q_a_colon_b : str := [63;97;58;98].            (* "?a:b" *)
Definition str_long_s_scheme : str := [104;116;116;112;383;58;47;47;97;47].   (* "http\u{17F}://a/" *)
Definition str_kelvin_scheme : str := [8490;101;121;58;118].  (* "\u{212A}ey:v" *)
Definition str_urn_long_s_kelvin : str := [117;114;110;58;383;8490].   (* "urn:\u{17F}\u{212A}" *)
Example serde_examples :
  iri_deserialize str_q_a_colon_b = None /\ iriref_deserialize str_q_a_colon_b = Some str_q_a_colon_b /\
  untagged_abs_or_ref str_q_a_colon_b = Some (false, str_q_a_colon_b) /\
  iri_deserialize [97;58;98] = Some [97;58;98] /\ untagged_abs_or_ref [97;58;98] = Some (true, [97;58;98]) /\
  untagged_abs_or_ref [97;32;98] = None /\ iri_roundtrip [97;58;98] = Some [97;58;98] /\
  iriref_roundtrip str_q_a_colon_b = Some str_q_a_colon_b /\ iri_roundtrip str_q_a_colon_b = None /\
  serde_ok str_q_a_colon_b None (Some str_q_a_colon_b) (Some false) None (Some str_q_a_colon_b) = true /\
  serde_ok str_q_a_colon_b (Some str_q_a_colon_b) (Some str_q_a_colon_b) (Some true) None (Some str_q_a_colon_b) = false.
Proof. vm_compute. repeat split; reflexivity. Qed.
(* the regenerated expressions themselves on the case-folding partners of 's' and 'k' *)
Example case_folding_partners_examples :
  is_absolute_iri_ref str_long_s_scheme = false /\ is_valid_iri_ref str_long_s_scheme = false /\
  is_absolute_iri_ref str_kelvin_scheme = false /\ is_valid_iri_ref str_kelvin_scheme = false /\
  is_absolute_iri_ref str_urn_long_s_kelvin = true /\ iri_deserialize str_long_s_scheme = None.
Proof. vm_compute. repeat split; reflexivity. Qed.

(* the statements above that rest on the two `ka` equivalences, in one theorem (one Print Assumptions walk) *)
Theorem serde_entry_points_rfc3987 :
  (forall s, iri_deserialize s = if matchb IRI s then Some s else None) /\
  (forall s, iriref_deserialize s = if matchb IRI_reference s then Some s else None) /\
  (forall s, matchb irelative_ref s = true -> iri_deserialize s = None /\ iriref_deserialize s = Some s) /\
  (forall s t, iri_deserialize s = Some t -> iriref_deserialize s = Some t) /\
  (forall s, untagged_abs_or_ref s =
     if matchb IRI s then Some (true, s) else if matchb irelative_ref s then Some (false, s) else None) /\
  (forall s, iri_new_ok s = true ->
     exists sch rest, s = sch ++ 58 :: rest /\ matchb scheme sch = true /\ Forall (fun c => c < 128) sch) /\
  (forall pre c rest, Forall (fun x => x <> 58) pre -> 128 <= c ->
     iri_new_ok (pre ++ c :: rest) = false /\ iri_deserialize (pre ++ c :: rest) = None).
Proof.
  repeat split.
  - apply iri_deserialize_spec.
  - apply iriref_deserialize_spec.
  - apply relative_ref_never_deserialized_as_iri; assumption.
  - apply relative_ref_never_deserialized_as_iri; assumption.
  - apply iri_deserialize_is_iriref.
  - apply untagged_classifies.
  - apply accepted_scheme_is_ascii.
  - apply non_ascii_before_colon_rejected; assumption.
  - apply non_ascii_before_colon_rejected; assumption.
Qed.
