(* C04/DocShapes.v -- one more fact about the token productions, read off the denotation of regular expressions
   (Lang.v): the token of a prefix declaration, PNAME_NS = PN_PREFIX? ':', is a word of PNAME_noesc.  The statement
   mentions only the matcher and lists (RelationAlgebra stays behind this file, as with TermShapes.v). *)
From RelationAlgebra Require Import lattice monoid kleene kat_tac lang.
From Coq Require Import NArith List.
Import ListNotations.
From Sophia.C04 Require Import Regex Grammar TermGrammar Eval Lang.
Local Open Scope N_scope.

Theorem pname_ns_build pre :
  pre = [] \/ matchb PN_PREFIX pre = true -> matchb PNAME_noesc (pre ++ [58]) = true.
Proof.
  intros Hp. apply matchb_spec. unfold PNAME_noesc, PNAME_NS, cats, opt.
  apply lang_Cat. exists (pre ++ [58]), []. split; [rewrite app_nil_r; reflexivity|]. split.
  - apply lang_Cat. exists pre, [58]. split; [reflexivity|]. split.
    + apply lang_Alt. destruct Hp as [->|Hp]; [right; apply lang_Eps; reflexivity | left; apply matchb_spec; exact Hp].
    + apply lang_Lf. exists 58. split; reflexivity.
  - apply lang_Alt. right. apply lang_Eps. reflexivity.
Qed.
