(* C08/SourceProofs.v -- what the provided methods of a source do is determined by its required method. *)
From Sophia.Common Require Import Prelude.
From Sophia.C08 Require Import Source.

Lemma feed_none xs : feed xs None = (xs, false, None).
Proof. induction xs as [|x r IH]; cbn [feed]; [reflexivity | rewrite IH; reflexivity]. Qed.

(* ---- the default loops are the closed form (in particular they end, whatever the steps) ---- *)
Lemma try_each_loop_closed atomic : forall s fuel b, (length s < fuel)%nat -> try_each_loop fuel atomic s b = each atomic s b.
Proof.
  induction s as [|[xs r] t IH]; intros fuel b H; destruct fuel as [|f]; try (cbn in H; lia).
  - reflexivity.
  - cbn [try_each_loop try_some each]. destruct (feed xs b) as [[d failed] b'].
    destruct failed.
    + reflexivity.
    + destruct r as [|e]; cbn [res_of].
      * rewrite IH by (cbn in H; lia). destruct (each atomic t b') as [[d2 r2] s2]. reflexivity.
      * reflexivity.
Qed.
Theorem try_each_closed atomic s b : try_each atomic s b = each atomic s b.
Proof. unfold try_each. apply try_each_loop_closed. lia. Qed.

Lemma for_each_loop_closed atomic : forall s fuel, (length s < fuel)%nat -> for_each_loop fuel atomic s = each atomic s None.
Proof.
  induction s as [|[xs r] t IH]; intros fuel H; destruct fuel as [|f]; try (cbn in H; lia).
  - reflexivity.
  - cbn [for_each_loop each]. unfold for_some. cbn [try_some]. rewrite !feed_none.
    destruct r as [|e]; cbn [res_of].
    + rewrite IH by (cbn in H; lia). destruct (each atomic t None) as [[d2 r2] s2]. reflexivity.
    + reflexivity.
Qed.
Theorem for_each_closed atomic s : for_each atomic s = each atomic s None.
Proof. unfold for_each. apply for_each_loop_closed. lia. Qed.
(* for_each_* is try_for_each_* with a sink that cannot fail *)
Theorem for_each_is_try_each atomic s : for_each atomic s = try_each atomic s None.
Proof. rewrite for_each_closed, try_each_closed. reflexivity. Qed.

(* ---- an exhausted source stays exhausted, however it is asked ---- *)
Theorem exhausted_stays atomic b :
  try_some atomic [] b = ([], REnd, Some [], b) /\ try_each atomic [] b = ([], RDone, Some []) /\
  for_some atomic [] = ([], REnd, Some []) /\ for_each atomic [] = ([], RDone, Some []) /\
  iter_next [] [] = (([], REnd), [], []).
Proof. repeat split. Qed.

(* ---- conservation: every statement and every error is delivered exactly once, in order ---- *)
Lemma some_events atomic s : forall d r st b,
  try_some atomic s None = (d, r, st, b) ->
  exists s', st = Some s' /\ events s = obs_events (d, r) ++ events s' /\ b = None /\ (r = RMore \/ r = REnd /\ s = [] \/ exists e, r = RSrcErr e).
Proof.
  destruct s as [|[xs r0] t]; intros d r st b H; cbn [try_some] in H.
  - inversion H; subst. exists []. repeat split. right; left; split; reflexivity.
  - rewrite feed_none in H. inversion H; subst. exists t. split; [reflexivity|]. split.
    + unfold obs_events; cbn [fst snd events]. destruct r0; cbn [res_of]; rewrite <- ?app_assoc; reflexivity.
    + split; [reflexivity|]. destruct r0; cbn [res_of]; [left; reflexivity | right; right; eexists; reflexivity].
Qed.

Lemma each_events atomic : forall s d r st,
  each atomic s None = (d, r, st) ->
  exists s', st = Some s' /\ events s = obs_events (d, r) ++ events s' /\ (r = RDone /\ s' = [] \/ exists e, r = RSrcErr e).
Proof.
  induction s as [|[xs r0] t IH]; intros d r st H; cbn [each] in H.
  - inversion H; subst. exists []. repeat split. left; split; reflexivity.
  - rewrite feed_none in H. destruct r0 as [|e].
    + destruct (each atomic t None) as [[d2 r2] s2] eqn:E. inversion H; subst.
      destruct (IH _ _ _ eq_refl) as [s' [Hs [He Hr]]]. exists s'. split; [exact Hs|]. split; [|exact Hr].
      cbn [events]. rewrite He. unfold obs_events; cbn [fst snd]. rewrite map_app, <- !app_assoc. reflexivity.
    + inversion H; subst. exists t. split; [reflexivity|]. split; [|right; eexists; reflexivity].
      unfold obs_events; cbn [fst snd events]. rewrite <- app_assoc. reflexivity.
Qed.

Lemma run_op_events atomic s o : infallible o = true -> forall e st,
  run_op atomic s o = (e, st) -> exists x s', e = Some x /\ st = Some s' /\ events s = obs_events x ++ events s'.
Proof.
  intros Ho e st H. destruct o as [[|]|[k|]|]; try discriminate; cbn [run_op] in H.
  - destruct (try_some atomic s None) as [[[d r] s1] b] eqn:E. inversion H; subst.
    destruct (some_events _ _ _ _ _ _ E) as [s' [Hs [He _]]]. exists (d, r), s'. repeat split; assumption.
  - rewrite try_each_closed in H. destruct (each atomic s None) as [[d r] s1] eqn:E. inversion H; subst.
    destruct (each_events _ _ _ _ _ E) as [s' [Hs [He _]]]. exists (d, r), s'. repeat split; assumption.
Qed.

Theorem history_conserves atomic : forall ops s l st,
  forallb infallible ops = true -> run_ops atomic s ops = (l, st) ->
  exists s', st = Some s' /\ events s = flat_map obs_events l ++ events s'.
Proof.
  induction ops as [|o r IH]; intros s l st Hf H; cbn [run_ops] in H.
  - inversion H; subst. exists s. split; reflexivity.
  - cbn [forallb] in Hf. apply andb_prop in Hf. destruct Hf as [Ho Hr].
    destruct (run_op atomic s o) as [e st1] eqn:E.
    destruct (run_op_events _ _ _ Ho _ _ E) as [x [s1 [He [Hs Hev]]]]. subst e st1.
    destruct (run_ops atomic s1 r) as [l1 st'] eqn:E2. inversion H; subst.
    destruct (IH _ _ _ Hr E2) as [s' [Hs' Hev']]. exists s'. split; [exact Hs'|].
    cbn [app flat_map]. rewrite Hev, Hev', <- app_assoc. reflexivity.
Qed.

(* draining: a try_for_each / for_each call either reports an error and leaves strictly fewer steps, or exhausts the source *)
Theorem each_progress atomic s d r st :
  each atomic s None = (d, r, st) ->
  (r = RDone /\ st = Some []) \/ (exists e s', r = RSrcErr e /\ st = Some s' /\ (length s' < length s)%nat).
Proof.
  revert d r st. induction s as [|[xs r0] t IH]; intros d r st H; cbn [each] in H.
  - inversion H; subst. left; split; reflexivity.
  - rewrite feed_none in H. destruct r0 as [|e].
    + destruct (each atomic t None) as [[d2 r2] s2] eqn:E. inversion H; subst.
      destruct (IH _ _ _ eq_refl) as [[Hr Hs]|[e [s' [Hr [Hs Hl]]]]].
      * left; split; assumption.
      * right. exists e, s'. repeat split; try assumption. cbn [length]. lia.
    + inversion H; subst. right. exists e, t. repeat split. cbn [length]. lia.
Qed.

(* ---- the iterators of the map / filter_map adapters ---- *)
Lemma iter_fill_events : forall s buf s', iter_fill s = (buf, s') ->
  events s = buf ++ events s' /\ (buf = [] -> s' = [] /\ events s = []).
Proof.
  induction s as [|[xs r] t IH]; intros buf s' H; cbn [iter_fill] in H.
  - inversion H; subst. split; [reflexivity|]. intros _. split; reflexivity.
  - destruct r as [|e].
    + destruct xs as [|x xr].
      * destruct (IH _ _ H) as [He Hn]. split; [cbn [events map app]; exact He|].
        intros Hb. destruct (Hn Hb) as [Hs Hev]. split; [exact Hs|]. cbn [events map app]. exact Hev.
      * inversion H; subst. split; [cbn [events]; rewrite app_nil_l; reflexivity|]. intros Hb. discriminate Hb.
    + inversion H; subst. split; [cbn [events]; rewrite <- app_assoc; reflexivity|].
      intros Hb. apply app_eq_nil in Hb. destruct Hb as [_ Hb]. discriminate Hb.
Qed.
(* what next() hands out, then what is buffered, then what the source still has: nothing is lost, nothing comes twice *)
Theorem iter_conserves buf s o buf' s' :
  iter_next buf s = (o, buf', s') -> buf ++ events s = obs_events o ++ buf' ++ events s'.
Proof.
  unfold iter_next. intros H.
  destruct buf as [|b br].
  - destruct (iter_fill s) as [buf1 s1] eqn:E. destruct (iter_fill_events _ _ _ E) as [He _].
    cbn [app]. rewrite He. destruct buf1 as [|[x|e] r1]; inversion H; subst; reflexivity.
  - destruct b as [x|e]; inversion H; subst; reflexivity.
Qed.
(* None is returned only when nothing at all is left *)
Theorem iter_end s o buf' s' : iter_next [] s = (o, buf', s') -> snd o = REnd -> events s = [] /\ buf' = [] /\ s' = [].
Proof.
  unfold iter_next. intros H Hr. destruct (iter_fill s) as [buf1 s1] eqn:E.
  destruct (iter_fill_events _ _ _ E) as [He Hn].
  destruct buf1 as [|[x|e] r1]; inversion H; subst; cbn [snd] in Hr; try discriminate.
  destruct (Hn eq_refl) as [Hs Hev]. repeat split; assumption.
Qed.

(* ---- the filter adapters ---- *)
Lemma filter_from_all n xs : filter_from 0 n xs = (xs, n + N.of_nat (length xs)).
Proof.
  revert n. induction xs as [|x r IH]; intros n; cbn [filter_from length].
  - f_equal. lia.
  - rewrite IH. cbn [keep]. f_equal. lia.
Qed.
Theorem filter_all_identity : forall s n, filter_steps 0 n s = s.
Proof.
  induction s as [|[xs r] t IH]; intros n; cbn [filter_steps]; [reflexivity|].
  rewrite filter_from_all, IH. reflexivity.
Qed.
(* a filter never touches the errors nor the number of calls it takes to reach them *)
Theorem filter_keeps_errors k : forall s n, map snd (filter_steps k n s) = map snd s.
Proof.
  induction s as [|[xs r] t IH]; intros n; cbn [filter_steps]; [reflexivity|].
  destruct (filter_from k n xs) as [d n']. cbn [map snd]. rewrite IH. reflexivity.
Qed.
Lemma filter_from_none n xs : fst (filter_from 2 n xs) = [].
Proof.
  revert n. induction xs as [|x r IH]; intros n; cbn [filter_from]; [reflexivity|].
  specialize (IH (N.succ n)). destruct (filter_from 2 (N.succ n) r) as [d n']. cbn [keep fst] in *. exact IH.
Qed.
Theorem filter_none_no_statement : forall s n, remaining (filter_steps 2 n s) = 0.
Proof.
  unfold remaining. induction s as [|[xs r] t IH]; intros n; cbn [filter_steps]; [reflexivity|].
  pose proof (filter_from_none n xs) as Hn. destruct (filter_from 2 n xs) as [d n']. cbn [fst] in Hn. subst d.
  cbn [events map app]. destruct r; cbn [app count_stmts]; apply IH.
Qed.

(* ---- the checker accepts exactly what the model determines ---- *)
Lemma res_eqb_eq a b : res_eqb a b = true -> a = b.
Proof.
  destruct a, b; cbn [res_eqb]; intros H; try discriminate; try reflexivity.
  - apply N.eqb_eq in H. subst. reflexivity.
  - apply andb_prop in H. destruct H as [H1 H2]. apply N.eqb_eq in H1. subst.
    destruct hi, hi0; cbn [opt_eqb] in H2; try discriminate; [apply N.eqb_eq in H2; subst|]; reflexivity.
  - apply N.eqb_eq in H. subst. reflexivity.
Qed.
Lemma obs_eqb_eq a b : obs_eqb a b = true -> a = b.
Proof.
  destruct a as [d r], b as [d' r']. unfold obs_eqb; cbn [fst snd]. intros H. apply andb_prop in H. destruct H as [H1 H2].
  apply res_eqb_eq in H2. subst.
  assert (d = d') as ->; [|reflexivity].
  apply (list_eqb_spec N.eqb N.eqb_eq). exact H1.
Qed.
Theorem check_ops_sound atomic : forall ops s l st rest,
  forallb infallible ops = true -> check_ops atomic (Some s) ops l = (true, st, rest) ->
  exists l0, l = l0 ++ rest /\ run_ops atomic s ops = (l0, st).
Proof.
  induction ops as [|o r IH]; intros s l st rest Hf H; cbn [check_ops] in H.
  - inversion H; subst. exists []. split; reflexivity.
  - cbn [forallb] in Hf. apply andb_prop in Hf. destruct Hf as [Ho Hr].
    destruct l as [|ob l']; [discriminate|].
    cbn [check_op] in H. destruct (run_op atomic s o) as [e st1] eqn:E.
    destruct (run_op_events _ _ _ Ho _ _ E) as [x [s1 [He [Hs _]]]]. subst e st1.
    destruct (obs_eqb x ob) eqn:Eo; [|discriminate].
    apply obs_eqb_eq in Eo. subst ob.
    destruct (IH _ _ _ _ Hr H) as [l0 [Hl Hrun]]. exists (x :: l0). split; [cbn [app]; rewrite Hl; reflexivity|].
    cbn [run_ops]. rewrite E, Hrun. reflexivity.
Qed.
(* a history without failing sinks that the checker accepts has delivered, in order and exactly once, a prefix of what
   the required method delivers on a fresh source; what is left is what the source still holds *)
Theorem hist_ok_conserves atomic s pre l :
  forallb infallible pre = true -> hist_ok atomic s pre FNone [] l = true ->
  exists s', events s = flat_map obs_events l ++ events s'.
Proof.
  intros Hf H. unfold hist_ok in H. destruct (check_ops atomic (Some s) pre l) as [[ok st] rest] eqn:E.
  apply andb_prop in H. destruct H as [Hok Hn]. subst ok. cbn [nil] in Hn.
  destruct rest; [|discriminate].
  destruct (check_ops_sound _ _ _ _ _ _ Hf E) as [l0 [Hl Hrun]]. rewrite app_nil_r in Hl. subst l0.
  destruct (history_conserves _ _ _ _ _ Hf Hrun) as [s' [_ Hev]]. exists s'. exact Hev.
Qed.

(* ---- examples: a source whose only step is an error (a failed JSON-LD parse) ---- *)
Example failed_parse_driven_twice :
  (* try_for_each_* gives the error once, then Ok(()); asking again, item-wise or in bulk, gives nothing more *)
  hist_ok true [([], SFail 7)] [OEach None; OEach None; OSome false; OHint; OEach (Some 0)] FNone []
          [([], RSrcErr 7); ([], RDone); ([], REnd); ([], RHint 0 (Some 0)); ([], RDone)] = true
  (* a second error, a panic, or statements out of nowhere are refused *)
  /\ hist_ok true [([], SFail 7)] [OEach None; OEach None] FNone [] [([], RSrcErr 7); ([], RSrcErr 7)] = false
  /\ hist_ok true [([], SFail 7)] [OEach None; OEach None] FNone [] [([], RSrcErr 7); ([], RPanic)] = false
  /\ hist_ok true [([], SFail 7)] [OEach None; OSome false] FNone [] [([], RSrcErr 7); ([1], RMore)] = false
  (* a size hint that promises statements an exhausted source does not have *)
  /\ hist_ok true [([], SFail 7)] [OEach None; OHint] FNone [] [([], RSrcErr 7); ([], RHint 1 None)] = false.
Proof. repeat split; vm_compute; reflexivity. Qed.
Example statements_errors_and_adapters :
  let s := [([1], SMore); ([], SFail 9); ([2; 3], SMore); ([4], SFail 8); ([5], SMore)] in
  (* a failing sink, then a drain across two errors *)
  hist_ok false s [OSome false; OEach (Some 1)] FNone [] [([1], RMore); ([], RSrcErr 9)] = true
  /\ hist_ok false s [OEach None; OEach None; OEach None; OEach None] FNone []
       [([1], RSrcErr 9); ([2; 3; 4], RSrcErr 8); ([5], RDone); ([], RDone)] = true
  (* collect after the first error: the second error empties the collection *)
  /\ hist_ok false s [OEach None] FCollect [] [([1], RSrcErr 9); ([], RSrcErr 8)] = true
  /\ hist_ok false s [OEach None; OEach None] FAddTo [] [([1], RSrcErr 9); ([2; 3; 4], RSrcErr 8); ([5], RCount 1)] = true
  (* the iterator flattens the steps and goes on after an error *)
  /\ hist_ok false s [] FIter [OSome false; OSome false; OSome false; OSome false; OSome false; OSome false; OSome false; OSome false; OSome false]
       [([1], RMore); ([], RSrcErr 9); ([2], RMore); ([3], RMore); ([4], RMore); ([], RSrcErr 8); ([5], RMore); ([], REnd); ([], REnd)] = true
  (* keeping every second item *)
  /\ hist_ok false s [] (FFilter 1) [OEach None; OEach None; OEach None] [([1], RSrcErr 9); ([3], RSrcErr 8); ([5], RDone)] = true
  /\ hist_ok false s [] (FFilter 1) [OEach None] [([1; 2], RSrcErr 9)] = false.
Proof. repeat split; vm_compute; reflexivity. Qed.
