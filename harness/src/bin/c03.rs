//! C03: N-Triples / N-Quads serialisation round-trips every dataset exactly.
//!
//! Streams of cases, all derived from --seed:
//!  * dataset (about 67 %): a list of well-formed strict / RDF-star quads with nasty lexical forms,
//!    labels, tags, IRIs and graph names is serialised with sophia's NqSerializer / NtSerializer;
//!    ORACLE (plain Rust, independent of the model): sophia's parsers (nq, gnq, nt) read the text
//!    back to exactly the same quads (tags up to ASCII case), the text has one LF per quad, no CR,
//!    and every line on its own parses to the corresponding quad;
//!    Coq: `case_ok` = well-formed per the Coq predicate, model writer bytes == implementation
//!    bytes, reference reader reads the implementation's bytes back to the same quads.
//!    WIDENED: the text is produced through EVERY public way of writing (stringifier / any
//!    io::Write incl. one that takes a few bytes per call and one that fails, serialize_dataset /
//!    serialize_graph on Vec, slice, & and &mut, serialize_quads / serialize_triples on iterator
//!    sources, several calls on one serialiser, configs built with set_ascii, the public
//!    write_triple / write_term by hand, quads made of Rio's model types behind `Trusted`, parser
//!    piped into serialiser); one way, drawn from the seed, gives the bytes that go to the oracle
//!    and to Coq, all the others must give the same bytes.  The text is read back through every
//!    public way of reading (parse_bufread / parse_str / Parser::parse on readers with tiny
//!    buffers / parse_str of the trait; for_each, try_for_each with to_spog, step by step with
//!    to_s/to_p/to_o/to_g, collect, add_to, a sink that fails once and resumes); every accessor of
//!    every term the parsers hand out is compared with the others (`view`).
//!  * generalized (about 8 %): any term (variables included) at any position; written by the same
//!    serialisers, read back by the generalised parser (ORACLE); Coq: `gen_case_ok`.
//!  * w3c-label (about 5 %): labels legal for the W3C grammar but refused by BnodeId::new
//!    (consecutive dots, ':'), built unchecked; Coq side only (Rio's verdict is tallied).
//!  * reader (about 17 %): hand-formatted N-Quads text with ECHAR / UCHAR escapes, white space,
//!    comments, CRLF, possibly one mutation making it malformed; sophia's parser and the Coq
//!    reference reader must agree (same quads, or both reject): validates the reference reader.
//!    All the ways of reading must agree with each other on these texts too.
//!  STRENGTHENED (next to the random streams):
//!  * bulk (directed, one case in 81): datasets of 30..700 statements, texts of 3..70 KiB (sizes in
//!    turn, on both sides of 4 / 8 / 16 / 32 / 64 KiB), one in four with a single lexical form half as
//!    long as the text; checked like any dataset case (oracle + Coq), one in three also repeated up to
//!    0.3..1.1 MB (oracle only).
//!  * io::Write probes (every dataset / generalized / lax case: 3, bulk: 10 per format): a target
//!    described by data -- bytes taken per call (fixed sizes 1..65536, half, all but one, in turn),
//!    interrupted calls, a total budget after which it fails or answers Ok(0) -- handed over by value,
//!    by &mut, boxed, behind BufWriter (3 capacities) or LineWriter (+ flush).  ORACLE: the target has
//!    received exactly the first min(budget, len) bytes of THE text, already when serialize_* returns
//!    for unbuffered wrappers; success iff everything fitted; failures are sink errors.  Coq:
//!    `sinks_ok` (model of write_all over such targets, coq/C03/Adapters.v).
//!  * Source adapters (every way of reading, every parser, dataset and reader streams): map_* /
//!    filter_map_* + into_iter (size_hint checked), filter_* (keep all; even / odd halves merged),
//!    the adapter as a Source, the iterator as a Source, to_triples / to_quads, for_some_* loops,
//!    indexed stores of sophia_inmem (as sets).  The behaviour of the adapters is also reduced to
//!    numbers (trace of the calls of for_some_*, numbers of the statements that come out of the
//!    iterators) and compared with the Coq model of api/src/source/{filter,filter_map,map}.rs
//!    (`trace_ok`, `iter_trace_ok`, `each_trace_ok`).
use rio_api::model as rm;
use rio_api::model::{GeneralizedQuad, GeneralizedTerm, Variable};
use sophia_api::parser::{QuadParser, TripleParser};
use sophia_api::prelude::*;
use sophia_api::quad::Spog;
use sophia_api::serializer::{QuadSerializer, Stringifier, TripleSerializer};
use sophia_api::source::{QuadSource, Source, StreamError, TripleSource};
use sophia_api::term::{BnodeId, LanguageTag, Term, TermKind};
use sophia_rio::model::Trusted;
use sophia_turtle::parser::{gnq, gnq::GNQuadsParser, nq, nq::NQuadsParser, nt, nt::NTriplesParser};
use sophia_turtle::serializer::nt::{write_term, write_triple, NtConfig};
use sophia_turtle::serializer::{nq::NqConfig, nq::NqSerializer, nt::NtSerializer};
use std::convert::Infallible;
use std::io;
use verif_harness::*;

#[derive(Clone, Debug, PartialEq)]
enum T { Iri(String), B(String), Lit(String, String), Lang(String, String), Tr(Box<[T; 3]>), Var(String) }
type Q = (T, T, T, Option<T>);

fn to_st(t: &T) -> ST {
    match t {
        T::Iri(s) => iri(s),
        T::B(s) => bnode(s),
        T::Lit(l, d) => lit_dt(l, d),
        T::Lang(l, g) => lit_lang(l, g),
        T::Tr(b) => triple(to_st(&b[0]), to_st(&b[1]), to_st(&b[2])),
        T::Var(s) => var(s),
    }
}
fn from_term<X: Term>(x: X) -> T {
    match x.kind() {
        TermKind::Iri => T::Iri(x.iri().unwrap().as_str().to_string()),
        TermKind::BlankNode => T::B(x.bnode_id().unwrap().as_str().to_string()),
        TermKind::Literal => match x.language_tag() {
            Some(tag) => T::Lang(x.lexical_form().unwrap().to_string(), tag.as_str().to_string()),
            None => T::Lit(x.lexical_form().unwrap().to_string(), x.datatype().unwrap().as_str().to_string()),
        },
        TermKind::Triple => { let [s, p, o] = x.triple().unwrap(); T::Tr(Box::new([from_term(s), from_term(p), from_term(o)])) }
        TermKind::Variable => T::Var(x.variable().unwrap().as_str().to_string()),
    }
}
/// exact equality, except language tags up to ASCII case
fn same(a: &T, b: &T) -> bool {
    match (a, b) {
        (T::Lang(l1, g1), T::Lang(l2, g2)) => l1 == l2 && g1.eq_ignore_ascii_case(g2),
        (T::Tr(x), T::Tr(y)) => (0..3).all(|i| same(&x[i], &y[i])),
        (T::Lang(..), _) | (T::Tr(_), _) => false,
        _ => a == b,
    }
}
fn same_q(a: &Q, b: &Q) -> bool {
    same(&a.0, &b.0) && same(&a.1, &b.1) && same(&a.2, &b.2) && match (&a.3, &b.3) { (None, None) => true, (Some(x), Some(y)) => same(x, y), _ => false }
}
fn same_qs(a: &[Q], b: &[Q]) -> bool { a.len() == b.len() && a.iter().zip(b).all(|(x, y)| same_q(x, y)) }
/// Coq's front end overflows its stack on list literals of a few ten thousand elements: long lists
/// are written as the concatenation of pieces of CHUNK elements
const CHUNK: usize = 2000;
fn chunked(items: Vec<String>) -> String {
    if items.len() <= 2 * CHUNK { return coq_list(items); }
    format!("(concat {})", coq_list(items.chunks(CHUNK).map(|c| coq_list(c.iter().cloned()))))
}
fn cstr(s: &str) -> String { chunked(s.chars().map(|c| (c as u32).to_string()).collect()) }
fn cbytes(b: &[u8]) -> String { chunked(b.iter().map(|c| c.to_string()).collect()) }
fn c_term(t: &T) -> String {
    match t {
        T::Iri(s) => format!("(Iri {})", cstr(s)),
        T::B(s) => format!("(Bnode {})", cstr(s)),
        T::Lit(l, d) => format!("(LitDt {} {})", cstr(l), cstr(d)),
        T::Lang(l, g) => format!("(LitLang {} {})", cstr(l), cstr(g)),
        T::Tr(b) => format!("(Triple {} {} {})", c_term(&b[0]), c_term(&b[1]), c_term(&b[2])),
        T::Var(s) => format!("(Var {})", cstr(s)),
    }
}
/// expected quads are printed from the plain data; `coq_term` of the harness lib prints the sophia
/// terms actually handed to the serialiser (checked equal below)
fn c_quad(q: &Q) -> String {
    format!("({}, {}, {}, {})", c_term(&q.0), c_term(&q.1), c_term(&q.2), coq_opt(q.3.as_ref().map(c_term)))
}
fn c_quads(qs: &[Q]) -> String { coq_list(qs.iter().map(c_quad)) }
fn show(t: &T) -> String {
    match t { T::Iri(s) => format!("<{s}>"), T::B(s) => format!("_:{s}"), T::Lit(l, d) => format!("{l:?}^^<{d}>"), T::Lang(l, g) => format!("{l:?}@{g}"), T::Tr(b) => format!("<<{} {} {}>>", show(&b[0]), show(&b[1]), show(&b[2])), T::Var(s) => format!("?{s}") }
}
fn show_q(q: &Q) -> String { format!("{} {} {} {}", show(&q.0), show(&q.1), show(&q.2), q.3.as_ref().map(show).unwrap_or("(default graph)".into())) }

// ---------- parsing with sophia ----------
fn parse_nq(bytes: &[u8]) -> Result<Vec<Q>, String> {
    let mut out = vec![];
    sophia_turtle::parser::nq::parse_bufread(bytes).for_each_quad(|q| out.push((from_term(q.s()), from_term(q.p()), from_term(q.o()), q.g().map(from_term)))).map_err(|e| e.to_string())?;
    Ok(out)
}
fn parse_gnq(bytes: &[u8]) -> Result<Vec<Q>, String> {
    let mut out = vec![];
    sophia_turtle::parser::gnq::parse_bufread(bytes).for_each_quad(|q| out.push((from_term(q.s()), from_term(q.p()), from_term(q.o()), q.g().map(from_term)))).map_err(|e| e.to_string())?;
    Ok(out)
}
fn parse_nt(bytes: &[u8]) -> Result<Vec<Q>, String> {
    let mut out = vec![];
    sophia_turtle::parser::nt::parse_bufread(bytes).for_each_triple(|t| out.push((from_term(t.s()), from_term(t.p()), from_term(t.o()), None))).map_err(|e| e.to_string())?;
    Ok(out)
}

// ---------- every accessor of a term, compared with the others ----------
const RDF_LANGSTRING: &str = "http://www.w3.org/1999/02/22-rdf-syntax-ns#langString";
const XSD_STRING: &str = "http://www.w3.org/2001/XMLSchema#string";
/// The plain image of `x` built from kind() and the accessors of that kind, after checking that
/// all the OTHER accessors answer None, that a language-tagged string has datatype
/// rdf:langString, and that borrow_term(), to_triple(), into_term() and Term::eq show the same
/// term.  Problems are pushed on `errs`.
fn view<X: Term>(x: X, errs: &mut Vec<String>) -> T {
    let k = x.kind();
    let mut missing = |what: &str| { errs.push(format!("{what}() is None for a term of kind {k:?}")); String::new() };
    let t = match k {
        TermKind::Iri => T::Iri(x.iri().map(|i| i.as_str().to_string()).unwrap_or_else(|| missing("iri"))),
        TermKind::BlankNode => T::B(x.bnode_id().map(|i| i.as_str().to_string()).unwrap_or_else(|| missing("bnode_id"))),
        TermKind::Variable => T::Var(x.variable().map(|i| i.as_str().to_string()).unwrap_or_else(|| missing("variable"))),
        TermKind::Literal => {
            let lex = x.lexical_form().map(|l| l.to_string()).unwrap_or_else(|| missing("lexical_form"));
            match x.language_tag() {
                Some(tag) => T::Lang(lex, tag.as_str().to_string()),
                None => T::Lit(lex, x.datatype().map(|i| i.as_str().to_string()).unwrap_or_else(|| missing("datatype"))),
            }
        }
        TermKind::Triple => match x.triple() {
            Some([s, p, o]) => T::Tr(Box::new([view(s, errs), view(p, errs), view(o, errs)])),
            None => { errs.push("triple() is None for a term of kind Triple".into()); T::Iri(String::new()) }
        },
    };
    let table = [
        ("iri", x.iri().is_some(), k == TermKind::Iri),
        ("bnode_id", x.bnode_id().is_some(), k == TermKind::BlankNode),
        ("variable", x.variable().is_some(), k == TermKind::Variable),
        ("lexical_form", x.lexical_form().is_some(), k == TermKind::Literal),
        ("datatype", x.datatype().is_some(), k == TermKind::Literal),
        ("language_tag", x.language_tag().is_some(), matches!(t, T::Lang(..))),
        ("triple", x.triple().is_some(), k == TermKind::Triple),
        ("to_triple", x.borrow_term().to_triple().is_some(), k == TermKind::Triple),
    ];
    for (name, some, want) in table {
        if some != want { errs.push(format!("{name}() is {} for the term {} of kind {k:?}", if some { "Some" } else { "None" }, show(&t))); }
    }
    if let T::Lang(..) = &t {
        match x.datatype() {
            Some(d) if d.as_str() == RDF_LANGSTRING => {}
            other => errs.push(format!("datatype() of the language-tagged string {} is {:?}", show(&t), other.map(|d| d.as_str().to_string()))),
        }
    }
    let b = x.borrow_term();
    if b.kind() != k { errs.push(format!("borrow_term() of {} has kind {:?}, the term has kind {k:?}", show(&t), b.kind())); }
    else {
        let tb = from_term(b);
        if tb != t { errs.push(format!("borrow_term() of {} shows {}", show(&t), show(&tb))); }
        if let Some([s, p, o]) = x.borrow_term().to_triple() {
            let tt = T::Tr(Box::new([from_term(s), from_term(p), from_term(o)]));
            if tt != t { errs.push(format!("to_triple() of {} shows {}", show(&t), show(&tt))); }
        }
        let st: ST = x.borrow_term().into_term();
        let ts = from_term(&st);
        if ts != t { errs.push(format!("into_term() of {} gives {}", show(&t), show(&ts))); }
        if !Term::eq(&x, st.borrow_term()) { errs.push(format!("Term::eq of {} and its own copy is false", show(&t))); }
    }
    t
}

// ---------- every public way of reading ----------
type Rd = Result<Vec<Q>, String>;
fn finish(out: Vec<Q>, errs: Vec<String>) -> Rd { if errs.is_empty() { Ok(out) } else { Err(format!("INCONSISTENT TERM VIEW: {}", errs.join("; "))) } }
const READ_MODES: &[&str] = &["for_each+s/p/o/g", "try_for_each+to_spog", "step-by-step+to_s/to_p/to_o/to_g", "collect", "add_to", "failing-sink",
    "map_*+into_iter", "filter_map_*(keep all)+into_iter", "filter_*(keep all)+for_each", "filter_*(even | odd numbers)+for_each, merged", "map_*+for_each_item(the adapter as a Source)",
    "map_*+into_iter+try_for_each_item(the iterator as a Source)", "filter_map_*(even | odd numbers)+into_iter, merged", "to_triples+graph names apart | to_quads", "for_some_*(loop)",
    "filter_*(keep all)+map_*+into_iter", "collect into sophia_inmem (as a set)"];
const M_FAILING_SINK: usize = 5;
fn qview<X: Quad>(q: &X, e: &mut Vec<String>) -> Q { (view(q.s(), e), view(q.p(), e), view(q.o(), e), q.g().map(|g| view(g, e))) }
fn tview<X: Triple>(t: &X, e: &mut Vec<String>) -> Q { (view(t.s(), e), view(t.p(), e), view(t.o(), e), None) }
/// even-numbered and odd-numbered items back into one list
fn interleave(mut halves: Vec<Vec<Q>>) -> Rd {
    let b = halves.pop().unwrap(); let a = halves.pop().unwrap();
    if !(a.len() == b.len() || a.len() == b.len() + 1) { return Err(format!("keeping the even-numbered statements gives {} of them, keeping the odd-numbered ones gives {}: {a:?} / {b:?}", a.len(), b.len())); }
    let mut out = vec![]; let (mut ia, mut ib) = (a.into_iter(), b.into_iter());
    loop { match ia.next() { Some(x) => out.push(x), None => break } match ib.next() { Some(x) => out.push(x), None => break } }
    Ok(out)
}
/// drain an iterator of results, checking its size_hint against what it really yields
fn drain<X, E: std::fmt::Display>(mut it: impl Iterator<Item = Result<X, E>>, limit: usize) -> Result<Vec<X>, String> {
    let (lo, hi) = it.size_hint();
    let mut v = vec![];
    while let Some(r) = it.next() { v.push(r.map_err(|e| e.to_string())?); if v.len() > limit { return Err(format!("the iterator yields more than {limit} items")); } }
    if lo > v.len() || hi.is_some_and(|h| h < v.len()) { return Err(format!("size_hint() was ({lo}, {hi:?}) and the iterator yielded {} items", v.len())); }
    Ok(v)
}
const ITER_LIMIT: usize = 1_000_000;
/// the ways of reading that go through the adapters of `Source` (filter / filter_map / map) and
/// the iterators built on them; the same code for quad and triple sources
macro_rules! adapter_modes {
    ($fname:ident, $bound:ident, $view:ident, $map:ident, $filter:ident, $filter_map:ident, $for_each:ident, $for_some:ident) => {
        fn $fname<S: $bound, F: Fn() -> S>(mk: &F, mode: usize, _k: usize) -> Rd {
            let mut out: Vec<Q> = vec![];
            let mut errs: Vec<String> = vec![];
            match mode {
                6 => for (b, e) in drain(mk().$map(|q| { let mut e = vec![]; let b = $view(&q, &mut e); (b, e) }).into_iter(), ITER_LIMIT)? { out.push(b); errs.extend(e); },
                7 => for (b, e) in drain(mk().$filter_map(|q| { let mut e = vec![]; let b = $view(&q, &mut e); Some((b, e)) }).into_iter(), ITER_LIMIT)? { out.push(b); errs.extend(e); },
                8 => mk().$filter(|_q| true).$for_each(|q| out.push($view(&q, &mut errs))).map_err(|e| e.to_string())?,
                9 => {
                    let mut halves = vec![];
                    for par in 0..2usize { let mut i = 0usize; let mut h = vec![]; mk().$filter(move |_q| { let keep = i % 2 == par; i += 1; keep }).$for_each(|q| h.push($view(&q, &mut errs))).map_err(|e| e.to_string())?; halves.push(h); }
                    out = interleave(halves)?;
                }
                10 => mk().$map(|q| { let mut e = vec![]; let b = $view(&q, &mut e); (b, e) }).for_each_item(|(b, e)| { out.push(b); errs.extend(e); }).map_err(|e| e.to_string())?,
                11 => {
                    let mut it = mk().$map(|q| { let mut e = vec![]; let b = $view(&q, &mut e); (b, e) }).into_iter();
                    it.try_for_each_item(|(b, e)| -> Result<(), MyErr> { out.push(b); errs.extend(e); Ok(()) }).map_err(|e| e.to_string())?;
                    if it.next().is_some() { return Err("the iterator consumed as a Source to its end still yields an item".into()); }
                }
                12 => {
                    let mut halves = vec![];
                    for par in 0..2usize {
                        let mut i = 0usize; let mut h = vec![];
                        for (b, e) in drain(mk().$filter_map(move |q| { let keep = i % 2 == par; i += 1; if keep { let mut e = vec![]; let b = $view(&q, &mut e); Some((b, e)) } else { None } }).into_iter(), ITER_LIMIT)? { h.push(b); errs.extend(e); }
                        halves.push(h);
                    }
                    out = interleave(halves)?;
                }
                14 => { let mut src = mk(); let mut rounds = 0usize; loop { let more = src.$for_some(|q| out.push($view(&q, &mut errs))).map_err(|e| e.to_string())?; if !more { break; } rounds += 1; if rounds > ITER_LIMIT { return Err("the source never answers Ok(false)".into()); } } }
                15 => for (b, e) in drain(mk().$filter(|_q| true).$map(|q| { let mut e = vec![]; let b = $view(&q, &mut e); (b, e) }).into_iter(), ITER_LIMIT)? { out.push(b); errs.extend(e); },
                _ => unreachable!(),
            }
            finish(out, errs)
        }
    };
}
adapter_modes!(adapter_quads, QuadSource, qview, map_quads, filter_quads, filter_map_quads, for_each_quad, for_some_quad);
adapter_modes!(adapter_triples, TripleSource, tview, map_triples, filter_triples, filter_map_triples, for_each_triple, for_some_triple);
/// What the adapters do, reduced to NUMBERS (for the Coq model of api/src/source/*.rs, and for the
/// oracle): the trace of the source (items delivered and answer of every call of for_some_*, three
/// more calls after the first Ok(false)), and the numbers of the statements that come out of
/// map_* + into_iter, filter_map_*(keep m) + into_iter and filter_*(keep m) + for_each_*.
/// keep m: everything if m == 0, else the statements whose number is not a multiple of m.
struct AdapterObs { trace: Vec<(usize, u8)>, map_iter: (Vec<usize>, bool), fm_iter: (Vec<usize>, bool), filter_each: (Vec<usize>, bool), m: usize }
const A_MORE: u8 = 0; const A_DONE: u8 = 1; const A_BROKE: u8 = 2;
fn keep_m(m: usize, i: usize) -> bool { m == 0 || i % m != 0 }
fn drain_numbers<E>(it: impl Iterator<Item = Result<usize, E>>) -> (Vec<usize>, bool) {
    let mut v = vec![];
    for r in it { match r { Ok(i) => v.push(i), Err(_) => return (v, false) } if v.len() > ITER_LIMIT { break; } }
    (v, true)
}
macro_rules! adapter_obs {
    ($fname:ident, $bound:ident, $map:ident, $filter:ident, $filter_map:ident, $for_each:ident, $for_some:ident) => {
        fn $fname<S: $bound, F: Fn() -> S>(mk: &F, m: usize) -> AdapterObs {
            let mut trace = vec![];
            let mut src = mk(); let mut after = 0;
            loop {
                let mut n = 0usize;
                match src.$for_some(|_q| n += 1) {
                    Ok(true) => trace.push((n, A_MORE)),
                    Ok(false) => { trace.push((n, A_DONE)); after += 1; if after == 4 { break; } }
                    Err(_) => { trace.push((n, A_BROKE)); break; }
                }
                if trace.len() > ITER_LIMIT { break; }
            }
            let mut i = 0usize;
            let map_iter = drain_numbers(mk().$map(move |_q| { i += 1; i - 1 }).into_iter());
            let mut i = 0usize;
            let fm_iter = drain_numbers(mk().$filter_map(move |_q| { i += 1; if keep_m(m, i - 1) { Some(i - 1) } else { None } }).into_iter());
            let ctr = std::cell::Cell::new(0usize);
            let mut got = vec![];
            let ok = mk().$filter(|_q| { ctr.set(ctr.get() + 1); keep_m(m, ctr.get() - 1) }).$for_each(|_q| got.push(ctr.get() - 1)).is_ok();
            AdapterObs { trace, map_iter, fm_iter, filter_each: (got, ok), m }
        }
    };
}
adapter_obs!(obs_quads, QuadSource, map_quads, filter_quads, filter_map_quads, for_each_quad, for_some_quad);
adapter_obs!(obs_triples, TripleSource, map_triples, filter_triples, filter_map_triples, for_each_triple, for_some_triple);
fn count_quads<S: QuadSource>(mut s: S) -> (usize, bool) { let mut n = 0; let ok = s.for_each_quad(|_q| n += 1).is_ok(); (n, ok) }
fn count_triples<S: TripleSource>(mut s: S) -> (usize, bool) { let mut n = 0; let ok = s.for_each_triple(|_q| n += 1).is_ok(); (n, ok) }
impl AdapterObs {
    /// the ORACLE on the numbers: `n` statements read plainly (`ok`: without error) => the iterators
    /// hand out 0..n (resp. the kept ones), in order, and end the same way
    fn oracle(&self, n: usize, ok: bool) -> Vec<String> {
        let mut f = vec![];
        let all: Vec<usize> = (0..n).collect();
        let kept: Vec<usize> = (0..n).filter(|i| keep_m(self.m, *i)).collect();
        if self.map_iter != (all.clone(), ok) { f.push(format!("map_* + into_iter yields the statements numbered {:?} (ends without error: {}) of the {n} statements (read without error: {ok})", self.map_iter.0, self.map_iter.1)); }
        if self.fm_iter != (kept.clone(), ok) { f.push(format!("filter_map_*(all but the multiples of {}) + into_iter yields the statements numbered {:?} (ends without error: {}) of the {n} statements (read without error: {ok})", self.m, self.fm_iter.0, self.fm_iter.1)); }
        if self.filter_each != (kept, ok) { f.push(format!("filter_*(all but the multiples of {}) + for_each_* delivers the statements numbered {:?} (ends without error: {}) of the {n} statements (read without error: {ok})", self.m, self.filter_each.0, self.filter_each.1)); }
        let delivered: usize = { let mut t = 0; for (k, a) in &self.trace { t += k; if *a != A_MORE { break; } } t };
        if delivered != n { f.push(format!("calling for_some_* until it answers Ok(false) or fails delivers {delivered} statements, for_each_* {n}; trace {:?}", self.trace)); }
        if let Some(p) = self.trace.iter().position(|(_, a)| *a == A_DONE) { if self.trace[p + 1..].iter().any(|x| *x != (0, A_DONE)) { f.push(format!("the source goes on after having answered Ok(false): trace {:?}", self.trace)); } }
        f
    }
    fn coq(&self, n: usize) -> String {
        let tr = coq_list(self.trace.iter().map(|(k, a)| format!("({k}, {})", ["More", "Done", "Broke"][*a as usize])));
        let nums = |v: &Vec<usize>| coq_list(v.iter().map(|i| i.to_string()));
        format!("(let tr := {tr} in trace_ok tr {n} && iter_trace_ok 0 tr {} {} && iter_trace_ok {} tr {} {} && each_trace_ok {} tr {} {})",
            nums(&self.map_iter.0), coq_bool(self.map_iter.1), self.m, nums(&self.fm_iter.0), coq_bool(self.fm_iter.1), self.m, nums(&self.filter_each.0), coq_bool(self.filter_each.1))
    }
}
/// lower-cased-tag rendering of a statement, for set comparisons (indexed stores fold tag case)
fn key_q(q: &Q) -> String { fn lc(t: &T) -> T { match t { T::Lang(l, g) => T::Lang(l.clone(), g.to_ascii_lowercase()), T::Tr(b) => T::Tr(Box::new([lc(&b[0]), lc(&b[1]), lc(&b[2])])), x => x.clone() } } format!("{:?}", (lc(&q.0), lc(&q.1), lc(&q.2), q.3.as_ref().map(lc))) }
/// consume a quad source in the way number `mode`; `k` varies the details
fn consume_quads<S: QuadSource, F: Fn() -> S>(mk: &F, mode: usize, k: usize) -> Rd {
    let mut out: Vec<Q> = vec![];
    let mut errs: Vec<String> = vec![];
    if matches!(mode, 6..=12 | 14 | 15) { return adapter_quads(mk, mode, k); }
    if mode == 13 {
        // the triples through to_triples(), the graph names in a second pass
        let mut spo = vec![]; mk().to_triples().for_each_triple(|t| spo.push(tview(&t, &mut errs))).map_err(|e| e.to_string())?;
        let mut gs = vec![]; mk().for_each_quad(|q| gs.push(q.g().map(|g| view(g, &mut errs)))).map_err(|e| e.to_string())?;
        if spo.len() != gs.len() { return Err(format!("to_triples() delivers {} triples, the source itself {} quads", spo.len(), gs.len())); }
        return finish(spo.into_iter().zip(gs).map(|(t, g)| (t.0, t.1, t.2, g)).collect(), errs);
    }
    if mode == 16 {
        // an indexed store is a set: the statements it holds are those of the plain reading, as a set
        use std::collections::BTreeSet;
        let plain = consume_quads(mk, 0, k)?;
        let d: sophia_inmem::dataset::LightDataset = mk().collect_quads().map_err(|e| e.to_string())?;
        let mut got = BTreeSet::new();
        for q in d.quads() { let q = q.map_err(|e| e.to_string())?; got.insert(key_q(&qview(&q, &mut errs))); }
        let want: BTreeSet<String> = plain.iter().map(key_q).collect();
        if got != want { return Err(format!("collected into a LightDataset: {got:?}; read plainly: {want:?}")); }
        let mut f = sophia_inmem::dataset::FastDataset::new();
        let n = mk().add_to_dataset(&mut f).map_err(|e| e.to_string())?;
        if n != want.len() || f.quads().count() != want.len() { return Err(format!("add_to_dataset(FastDataset) returned {n}, the store holds {} quads, the text has {} distinct ones", f.quads().count(), want.len())); }
        return finish(plain, errs);
    }
    let mut src = mk();
    match mode {
        0 => src.for_each_quad(|q| { let e = &mut errs; out.push((view(q.s(), e), view(q.p(), e), view(q.o(), e), q.g().map(|g| view(g, e)))) }).map_err(|e| e.to_string())?,
        1 => src.try_for_each_quad(|q| -> Result<(), MyErr> { let e = &mut errs; let ([s, p, o], g) = q.to_spog(); out.push((view(s, e), view(p, e), view(o, e), g.map(|g| view(g, e)))); Ok(()) }).map_err(|e| e.to_string())?,
        2 => loop {
            let more = src.try_for_some_quad(|q| -> Result<(), MyErr> {
                let e = &mut errs;
                let mut b = (view(q.s(), e), view(q.p(), e), view(q.o(), e), q.g().map(|g| view(g, e)));
                match (out.len() + k) % 4 {
                    0 => { let v = view(q.to_s(), e); if v != b.0 { e.push(format!("to_s() shows {}, s() shows {}", show(&v), show(&b.0))); } b.0 = v; }
                    1 => { let v = view(q.to_p(), e); if v != b.1 { e.push(format!("to_p() shows {}, p() shows {}", show(&v), show(&b.1))); } b.1 = v; }
                    2 => { let v = view(q.to_o(), e); if v != b.2 { e.push(format!("to_o() shows {}, o() shows {}", show(&v), show(&b.2))); } b.2 = v; }
                    _ => { let v = q.to_g().map(|g| view(g, e)); if v != b.3 { e.push(format!("to_g() shows {:?}, g() shows {:?}", v.as_ref().map(show), b.3.as_ref().map(show))); } b.3 = v; }
                }
                out.push(b);
                Ok(())
            }).map_err(|e| e.to_string())?;
            if !more { break; }
        },
        3 => { let d: Vec<Spog<ST>> = src.collect_quads().map_err(|e| e.to_string())?; out = d.iter().map(|q| (from_term(&q.0[0]), from_term(&q.0[1]), from_term(&q.0[2]), q.1.as_ref().map(from_term))).collect(); }
        4 => {
            let mut d: Vec<Spog<ST>> = vec![];
            let n = src.add_to_dataset(&mut d).map_err(|e| e.to_string())?;
            if n != d.len() { return Err(format!("add_to_dataset returned {n} for {} quads", d.len())); }
            out = d.iter().map(|q| (from_term(&q.0[0]), from_term(&q.0[1]), from_term(&q.0[2]), q.1.as_ref().map(from_term))).collect();
        }
        _ => {
            // the sink fails on quad number k (after taking it); the failure must come back as
            // SinkError with the sink's own value, at once.  The result is the quads delivered so far
            // (the caller compares them with the first k+1 quads of the whole document)
            let mut n = 0usize;
            let res = src.try_for_each_quad(|q| -> Result<(), MyErr> { let e = &mut errs; out.push((view(q.s(), e), view(q.p(), e), view(q.o(), e), q.g().map(|g| view(g, e)))); n += 1; if n == k + 1 { Err(MyErr(k as u64)) } else { Ok(()) } });
            match res {
                Ok(()) => if out.len() > k { return Err(format!("the sink failed on quad {k} and the source reported success")); },
                Err(StreamError::SinkError(MyErr(c))) => {
                    if c != k as u64 || out.len() != k + 1 { return Err(format!("the sink failed on quad {k} with MyErr({k}); got SinkError(MyErr({c})) after {} quads", out.len())); }
                }
                Err(StreamError::SourceError(e)) => return Err(e.to_string()),
            }
        }
    }
    finish(out, errs)
}
fn consume_triples<S: TripleSource, F: Fn() -> S>(mk: &F, mode: usize, k: usize) -> Rd {
    let mut out: Vec<Q> = vec![];
    let mut errs: Vec<String> = vec![];
    if matches!(mode, 6..=12 | 14 | 15) { return adapter_triples(mk, mode, k); }
    if mode == 13 { return consume_quads(&|| mk().to_quads(), (k + 1) % 2, k); }
    if mode == 16 {
        use std::collections::BTreeSet;
        let plain = consume_triples(mk, 0, k)?;
        let d: sophia_inmem::graph::LightGraph = mk().collect_triples().map_err(|e| e.to_string())?;
        let mut got = BTreeSet::new();
        for t in d.triples() { let t = t.map_err(|e| e.to_string())?; got.insert(key_q(&tview(&t, &mut errs))); }
        let want: BTreeSet<String> = plain.iter().map(key_q).collect();
        if got != want { return Err(format!("collected into a LightGraph: {got:?}; read plainly: {want:?}")); }
        let mut f = sophia_inmem::graph::FastGraph::new();
        let n = mk().add_to_graph(&mut f).map_err(|e| e.to_string())?;
        if n != want.len() || f.triples().count() != want.len() { return Err(format!("add_to_graph(FastGraph) returned {n}, the store holds {} triples, the text has {} distinct ones", f.triples().count(), want.len())); }
        return finish(plain, errs);
    }
    let mut src = mk();
    match mode {
        0 => src.for_each_triple(|q| { let e = &mut errs; out.push((view(q.s(), e), view(q.p(), e), view(q.o(), e), None)) }).map_err(|e| e.to_string())?,
        1 => src.try_for_each_triple(|q| -> Result<(), MyErr> { let e = &mut errs; let [s, p, o] = q.to_spo(); out.push((view(s, e), view(p, e), view(o, e), None)); Ok(()) }).map_err(|e| e.to_string())?,
        2 => loop {
            let more = src.try_for_some_triple(|q| -> Result<(), MyErr> {
                let e = &mut errs;
                let mut b = (view(q.s(), e), view(q.p(), e), view(q.o(), e), None);
                match (out.len() + k) % 3 {
                    0 => { let v = view(q.to_s(), e); if v != b.0 { e.push(format!("to_s() shows {}, s() shows {}", show(&v), show(&b.0))); } b.0 = v; }
                    1 => { let v = view(q.to_p(), e); if v != b.1 { e.push(format!("to_p() shows {}, p() shows {}", show(&v), show(&b.1))); } b.1 = v; }
                    _ => { let v = view(q.to_o(), e); if v != b.2 { e.push(format!("to_o() shows {}, o() shows {}", show(&v), show(&b.2))); } b.2 = v; }
                }
                out.push(b);
                Ok(())
            }).map_err(|e| e.to_string())?;
            if !more { break; }
        },
        3 => { let d: Vec<[ST; 3]> = src.collect_triples().map_err(|e| e.to_string())?; out = d.iter().map(|q| (from_term(&q[0]), from_term(&q[1]), from_term(&q[2]), None)).collect(); }
        4 => {
            let mut d: Vec<[ST; 3]> = vec![];
            let n = src.add_to_graph(&mut d).map_err(|e| e.to_string())?;
            if n != d.len() { return Err(format!("add_to_graph returned {n} for {} triples", d.len())); }
            out = d.iter().map(|q| (from_term(&q[0]), from_term(&q[1]), from_term(&q[2]), None)).collect();
        }
        _ => {
            let mut n = 0usize;
            let res = src.try_for_each_triple(|q| -> Result<(), MyErr> { let e = &mut errs; out.push((view(q.s(), e), view(q.p(), e), view(q.o(), e), None)); n += 1; if n == k + 1 { Err(MyErr(k as u64)) } else { Ok(()) } });
            match res {
                Ok(()) => if out.len() > k { return Err(format!("the sink failed on triple {k} and the source reported success")); },
                Err(StreamError::SinkError(MyErr(c))) => {
                    if c != k as u64 || out.len() != k + 1 { return Err(format!("the sink failed on triple {k} with MyErr({k}); got SinkError(MyErr({c})) after {} triples", out.len())); }
                }
                Err(StreamError::SourceError(e)) => return Err(e.to_string()),
            }
        }
    }
    finish(out, errs)
}
const READ_ENTRIES: &[&str] = &["parse_bufread", "mod::parse_str", "Parser::parse(BufReader, tiny buffer)", "Parser.parse_str", "Parser::parse(Cursor)"];
/// all the ways of reading `bytes` with one parser: (name, result)
macro_rules! read_paths {
    ($name:ident, $module:ident, $parser:ident, $ptrait:ident, $consume:ident) => {
        fn $name(bytes: &[u8], k: usize) -> Vec<(String, Rd)> {
            let txt = std::str::from_utf8(bytes).ok();
            let mut v = vec![];
            for mode in 0..READ_MODES.len() {
                let mut entry = (mode + k) % READ_ENTRIES.len();
                if txt.is_none() && (entry == 1 || entry == 3) { entry = 0; }
                let res = match entry {
                    1 => $consume(&|| $module::parse_str(txt.unwrap()), mode, k % 4),
                    2 => $consume(&|| $ptrait::parse(&$parser::default(), io::BufReader::with_capacity(1 + k % 7, bytes)), mode, k % 4),
                    3 => $consume(&|| $parser {}.parse_str(txt.unwrap()), mode, k % 4),
                    4 => $consume(&|| $parser::default().parse(io::Cursor::new(bytes.to_vec())), mode, k % 4),
                    _ => $consume(&|| $module::parse_bufread(bytes), mode, k % 4),
                };
                // the failing sink stops early: what it saw must be the first k+1 quads of the document
                let res = if mode != M_FAILING_SINK { res } else { match (res, $consume(&|| $module::parse_bufread(bytes), 0, 0)) {
                    (Ok(pre), Ok(full)) => if pre.len() == full.len().min(k % 4 + 1) && pre[..] == full[..pre.len()] { Ok(full) } else { Err(format!("a sink failing on statement {} was given {pre:?}; the document is {full:?}", k % 4)) },
                    (Err(e), _) | (_, Err(e)) => Err(e),
                } };
                v.push((format!("{}:{}/{}", stringify!($module), READ_ENTRIES[entry], READ_MODES[mode]), res));
            }
            v
        }
    };
}
read_paths!(nq_read_paths, nq, NQuadsParser, QuadParser, consume_quads);
read_paths!(gnq_read_paths, gnq, GNQuadsParser, QuadParser, consume_quads);
read_paths!(nt_read_paths, nt, NTriplesParser, TripleParser, consume_triples);
/// the quads sophia's N-Quads parser delivers before it stops, and whether it stopped on a source error
fn nq_prefix(bytes: &[u8]) -> (Vec<Q>, Option<bool>) {
    let mut out = vec![];
    let res = nq::parse_bufread(bytes).try_for_each_quad(|q| -> Result<(), MyErr> { out.push((from_term(q.s()), from_term(q.p()), from_term(q.o()), q.g().map(from_term))); Ok(()) });
    (out, match res { Ok(()) => None, Err(StreamError::SourceError(_)) => Some(true), Err(StreamError::SinkError(_)) => Some(false) })
}

// ---------- Rio's model types (what `Trusted` wraps), built by hand from the plain data ----------
fn leak<'a, X: 'a>(x: X) -> &'a X { Box::leak(Box::new(x)) }
fn rio_lit<'a>(t: &'a T, alt: bool) -> rm::Literal<'a> {
    match t {
        T::Lit(l, d) => if d == XSD_STRING && alt { rm::Literal::Simple { value: l } } else { rm::Literal::Typed { value: l, datatype: rm::NamedNode { iri: d } } },
        T::Lang(l, g) => rm::Literal::LanguageTaggedString { value: l, language: g },
        _ => panic!("not a literal"),
    }
}
fn iri_of(t: &T) -> &str { match t { T::Iri(s) => s, _ => panic!("not an IRI") } }
fn rio_subject<'a>(t: &'a T, alt: bool) -> rm::Subject<'a> {
    match t { T::Iri(s) => rm::NamedNode { iri: s }.into(), T::B(s) => rm::BlankNode { id: s }.into(), T::Tr(b) => rm::Subject::Triple(leak(rio_triple(b, alt))), _ => panic!("not a strict subject") }
}
fn rio_term<'a>(t: &'a T, alt: bool) -> rm::Term<'a> {
    match t { T::Iri(s) => rm::NamedNode { iri: s }.into(), T::B(s) => rm::BlankNode { id: s }.into(), T::Lit(..) | T::Lang(..) => rio_lit(t, alt).into(), T::Tr(b) => rm::Term::Triple(leak(rio_triple(b, alt))), T::Var(_) => panic!("not a strict term") }
}
fn rio_triple<'a>(b: &'a [T; 3], alt: bool) -> rm::Triple<'a> { rm::Triple { subject: rio_subject(&b[0], alt), predicate: rm::NamedNode { iri: iri_of(&b[1]) }, object: rio_term(&b[2], alt) } }
fn rio_graph<'a>(t: &'a T) -> rm::GraphName<'a> { match t { T::Iri(s) => rm::NamedNode { iri: s }.into(), T::B(s) => rm::BlankNode { id: s }.into(), _ => panic!("not a strict graph name") } }
fn rio_quad<'a>(q: &'a Q, alt: bool) -> rm::Quad<'a> { rm::Quad { subject: rio_subject(&q.0, alt), predicate: rm::NamedNode { iri: iri_of(&q.1) }, object: rio_term(&q.2, alt), graph_name: q.3.as_ref().map(rio_graph) } }
fn rio_gterm<'a>(t: &'a T, alt: bool) -> GeneralizedTerm<'a> {
    match t {
        T::Iri(s) => rm::NamedNode { iri: s }.into(), T::B(s) => rm::BlankNode { id: s }.into(), T::Lit(..) | T::Lang(..) => rio_lit(t, alt).into(), T::Var(s) => Variable { name: s }.into(),
        T::Tr(b) => GeneralizedTerm::Triple(leak([rio_gterm(&b[0], alt), rio_gterm(&b[1], alt), rio_gterm(&b[2], alt)])),
    }
}
fn rio_gquad<'a>(q: &'a Q, alt: bool) -> GeneralizedQuad<'a> { GeneralizedQuad { subject: rio_gterm(&q.0, alt), predicate: rio_gterm(&q.1, alt), object: rio_gterm(&q.2, alt), graph_name: q.3.as_ref().map(|g| rio_gterm(g, alt)) } }
fn strict_at(t: &T, pos: usize) -> bool {
    match t { T::Iri(_) => true, T::B(_) => pos != 1, T::Lit(..) | T::Lang(..) => pos == 2, T::Var(_) => false, T::Tr(b) => (pos == 0 || pos == 2) && strict_at(&b[0], 0) && strict_at(&b[1], 1) && strict_at(&b[2], 2) }
}
fn strict_q(q: &Q) -> bool { strict_at(&q.0, 0) && strict_at(&q.1, 1) && strict_at(&q.2, 2) && q.3.as_ref().is_none_or(|g| strict_at(g, 3)) }
/// the term wrapped in the most specific Rio type (`Trusted<NamedNode>`, `Trusted<BlankNode>`,
/// `Trusted<Literal>`, `Trusted<Variable>`, `Trusted<GraphName>`, ...), bound to the given name for the given expression
macro_rules! with_single {
    ($t:expr, $pos:expr, $alt:expr, $x:ident => $body:expr) => {{
        let (t, pos, alt): (&T, usize, bool) = ($t, $pos, $alt);
        match t {
            T::Iri(s) if pos == 3 && alt => { let $x = Trusted(rm::GraphName::NamedNode(rm::NamedNode { iri: s })); $body }
            T::B(s) if pos == 3 && alt => { let $x = Trusted(rm::GraphName::BlankNode(rm::BlankNode { id: s })); $body }
            T::Iri(s) => { let $x = Trusted(rm::NamedNode { iri: s }); $body }
            T::B(s) => { let $x = Trusted(rm::BlankNode { id: s }); $body }
            T::Lit(..) | T::Lang(..) => { let $x = Trusted(rio_lit(t, alt)); $body }
            T::Var(s) => { let $x = Trusted(Variable { name: s }); $body }
            T::Tr(_) => if strict_at(t, 2) && !alt { let $x = Trusted(rio_term(t, alt)); $body } else { let $x = Trusted(rio_gterm(t, alt)); $body },
        }
    }};
}
/// all the Rio wrappers of the terms of `quads` show the plain data they were built from
fn check_rio_views(quads: &[Q], alt: bool, errs: &mut Vec<String>) {
    fn rec(t: &T, pos: usize, alt: bool, errs: &mut Vec<String>) {
        let v = with_single!(t, pos, alt, x => view(x, errs)); if v != *t { errs.push(format!("the most specific Rio wrapper of {} shows {}", show(t), show(&v))); }
        let v = view(Trusted(rio_gterm(t, !alt)), errs); if v != *t { errs.push(format!("Trusted<GeneralizedTerm> of {} shows {}", show(t), show(&v))); }
        if strict_at(t, 2) { let v = view(Trusted(rio_term(t, !alt)), errs); if v != *t { errs.push(format!("Trusted<rio Term> of {} shows {}", show(t), show(&v))); } }
        if let T::Tr(b) = t { for i in 0..3 { rec(&b[i], i, !alt, errs); } }
    }
    for q in quads { rec(&q.0, 0, alt, errs); rec(&q.1, 1, alt, errs); rec(&q.2, 2, !alt, errs); if let Some(g) = &q.3 { rec(g, 3, alt, errs); } }
}

// ---------- writers ----------
/// takes at most `k` bytes per call and is interrupted now and then (write_all must cope)
struct Chunky { buf: Vec<u8>, k: usize, calls: usize }
impl io::Write for Chunky {
    fn write(&mut self, b: &[u8]) -> io::Result<usize> {
        self.calls += 1;
        if self.calls % 5 == 3 { return Err(io::Error::new(io::ErrorKind::Interrupted, "interrupted")); }
        let n = b.len().min(self.k); self.buf.extend_from_slice(&b[..n]); Ok(n)
    }
    fn flush(&mut self) -> io::Result<()> { Ok(()) }
}
/// takes `budget` bytes in all, then fails
struct FailAfter { buf: Vec<u8>, budget: usize }
impl io::Write for FailAfter {
    fn write(&mut self, b: &[u8]) -> io::Result<usize> {
        if b.is_empty() { return Ok(0); }
        if self.budget == 0 { return Err(io::Error::new(io::ErrorKind::Other, "disk full")); }
        let n = b.len().min(self.budget); self.budget -= n; self.buf.extend_from_slice(&b[..n]); Ok(n)
    }
    fn flush(&mut self) -> io::Result<()> { Ok(()) }
}
/// An io::Write probe described by data (the Coq side: coq/C03/Adapters.v, `write_all`): how many
/// bytes it takes per call (a cycle of caps), which calls are interrupted, a total budget after
/// which every call fails (by an error, or by Ok(0) if `zero`).  What it received is shared, so that
/// it can be looked at while the serialiser is still alive (nothing may be held back in the
/// serialiser once serialize_* has returned).
#[derive(Clone, Debug)]
enum Cap { Fixed(usize), Half, AllButOne, All }
#[derive(Clone)]
struct Probe { got: std::rc::Rc<std::cell::RefCell<Vec<u8>>>, caps: Vec<Cap>, intr: usize, budget: Option<usize>, zero: bool, calls: usize, max_offered: usize }
impl Probe {
    fn new(caps: Vec<Cap>, intr: usize, budget: Option<usize>, zero: bool) -> Probe { Probe { got: Default::default(), caps, intr, budget, zero, calls: 0, max_offered: 0 } }
    fn describe(&self) -> String { format!("a writer taking per call {:?} (in turn){}{}", self.caps, if self.intr > 0 { format!(", every {}th call interrupted", self.intr) } else { String::new() }, match self.budget { Some(b) => format!(", {} after {b} bytes in all", if self.zero { "answering Ok(0)" } else { "failing" }), None => String::new() }) }
}
impl io::Write for Probe {
    fn write(&mut self, b: &[u8]) -> io::Result<usize> {
        self.calls += 1; self.max_offered = self.max_offered.max(b.len());
        if b.is_empty() { return Ok(0); }
        if self.budget == Some(0) { return if self.zero { Ok(0) } else { Err(io::Error::new(io::ErrorKind::Other, "disk full")) }; }
        if self.intr > 0 && self.calls % self.intr == 0 { return Err(io::Error::new(io::ErrorKind::Interrupted, "interrupted")); }
        let cap = match self.caps[self.calls % self.caps.len()] { Cap::Fixed(n) => n, Cap::Half => (b.len() + 1) / 2, Cap::AllButOne => (b.len() - 1).max(1), Cap::All => b.len() };
        let n = b.len().min(cap).min(self.budget.unwrap_or(usize::MAX));
        self.got.borrow_mut().extend_from_slice(&b[..n]);
        if let Some(x) = &mut self.budget { *x -= n; }
        Ok(n)
    }
    fn flush(&mut self) -> io::Result<()> { Ok(()) }
}
const CAP_SIZES: &[usize] = &[1, 2, 3, 5, 7, 13, 64, 100, 512, 1000, 4095, 4096, 4097, 8191, 8192, 8193, 16384, 65536];
const WRAPS: &[&str] = &["by value", "&mut", "Box<dyn Write>", "BufWriter(small)+flush", "BufWriter(default)+flush", "BufWriter(big)+flush", "LineWriter+flush"];
fn gen_probe(r: &mut Rng, len: usize) -> Probe {
    let cap = |r: &mut Rng| match r.below(8) { 0 => Cap::Half, 1 => Cap::AllButOne, 2 => Cap::All, _ => Cap::Fixed(*r.pick(CAP_SIZES)) };
    let caps: Vec<Cap> = (0..[1, 1, 2, 4][r.below(4)]).map(|_| cap(r)).collect();
    let intr = [0, 0, 2, 3, 7][r.below(5)];
    let budget = if r.chance(3, 5) { None } else { Some(match r.below(5) {
        0 => r.below(len + 2),
        1 => len.saturating_sub(r.below(4)),
        2 => (r.range(1, 1 + len / 4096) * 4096 + r.below(3)).saturating_sub(1),
        3 => (r.range(1, 1 + len / 8192) * 8192 + r.below(3)).saturating_sub(1),
        _ => len + r.below(3),
    }) };
    Probe::new(caps, intr, budget, r.chance(1, 3))
}
/// One call of serialize_* into the probe behind the wrapper number `wrap`.  ORACLE: the probe has
/// received exactly the first min(budget, len) bytes of the text (all of it without budget) -- for
/// the unbuffered wrappers already when serialize_* returns, the serialiser still being alive --
/// and success is reported iff everything fitted; a failure is a SINK error.
/// Returns (bytes received, success) for the Coq side.
fn probe_check(nq: bool, quads: &[Q], full: &[u8], probe: Probe, wrap: usize, by_source: bool, fails: &mut Vec<String>) -> (usize, bool) {
    use io::Write as _;
    let got = probe.got.clone();
    let what = format!("{} handed over as [{}], serialize_{}", probe.describe(), WRAPS[wrap], if by_source { "quads|triples(iterator source)" } else { "dataset|graph(&Vec)" });
    let dq: Vec<Spog<ST>> = if nq { quads.iter().map(|q| ([to_st(&q.0), to_st(&q.1), to_st(&q.2)], q.3.as_ref().map(to_st))).collect() } else { vec![] };
    let dt: Vec<[ST; 3]> = if nq { vec![] } else { quads.iter().map(|q| [to_st(&q.0), to_st(&q.1), to_st(&q.2)]).collect() };
    // Some(true): sink error, Some(false): source error
    // the length is read while the serialiser `s` is still alive
    macro_rules! ser2 { ($w:expr) => {{
        if nq { let mut s = NqSerializer::new($w); let r = if by_source { s.serialize_quads(dq.iter().map(|q| Ok::<_, Infallible>(spog_ref(q)))).map(|_| ()) .map_err(|x| matches!(x, StreamError::SinkError(_))) } else { s.serialize_dataset(&dq).map(|_| ()).map_err(|x| matches!(x, StreamError::SinkError(_))) }; (r, got.borrow().len()) }
        else { let mut s = NtSerializer::new($w); let r = if by_source { s.serialize_triples(dt.iter().map(|q| Ok::<_, Infallible>(q.each_ref()))).map(|_| ()).map_err(|x| matches!(x, StreamError::SinkError(_))) } else { s.serialize_graph(&dt).map(|_| ()).map_err(|x| matches!(x, StreamError::SinkError(_))) }; (r, got.borrow().len()) }
    }}; }
    let budget = probe.budget;
    let mut p = probe;
    // (result of serialize_*, bytes received when it returned, result of the flush the user owes to a buffered wrapper)
    let (res, at_return, flushed): (Result<(), bool>, usize, io::Result<()>) = match wrap {
        0 => { let (r, n) = ser2!(p); (r, n, Ok(())) }
        1 => { let (r, n) = ser2!(&mut p); (r, n, Ok(())) }
        2 => { let b: Box<dyn io::Write> = Box::new(p); let (r, n) = ser2!(b); (r, n, Ok(())) }
        3 => { let mut w = io::BufWriter::with_capacity(1 + full.len() % 61, p); let (r, n) = ser2!(&mut w); (r, n, w.flush()) }
        4 => { let mut w = io::BufWriter::new(p); let (r, n) = ser2!(&mut w); (r, n, w.flush()) }
        5 => { let mut w = io::BufWriter::with_capacity(100_000, p); let (r, n) = ser2!(&mut w); (r, n, w.flush()) }
        _ => { let mut w = io::LineWriter::new(p); let (r, n) = ser2!(&mut w); (r, n, w.flush()) }
    };
    let recv = got.borrow().clone();
    let want = &full[..budget.unwrap_or(usize::MAX).min(full.len())];
    let fits = want.len() == full.len();
    let show_cut = |b: &[u8]| { let s = String::from_utf8_lossy(b); if s.len() > 300 { format!("{} bytes ending in {:?}", b.len(), &s[s.char_indices().rev().nth(120).map(|x| x.0).unwrap_or(0)..]) } else { format!("{s:?}") } };
    if recv != want {
        let d = recv.iter().zip(want.iter()).position(|(a, b)| a != b).unwrap_or(recv.len().min(want.len()));
        fails.push(format!("{what}: the writer received {} bytes, expected the first {} of the {} bytes of the text; first difference at byte {d}: received {} / expected {}", recv.len(), want.len(), full.len(), show_cut(&recv[d..recv.len().min(d + 80)]), show_cut(&want[d..want.len().min(d + 80)])));
    }
    if wrap <= 2 && at_return != recv.len() { fails.push(format!("{what}: {at_return} bytes had reached the writer when serialize_* returned, {} in the end", recv.len())); }
    let ok = res.is_ok() && flushed.is_ok();
    match (&res, fits) {
        (Err(false), _) => fails.push(format!("{what}: a failing writer is reported as a SOURCE error")),
        (Ok(()), false) if wrap <= 2 => fails.push(format!("{what}: the writer took {} of {} bytes and the serialiser reported success", want.len(), full.len())),
        (Err(true), true) => fails.push(format!("{what}: the serialiser failed although the writer accepted all {} bytes", full.len())),
        _ => {}
    }
    if ok != fits { fails.push(format!("{what}: success (serialize_* and flush) is {ok}, the text {} the budget", if fits { "fits" } else { "does not fit" })); }
    (recv.len(), ok)
}
fn spog_ref(q: &Spog<ST>) -> Spog<&ST> { (q.0.each_ref(), q.1.as_ref()) }
type Wr = Result<Vec<u8>, String>;
const W_CALLS: usize = 4; // index of the several-calls way in the lists below
const W_HAND: usize = 5;
const W_SINGLE: usize = 8;
const WRITE_WAYS: &[&str] = &["new_stringifier/serialize_dataset|graph(&Vec)/as_utf8", "new(Vec)/serialize_quads|triples(iterator source)/to_string", "new_with_config(&mut few-bytes-per-call writer)/serialize_dataset|graph(&&[..])", "new_stringifier_with_config(set_ascii(true).set_ascii(false))/serialize_dataset|graph(&&mut Vec | &&Vec)/as_str",
    "several calls on one serialiser", "write_triple + write_term by hand", "source of Trusted<rio Quad|Triple>", "source of Trusted<GeneralizedQuad>", "write_term on the most specific Rio wrapper of each term, by hand"];
fn plain_config() -> NtConfig { let mut c = NtConfig::default(); c.set_ascii(true).set_ascii(false); c.clone() }
fn utf8_of<S: Stringifier>(s: &S, how: usize) -> Vec<u8> { match how % 3 { 0 => s.as_utf8().to_vec(), 1 => s.as_str().as_bytes().to_vec(), _ => Stringifier::to_string(s).into_bytes() } }
/// serialise as N-Quads in the way number `way`; None: the way does not apply to these quads
fn write_nq(way: usize, quads: &[Q], cuts: &[usize], k: usize) -> Option<Wr> {
    let d: Vec<Spog<ST>> = quads.iter().map(|q| ([to_st(&q.0), to_st(&q.1), to_st(&q.2)], q.3.as_ref().map(to_st))).collect();
    let alt = k % 2 == 1;
    let e = |x: &dyn std::fmt::Display| x.to_string();
    Some(match way {
        0 => { let mut s = NqSerializer::new_stringifier(); match s.serialize_dataset(&d) { Ok(_) => Ok(s.as_utf8().to_vec()), Err(x) => Err(e(&x)) } }
        1 => { let mut s = NqSerializer::new(Vec::new()); match s.serialize_quads(d.iter().map(|q| Ok::<_, Infallible>(spog_ref(q)))) { Ok(_) => Ok(Stringifier::to_string(&s).into_bytes()), Err(x) => Err(e(&x)) } }
        2 => { let mut w = Chunky { buf: vec![], k: 1 + k % 5, calls: k }; let r = { let mut s = NqSerializer::new_with_config(&mut w, plain_config()); let _ = s.config(); s.serialize_dataset(&&d[..]).map(|_| ()).map_err(|x| e(&x)) }; r.map(|()| w.buf) }
        3 => { let mut s = NqSerializer::new_stringifier_with_config(plain_config()); let mut dm = d.clone(); let r = if alt { s.serialize_dataset(&&mut dm).map(|_| ()).map_err(|x| e(&x)) } else { s.serialize_dataset(&&d).map(|_| ()).map_err(|x| e(&x)) }; r.map(|()| utf8_of(&s, k)) }
        4 => {
            let mut s = NqSerializer::new_stringifier(); let mut from = 0; let mut res = Ok(());
            for &to in cuts.iter().chain([d.len()].iter()) { if let Err(x) = s.serialize_quads(d[from..to].iter().map(|q| Ok::<_, Infallible>(spog_ref(q)))) { res = Err(e(&x)); break; } from = to; }
            // chained: serialize_quads returns the serialiser itself
            if cuts.is_empty() && res.is_ok() { if let Err(x) = s.serialize_quads(std::iter::empty::<Result<Spog<&ST>, Infallible>>()).and_then(|s2| s2.serialize_dataset(&Vec::<Spog<ST>>::new())) { res = Err(e(&x)); } }
            res.map(|()| utf8_of(&s, k))
        }
        5 => {
            let mut w: Vec<u8> = vec![];
            let mut go = || -> io::Result<()> { for q in &d { write_triple(&mut w, q.0.each_ref())?; if let Some(g) = &q.1 { io::Write::write_all(&mut w, b" ")?; write_term(&mut w, g)?; } io::Write::write_all(&mut w, b".\n")?; } Ok(()) };
            match go() { Ok(()) => Ok(w), Err(x) => Err(e(&x)) }
        }
        6 => { if !quads.iter().all(strict_q) { return None; } let rq: Vec<rm::Quad> = quads.iter().map(|q| rio_quad(q, alt)).collect(); let mut s = NqSerializer::new_stringifier(); match s.serialize_quads(rq.iter().map(|q| Ok::<_, Infallible>(Trusted(*q)))) { Ok(_) => Ok(utf8_of(&s, k)), Err(x) => Err(e(&x)) } }
        7 => { let rq: Vec<GeneralizedQuad> = quads.iter().map(|q| rio_gquad(q, alt)).collect(); let mut s = NqSerializer::new_stringifier(); match s.serialize_quads(rq.iter().map(|q| Ok::<_, Infallible>(Trusted(q.clone())))) { Ok(_) => Ok(utf8_of(&s, k)), Err(x) => Err(e(&x)) } }
        _ => {
            let mut w: Vec<u8> = vec![];
            let mut go = || -> io::Result<()> {
                for (i, q) in quads.iter().enumerate() {
                    let a = (i + k) % 2 == 0;
                    with_single!(&q.0, 0, a, x => write_term(&mut w, x))?; io::Write::write_all(&mut w, b" ")?;
                    with_single!(&q.1, 1, !a, x => write_term(&mut w, x))?; io::Write::write_all(&mut w, b" ")?;
                    with_single!(&q.2, 2, a, x => write_term(&mut w, x))?;
                    if let Some(g) = &q.3 { io::Write::write_all(&mut w, b" ")?; with_single!(g, 3, !a, x => write_term(&mut w, x))?; }
                    io::Write::write_all(&mut w, b".\n")?;
                }
                Ok(())
            };
            match go() { Ok(()) => Ok(w), Err(x) => Err(e(&x)) }
        }
    })
}
/// serialise as N-Triples (graph names ignored) in the way number `way`
fn write_nt(way: usize, quads: &[Q], cuts: &[usize], k: usize) -> Option<Wr> {
    let d: Vec<[ST; 3]> = quads.iter().map(|q| [to_st(&q.0), to_st(&q.1), to_st(&q.2)]).collect();
    let alt = k % 2 == 1;
    let e = |x: &dyn std::fmt::Display| x.to_string();
    Some(match way {
        0 => { let mut s = NtSerializer::new_stringifier(); match s.serialize_graph(&d) { Ok(_) => Ok(s.as_utf8().to_vec()), Err(x) => Err(e(&x)) } }
        1 => { let mut s = NtSerializer::new(Vec::new()); match s.serialize_triples(d.iter().map(|q| Ok::<_, Infallible>(q.each_ref()))) { Ok(_) => Ok(Stringifier::to_string(&s).into_bytes()), Err(x) => Err(e(&x)) } }
        2 => { let mut w = Chunky { buf: vec![], k: 1 + k % 5, calls: k }; let r = { let mut s = NtSerializer::new_with_config(&mut w, plain_config()); let _ = s.config(); s.serialize_graph(&&d[..]).map(|_| ()).map_err(|x| e(&x)) }; r.map(|()| w.buf) }
        3 => { let mut s = NtSerializer::new_stringifier_with_config(plain_config()); let mut dm = d.clone(); let r = if alt { s.serialize_graph(&&mut dm).map(|_| ()).map_err(|x| e(&x)) } else { s.serialize_graph(&&d).map(|_| ()).map_err(|x| e(&x)) }; r.map(|()| utf8_of(&s, k)) }
        4 => {
            let mut s = NtSerializer::new_stringifier(); let mut from = 0; let mut res = Ok(());
            for &to in cuts.iter().chain([d.len()].iter()) { if let Err(x) = s.serialize_triples(d[from..to].iter().map(|q| Ok::<_, Infallible>(q.each_ref()))) { res = Err(e(&x)); break; } from = to; }
            if cuts.is_empty() && res.is_ok() { if let Err(x) = s.serialize_triples(std::iter::empty::<Result<[&ST; 3], Infallible>>()).and_then(|s2| s2.serialize_graph(&Vec::<[ST; 3]>::new())) { res = Err(e(&x)); } }
            res.map(|()| utf8_of(&s, k))
        }
        5 => {
            let mut w: Vec<u8> = vec![];
            let mut go = || -> io::Result<()> { for q in &d { write_triple(&mut w, q.each_ref())?; io::Write::write_all(&mut w, b".\n")?; } Ok(()) };
            match go() { Ok(()) => Ok(w), Err(x) => Err(e(&x)) }
        }
        6 => { if !quads.iter().all(strict_q) { return None; } let rq: Vec<rm::Triple> = quads.iter().map(|q| { let x = rio_quad(q, alt); rm::Triple { subject: x.subject, predicate: x.predicate, object: x.object } }).collect(); let mut s = NtSerializer::new_stringifier(); match s.serialize_triples(rq.iter().map(|q| Ok::<_, Infallible>(Trusted(*q)))) { Ok(_) => Ok(utf8_of(&s, k)), Err(x) => Err(e(&x)) } }
        7 => {
            // there is no generalised triple type in Rio: triples of Trusted<GeneralizedTerm>
            let rq: Vec<[Trusted<GeneralizedTerm>; 3]> = quads.iter().map(|q| [Trusted(rio_gterm(&q.0, alt)), Trusted(rio_gterm(&q.1, alt)), Trusted(rio_gterm(&q.2, alt))]).collect();
            let mut s = NtSerializer::new_stringifier(); match s.serialize_graph(&rq) { Ok(_) => Ok(utf8_of(&s, k)), Err(x) => Err(e(&x)) }
        }
        _ => {
            let mut w: Vec<u8> = vec![];
            let mut go = || -> io::Result<()> {
                for (i, q) in quads.iter().enumerate() {
                    let a = (i + k) % 2 == 0;
                    with_single!(&q.0, 0, a, x => write_term(&mut w, x))?; io::Write::write_all(&mut w, b" ")?;
                    with_single!(&q.1, 1, !a, x => write_term(&mut w, x))?; io::Write::write_all(&mut w, b" ")?;
                    with_single!(&q.2, 2, a, x => write_term(&mut w, x))?;
                    io::Write::write_all(&mut w, b".\n")?;
                }
                Ok(())
            };
            match go() { Ok(()) => Ok(w), Err(x) => Err(e(&x)) }
        }
    })
}
/// a writer that fails after `budget` bytes: the serialiser must report a sink error (never
/// success) and must have written exactly the first `budget` bytes of the full text
fn failing_writer_check(nq: bool, quads: &[Q], full: &[u8], budget: usize) -> Result<(), String> {
    let mut w = FailAfter { buf: vec![], budget };
    let res: Result<(), Option<bool>> = if nq {
        let d: Vec<Spog<ST>> = quads.iter().map(|q| ([to_st(&q.0), to_st(&q.1), to_st(&q.2)], q.3.as_ref().map(to_st))).collect();
        NqSerializer::new(&mut w).serialize_dataset(&d).map(|_| ()).map_err(|x| Some(matches!(x, StreamError::SinkError(_))))
    } else {
        let d: Vec<[ST; 3]> = quads.iter().map(|q| [to_st(&q.0), to_st(&q.1), to_st(&q.2)]).collect();
        NtSerializer::new(&mut w).serialize_graph(&d).map(|_| ()).map_err(|x| Some(matches!(x, StreamError::SinkError(_))))
    };
    let want = &full[..budget.min(full.len())];
    if w.buf != want { return Err(format!("a writer failing after {budget} bytes received {:?}, not the first {budget} bytes of the text", String::from_utf8_lossy(&w.buf))); }
    match res {
        Ok(()) if budget < full.len() => Err(format!("a writer failing after {budget} bytes (text of {} bytes): the serialiser reported success", full.len())),
        Err(Some(false)) => Err("a failing writer was reported as a SOURCE error".into()),
        Err(_) if budget >= full.len() => Err(format!("the serialiser failed although the writer accepted all {} bytes", full.len())),
        _ => Ok(()),
    }
}
thread_local! { static QUIET: std::cell::Cell<bool> = const { std::cell::Cell::new(false) }; }
/// the `ascii` configuration: not implemented (todo!()) in this version; if it ever returns, the
/// text must be pure ASCII and is checked like any other
fn ascii_attempt(nq: bool, quads: &[Q]) -> Option<Wr> {
    QUIET.with(|q| q.set(true));
    let r = std::panic::catch_unwind(|| {
        let mut c = NqConfig::default(); c.set_ascii(true);
        if nq {
            let d: Vec<Spog<ST>> = quads.iter().map(|q| ([to_st(&q.0), to_st(&q.1), to_st(&q.2)], q.3.as_ref().map(to_st))).collect();
            let mut s = NqSerializer::new_stringifier_with_config(c); s.serialize_dataset(&d).map(|_| ()).map_err(|x| x.to_string()).map(|()| s.as_utf8().to_vec())
        } else {
            let d: Vec<[ST; 3]> = quads.iter().map(|q| [to_st(&q.0), to_st(&q.1), to_st(&q.2)]).collect();
            let mut s = NtSerializer::new_stringifier_with_config(c); s.serialize_graph(&d).map(|_| ()).map_err(|x| x.to_string()).map(|()| s.as_utf8().to_vec())
        }
    });
    QUIET.with(|q| q.set(false));
    r.ok()
}
/// parser piped straight into a serialiser (the items are Rio's types behind `Trusted`)
fn pipe(kind: &str, bytes: &[u8]) -> Wr {
    let e = |x: &dyn std::fmt::Display| x.to_string();
    match kind {
        "nq" => { let mut s = NqSerializer::new_stringifier(); s.serialize_quads(nq::parse_bufread(bytes)).map(|_| ()).map_err(|x| e(&x))?; Ok(s.as_utf8().to_vec()) }
        "gnq" => { let mut s = NqSerializer::new_stringifier(); s.serialize_quads(gnq::parse_bufread(bytes)).map(|_| ()).map_err(|x| e(&x))?; Ok(s.as_utf8().to_vec()) }
        _ => { let mut s = NtSerializer::new_stringifier(); s.serialize_triples(nt::parse_bufread(bytes)).map(|_| ()).map_err(|x| e(&x))?; Ok(s.as_utf8().to_vec()) }
    }
}

// ---------- generators ----------
fn pk(r: &mut Rng, v: &[&'static str]) -> &'static str { v[r.below(v.len())] }
const LEX_POOL: &[&str] = &["\"", "\\", "\n", "\r", "\t", " ", "a", "Z", "0", "'", ".", "<", ">", "@", "^", "#", "_:", "\u{e9}", "e\u{301}", "\u{200d}", "\u{fffd}", "\u{ffff}", "\u{10000}", "\u{1f600}", "\u{10ffff}", "\u{e000}", "\u{d7ff}", "\u{7f}", "\u{80}", "\u{85}", "\u{2028}", "\u{feff}",
    "\\\"", "\\\\\"", "\\n", "\\u0041", "\\U0001F600", "\"@en", "\"^^<x:y>", "\" .\n<x:a> <x:b> <x:c> .\n", "\r\n", "\n\r", "\\\r", "\"\"\""];
fn gen_lex(r: &mut Rng) -> String {
    let mut s = String::new();
    let n = match r.below(10) { 0 => 0, 1 => 1, 2..=7 => r.range(2, 8), _ => r.range(9, 20) };
    for _ in 0..n {
        match r.below(10) {
            0..=2 => s.push(char::from_u32(r.below(32) as u32).unwrap()), // every C0 control, U+0000 included
            3 => s.push(*r.pick(&['"', '\\', '\n', '\r'])),
            _ => s.push_str(pk(r, LEX_POOL)),
        }
    }
    s
}
const IRI_BASES: &[&str] = &["http://example.org/", "http://example.org/ns#", "https://\u{e9}x.example/\u{65e5}\u{672c}/", "tag:a", "urn:x:y:", "x:", "http://[2001:db8::1]:8080/p/", "http://[::1]:8080/p/", "http://u:p@h.example/", "file:///a/b", "mailto:a@b.c", "http://example.org/?q=\u{e000}&r=",
    // every character RFC 3986 allows in a scheme: ALPHA *( ALPHA / DIGIT / "+" / "-" / "." )
    "iris.beep://h.example/", "coap+tcp://h.example/s/", "z39.50r://h.example/db?", "a1+b-c.d:x/", "X-y.Z:"];
const IRI_PARTS: &[&str] = &["a", "B", "0", "%20", "%C3%A9", "\u{e9}", "\u{10000}", "\u{efffd}", "-", ".", "_", "~", "!", "$", "&", "'", "(", ")", "*", "+", ",", ";", "=", ":", "@", "/", "?k=v", "#f", "..", "//"];
// ---- independent RFC 3987 check (absolute IRI with optional fragment), from the ABNF ----
fn ucschar(c: char) -> bool { let u = c as u32; matches!(u, 0xA0..=0xD7FF | 0xF900..=0xFDCF | 0xFDF0..=0xFFEF) || ((0x10000..=0xEFFFD).contains(&u) && (u & 0xFFFF) <= 0xFFFD && !(0xE0000..=0xE0FFF).contains(&u)) }
fn iprivate(c: char) -> bool { let u = c as u32; matches!(u, 0xE000..=0xF8FF | 0xF0000..=0xFFFFD | 0x100000..=0x10FFFD) }
fn iunreserved(c: char) -> bool { c.is_ascii_alphanumeric() || "-._~".contains(c) || ucschar(c) }
fn sub_delim(c: char) -> bool { "!$&'()*+,;=".contains(c) }
/// every character is allowed by `ok`, or is the start of a pct-encoded triplet
fn chars_ok(s: &str, ok: impl Fn(char) -> bool) -> bool {
    let v: Vec<char> = s.chars().collect();
    let mut i = 0;
    while i < v.len() {
        if v[i] == '%' { if i + 2 < v.len() + 0 && v[i + 1].is_ascii_hexdigit() && v[i + 2].is_ascii_hexdigit() { i += 3; continue; } else { return false; } }
        if !ok(v[i]) { return false; }
        i += 1;
    }
    true
}
fn rfc3987_abs(s: &str) -> bool {
    let Some((scheme, rest)) = s.split_once(':') else { return false };
    if !(scheme.starts_with(|c: char| c.is_ascii_alphabetic()) && scheme.chars().all(|c| c.is_ascii_alphanumeric() || "+-.".contains(c))) { return false; }
    let (rest, frag) = match rest.split_once('#') { Some((a, b)) => (a, Some(b)), None => (rest, None) };
    let (hier, query) = match rest.split_once('?') { Some((a, b)) => (a, Some(b)), None => (rest, None) };
    let ipchar = |c: char| iunreserved(c) || sub_delim(c) || c == ':' || c == '@';
    if let Some(f) = frag { if !chars_ok(f, |c| ipchar(c) || c == '/' || c == '?') { return false; } }
    if let Some(q) = query { if !chars_ok(q, |c| ipchar(c) || iprivate(c) || c == '/' || c == '?') { return false; } }
    let path = if let Some(h) = hier.strip_prefix("//") {
        let (auth, path) = match h.find('/') { Some(i) => (&h[..i], &h[i..]), None => (h, "") };
        let hostport = match auth.split_once('@') { Some((u, hp)) => { if !chars_ok(u, |c| iunreserved(c) || sub_delim(c) || c == ':') { return false; } hp } None => auth };
        let (host, port) = if hostport.starts_with('[') {
            let Some(i) = hostport.find(']') else { return false };
            if !hostport[1..i].chars().all(|c| c.is_ascii_hexdigit() || c == ':' || c == '.') || i == 1 { return false; }
            match &hostport[i + 1..] { "" => ("", None), p if p.starts_with(':') => ("", Some(&p[1..])), _ => return false }
        } else { match hostport.split_once(':') { Some((h, p)) => (h, Some(p)), None => (hostport, None) } };
        if !chars_ok(host, |c| iunreserved(c) || sub_delim(c)) { return false; }
        if let Some(p) = port { if !p.chars().all(|c| c.is_ascii_digit()) { return false; } }
        path
    } else { hier };
    chars_ok(path, |c| ipchar(c) || c == '/')
}
/// an absolute IRI accepted by sophia_iri::Iri::new and valid for the independent RFC 3987 check
/// above.  sophia_iri accepts a few strings that are not RFC 3987 IRIs (e.g. `x://:'` : a
/// non-digit port); those are outside the quantifier of C03 ("all absolute IRIs"): tallied, redrawn.
fn gen_iri(r: &mut Rng, sum: &mut Summary) -> String {
    loop {
        let mut s = pk(r, IRI_BASES).to_string();
        for _ in 0..r.below(5) { s.push_str(pk(r, IRI_PARTS)); }
        if sophia_iri::Iri::new(s.as_str()).is_err() { if rfc3987_abs(&s) { sum.bump("iri-draw-valid-RFC3987-but-refused-by-sophia_iri(IPv6 regex, see C09)"); } continue; }
        if !rfc3987_abs(&s) { sum.bump("iri-draw-accepted-by-sophia_iri-but-not-RFC3987"); if !sum.samples.iter().any(|x| x.starts_with("not an RFC 3987 IRI")) { sum.samples.push(format!("not an RFC 3987 IRI but accepted by sophia_iri::Iri::new: {s:?}")); } continue; }
        return s;
    }
}
const LAB_FIRST: &[&str] = &["a", "Z", "_", "0", "9", "\u{e9}", "\u{3b1}", "\u{3001}", "\u{10000}", "\u{effff}", "\u{c0}", "\u{200c}"];
const LAB_MID: &[&str] = &["a", "z", "_", "-", "0", "7", ".", ".", "\u{b7}", "\u{300}", "\u{36f}", "\u{203f}", "\u{2040}", "\u{e9}", "\u{d7ff}", "\u{fdcf}", "\u{10000}", "\u{effff}"];
/// a label of the W3C grammar (the last character is never '.'); `w3c_only`: force a feature that
/// BnodeId::new refuses (consecutive dots or a colon)
fn gen_label_raw(r: &mut Rng, w3c_only: bool) -> String {
    let mut s = pk(r, LAB_FIRST).to_string();
    for _ in 0..r.below(6) { s.push_str(pk(r, LAB_MID)); }
    if w3c_only { s.push_str(pk(r, &["..", ":", "...", ".:", ":."])); s.push_str(pk(r, LAB_FIRST)); }
    while s.ends_with('.') { s.pop(); s.push_str(pk(r, LAB_FIRST)); }
    s
}
fn gen_label(r: &mut Rng, sum: &mut Summary) -> String {
    loop {
        let s = gen_label_raw(r, false);
        if BnodeId::new(s.as_str()).is_ok() { return s; }
        sum.bump("label-draw-refused-by-BnodeId::new(consecutive dots)");
    }
}
fn rand_case(r: &mut Rng, s: &str) -> String { s.chars().map(|c| if r.chance(1, 2) { c.to_ascii_uppercase() } else { c.to_ascii_lowercase() }).collect() }
/// a well-formed BCP47 tag (RFC 5646 section 2.1 syntax) by construction, in random case
fn gen_tag(r: &mut Rng, lower_only: bool) -> String {
    let t = if r.chance(1, 8) { pk(r, &["x-private", "x-a1-12345678", "i-klingon", "en-GB-oed", "zh-min-nan", "i-default", "art-lojban"]).to_string() } else {
        let mut parts: Vec<String> = vec![pk(r, &["en", "fr", "de", "zh", "sr", "yue", "es", "abcde", "abcdefgh"]).to_string()];
        if parts[0].len() <= 3 && r.chance(1, 8) { parts.push(pk(r, &["cmn", "yue", "abc"]).to_string()); }
        if r.chance(1, 4) { parts.push(pk(r, &["Latn", "Cyrl", "Hant"]).to_string()); }
        if r.chance(1, 2) { parts.push(pk(r, &["US", "be", "419", "GB", "001"]).to_string()); }
        if r.chance(1, 5) { parts.push(pk(r, &["1996", "valencia", "rozaj", "1694acad"]).to_string()); }
        if r.chance(1, 6) { parts.push("u".into()); parts.push(pk(r, &["co", "phonebk", "12"]).to_string()); }
        if r.chance(1, 6) { parts.push("x".into()); parts.push(pk(r, &["priv", "1", "a-b"]).to_string()); }
        parts.join("-")
    };
    let t = if lower_only { t.to_ascii_lowercase() } else { rand_case(r, &t) };
    assert!(LanguageTag::new(t.as_str()).is_ok());
    t
}
/// accepted by LanguageTag::new (documented as more permissive than BCP47) but not BCP47
const LAX_TAGS: &[&str] = &["a-u-12", "i-private", "a", "en-x", "a1", "en1-us", "abcdefghi", "en-a"];
const DATATYPES: &[&str] = &["http://www.w3.org/2001/XMLSchema#string", "http://www.w3.org/2001/XMLSchema#string", "http://www.w3.org/2001/XMLSchema#integer", "http://www.w3.org/2001/XMLSchema#String", "http://www.w3.org/2001/XMLSchema#strin", "http://www.w3.org/2001/XMLSchema#string1", "http://www.w3.org/1999/02/22-rdf-syntax-ns#HTML", "x:dt"];
/// relative IRI references (generalised RDF only).  The empty reference `<>` is left out: in a build
/// with debug assertions Rio's generalised parser (gtriple_allocator.rs, `dummy()`) mistakes an empty
/// IRI for its own place-holder and panics; that is a debug assertion of the third-party crate.
const REL_IRIS: &[&str] = &["#f", "../x", "a/b", "//h.example/p", "?q=1", "x", "\u{e9}/y#z"];
const VAR_CHARS: &[&str] = &["x", "Y", "_", "0", "9", "\u{e9}", "\u{3b1}", "\u{10000}", "\u{3001}", "v", "n1"];
/// allowed by VARNAME after the first character, but not read back by Rio's generalised parser
const VAR_EXT: &[&str] = &["\u{b7}", "\u{300}", "\u{203f}", "\u{2040}", "\u{36f}"];
struct Gen<'a> { r: Rng, sum: &'a mut Summary, lower_tags: bool, w3c_labels: bool, lax_tags: bool, ext_var: bool }
impl Gen<'_> {
    fn var(&mut self) -> T {
        let mut s = pk(&mut self.r, VAR_CHARS).to_string();
        for _ in 0..self.r.below(4) { s.push_str(pk(&mut self.r, VAR_CHARS)); }
        if self.r.chance(1, 12) { s.push_str(pk(&mut self.r, VAR_EXT)); s.push_str(pk(&mut self.r, VAR_CHARS)); self.ext_var = true; }
        assert!(sophia_api::term::VarName::new(s.as_str()).is_ok());
        T::Var(s)
    }
    /// any kind of term (generalised RDF)
    fn gterm(&mut self, depth: usize) -> T {
        match self.r.below(if depth > 0 { 12 } else { 10 }) {
            0 => T::Iri(pk(&mut self.r, REL_IRIS).to_string()), 1 | 2 => T::Iri(gen_iri(&mut self.r, self.sum)), 3 | 4 => self.bnode(), 5 | 6 => self.literal(), 7..=9 => self.var(),
            _ => T::Tr(Box::new([self.gterm(depth - 1), self.gterm(depth - 1), self.gterm(depth - 1)])),
        }
    }
    fn gquad(&mut self, graphs: bool) -> Q {
        let depth = if self.r.chance(1, 3) { self.r.range(1, 2) } else { 0 };
        let g = if !graphs || self.r.chance(1, 3) { None } else { Some(self.gterm(depth.min(1))) };
        (self.gterm(depth), self.gterm(0), self.gterm(depth), g)
    }
    fn bnode(&mut self) -> T { if self.w3c_labels { T::B(gen_label_raw(&mut self.r, true)) } else { T::B(gen_label(&mut self.r, self.sum)) } }
    fn literal(&mut self) -> T {
        let lex = gen_lex(&mut self.r);
        if self.lax_tags { T::Lang(lex, pk(&mut self.r, LAX_TAGS).to_string()) }
        else if self.r.chance(1, 3) { T::Lang(lex, gen_tag(&mut self.r, self.lower_tags)) }
        else { let dt = if self.r.chance(1, 6) { gen_iri(&mut self.r, self.sum) } else { pk(&mut self.r, DATATYPES).to_string() }; T::Lit(lex, dt) }
    }
    fn quoted(&mut self, depth: usize) -> T { T::Tr(Box::new([self.subject(depth), T::Iri(gen_iri(&mut self.r, self.sum)), self.object(depth)])) }
    fn subject(&mut self, depth: usize) -> T {
        match self.r.below(if depth > 0 { 5 } else { 4 }) { 0 | 1 => T::Iri(gen_iri(&mut self.r, self.sum)), 2 | 3 => self.bnode(), _ => self.quoted(depth - 1) }
    }
    fn object(&mut self, depth: usize) -> T {
        match self.r.below(if depth > 0 { 9 } else { 8 }) { 0 | 1 => T::Iri(gen_iri(&mut self.r, self.sum)), 2 | 3 => self.bnode(), 4..=7 => self.literal(), _ => self.quoted(depth - 1) }
    }
    fn quad(&mut self, graphs: bool) -> Q {
        let depth = if self.r.chance(1, 3) { self.r.range(1, 3) } else { 0 };
        let g = if !graphs { None } else { match self.r.below(4) { 0 | 1 => None, 2 => Some(T::Iri(gen_iri(&mut self.r, self.sum))), _ => Some(self.bnode()) } };
        (self.subject(depth), T::Iri(gen_iri(&mut self.r, self.sum)), self.object(depth), g)
    }
}
fn has_tr(t: &T) -> bool { matches!(t, T::Tr(_)) }
fn nasty(t: &T) -> bool {
    match t {
        T::Iri(s) => !s.is_ascii(),
        T::B(s) => !s.is_ascii() || s.contains('.') || s.chars().next().unwrap().is_ascii_digit(),
        T::Lit(l, _) => l.chars().any(|c| (c as u32) < 32 || c == '"' || c == '\\' || !c.is_ascii()),
        T::Lang(l, g) => l.chars().any(|c| (c as u32) < 32 || c == '"' || c == '\\' || !c.is_ascii()) || g.chars().any(|c| c.is_ascii_uppercase()),
        T::Tr(_) | T::Var(_) => true,
    }
}

// ---------- hand formatter for the reader stream ----------
fn esc_lex(r: &mut Rng, s: &str) -> String {
    let mut o = String::new();
    for c in s.chars() {
        let e = match c { '\t' => Some("\\t"), '\u{8}' => Some("\\b"), '\n' => Some("\\n"), '\r' => Some("\\r"), '\u{c}' => Some("\\f"), '"' => Some("\\\""), '\'' => Some("\\'"), '\\' => Some("\\\\"), _ => None };
        let must = matches!(c, '\n' | '\r' | '"' | '\\');
        match r.below(6) {
            0 => o.push_str(&if (c as u32) < 0x10000 && r.chance(1, 2) { format!("\\u{:04X}", c as u32) } else { format!("\\U{:08x}", c as u32) }),
            1 | 2 if e.is_some() => o.push_str(e.unwrap()),
            _ if must => o.push_str(e.unwrap()),
            _ => o.push(c),
        }
    }
    o
}
fn esc_iri(r: &mut Rng, s: &str) -> String {
    s.chars().map(|c| if !c.is_ascii() && r.chance(1, 3) { if (c as u32) < 0x10000 { format!("\\u{:04x}", c as u32) } else { format!("\\U{:08X}", c as u32) } } else { c.to_string() }).collect()
}
fn ws(r: &mut Rng, allow_empty: bool) -> &'static str { match r.below(8) { 0 if allow_empty => "", 1 => "\t", 2 => "  ", 3 => " \t ", _ => " " } }
fn fmt_term(r: &mut Rng, t: &T) -> String {
    match t {
        T::Iri(s) => format!("<{}>", esc_iri(r, s)),
        T::B(s) => format!("_:{s}"),
        T::Lit(l, d) => if d == "http://www.w3.org/2001/XMLSchema#string" && r.chance(2, 3) { format!("\"{}\"", esc_lex(r, l)) } else { format!("\"{}\"^^<{}>", esc_lex(r, l), esc_iri(r, d)) },
        T::Lang(l, g) => format!("\"{}\"@{g}", esc_lex(r, l)),
        T::Tr(b) => { let (s, p, o) = (fmt_term(r, &b[0]), fmt_term(r, &b[1]), fmt_term(r, &b[2])); let e1 = s.ends_with('>'); let e2 = o.ends_with('>') || o.ends_with('"'); format!("<<{}{s}{}{p}{}{o}{}>>", ws(r, true), ws(r, e1), ws(r, true), ws(r, e2)) }
        T::Var(s) => format!("?{s}"),
    }
}
fn fmt_doc(r: &mut Rng, qs: &[Q], bare_cr: bool) -> String {
    let mut o = String::new();
    if r.chance(1, 4) { o.push_str(pk(r, &["\n", "# a comment <x> \"y\" .\n", "  \t\n", "\r\n", "#\n\n"])); }
    for (i, q) in qs.iter().enumerate() {
        o.push_str(ws(r, true).trim_start_matches(|_| r.chance(1, 2)));
        let (s, p, ob) = (fmt_term(r, &q.0), fmt_term(r, &q.1), fmt_term(r, &q.2));
        o.push_str(&s); o.push_str(ws(r, s.ends_with('>'))); o.push_str(&p); o.push_str(ws(r, true)); o.push_str(&ob);
        if let Some(g) = &q.3 { let ok = ob.ends_with('>') || ob.ends_with('"'); o.push_str(ws(r, ok)); o.push_str(&fmt_term(r, g)); }
        o.push_str(ws(r, true)); o.push('.'); o.push_str(ws(r, true));
        if r.chance(1, 5) { o.push_str("# trailing comment . \" <"); }
        let last = i + 1 == qs.len();
        if !(last && r.chance(1, 3)) { o.push_str(if bare_cr { "\r" } else { pk(r, &["\n", "\n", "\r\n", "\n\n", "\n \t\n#c\n", "\n\r\n"]) }); }
    }
    o
}
const MUTATIONS: &[&str] = &["raw-lf-in-literal", "raw-cr-in-literal", "drop-final-dot", "literal-subject", "bad-echar", "bad-hex", "unterminated-iri", "space-in-iri", "bnode-predicate", "empty-langtag", "single-caret", "two-statements-one-line", "unterminated-literal", "junk-after-dot", "literal-graph"];
fn mutate(r: &mut Rng, doc: &str) -> (String, &'static str) {
    let m = *r.pick(MUTATIONS);
    // the mutated statement goes on a line of its own (a bare CR inside a trailing comment would end
    // the comment for the grammar but not for Rio)
    let sep = if doc.is_empty() || doc.ends_with('\n') { "" } else { "\n" };
    let line = |s: &str| format!("{doc}{sep}{s}\n");
    let d = match m {
        "raw-lf-in-literal" => line("<x:s> <x:p> \"a\nb\" ."),
        "raw-cr-in-literal" => line("<x:s> <x:p> \"a\rb\" ."),
        "drop-final-dot" => line("<x:s> <x:p> <x:o>"),
        "literal-subject" => line("\"s\" <x:p> <x:o> ."),
        "bad-echar" => line("<x:s> <x:p> \"a\\xb\" ."),
        "bad-hex" => line("<x:s> <x:p> \"a\\u12G4\" ."),
        "unterminated-iri" => line("<x:s> <x:p> <x:o ."),
        "space-in-iri" => line("<x:s> <x:p> <x:o o> ."),
        "bnode-predicate" => line("<x:s> _:p <x:o> ."),
        "empty-langtag" => line("<x:s> <x:p> \"a\"@ ."),
        "single-caret" => line("<x:s> <x:p> \"a\"^<x:d> ."),
        "two-statements-one-line" => line("<x:s> <x:p> <x:o> . <x:s> <x:p> <x:o2> ."),
        "unterminated-literal" => line("<x:s> <x:p> \"abc ."),
        "junk-after-dot" => line("<x:s> <x:p> <x:o> . junk"),
        _ => line("<x:s> <x:p> <x:o> \"g\" ."),
    };
    (d, m)
}

const BULK_EVERY: usize = 81;
const BULK_SIZES: &[usize] = &[9000, 3000, 17000, 8100, 25000, 8300, 12000, 41000, 7000, 20000, 33000, 66000];
fn main() {
    let a = parse_args();
    // the `ascii` option panics with todo!(): keep that quiet, everything else as usual
    let hook = std::panic::take_hook();
    std::panic::set_hook(Box::new(move |info| if !QUIET.with(|q| q.get()) { hook(info) }));
    let mut sum = Summary::default();
    sum.rule = "case = dataset of 0..4 well-formed strict/RDF-star quads (subjects IRI|bnode|quoted triple up to depth 3, objects also literals; lexical forms over all C0 controls, DEL, quotes, backslashes, CR/LF/TAB, non-BMP, combining marks, injection attempts; labels with dots / leading digits / middle dot / non-ASCII; BCP47 tags in random case; default / IRI / blank graph names) serialised as N-Quads or N-Triples through every public way of writing (one way drawn from the seed gives the text, the others must agree) and read back through every public way of reading, or a generalised dataset (variables, relative IRIs, any kind of term at any position) read back by the generalised parser, or a hand-formatted N-Quads text (escapes, white space, comments, one optional mutation); \
non-trivial = the dataset is non-empty and some term needs escaping, is non-ASCII, is a dotted/digit-leading label, an upper-case tag or a quoted triple (for reader cases: the text contains a backslash escape or is mutated); distinct = distinct serialised / formatted texts; \
directed next to the random stream: one case in 81 is a bulk dataset (30..700 statements, 3..70 KiB of text, sometimes one very long lexical form, sometimes repeated up to 1 MB); every dataset text also goes through io::Write probes (short writes, interruptions, budgets, BufWriter / LineWriter / Box / &mut) and every text is also read through the Source adapters (map / filter / filter_map, their iterators, to_triples / to_quads, indexed stores)".into();
    let base = Rng::new(a.seed);
    let mut cases: Vec<(usize, String)> = vec![];
    let mut seen = std::collections::HashSet::new();
    let range: Vec<usize> = match a.only { Some(i) => vec![i], None => (0..a.n).collect() };
    for idx in range {
        let mut r = base.fork(idx as u64);
        let stream = match r.below(40) { 0 | 1 => "w3c-label", 2 => "lax-tag", 3..=9 => "reader", 10..=12 => "generalized", _ => "dataset" };
        // directed, next to the random stream: one case in BULK_EVERY is a BULK dataset (texts from a few
        // KiB to several dozen KiB, so that every buffer size a serialiser, a BufWriter or a parser may
        // use is crossed), sizes taken in turn from BULK_SIZES
        // (one in BULK_EVERY among the first 50 * BULK_EVERY cases, one in 5 * BULK_EVERY after them: a
        // function of the case number alone, so that `--only` replays the same case)
        let every = if idx < 50 * BULK_EVERY { BULK_EVERY } else { 5 * BULK_EVERY };
        let bulk = idx % every == every / 2 + 1;
        let stream = if bulk { "dataset" } else { stream };
        let bulk_no = idx / every;
        let nq = (stream != "dataset" && stream != "lax-tag" && stream != "generalized") || r.chance(2, 3);
        let nquads = match r.below(10) { 0 => 0, 1..=4 => 1, 5..=7 => 2, _ => r.range(3, 4) };
        let mut g = Gen { r: r.fork(1), sum: &mut sum, lower_tags: stream == "reader", w3c_labels: stream == "w3c-label", lax_tags: stream == "lax-tag", ext_var: false };
        let mut quads: Vec<Q> = (0..nquads).map(|_| if stream == "generalized" { g.gquad(nq) } else { g.quad(nq) }).collect();
        if bulk {
            let target = BULK_SIZES[bulk_no % BULK_SIZES.len()];
            let size = |q: &Q| { fn l(t: &T) -> usize { match t { T::Iri(s) | T::B(s) | T::Var(s) => s.len() + 3, T::Lit(a, b) | T::Lang(a, b) => a.len() + b.len() + 8, T::Tr(b) => l(&b[0]) + l(&b[1]) + l(&b[2]) + 6 } } l(&q.0) + l(&q.1) + l(&q.2) + q.3.as_ref().map(l).unwrap_or(0) + 5 };
            let mut total: usize = quads.iter().map(size).sum();
            // one case in four: a single lexical form about half as long as the whole text
            if bulk_no % 4 == 3 {
                let mut lex = String::new(); while lex.len() < target / 2 { lex.push_str(&gen_lex(&mut g.r)); lex.push_str(pk(&mut g.r, &["lorem ipsum ", "\u{e9}t\u{e9} ", "x", "\u{1f600}", " "])); }
                let q = (g.subject(0), T::Iri(gen_iri(&mut g.r, g.sum)), T::Lit(lex, XSD_STRING.into()), None);
                total += size(&q); quads.push(q);
            }
            while total < target { let q = g.quad(nq); total += size(&q); let at = g.r.below(quads.len() + 1); quads.insert(at, q); }
        }
        // related statements: the same triple in another graph, an exact duplicate, the same subject/predicate
        // with another object ... next to the original or at the end (writers must not merge or drop any of them)
        if stream == "dataset" && !quads.is_empty() && g.r.chance(1, 3) {
            for _ in 0..g.r.range(1, 2) {
                let k = g.r.below(quads.len()); let q = quads[k].clone();
                let v: Q = match g.r.below(6) {
                    0 | 1 => { g.sum.bump("related:same-triple-other-graph"); let other = match (&q.3, g.r.below(3)) { (Some(_), 0) => None, (_, 1) => Some(T::Iri(gen_iri(&mut g.r, g.sum))), _ => Some(g.bnode()) }; (q.0, q.1, q.2, if nq { other } else { q.3 }) }
                    2 => { g.sum.bump("related:duplicate"); q }
                    3 => { g.sum.bump("related:same-sp-other-object"); let o = g.object(0); (q.0, q.1, o, q.3) }
                    4 => { g.sum.bump("related:same-po-other-subject"); let sb = g.subject(0); (sb, q.1, q.2, q.3) }
                    _ => { g.sum.bump("related:object-as-subject"); let o = g.object(0); match &q.2 { T::Iri(_) | T::B(_) | T::Tr(_) => (q.2.clone(), q.1, o, q.3), _ => (q.0, q.1, o, q.3) } }
                };
                if g.r.chance(2, 3) { quads.insert(k + 1, v); } else { quads.push(v); }
            }
        }
        if stream == "lax-tag" { let l = g.literal(); quads.push((T::Iri("x:s".into()), T::Iri("x:p".into()), l, None)); }
        if stream == "w3c-label" && !quads.iter().any(|q| matches!(q.0, T::B(_)) || matches!(q.2, T::B(_))) { quads.push((g.bnode(), T::Iri("x:p".into()), g.bnode(), None)); }
        let ext_var = g.ext_var;
        sum.evaluations += 1;
        sum.bump(&format!("stream:{stream}"));
        if stream == "reader" {
            // EOL ::= [#xD#xA]+ : a bare CR ends a line for the grammar. Rio only looks for LF and
            // silently skips the statement after a bare CR, so these documents are checked against
            // the intended quads on the Coq side only and Rio's behaviour is tallied.
            let bare_cr = r.chance(1, 12);
            let mut text = fmt_doc(&mut r, &quads, bare_cr);
            if bare_cr {
                match parse_nq(text.as_bytes()) { Ok(got) if same_qs(&got, &quads) => sum.bump("reader:bare-CR-eol:sophia-reads-all"), Ok(got) => { sum.bump("reader:bare-CR-eol:sophia-silently-loses-statements"); sum.bump_by("reader:bare-CR-eol:statements-lost", (quads.len() - got.len().min(quads.len())) as u64) }, Err(_) => sum.bump("reader:bare-CR-eol:sophia-rejects") }
                if a.only.is_some() { println!("CASE {idx} (reader, bare CR line ends): text {text:?}"); }
                cases.push((idx, format!("read_ok {} {}", coq_bytes(text.as_bytes()), c_quads(&quads))));
                continue;
            }
            let mutated = r.chance(1, 4);
            let mut mname = "none";
            let clean = if mutated { parse_nq(text.as_bytes()).ok() } else { None };
            if mutated { let (d, m) = mutate(&mut r, &text); text = d; mname = m; }
            let bytes = text.as_bytes();
            let res = parse_nq(bytes);
            // all the ways of reading agree with the plain one (same quads, or all reject)
            for (name, other) in nq_read_paths(bytes, idx) {
                let agree = match (&res, &other) { (Ok(a), Ok(b)) => a == b, (Err(_), Err(_)) => true, _ => false };
                if !agree { sum.oracle_failures.push((idx.to_string(), format!("reading the text {text:?}: nq::parse_bufread + for_each_quad gives {res:?} but {name} gives {other:?}"))); }
            }
            // strict N-Quads is a subset of generalised N-Quads: same quads there
            if let Ok(got) = &res {
                match parse_gnq(bytes) { Ok(g2) if g2 == *got => sum.bump("reader:accepted:gnq-reads-the-same"), g2 => sum.oracle_failures.push((idx.to_string(), format!("reading the text {text:?}: the N-Quads parser gives {got:?}, the generalised one {g2:?}"))) }
            } else {
                // a malformed statement: the statements before it were delivered, and the failure is a SOURCE error
                let (pre, stop) = nq_prefix(bytes);
                if stop != Some(true) { sum.oracle_failures.push((idx.to_string(), format!("reading the malformed text {text:?}: try_for_each_quad with a sink that never fails ended with {stop:?} (Some(true) = source error)"))); }
                if let Some(c) = &clean { if pre == *c { sum.bump("reader:rejected:statements-before-the-malformed-one-all-delivered"); } else { sum.oracle_failures.push((idx.to_string(), format!("reading the text {text:?} whose last line is malformed: delivered {pre:?} before the error, the well-formed part is {c:?}"))); } }
            }
            let body = match &res {
                Ok(got) => {
                    sum.bump("reader:accepted-by-sophia");
                    if !mutated && !same_qs(got, &quads) { sum.bump("reader:sophia-differs-from-intended"); if a.only.is_some() { println!("sophia parsed {:?}\nintended {:?}", got, quads); } }
                    if mutated { sum.bump(&format!("reader:mutation-accepted-by-sophia:{mname}")); }
                    format!("read_ok {} {}", coq_bytes(bytes), c_quads(got))
                }
                Err(_) => { sum.bump(&format!("reader:rejected:{mname}")); format!("read_rejects {}", coq_bytes(bytes)) }
            };
            // the adapters and their iterators, on well-formed and malformed texts alike
            let obs = obs_quads(&|| nq::parse_bufread(bytes), [2, 0, 3, 1, 5][idx % 5]);
            let (n_plain, ok_plain) = count_quads(nq::parse_bufread(bytes));
            for what in obs.oracle(n_plain, ok_plain) { sum.oracle_failures.push((idx.to_string(), format!("reading the text {text:?} through the adapters of the parser source: {what}"))); }
            let body = format!("{body} && {}", obs.coq(n_plain));
            sum.bump(if ok_plain { "adapters:trace-ends-with-Ok(false)" } else { "adapters:trace-ends-with-a-source-error" });
            if a.only.is_some() { println!("CASE {idx} (reader, mutation {mname}): text {text:?}\n => {:?}\n trace {:?}", res, obs.trace); }
            let nontrivial = text.contains('\\') || mutated;
            if seen.insert(text.clone()) && nontrivial { sum.distinct_nontrivial += 1; }
            if sum.samples.len() < 6 && nontrivial && idx % 7 == 0 { sum.samples.push(format!("case {idx} (reader, mutation {mname}): {text:?}")); }
            cases.push((idx, body));
            continue;
        }
        if stream == "w3c-label" {
            // BnodeId::new refuses these labels (and new_unchecked asserts in this build), so no sophia
            // term can carry them: the text is hand-formatted, the Coq reader must read it back, Rio's
            // verdict is only tallied
            let text = fmt_doc(&mut r, &quads, false);
            match parse_nq(text.as_bytes()) { Ok(got) if same_qs(&got, &quads) => sum.bump("w3c-label:rio-reads-back"), Ok(_) => sum.bump("w3c-label:rio-reads-differently"), Err(_) => sum.bump("w3c-label:rio-rejects") }
            if a.only.is_some() { println!("CASE {idx} (w3c-label): text {text:?}"); }
            if seen.insert(text.clone()) { sum.distinct_nontrivial += 1; }
            cases.push((idx, format!("wf_quads {0} && read_ok {1} {0}", c_quads(&quads), coq_bytes(text.as_bytes()))));
            continue;
        }
        let lax = stream == "lax-tag";
        let gnr = stream == "generalized";
        // (a) serialise with the implementation: one way drawn from the seed gives THE text, all the
        // other public ways must give the same bytes
        let mut r2 = r.fork(7);
        let k = r2.below(1000);
        let ncuts = if quads.is_empty() { 0 } else { r2.below(3) };
        let mut cuts: Vec<usize> = (0..ncuts).map(|_| r2.below(quads.len() + 1)).collect();
        cuts.sort();
        // a panic inside one way of writing is reported like a wrong text (the message is printed as usual)
        let writer = |way: usize| std::panic::catch_unwind(std::panic::AssertUnwindSafe(|| if nq { write_nq(way, &quads, &cuts, k) } else { write_nt(way, &quads, &cuts, k) })).unwrap_or_else(|_| Some(Err("PANIC".into())));
        let mut fails: Vec<String> = vec![];
        let mut way = r2.below(WRITE_WAYS.len());
        let first = match writer(way) { Some(x) => x, None => { way = 0; writer(0).unwrap() } };
        let bytes: Vec<u8> = match first {
            Ok(b) => b,
            Err(e) => {
                fails.push(format!("writing by [{}] fails on an in-memory target: {e}", WRITE_WAYS[way]));
                way = 0;
                match writer(0).unwrap() {
                    Ok(b) => b,
                    Err(e) => {
                        // no way of writing works: the failure itself is the finding (the case cannot go on without a text)
                        sum.oracle_failures.push((idx.to_string(), format!("the serialiser fails on an in-memory target for the statements {:?} ({}): {e}", quads.iter().take(6).collect::<Vec<_>>(), WRITE_WAYS[0])));
                        for f in fails.drain(..) { sum.oracle_failures.push((idx.to_string(), f)); }
                        continue;
                    }
                }
            }
        };
        let text = String::from_utf8_lossy(&bytes).to_string();
        sum.bump(if nq { "format:nq" } else { "format:nt" });
        sum.bump(&format!("write-way:{}", WRITE_WAYS[way]));
        sum.bump(&format!("quads:{}", quads.len()));
        for q in &quads {
            if has_tr(&q.0) || has_tr(&q.2) { sum.bump("quad-with-quoted-triple"); }
            if gnr { if strict_q(q) { sum.bump("generalized:strict-quad"); } else { sum.bump("generalized:non-strict-quad"); } if [&q.0, &q.1, &q.2].iter().any(|t| matches!(t, T::Var(_))) || matches!(q.3, Some(T::Var(_))) { sum.bump("generalized:quad-with-variable"); } }
            match &q.3 { None => sum.bump("graph:default"), Some(T::Iri(_)) => sum.bump("graph:iri"), Some(T::B(_)) => sum.bump("graph:bnode"), Some(_) => sum.bump("graph:other-term(generalized)") }
            if let T::Lit(l, _) | T::Lang(l, _) = &q.2 { if l.contains('\r') { sum.bump("object-literal-with-CR"); } if l.contains('\u{0}') { sum.bump("object-literal-with-U+0000"); } if l.ends_with('\\') { sum.bump("object-literal-ending-in-backslash"); } }
        }
        if a.only.is_some() { println!("CASE {idx} ({stream}, {}, written by: {}, cuts {cuts:?}, k {k}):", if nq { "nq" } else { "nt" }, WRITE_WAYS[way]); for q in &quads { println!("  {}", show_q(q)); } println!("text: {text:?}"); }
        // (b) ORACLE
        if std::str::from_utf8(&bytes).is_err() { fails.push("the serialised text is not UTF-8".into()); }
        for w in (0..WRITE_WAYS.len()).filter(|w| *w != way) {
            match writer(w) {
                None => {}
                Some(Err(e)) => fails.push(format!("writing by [{}] fails: {e}", WRITE_WAYS[w])),
                Some(Ok(b)) => if b != bytes { fails.push(format!("writing by [{}] gives {:?}, writing by [{}] gives the text below", WRITE_WAYS[w], String::from_utf8_lossy(&b), WRITE_WAYS[way])) },
            }
        }
        // the budget of the failing writer: anywhere, near the end of the text, or near the end of a statement
        let budget = match r2.below(3) {
            0 => r2.below(bytes.len() + 2),
            1 => bytes.len().saturating_sub(r2.below(4)),
            _ => { let lfs: Vec<usize> = bytes.iter().enumerate().filter(|(_, b)| **b == b'\n').map(|(i, _)| i).collect(); if lfs.is_empty() { 0 } else { (lfs[r2.below(lfs.len())] + 2).saturating_sub(r2.below(4)) } }
        };
        if let Err(e) = failing_writer_check(nq, &quads, &bytes, budget) { fails.push(e); }
        // io::Write probes: short writes, interruptions, budgets, behind the usual wrappers
        let mut r3 = r.fork(11);
        let mut sink_obs: Vec<(Option<usize>, usize, bool)> = vec![];
        let mut probe_round = |fmt_nq: bool, qs: &[Q], full: &[u8], count: usize, r3: &mut Rng, fails: &mut Vec<String>, obs: Option<&mut Vec<(Option<usize>, usize, bool)>>, sum: &mut Summary| {
            let mut obs = obs;
            for _ in 0..count {
                let pr = gen_probe(r3, full.len()); let wrap = r3.below(WRAPS.len()); let by_source = r3.chance(1, 2); let bud = pr.budget;
                sum.bump(&format!("probe:wrapper:{}", WRAPS[wrap])); sum.bump(if bud.is_some() { "probe:with-budget" } else { "probe:without-budget" });
                if full.len() > 8192 { sum.bump("probe:text-over-8KiB"); } if full.len() > 65536 { sum.bump("probe:text-over-64KiB"); }
                let mut f = vec![];
                let r = std::panic::catch_unwind(std::panic::AssertUnwindSafe(|| probe_check(fmt_nq, qs, full, pr.clone(), wrap, by_source, &mut f)));
                fails.extend(f);
                match r { Ok((n, ok)) => if let Some(o) = obs.as_deref_mut() { o.push((bud, n, ok)); }, Err(_) => fails.push(format!("PANIC while serialising into {}", pr.describe())) }
            }
        };
        probe_round(nq, &quads, &bytes, if bulk { 10 } else { 3 }, &mut r3, &mut fails, Some(&mut sink_obs), &mut sum);
        if bulk {
            sum.bump(&format!("bulk:text-bytes>={}KiB", [0, 4, 8, 16, 32, 64].iter().rev().find(|x| bytes.len() >= **x * 1024).unwrap()));
            sum.bump(&format!("bulk:statements>={}", [0, 50, 100, 200, 400].iter().rev().find(|x| quads.len() >= **x).unwrap()));
            // the other format too (oracle only: the text of the stringifier is the reference)
            let other = if nq { write_nt(0, &quads, &[], k) } else { write_nq(0, &quads, &[], k) }.unwrap();
            match other { Ok(o) => probe_round(!nq, &quads, &o, 10, &mut r3, &mut fails, None, &mut sum), Err(e) => fails.push(format!("the other format fails on an in-memory target: {e}")) }
            // one bulk case in three: the same statements over and over, up to several hundred KiB
            // (oracle only): the text is the repetition of the text, through the probes too, and reads back
            if bulk_no % 3 == 0 {
                let reps = ([300_000, 1_100_000, 600_000][(bulk_no / 3) % 3] / bytes.len().max(1)).max(2);
                let big: Vec<Q> = (0..reps).flat_map(|_| quads.iter().cloned()).collect();
                let want = bytes.repeat(reps);
                sum.bump("bulk:repeated-to-several-hundred-KiB");
                match if nq { write_nq(0, &big, &[], k) } else { write_nt(0, &big, &[], k) }.unwrap() {
                    Ok(b) if b == want => {
                        let mut f2 = vec![];
                        probe_round(nq, &big, &want, 4, &mut r3, &mut f2, None, &mut sum);
                        fails.extend(f2.into_iter().map(|x| format!("the statements repeated {reps} times: {x}")));
                        let back = if nq { consume_quads(&|| nq::parse_bufread(&want[..]), 6, 0) } else { consume_triples(&|| nt::parse_bufread(&want[..]), 6, 0) };
                        match back { Ok(got) => if !same_qs(&got, &big) { fails.push(format!("the statements repeated {reps} times read back (map_* + into_iter) as {} statements that are not the {} written", got.len(), big.len())); }, Err(e) => fails.push(format!("the statements repeated {reps} times: the parser rejects the text: {e}")) }
                    }
                    Ok(b) => fails.push(format!("the statements repeated {reps} times serialise to {} bytes that are not {reps} times the text", b.len())),
                    Err(e) => fails.push(format!("the statements repeated {reps} times: the serialiser fails on an in-memory target: {e}")),
                }
            }
        }
        { let mut errs = vec![]; if std::panic::catch_unwind(std::panic::AssertUnwindSafe(|| check_rio_views(&quads, k % 2 == 0, &mut errs))).is_err() { errs.push("PANIC while looking at the Rio wrappers of the terms".into()); } fails.extend(errs); }
        let base: fn(&[u8]) -> Rd = if gnr { parse_gnq } else if nq { parse_nq } else { parse_nt };
        let enforce = !lax && !ext_var;
        if !enforce {
            let what = if lax { "lax-tag(not BCP47, accepted by LanguageTag::new)" } else { "generalized:variable-name-with-U+00B7/combining/tie(VARNAME, not read by Rio)" };
            match base(&bytes) { Ok(got) if same_qs(&got, &quads) => sum.bump(&format!("{what}:sophia-reads-back")), Ok(_) => sum.bump(&format!("{what}:sophia-reads-differently")), Err(_) => sum.bump(&format!("{what}:sophia-parser-rejects-own-output")) }
        } else {
            let mut readers: Vec<(String, Rd)> = vec![];
            if gnr { readers.push(("gnq".into(), parse_gnq(&bytes))); readers.extend(gnq_read_paths(&bytes, k)); }
            else if nq { readers.push(("nq".into(), parse_nq(&bytes))); readers.push(("gnq".into(), parse_gnq(&bytes))); readers.extend(nq_read_paths(&bytes, k)); readers.extend(gnq_read_paths(&bytes, k + 1)); }
            else { readers.push(("nt".into(), parse_nt(&bytes))); readers.push(("nq".into(), parse_nq(&bytes))); readers.extend(nt_read_paths(&bytes, k)); readers.extend(nq_read_paths(&bytes, k + 1)); }
            for (name, res) in &readers {
                match res {
                    Err(e) => fails.push(format!("sophia's {name} parser rejects the serialiser's output: {e}")),
                    Ok(got) => if !same_qs(got, &quads) { fails.push(format!("sophia's {name} parser reads back different quads: {}", got.iter().map(show_q).collect::<Vec<_>>().join(" | "))) },
                }
            }
            let lf = bytes.iter().filter(|b| **b == b'\n').count();
            if lf != quads.len() || bytes.contains(&b'\r') { fails.push(format!("{lf} LF bytes (CR present: {}) for {} quads", bytes.contains(&b'\r'), quads.len())); }
            else {
                let lines: Vec<&[u8]> = bytes.split_inclusive(|b| *b == b'\n').collect();
                for (i, l) in lines.iter().enumerate() {
                    match base(l) { Ok(got) if got.len() == 1 && same_q(&got[0], &quads[i]) => {}, other => fails.push(format!("line {i} alone does not parse to quad {i}: {:?}", other)) }
                }
            }
            // parser piped into serialiser: the text of what the parser read (tags in the parser's case)
            if let Ok(got) = base(&bytes) {
                let expect = if nq { write_nq(0, &got, &[], k) } else { write_nt(0, &got, &[], k) }.unwrap();
                let kinds: &[&str] = if gnr { &["gnq"] } else if nq { &["nq", "gnq"] } else { &["nt", "nq"] };
                for kind in kinds {
                    let piped = pipe(kind, &bytes);
                    if piped != expect { fails.push(format!("the {kind} parser piped into the serialiser gives {:?}, serialising the quads it reads gives {:?}", piped.as_ref().map(|b| String::from_utf8_lossy(b).to_string()), expect.as_ref().map(|b| String::from_utf8_lossy(b).to_string()))); }
                    else if got == quads && piped.as_ref().ok() != Some(&bytes) { fails.push(format!("the {kind} parser piped into the serialiser does not reproduce the text")); }
                }
            }
            // the `ascii` option
            if r2.chance(1, 4) {
                match ascii_attempt(nq, &quads) {
                    None => sum.bump("ascii-config:not-implemented(todo!() panics, nothing written)"),
                    Some(Err(e)) => fails.push(format!("with set_ascii(true) the serialiser fails: {e}")),
                    Some(Ok(b)) => { sum.bump("ascii-config:returns-text"); if !b.is_ascii() { fails.push(format!("with set_ascii(true) the text is not ASCII: {:?}", String::from_utf8_lossy(&b))); } match base(&b) { Ok(got) if same_qs(&got, &quads) => {}, other => fails.push(format!("with set_ascii(true) the text {:?} reads back as {other:?}", String::from_utf8_lossy(&b))) } }
                }
            }
        }
        // the adapters of the parser source and their iterators, as numbers (oracle + Coq model)
        let m_keep = [2, 0, 3, 1, 5][k % 5];
        let (obs, (n_plain, ok_plain)) =
            if gnr { (obs_quads(&|| gnq::parse_bufread(&bytes[..]), m_keep), count_quads(gnq::parse_bufread(&bytes[..]))) }
            else if nq { (obs_quads(&|| nq::parse_bufread(&bytes[..]), m_keep), count_quads(nq::parse_bufread(&bytes[..]))) }
            else { (obs_triples(&|| nt::parse_bufread(&bytes[..]), m_keep), count_triples(nt::parse_bufread(&bytes[..]))) };
        fails.extend(obs.oracle(n_plain, ok_plain));
        if enforce && (n_plain, ok_plain) != (quads.len(), true) { fails.push(format!("for_each_* delivers {n_plain} statements (without error: {ok_plain}) for {} statements written", quads.len())); }
        sum.bump(if ok_plain { "adapters:trace-ends-with-Ok(false)" } else { "adapters:trace-ends-with-a-source-error" });
        sum.bump(&format!("adapters:rounds-without-statement:{}", obs.trace.iter().take_while(|(_, a)| *a == A_MORE).filter(|(n, _)| *n == 0).count().min(3)));
        let adapters_coq = obs.coq(n_plain);
        // a bulk dataset is not printed in full: its first statements, its size, and how to get it back
        let shown = if quads.len() <= 12 && text.len() <= 4000 { format!("[{}]", quads.iter().map(show_q).collect::<Vec<_>>().join(" | ")) } else { format!("[{} | ... {} statements in all, the whole dataset: c03 --seed {} --only {idx}]", quads.iter().take(3).map(show_q).collect::<Vec<_>>().join(" | "), quads.len(), a.seed) };
        let shown_text = if text.len() <= 4000 { format!("{text:?}") } else { format!("{:?}... ({} bytes)", text.chars().take(600).collect::<String>(), text.len()) };
        for what in fails { let what = if what.len() > 6000 { format!("{}...", what.chars().take(6000).collect::<String>()) } else { what }; sum.oracle_failures.push((idx.to_string(), format!("{} of the dataset {shown} (written by [{}]): {what}; serialised text {shown_text}", if nq { "N-Quads round trip" } else { "N-Triples round trip" }, WRITE_WAYS[way]))); }
        // (c) Coq case
        for q in quads.iter().filter(|q| match &q.2 { T::Lit(l, _) | T::Lang(l, _) => l.chars().count() <= 2 * CHUNK, _ => true }) { assert_eq!(coq_term(&to_st(&q.2)), c_term(&q.2)); assert_eq!(coq_term(&to_st(&q.0)), c_term(&q.0)); }
        let nontrivial = !quads.is_empty() && quads.iter().any(|q| nasty(&q.0) || nasty(&q.1) || nasty(&q.2) || q.3.as_ref().is_some_and(nasty));
        if seen.insert(text.clone()) && nontrivial { sum.distinct_nontrivial += 1; }
        if sum.samples.len() < 6 && nontrivial && idx % 5 == 0 { sum.samples.push(format!("case {idx} ({stream}): {text:?}")); }
        let calls: Vec<&[Q]> = { let mut v = vec![]; let mut from = 0; for &to in cuts.iter().chain([quads.len()].iter()) { v.push(&quads[from..to]); from = to; } v };
        let c_calls = coq_list(calls.iter().map(|c| c_quads(c)));
        // the statements and the bytes are written once (`qs`, `bs`; `calls` for the several-calls way)
        let defs = if way == W_CALLS { format!("let calls : list (list quad) := {c_calls} in let qs : list quad := concat calls in let bs : list N := {} in", cbytes(&bytes)) }
            else { format!("let qs : list quad := {} in let bs : list N := {} in", c_quads(&quads), cbytes(&bytes)) };
        let mut body =
            if lax { format!("(if {0} then write_ok qs bs else nt_write_ok qs bs) && (if wf_quads qs then read_ok bs qs else true)", coq_bool(nq)) }
            else if gnr { format!("gen_case_ok {} qs bs", coq_bool(nq)) }
            else if way == W_CALLS { format!("case_calls_ok {} calls bs", coq_bool(nq)) }
            else { format!("case_ok {} qs bs", coq_bool(nq)) };
        if way == W_CALLS && (lax || gnr) { body = format!("{body} && write_calls_ok {} calls bs", coq_bool(nq)); }
        if way == W_HAND || way == W_SINGLE {
            // the public write_term on its own, for the terms of the first two statements
            let mut pairs = vec![];
            for (i, q) in quads.iter().take(2).enumerate() {
                for (pos, t) in [(0, Some(&q.0)), (1, Some(&q.1)), (2, Some(&q.2)), (3, q.3.as_ref())] {
                    let Some(t) = t else { continue };
                    let mut w: Vec<u8> = vec![];
                    if way == W_HAND { write_term(&mut w, to_st(t)).unwrap(); } else { with_single!(t, pos, (i + pos + k) % 2 == 0, x => write_term(&mut w, x)).unwrap(); }
                    pairs.push(format!("({}, {})", c_term(t), coq_bytes(&w)));
                }
            }
            body = format!("{body} && terms_ok {}", coq_list(pairs));
        }
        body = format!("{body} && {adapters_coq}");
        if !sink_obs.is_empty() {
            let obs = coq_list(sink_obs.iter().map(|(b, n, ok)| format!("({}, {n}, {})", coq_opt(b.map(|x| x.to_string())), coq_bool(*ok))));
            body = format!("{body} && sinks_ok {} qs {obs}", coq_bool(nq));
        }
        body = format!("({defs} {body})");
        cases.push((idx, body));
    }
    if a.only.is_none() {
        let header = "From Sophia.Common Require Import Prelude Term.\nFrom Sophia.C03 Require Import Model Adapters.\n";
        sum.shards = write_shards(&a.out, header, &cases, a.shards);
        sum.extra.push(("coq_cases".into(), cases.len().to_string()));
        std::fs::write(format!("{}/summary.json", a.out), sum.to_json()).unwrap();
    }
    println!("c03: {} cases, {} distinct non-trivial, {} oracle failures", sum.evaluations, sum.distinct_nontrivial, sum.oracle_failures.len());
    for (c, d) in sum.oracle_failures.iter().take(5) { println!("ORACLE FAILURE case {c}: {d}"); }
}
