(* C04/DeepProofs.v -- theorems about the two model pieces of Deep.v.

   Part 1 (prefixes): is_valid_prefix -- the empty string or the REGENERATED regular expression of
   api/src/prefix/_regex.rs -- is exactly `prefix_ok`, the hypothesis of the term theorem on a prefix
   (empty, or the production PN_PREFIX of the Turtle grammar): a prefix map whose prefixes went through the checked
   constructor and are distinct satisfies `pm_ok`.

   Part 2 (MAX_DEPTH): whatever the bound and whatever the number of nodes cut loose,
     * the `while again` loop of write_graph ends by itself within 1 + (number of subjects of the graph) scans;
     * when it has ended, no subject of the graph is a root: every root -- those of the plan and those made by a
       cut -- has been written;
     * over the whole run no subject is written by write_tree twice;
     * every root of the plan and every node cut loose is still a root, or has been written by write_tree, or is in
       the ghost list d_odd: so, when the run is over, no root is left and d_odd is empty (what plan_d_ok evaluates
       on every case), each of them has been written by write_tree EXACTLY ONCE.
   No acyclicity or well-formedness hypothesis on the plan is needed. *)
From Coq Require Import Permutation.
From Sophia.Common Require Import Prelude.
From Sophia.C04 Require Import Regex Model Proofs Deep TermGrammar TermText.
From Sophia.C04 Require PrefixIncl.

(* ===================================================================================== *)
(* Part 1: prefixes                                                                      *)
(* ===================================================================================== *)
Theorem is_valid_prefix_spec p : is_valid_prefix p = prefix_ok p.
Proof.
  unfold is_valid_prefix, prefix_ok. destruct p as [|c p]; [reflexivity|].
  cbn [is_nil orb]. apply PrefixIncl.pn_prefix_re_exact.
Qed.

Theorem is_valid_prefix_grammar p : is_valid_prefix p = true <-> p = [] \/ matchb PN_PREFIX p = true.
Proof.
  rewrite is_valid_prefix_spec. unfold prefix_ok. rewrite orb_true_iff. split.
  - intros [H|H]; [left; destruct p; [reflexivity | discriminate H] | right; exact H].
  - intros [->|H]; [left; reflexivity | right; exact H].
Qed.

(* a prefix map built through the checked constructor, with distinct prefixes, is within the term theorem *)
Theorem checked_prefix_map_ok pm :
  forallb (fun e => is_valid_prefix (fst e)) pm = true -> distinct (map fst pm) = true -> pm_ok pm = true.
Proof.
  intros H D. unfold pm_ok. rewrite D, andb_true_r.
  rewrite forallb_forall in *. intros e I. rewrite <- is_valid_prefix_spec. apply H. exact I.
Qed.

(* and what the constructor refuses is outside the grammar *)
Theorem refused_prefix_not_in_grammar p : is_valid_prefix p = false -> p <> [] /\ matchb PN_PREFIX p = false.
Proof.
  rewrite is_valid_prefix_spec. unfold prefix_ok. intro H. apply orb_false_iff in H. destruct H as [A B].
  split; [intros -> ; discriminate A | exact B].
Qed.

(* non-vacuity: near misses on both sides *)
Example prefix_examples :
  (* accepted: "", "a", "a.b", "a..b", "a-", "a_", e-acute, "a" middle-dot, U+10000 *)
  forallb is_valid_prefix [[]; [97]; [97; 46; 98]; [97; 46; 46; 98]; [97; 45]; [97; 95]; [233]; [97; 183]; [65536]] = true /\
  (* refused: "_", "_a", "-a", "-", "1a", "a.", ".a", ".", "a b", "a:b", middle-dot "a", U+D7, U+37E, U+F0000, "a" U+FFFE *)
  forallb (fun p => negb (is_valid_prefix p))
    [[95]; [95; 97]; [45; 97]; [45]; [49; 97]; [97; 46]; [46; 97]; [46]; [97; 32; 98]; [97; 58; 98]; [183; 97]; [215]; [894];
     [983040]; [97; 65534]] = true.
Proof. vm_compute. split; reflexivity. Qed.

(* ===================================================================================== *)
(* Part 2: the write phase with its bound                                                 *)
(* ===================================================================================== *)
Lemma skey_eqb_neq a b : skey_eqb a b = false <-> a <> b.
Proof.
  split.
  - intros H E. apply skey_eqb_eq in E. rewrite E in H. discriminate H.
  - intro H. destruct (skey_eqb a b) eqn:E; [|reflexivity]. apply skey_eqb_eq in E. contradiction.
Qed.

Lemma st_get_set m k v k' :
  st_get (st_set m k v) k' =
  if skey_eqb k' k then match st_get m k with Some _ => Some v | None => None end else st_get m k'.
Proof.
  induction m as [|[k0 v0] m IH]; cbn [st_set st_get].
  - destruct (skey_eqb k' k); reflexivity.
  - destruct (skey_eqb k k0) eqn:E; cbn [st_get fst snd].
    + apply skey_eqb_eq in E. subst k0. destruct (skey_eqb k' k); reflexivity.
    + rewrite IH. destruct (skey_eqb k' k0) eqn:E0; [|reflexivity].
      apply skey_eqb_eq in E0. subst k0. destruct (skey_eqb k' k) eqn:E1; [|reflexivity].
      apply skey_eqb_eq in E1. subst k'. rewrite skey_eqb_refl in E. discriminate E.
Qed.

Lemma st_set_keys m k v : map fst (st_set m k v) = map fst m.
Proof.
  induction m as [|[k0 v0] m IH]; [reflexivity|]. cbn [st_set].
  destruct (skey_eqb k k0); cbn [map fst]; [reflexivity | rewrite IH; reflexivity].
Qed.

(* ---------- the induction principle of the writer: a preorder closed under its primitive steps ---------- *)
Section Ind.
  Variables (maxd : N) (ks : list tk) (first rest nil type_ : N) (quads : list quad) (g : gname).
  Variable R : dstate -> dstate -> Prop.
  Hypothesis R_refl : forall w, R w w.
  Hypothesis R_trans : forall a b c, R a b -> R b c -> R a c.
  Hypothesis R_emit : forall w q, R w (d_emit w q).
  Hypothesis R_fail : forall w, R w (d_fail w).
  Hypothesis R_done : forall w x, R w (d_done w (g, x)).
  Hypothesis R_take : forall w t, R w (d_take_list w t).
  Hypothesis R_cut : forall w t, st_get (d_st w) (g, t) = Some SubTree -> R w (d_cut w (g, t)).

  Lemma dlist_R wr : (forall w it, R w (wr w it)) ->
    forall items w c, R w (dlist first rest nil quads wr g w c items).
  Proof.
    intro Hwr. induction items as [|it items IH]; intros w c; [apply R_refl|].
    destruct c as [c|]; [|apply R_fail]. cbn [dlist].
    destruct items as [|it' items'].
    - eapply R_trans; [apply R_emit|]. eapply R_trans; [apply Hwr|]. apply R_emit.
    - destruct (rest_of rest quads g c) as [r|].
      + eapply R_trans; [apply R_emit|]. eapply R_trans; [apply Hwr|]. eapply R_trans; [apply R_emit|]. apply IH.
      + eapply R_trans; [apply R_emit|]. eapply R_trans; [apply Hwr|]. apply R_fail.
  Qed.

  Lemma dwrite_R : forall f props depth w t, R w (dwrite maxd ks first rest nil type_ quads f props g depth w t).
  Proof.
    induction f as [|f IH]; intros props depth w t; [apply R_fail|].
    cbn [dwrite]. destruct props.
    - generalize (props_of type_ quads g t). intro l. revert w.
      induction l as [|q l IHl]; intro w; [apply R_refl|].
      cbn [fold_left]. eapply R_trans; [|apply IHl].
      eapply R_trans; [apply R_emit|]. eapply R_trans; [apply IH|].
      destruct (find_triple_from 0 ks (q_s q) (q_p q) (q_o q)) as [tr|]; [|apply R_refl].
      match goal with |- R ?a (match st_get (d_st ?a) ?k with _ => _ end) => destruct (st_get (d_st a) k) as [[]|] end;
        try apply R_refl.
      eapply R_trans; [apply IH | apply R_done].
    - destruct (kind_of ks t); try apply R_refl.
      destruct (lm_get (d_lists w) t) as [items|].
      + eapply R_trans; [apply R_take|]. apply dlist_R. intros w' it. apply IH.
      + destruct (memN t (d_lab w)); [apply R_refl|].
        destruct (st_get (d_st w) (g, t)) as [[]|] eqn:E; try apply R_refl.
        destruct (maxd <=? depth).
        * apply R_cut. exact E.
        * eapply R_trans; [apply IH | apply R_done].
  Qed.
End Ind.

(* ---------- first instance: subject types only move towards Done; the keys, the trees written are untouched ---------- *)
Definition is_done (o : option stype) : bool := match o with Some Done => true | _ => false end.
Definition mono (w w' : dstate) : Prop :=
  (forall k, st_get (d_st w) k = Some Done -> st_get (d_st w') k = Some Done) /\
  map fst (d_st w') = map fst (d_st w).
Definition mono_t (w w' : dstate) : Prop := mono w w' /\ d_trees w' = d_trees w.

Lemma mono_refl w : mono w w.
Proof. split; [auto | reflexivity]. Qed.
Lemma mono_same w w' : d_st w' = d_st w -> mono w w'.
Proof. intro E. unfold mono. rewrite E. split; [auto | reflexivity]. Qed.
Lemma mono_trans a b c : mono a b -> mono b c -> mono a c.
Proof. intros [A1 A2] [B1 B2]. split; [auto | congruence]. Qed.
Lemma mono_set_done w w' k : d_st w' = st_set (d_st w) k Done -> mono w w'.
Proof.
  intro E. split.
  - intros k' H. rewrite E, st_get_set. destruct (skey_eqb k' k) eqn:Ek; [|exact H].
    apply skey_eqb_eq in Ek. subst k'. rewrite H. reflexivity.
  - rewrite E. apply st_set_keys.
Qed.

Lemma dwrite_mono_t maxd ks first rest nil type_ quads g f props depth w t :
  mono_t w (dwrite maxd ks first rest nil type_ quads f props g depth w t).
Proof.
  apply dwrite_R.
  - intro a. split; [apply mono_refl | reflexivity].
  - intros a b c [A1 A2] [B1 B2]. split; [eapply mono_trans; eassumption | congruence].
  - intros a q. split; [apply mono_same; reflexivity | reflexivity].
  - intro a. split; [apply mono_same; reflexivity | reflexivity].
  - intros a x. split; [apply (mono_set_done a _ (g, x)); reflexivity | reflexivity].
  - intros a x. split; [apply mono_same; reflexivity | reflexivity].
  - intros a x E. split; [|reflexivity]. split.
    + intros k' H. cbn [d_cut d_st]. rewrite st_get_set. destruct (skey_eqb k' (g, x)) eqn:Ek; [|exact H].
      apply skey_eqb_eq in Ek. subst k'. rewrite E in H. discriminate H.
    + cbn [d_cut d_st]. apply st_set_keys.
Qed.

Lemma st_get_present m k v : st_get m k = Some v -> forall m', map fst m' = map fst m -> exists v', st_get m' k = Some v'.
Proof.
  revert k v. induction m as [|[k0 v0] m IH]; intros k v H m' E; [discriminate H|].
  destruct m' as [|[k1 v1] m']; [discriminate E|]. cbn [map fst] in E. injection E as E1 E2. subst k1.
  cbn [st_get fst snd] in *. destruct (skey_eqb k k0); [eexists; reflexivity | eapply IH; eassumption].
Qed.

(* write_tree: the subject ends Done, the others only move towards Done *)
Lemma dtree_spec maxd ks first rest nil type_ quads g w s :
  is_root (st_get (d_st w) (g, s)) = true ->
  let w' := dtree maxd ks first rest nil type_ quads g w s in
  mono w w' /\ st_get (d_st w') (g, s) = Some Done /\ d_trees w' = d_trees w ++ [(g, s)].
Proof.
  intro Hr. unfold dtree.
  set (w1 := dwrite maxd ks first rest nil type_ quads (dwrite_fuel quads) false g 0 w s).
  set (w2 := dwrite maxd ks first rest nil type_ quads (dwrite_fuel quads) true g 0 w1 s).
  destruct (dwrite_mono_t maxd ks first rest nil type_ quads g (dwrite_fuel quads) false 0 w s) as [M1 T1].
  destruct (dwrite_mono_t maxd ks first rest nil type_ quads g (dwrite_fuel quads) true 0 w1 s) as [M2 T2].
  fold w1 in M1, T1, M2, T2. fold w2 in M2, T2.
  assert (M : mono w w2) by (eapply mono_trans; eassumption).
  cbn zeta. split; [|split].
  - eapply mono_trans; [exact M|]. apply (mono_set_done w2 _ (g, s)). reflexivity.
  - cbn [d_tree_done d_st]. rewrite st_get_set, skey_eqb_refl.
    destruct (st_get (d_st w) (g, s)) as [v|] eqn:E; [|discriminate Hr].
    destruct (st_get_present _ _ _ E (d_st w2) (proj2 M)) as [v' ->]. reflexivity.
  - cbn [d_tree_done d_trees]. rewrite T2, T1. reflexivity.
Qed.

(* ---------- one scan ---------- *)
Section Pass.
  Variables (maxd : N) (ks : list tk) (first rest nil type_ : N) (quads : list quad) (g : gname).
  Notation pass := (dpass maxd ks first rest nil type_ quads g).
  Notation tree := (dtree maxd ks first rest nil type_ quads g).
  Definition pstep (acc : dstate * bool) (s : N) : dstate * bool :=
    if is_root (st_get (d_st (fst acc)) (g, s)) then (tree (fst acc) s, true) else acc.

  Lemma pass_fold w range : pass w range = fold_left pstep range (w, false).
  Proof. reflexivity. Qed.

  Lemma pstep_mono acc s : mono (fst acc) (fst (pstep acc s)).
  Proof.
    unfold pstep. destruct (is_root (st_get (d_st (fst acc)) (g, s))) eqn:E; [|apply mono_refl].
    cbn [fst]. apply (dtree_spec maxd ks first rest nil type_ quads g (fst acc) s E).
  Qed.
  Lemma pfold_mono range : forall acc, mono (fst acc) (fst (fold_left pstep range acc)).
  Proof.
    induction range as [|s range IH]; intro acc; [apply mono_refl|].
    cbn [fold_left]. eapply mono_trans; [apply pstep_mono | apply IH].
  Qed.
  Lemma pfold_flag range : forall acc, snd acc = true -> snd (fold_left pstep range acc) = true.
  Proof.
    induction range as [|s range IH]; intros acc H; [exact H|]. cbn [fold_left]. apply IH.
    unfold pstep. destruct (is_root _); [reflexivity | exact H].
  Qed.

  (* a scan that wrote nothing changed nothing, and met no root *)
  Lemma pfold_false range : forall acc, snd (fold_left pstep range acc) = false ->
    fold_left pstep range acc = acc /\ forall s, In s range -> is_root (st_get (d_st (fst acc)) (g, s)) = false.
  Proof.
    induction range as [|s range IH]; intros acc H; [split; [reflexivity | intros s []]|].
    cbn [fold_left] in *. destruct (is_root (st_get (d_st (fst acc)) (g, s))) eqn:E.
    - assert (F : snd (pstep acc s) = true) by (unfold pstep; rewrite E; reflexivity).
      rewrite (pfold_flag range _ F) in H. discriminate H.
    - assert (P : pstep acc s = acc) by (unfold pstep; rewrite E; reflexivity).
      rewrite P in *. destruct (IH acc H) as [A B]. split; [exact A|].
      intros s' [<-|I]; [exact E | apply B; exact I].
  Qed.

  (* a scan that wrote something made a subject Done that was not *)
  Lemma pfold_true range : forall acc, snd acc = false -> snd (fold_left pstep range acc) = true ->
    exists s, In s range /\ is_done (st_get (d_st (fst acc)) (g, s)) = false /\
              is_done (st_get (d_st (fst (fold_left pstep range acc))) (g, s)) = true.
  Proof.
    induction range as [|s range IH]; intros acc H0 H; [cbn in H; congruence|].
    cbn [fold_left] in H |- *. destruct (is_root (st_get (d_st (fst acc)) (g, s))) eqn:E.
    - exists s. split; [left; reflexivity|]. split.
      + destruct (st_get (d_st (fst acc)) (g, s)) as [[]|]; try discriminate E; reflexivity.
      + assert (D : st_get (d_st (fst (pstep acc s))) (g, s) = Some Done).
        { unfold pstep. rewrite E. cbn [fst]. apply (dtree_spec maxd ks first rest nil type_ quads g (fst acc) s E). }
        rewrite (proj1 (pfold_mono range (pstep acc s)) _ D). reflexivity.
    - assert (P : pstep acc s = acc) by (unfold pstep; rewrite E; reflexivity).
      rewrite P in *. destruct (IH acc H0 H) as [s' [I [A B]]]. exists s'. split; [right; exact I | split; assumption].
  Qed.

  Definition ndone (w : dstate) (range : list N) : nat :=
    length (filter (fun s => negb (is_done (st_get (d_st w) (g, s)))) range).

  Lemma pass_decreases w range : snd (pass w range) = true -> (ndone (fst (pass w range)) range < ndone w range)%nat.
  Proof.
    intro H. rewrite pass_fold in *.
    destruct (pfold_true range (w, false) eq_refl H) as [s [I [A B]]]. cbn [fst] in A.
    unfold ndone. apply filter_length_lt with (t := s).
    - intros x _ Hx. apply negb_true_iff in Hx. apply negb_true_iff.
      destruct (st_get (d_st w) (g, x)) as [[]|] eqn:E; try reflexivity.
      rewrite (proj1 (pfold_mono range (w, false)) _ E) in Hx. discriminate Hx.
    - exact I.
    - rewrite A. reflexivity.
    - rewrite B. reflexivity.
  Qed.

  Notation loop := (dloop maxd ks first rest nil type_ quads).

  (* the loop ends by itself as soon as it has more scans than subjects that are not Done *)
  Theorem dloop_finishes : forall fuel w range, (ndone w range < fuel)%nat -> snd (loop fuel g w range) = true.
  Proof.
    induction fuel as [|fuel IH]; intros w range H; [lia|].
    cbn [dloop]. destruct (snd (pass w range)) eqn:E; [|reflexivity].
    apply IH. pose proof (pass_decreases w range E). lia.
  Qed.

  (* when it has ended, no subject of the range is a root *)
  Theorem dloop_no_root : forall fuel w range, snd (loop fuel g w range) = true ->
    forall s, In s range -> is_root (st_get (d_st (fst (loop fuel g w range))) (g, s)) = false.
  Proof.
    induction fuel as [|fuel IH]; intros w range H; [discriminate H|].
    cbn [dloop] in *. destruct (snd (pass w range)) eqn:E; [apply IH; exact H|].
    cbn [fst]. rewrite pass_fold in *. destruct (pfold_false range (w, false) E) as [A B].
    rewrite A. exact B.
  Qed.

  Theorem dgraph_finishes w range : snd (dgraph maxd ks first rest nil type_ quads g w range) = true.
  Proof.
    unfold dgraph. apply dloop_finishes. unfold ndone.
    pose proof (filter_length_le (fun s => negb (is_done (st_get (d_st w) (g, s)))) range). lia.
  Qed.
  Theorem dgraph_no_root w range s : In s range ->
    is_root (st_get (d_st (fst (dgraph maxd ks first rest nil type_ quads g w range))) (g, s)) = false.
  Proof. intro I. unfold dgraph. apply dloop_no_root; [apply dgraph_finishes | exact I]. Qed.
End Pass.

(* ---------- invariants of the whole run ---------- *)
(* (J) the subjects written by write_tree so far are pairwise distinct and Done *)
Definition trees_inv (w : dstate) : Prop :=
  NoDup (d_trees w) /\ forall k, In k (d_trees w) -> st_get (d_st w) k = Some Done.
(* (O) what is owed to a key that was, or became, a root: it is still one, or it was written by write_tree, or ghost *)
Definition owed (w : dstate) (k : skey) : Prop :=
  is_root (st_get (d_st w) k) = true \/ In k (d_trees w) \/ In k (d_odd w).
Definition keeps (w w' : dstate) : Prop :=
  (forall k, owed w k -> owed w' k) /\ (forall k, In k (d_cuts w') -> In k (d_cuts w) \/ owed w' k).

Lemma keeps_refl w : keeps w w.
Proof. split; auto. Qed.
Lemma keeps_trans a b c : keeps a b -> keeps b c -> keeps a c.
Proof.
  intros [A1 A2] [B1 B2]. split; [auto|]. intros k I. destruct (B2 k I) as [J|J]; [|right; exact J].
  destruct (A2 k J) as [L|L]; [left; exact L | right; apply B1; exact L].
Qed.
Lemma keeps_same w w' : d_st w' = d_st w -> d_trees w' = d_trees w -> d_odd w' = d_odd w -> d_cuts w' = d_cuts w -> keeps w w'.
Proof. intros A B C D. unfold keeps, owed. rewrite A, B, C, D. split; auto. Qed.

Lemma dwrite_keeps maxd ks first rest nil type_ quads g f props depth w t :
  keeps w (dwrite maxd ks first rest nil type_ quads f props g depth w t).
Proof.
  apply dwrite_R.
  - apply keeps_refl.
  - apply keeps_trans.
  - intros a q. apply keeps_same; reflexivity.
  - intro a. apply keeps_same; reflexivity.
  - intros a x. split.
    + intros k [H|[H|H]].
      * unfold owed. cbn [d_done d_st d_trees d_odd]. rewrite st_get_set.
        destruct (skey_eqb k (g, x)) eqn:E.
        -- apply skey_eqb_eq in E. subst k. rewrite H. right. right. left. reflexivity.
        -- left. exact H.
      * right. left. exact H.
      * right. right. cbn [d_done d_odd]. destruct (is_root _); [right; exact H | exact H].
    + intros k I. left. exact I.
  - intros a x. apply keeps_same; reflexivity.
  - intros a x E. split.
    + intros k [H|[H|H]].
      * left. cbn [d_cut d_st]. rewrite st_get_set. destruct (skey_eqb k (g, x)) eqn:Ek; [|exact H].
        apply skey_eqb_eq in Ek. subst k. rewrite E. reflexivity.
      * right. left. exact H.
      * right. right. exact H.
    + intros k [<-|I]; [|left; exact I]. right. left.
      cbn [d_cut d_st]. rewrite st_get_set, skey_eqb_refl, E. reflexivity.
Qed.

Lemma tree_done_keeps w k : keeps w (d_tree_done w k).
Proof.
  split.
  - intros k' [H|[H|H]].
    + unfold owed. cbn [d_tree_done d_st d_trees d_odd]. rewrite st_get_set.
      destruct (skey_eqb k' k) eqn:E.
      * apply skey_eqb_eq in E. subst k'. right. left. apply in_or_app. right. left. reflexivity.
      * left. exact H.
    + right. left. cbn [d_tree_done d_trees]. apply in_or_app. left. exact H.
    + right. right. exact H.
  - intros k' I. left. exact I.
Qed.

Lemma NoDup_app_one {A} (l : list A) x : NoDup l -> ~ In x l -> NoDup (l ++ [x]).
Proof.
  induction l as [|y l IH]; intros ND NI; [constructor; [intros [] | constructor]|].
  inversion ND as [|? ? Hy Hl]; subst. cbn [app]. constructor.
  - intro I. apply in_app_or in I. destruct I as [I|[E|[]]]; [contradiction|]. subst. apply NI. left. reflexivity.
  - apply IH; [exact Hl|]. intro I. apply NI. right. exact I.
Qed.

Section Run.
  Variables (maxd : N) (ks : list tk) (first rest nil type_ : N) (quads : list quad).

  Lemma dtree_keeps g w s : keeps w (dtree maxd ks first rest nil type_ quads g w s).
  Proof.
    unfold dtree. eapply keeps_trans; [apply dwrite_keeps|]. eapply keeps_trans; [apply dwrite_keeps|]. apply tree_done_keeps.
  Qed.
  Lemma dtree_trees_inv g w s : is_root (st_get (d_st w) (g, s)) = true -> trees_inv w ->
    trees_inv (dtree maxd ks first rest nil type_ quads g w s).
  Proof.
    intros Hr [ND AD].
    destruct (dtree_spec maxd ks first rest nil type_ quads g w s Hr) as [M [D T]]. cbn zeta in *.
    split.
    - rewrite T. apply NoDup_app_one; [exact ND|]. intro I. rewrite (AD _ I) in Hr. discriminate Hr.
    - intros k I. rewrite T in I. apply in_app_or in I. destruct I as [I|[<-|[]]]; [|exact D].
      apply (proj1 M). apply AD. exact I.
  Qed.

  Lemma pfold_inv g range : forall acc, trees_inv (fst acc) ->
    trees_inv (fst (fold_left (pstep maxd ks first rest nil type_ quads g) range acc)) /\
    keeps (fst acc) (fst (fold_left (pstep maxd ks first rest nil type_ quads g) range acc)).
  Proof.
    induction range as [|s range IH]; intros acc J; [split; [exact J | apply keeps_refl]|].
    cbn [fold_left].
    assert (S : trees_inv (fst (pstep maxd ks first rest nil type_ quads g acc s)) /\
                keeps (fst acc) (fst (pstep maxd ks first rest nil type_ quads g acc s))).
    { unfold pstep. destruct (is_root (st_get (d_st (fst acc)) (g, s))) eqn:E; cbn [fst].
      - split; [apply dtree_trees_inv; assumption | apply dtree_keeps].
      - split; [exact J | apply keeps_refl]. }
    destruct S as [S1 S2]. destruct (IH _ S1) as [A B]. split; [exact A | eapply keeps_trans; eassumption].
  Qed.

  Lemma dloop_inv g range : forall fuel w, trees_inv w ->
    trees_inv (fst (dloop maxd ks first rest nil type_ quads fuel g w range)) /\
    keeps w (fst (dloop maxd ks first rest nil type_ quads fuel g w range)).
  Proof.
    induction fuel as [|fuel IH]; intros w J; [split; [exact J | apply keeps_refl]|].
    cbn [dloop]. destruct (pfold_inv g range (w, false) J) as [A B]. cbn [fst] in B.
    change (fold_left (pstep maxd ks first rest nil type_ quads g) range (w, false))
      with (dpass maxd ks first rest nil type_ quads g w range) in A, B.
    destruct (snd (dpass maxd ks first rest nil type_ quads g w range)).
    - destruct (IH _ A) as [C D]. split; [exact C | eapply keeps_trans; eassumption].
    - split; assumption.
  Qed.

  Lemma dwrite_all_inv w0 : trees_inv w0 ->
    trees_inv (fst (dwrite_all maxd ks first rest nil type_ quads w0)) /\
    keeps w0 (fst (dwrite_all maxd ks first rest nil type_ quads w0)).
  Proof.
    unfold dwrite_all. generalize (group_by_g (map fst (d_st w0))). intro groups.
    assert (G : forall (acc : dstate * bool), trees_inv (fst acc) ->
      let r := fold_left (fun (acc : dstate * bool) (gr : gname * list N) =>
                 let r := dgraph maxd ks first rest nil type_ quads (fst gr) (fst acc) (snd gr) in
                 (fst r, snd acc && snd r)) groups acc in
      trees_inv (fst r) /\ keeps (fst acc) (fst r)).
    { induction groups as [|gr groups IH]; intros acc J; [split; [exact J | apply keeps_refl]|].
      cbn [fold_left]. cbn zeta.
      destruct (dloop_inv (fst gr) (snd gr) (S (length (snd gr))) (fst acc) J) as [A B].
      specialize (IH (fst (dgraph maxd ks first rest nil type_ quads (fst gr) (fst acc) (snd gr)),
                      snd acc && snd (dgraph maxd ks first rest nil type_ quads (fst gr) (fst acc) (snd gr))) A).
      cbn zeta in IH. cbn [fst] in IH. destruct IH as [C D]. split; [exact C | eapply keeps_trans; eassumption]. }
    intro J. apply (G (w0, true) J).
  Qed.

  (* THE THEOREMS OF THE WHOLE RUN, for every plan: *)
  (* no subject is written by write_tree twice *)
  Theorem trees_written_once labelled st0 lists :
    NoDup (d_trees (fst (dwrite_all maxd ks first rest nil type_ quads (d_init labelled st0 lists)))).
  Proof.
    apply (dwrite_all_inv (d_init labelled st0 lists)). split; [constructor | intros k []].
  Qed.

  (* every root of the plan and every node cut loose is still a root, or was written by write_tree, or is in d_odd *)
  Theorem roots_and_cuts_owed labelled st0 lists k :
    let w := fst (dwrite_all maxd ks first rest nil type_ quads (d_init labelled st0 lists)) in
    is_root (st_get st0 k) = true \/ In k (d_cuts w) -> owed w k.
  Proof.
    cbn zeta. destruct (dwrite_all_inv (d_init labelled st0 lists)) as [_ [K1 K2]]; [split; [constructor | intros k' []]|].
    intros [H|H].
    - apply K1. left. exact H.
    - destruct (K2 k H) as [[]|O]. exact O.
  Qed.

  (* hence: when no root is left and d_odd is empty (evaluated by plan_d_ok on every case; dgraph_no_root proves the
     first for the subjects of the graph whose loop has just ended), each of them was written EXACTLY ONCE *)
  Corollary roots_and_cuts_written_exactly_once labelled st0 lists k :
    let w := fst (dwrite_all maxd ks first rest nil type_ quads (d_init labelled st0 lists)) in
    is_root (st_get (d_st w) k) = false -> d_odd w = [] ->
    is_root (st_get st0 k) = true \/ In k (d_cuts w) ->
    In k (d_trees w) /\ NoDup (d_trees w).
  Proof.
    cbn zeta. intros NR OD H. split; [|apply trees_written_once].
    destruct (roots_and_cuts_owed labelled st0 lists k H) as [O|[O|O]]; [congruence | exact O | rewrite OD in O; destruct O].
  Qed.
End Run.

(* ---------- the checker is sound ---------- *)
Theorem accounting_checked_deep maxd ks first rest nil type_ quads labels colls plists :
  NoDup quads -> plan_d_ok maxd ks first rest nil type_ quads labels colls plists = true ->
  let r := demitted maxd ks first rest nil type_ quads (make_plan ks first rest nil quads) in
  snd r = true /\ d_ok (fst r) = true /\ Permutation quads (d_out (fst r)) /\
  (forall k, In k (d_cuts (fst r)) -> In k (d_trees (fst r))) /\ NoDup (d_trees (fst r)).
Proof.
  intros ND H. unfold plan_d_ok in H. cbn zeta in H.
  repeat (apply andb_true_iff in H; destruct H as [H ?]).
  cbn zeta. repeat split; try assumption.
  - apply exactly_once_sound; assumption.
  - intros k I. match goal with F : forallb _ (_ ++ _) = true |- _ => rewrite forallb_forall in F; specialize (F k (in_or_app _ _ k (or_intror I))) end.
    unfold memk in *. match goal with F : existsb _ _ = true |- _ => apply existsb_exists in F; destruct F as [k' [I' E]] end.
    apply skey_eqb_eq in E. subst k'. exact I'.
  - apply trees_written_once.
Qed.

(* non-vacuity, with a bound of 2: an IRI root (9) with two branches a1..a4 (0..3) and b1..b4 (4..7), each of them deeper
   than the bound: one scan cuts BOTH branches (nodes 1 and 5), later scans cut 3 and 7; everything is written once.
   0..7 blank nodes, 8 ex:next, 9 ex:r, 10 rdf:first, 11 rdf:nil, 12 rdf:rest, 13 rdf:type, 14 a literal *)
Definition dx_ks : list tk := [TB; TB; TB; TB; TB; TB; TB; TB; TI; TI; TI; TI; TI; TI; TL].
Definition dx_quads : list quad :=
  [(None, 0, 8, 1); (None, 1, 8, 2); (None, 2, 8, 3); (None, 3, 8, 14); (None, 4, 8, 5); (None, 5, 8, 6); (None, 6, 8, 7);
   (None, 7, 8, 14); (None, 9, 8, 0); (None, 9, 8, 4)].
Example deep_example :
  let r := demitted 2 dx_ks 10 12 11 13 dx_quads (make_plan dx_ks 10 12 11 dx_quads) in
  snd r = true /\ d_ok (fst r) = true /\
  d_cuts (fst r) = [(None, 7); (None, 3); (None, 5); (None, 1)] /\
  d_trees (fst r) = [(None, 9); (None, 1); (None, 3); (None, 5); (None, 7)] /\
  d_odd (fst r) = [] /\ exactly_once dx_quads (d_out (fst r)) = true /\
  plan_d_ok 2 dx_ks 10 12 11 13 dx_quads [1; 3; 5; 7] 0 4 = true /\
  (* with the real bound nothing is cut, and the writer without the bound agrees *)
  plan_d_ok max_depth dx_ks 10 12 11 13 dx_quads [] 0 8 = true /\
  (* a wrong observation is refused *)
  plan_d_ok 2 dx_ks 10 12 11 13 dx_quads [1; 5] 0 6 = false.
Proof. vm_compute. repeat split; reflexivity. Qed.
