(* C15/EndToEnd.v -- parser -> adapter chain -> serializer on a failing writer, as one run
   (harness-facing definitions; the theorems are in EndToEndProofs.v). *)
From Sophia.Common Require Import Prelude Term.
From Sophia.C03 Require Import Model.
From Sophia.C15 Require Import Generic ParserSource SerializerSink.

(* (bytes accepted, write calls, write calls after the first failed one, outcome, what the parser
   still delivers when it is pulled again afterwards).  nt_out: the consumer is the N-Triples
   serializer behind `.to_triples()` (one more map adapter, which drops the graph name); the
   source that is pulled again afterwards is the one BEFORE that adapter *)
Definition run_parse_ser (nq : bool) (doc : str) (chain : list qadesc) (nt_out : bool) (wd : wdesc)
  : list N * nat * nat * skind * list (quad + N) :=
  let ch := map qadapter_of chain in
  let ch_out := ch ++ (if nt_out then [qadapter_of QMapDropGraph] else []) in
  let '(s, w, o) := rio_run (line_reader nq) doc ch_out (ser_sink (policy_of wd)) w0 in
  (w_acc w, w_calls w, w_after w, skind_of o, rio_resume (line_reader nq) (S (S (length doc))) s ch []).
Definition run_parse_ser_ok nq doc chain nt_out wd (bytes : list N) (calls after : nat) (o : skind)
  (resumed : list (quad + N)) : bool :=
  let '(b, c, a, k, r) := run_parse_ser nq doc chain nt_out wd in
  bytes_eqb b bytes && Nat.eqb c calls && Nat.eqb a after && skind_eqb k o && list_eqb ev_eqb r resumed.

(* the serializer alone over a list of statements (items that no parser would deliver are allowed:
   variables, relative IRIs ...) *)
Definition run_ser (qs : list quad) (wd : wdesc) : list N * nat * nat * option ioerr :=
  let '(w, oe) := gfeed (ser_sink (policy_of wd)) qs w0 in (w_acc w, w_calls w, w_after w, oe).
Definition ioerr_eqb (a b : option ioerr) : bool :=
  match a, b with
  | None, None | Some EWriteZero, Some EWriteZero => true
  | Some (EDev x), Some (EDev y) => N.eqb x y
  | _, _ => false
  end.
Definition run_ser_ok qs wd (bytes : list N) (calls after : nat) (e : option ioerr) : bool :=
  let '(b, c, a, oe) := run_ser qs wd in
  bytes_eqb b bytes && Nat.eqb c calls && Nat.eqb a after && ioerr_eqb oe e.
