(* C12/LabelsProofs.v -- theorems about the definitions of C12/Labels.v. *)
From Sophia.Common Require Import Prelude.
From Sophia.C12 Require Import Wide Labels.

(* ---------- 1. the writer is injective and is read back ---------- *)
Theorem bnode_written_injective : forall a b, bnode_written a = bnode_written b -> a = b.
Proof. intros a b H. unfold bnode_written in H. congruence. Qed.
Theorem label_of_written : forall l, label_of (bnode_written l) = Some l.
Proof. reflexivity. Qed.
Theorem label_of_spec : forall s l, label_of s = Some l <-> s = bnode_written l.
Proof.
  intros s l. split.
  - destruct s as [|a [|b r]]; cbn [label_of]; try discriminate.
    destruct (N.eqb_spec a 95) as [->|]; [|discriminate]. destruct (N.eqb_spec b 58) as [->|]; [|discriminate].
    cbn [andb]. intros E. injection E as ->. reflexivity.
  - intros ->. apply label_of_written.
Qed.
(* distinct labels have distinct identifiers, and JSON-LD reads each identifier as a blank node identifier: no keyword, no IRI *)
Theorem written_is_blank : forall l, expand_id (bnode_written l) = EBlank (bnode_written l).
Proof. intros l. unfold expand_id, bnode_written. destruct l; reflexivity. Qed.
Theorem written_distinct : forall a b, a <> b -> str_eqb (bnode_written a) (bnode_written b) = false.
Proof.
  intros a b N. destruct (str_eqb (bnode_written a) (bnode_written b)) eqn:E; [|reflexivity].
  apply str_eqb_eq in E. apply bnode_written_injective in E. contradiction.
Qed.

(* ---------- 2./3. which labels the reader takes for blank node identifiers ---------- *)
Lemma pn_chars_u_rdf c : pn_chars_u c = true -> rdf_pn_char_u c = true.
Proof. unfold pn_chars_u, rdf_pn_char_u. intros H. apply orb_true_iff in H. rewrite !orb_true_iff. tauto. Qed.
Lemma pn_chars_rdf c : pn_chars c = true -> rdf_pn_char c = true.
Proof.
  unfold pn_chars, rdf_pn_char. intros H. rewrite !orb_true_iff in H. rewrite !orb_true_iff.
  destruct H as [[[[[H|H]|H]|H]|H]|H]; auto 10. left; left; left; left; left. apply pn_chars_u_rdf, H.
Qed.
Lemma label_tail_dotless : forall r, label_tail r = true -> has_dot r = false -> forallb rdf_pn_char r = true.
Proof.
  induction r as [|c r IH]; [reflexivity|]. cbn [label_tail has_dot existsb forallb].
  destruct (N.eqb_spec 46 c) as [<-|Nc]; [discriminate 2|]. cbn [orb].
  destruct (N.eqb_spec c 46) as [->|_]; [contradiction|].
  intros H D. apply andb_true_iff in H. destruct H as [H1 H2].
  rewrite (pn_chars_rdf _ H1). cbn [andb]. apply IH; assumption.
Qed.
(* every label without '.' that BnodeId accepts is read back as a blank node *)
Theorem dotless_label_read_back : forall l, bnode_id_ok l = true -> has_dot l = false -> read_as_blank l = true.
Proof.
  intros [|c r] H D; [discriminate|]. unfold read_as_blank, bnode_written, rdf_blank_ok. cbn [N.eqb Pos.eqb andb].
  cbn [bnode_id_ok] in H. apply andb_true_iff in H. destruct H as [H1 H2].
  cbn [has_dot existsb] in D. apply orb_false_iff in D. destruct D as [_ D].
  rewrite (label_tail_dotless _ H2 D), andb_true_r.
  apply orb_true_iff in H1. apply orb_true_iff. destruct H1 as [H1|H1]; [right; apply pn_chars_u_rdf, H1|left; exact H1].
Qed.
Lemma dot_not_rdf_pn_char : rdf_pn_char 46 = false.
Proof. reflexivity. Qed.
(* ... and no label with a '.' is: the serializer writes it as it is, the reader does not take it for a blank node (KNOWN) *)
Theorem dotted_label_not_read_back : forall l, bnode_id_ok l = true -> has_dot l = true -> read_as_blank l = false.
Proof.
  intros [|c r] H D; [discriminate|]. unfold read_as_blank, bnode_written, rdf_blank_ok. cbn [N.eqb Pos.eqb andb].
  cbn [has_dot existsb] in D.
  assert (Hc : (46 =? c) = false).
  { cbn [bnode_id_ok] in H. apply andb_true_iff in H. destruct H as [H1 _].
    destruct (N.eqb_spec 46 c) as [<-|]; [discriminate H1|reflexivity]. }
  rewrite Hc in D. cbn [orb] in D.
  assert (F : forallb rdf_pn_char r = false).
  { clear -D. induction r as [|d r IH]; [discriminate|]. cbn [existsb] in D. cbn [forallb].
    destruct (N.eqb_spec 46 d) as [<-|]; [reflexivity|]. cbn [orb] in D. rewrite (IH D). apply andb_false_r. }
  rewrite F. apply andb_false_r.
Qed.
Theorem read_back_iff_dotless : forall l, bnode_id_ok l = true -> read_as_blank l = negb (has_dot l).
Proof.
  intros l H. destruct (has_dot l) eqn:D.
  - apply dotted_label_not_read_back; assumption.
  - apply dotless_label_read_back; assumption.
Qed.
(* "a.b" *)
Theorem dot_label_refuted : exists l, bnode_id_ok l = true /\ read_as_blank l = false.
Proof. exists [97; 46; 98]. split; reflexivity. Qed.

(* ---------- 4. cleaning the labels is not lossless ---------- *)
(* "é" / "è";  "a·b" / "a_b" *)
Theorem clean_writer_refuted : exists a b, a <> b /\ bnode_id_ok a = true /\ bnode_id_ok b = true
  /\ bnode_written_clean a = bnode_written_clean b.
Proof. exists [233], [232]. repeat split; first [reflexivity | discriminate]. Qed.
Theorem clean_writer_refuted_middle_dot : exists a b, a <> b /\ bnode_id_ok a = true /\ bnode_id_ok b = true
  /\ bnode_written_clean a = bnode_written_clean b.
Proof. exists [97; 183; 98], [97; 95; 98]. repeat split; first [reflexivity | discriminate]. Qed.
(* "a.b" / "ab" *)
Theorem drop_writer_refuted : exists a b, a <> b /\ bnode_id_ok a = true /\ bnode_id_ok b = true
  /\ bnode_written_drop a = bnode_written_drop b.
Proof. exists [97; 46; 98], [97; 98]. repeat split; first [reflexivity | discriminate]. Qed.
Theorem lower_writer_refuted : exists a b, a <> b /\ bnode_id_ok a = true /\ bnode_id_ok b = true
  /\ bnode_written_lower a = bnode_written_lower b.
Proof. exists [97], [65]. repeat split; first [reflexivity | discriminate]. Qed.
Theorem cut_writer_refuted : forall n, exists a b, a <> b /\ bnode_id_ok a = true /\ bnode_id_ok b = true
  /\ bnode_written_cut n a = bnode_written_cut n b.
Proof.
  intros n. exists (repeat 120 (S n) ++ [233]), (repeat 120 (S n) ++ [232]).
  assert (V : forall m t, label_tail t = true -> label_tail (repeat 120 m ++ t) = true).
  { induction m as [|m IH]; intros t Ht; [exact Ht|]. cbn [repeat app label_tail]. cbn [N.eqb Pos.eqb]. rewrite (IH t Ht). reflexivity. }
  assert (C : forall m t u, firstn m (repeat 120 (S m) ++ t) = firstn m (repeat 120 (S m) ++ u)).
  { induction m as [|m IH]; intros t u; [reflexivity|]. cbn [repeat app firstn]. f_equal. apply (IH t u). }
  split; [|split; [|split]].
  - intros E. apply app_inv_head in E. discriminate E.
  - cbn [repeat app bnode_id_ok]. rewrite (V n [233] eq_refl). reflexivity.
  - cbn [repeat app bnode_id_ok]. rewrite (V n [232] eq_refl). reflexivity.
  - unfold bnode_written_cut. f_equal. f_equal. apply C.
Qed.

(* ---------- the checker ---------- *)
Lemma nodup_str_NoDup : forall l, nodup_str l = true -> NoDup l.
Proof.
  induction l as [|x r IH]; [constructor|]. cbn [nodup_str]. intros H. apply andb_true_iff in H. destruct H as [H1 H2].
  constructor; [|apply IH, H2]. intros I. apply negb_true_iff in H1.
  assert (E : existsb (str_eqb x) r = true) by (apply existsb_exists; exists x; split; [exact I|apply str_eqb_refl]).
  congruence.
Qed.
Theorem labels_ok_sound : forall all input observed, labels_ok all input observed = true ->
  forall s, In s observed -> exists l, In l input /\ s = bnode_written l /\ label_of s = Some l.
Proof.
  intros all input observed H s Hs. unfold labels_ok in H. rewrite !andb_true_iff in H.
  destruct H as [[[_ _] H] _]. rewrite forallb_forall in H. specialize (H s Hs).
  apply existsb_exists in H. destruct H as [y [Hy E]]. apply str_eqb_eq in E. subst y.
  apply in_map_iff in Hy. destruct Hy as [l [El Hl]]. exists l. subst s. repeat split; assumption.
Qed.
(* with `all`: the identifiers of the documents are exactly those of the labels, one for one *)
Theorem labels_ok_complete : forall input observed, labels_ok true input observed = true ->
  (forall l, In l input -> In (bnode_written l) observed)
  /\ NoDup input /\ NoDup observed /\ length observed = length input.
Proof.
  intros input observed H. unfold labels_ok in H. rewrite !andb_true_iff in H.
  destruct H as [[[N1 N2] _] [H L]]. repeat split.
  - intros l Hl. rewrite forallb_forall in H. specialize (H l Hl). apply existsb_exists in H.
    destruct H as [y [Hy E]]. apply str_eqb_eq in E. subst y. exact Hy.
  - apply nodup_str_NoDup, N1.
  - apply nodup_str_NoDup, N2.
  - apply N.eqb_eq in L. apply Nat2N.inj in L. exact L.
Qed.
(* the checker refuses a document in which two labels of the input share an identifier (whatever that identifier is) *)
Theorem labels_ok_no_merge : forall input observed, labels_ok true input observed = true ->
  forall a b, In a input -> In b input -> a <> b ->
  exists ia ib, In ia observed /\ In ib observed /\ ia <> ib /\ label_of ia = Some a /\ label_of ib = Some b.
Proof.
  intros input observed H a b Ha Hb N. destruct (labels_ok_complete _ _ H) as [C _].
  exists (bnode_written a), (bnode_written b). repeat split; try (apply C; assumption).
  intros E. apply bnode_written_injective in E. contradiction.
Qed.
