(* C15/IterSource.v -- iterators used as sources, and the methods of the Iterator trait on the
   iterators of map.rs / filter_map.rs.  Definitions only (proofs: IterProofs.v).

   api/src/source.rs, `impl<I, T, E> Source for I where I: Iterator<Item = Result<T, E>>`:
       match self.next() { Some(Err(e)) => Err(SourceError(e)),
                           Some(Ok(t))  => { f(t).map_err(SinkError)?; Ok(true) }
                           None         => Ok(false) }
   Nothing but `next()` decides where the stream ends: `size_hint` (forwarded as size_hint_items) is
   advisory and does not occur in the transcription.  The iterator below such a source is the one
   of Model.v (iter_next: MapSourceIterator / FilterMapSourceIterator with their pending buffer),
   so `source.map_items(f).into_iter()` fed back into the Source API, any number of times, is
   expressible: iter_try_for_some / iter_try_for_each are the blanket impl, lazily, on the
   iterator state; iter_source is the same stream as a list of steps (one result per step). *)
From Sophia.Common Require Export Prelude.
From Sophia.C15 Require Import Model.

(* MapSourceIterator { source, map, buffer }: the steps the source still has to make, and the
   results of the last step that next() has not handed out yet *)
Definition it_state := (source * list (item + err))%type.

Section Lazy.
Variable St : Type.
(* try_for_some_item of the blanket impl, on the iterator state *)
Definition iter_try_for_some (chain : list adapter) (it : it_state) (g : sink St) (st : St)
  : it_state * St * outcome :=
  match iter_next chain it with
  | (None, it') => (it', st, Done)
  | (Some (inr e), it') => (it', st, SourceError e)
  | (Some (inl x), it') =>
      let '(st', oe) := g x st in
      (it', st', match oe with Some e => SinkError e | None => More end)
  end.
(* try_for_each_item (provided method): while self.try_for_some_item(&mut f)? {} *)
Fixpoint iter_try_for_each (fuel : nat) (chain : list adapter) (it : it_state) (g : sink St) (st : St)
  : it_state * St * outcome :=
  match fuel with
  | O => (it, st, More)
  | S n =>
      let '(it', st', o) := iter_try_for_some chain it g st in
      match o with More => iter_try_for_each n chain it' g st' | _ => (it', st', o) end
  end.
End Lazy.

(* the same stream as data: every next() is one step, ([x], None) or ([], Some e) *)
Definition iter_source (chain : list adapter) (src : source) : source :=
  of_results (drain (total_out src) chain (src, [])).

(* source -> adapters -> into_iter() -> adapters -> into_iter() -> ...: one list of adapters per
   into_iter(), innermost first *)
Fixpoint nest (segs : list (list adapter)) (src : source) : source :=
  match segs with
  | [] => src
  | c :: r => nest r (iter_source c src)
  end.

(* what is observed of a run: the consumer's state and the outcome (the remaining source is a
   different object on the two sides of the theorems) *)
Definition res3 {St} (x : source * St * outcome) : St * outcome := (snd (fst x), snd x).
Definition ires3 {St} (x : it_state * St * outcome) : St * outcome := (snd (fst x), snd x).

(* ---------- k manual next() calls ---------- *)
Fixpoint nexts (k : nat) (chain : list adapter) (it : it_state) : list (item + err) * it_state :=
  match k with
  | O => ([], it)
  | S k' =>
      match iter_next chain it with
      | (None, it') => ([], it')
      | (Some x, it') => let '(l, it'') := nexts k' chain it' in (x :: l, it'')
      end
  end.

(* ---------- harness-facing ---------- *)
Definition run_nested (src : source) (segs : list (list adesc)) (last : list adesc) (fault : option (nat * err))
  : list item * out_kind :=
  let '(_, st, o) := try_for_each (list item) (nest (map (map adapter_of) segs) src) (map adapter_of last) (rec_sink fault) [] in
  (st, kind_of_outcome o).
Definition run_nested_ok src segs last fault (trace : list item) (o : out_kind) : bool :=
  let '(t, k) := run_nested src segs last fault in
  str_eqb t trace && out_kind_eqb k o.

(* what a method of the Iterator trait shows of the remaining sequence `rest`:
   IAll   fold / for_each / collect / extend / try_fold / by_ref ... : all of it, in order
   ICount count():  its length
   ILast  last():   its last element
   INth n nth(n):   element n, and next() then goes on after it
   ISum   sum::<Result<_, _>>(): the sum of the items before the first error, or that error *)
Inductive imeth := IAll | ICount | ILast | INth (n : nat) | ISum.
Fixpoint sum_results (l : list (item + err)) (acc : N) : item + err :=
  match l with
  | [] => inl acc
  | inl x :: r => sum_results r (acc + x)
  | inr e :: _ => inr e
  end.
Definition meth_obs (m : imeth) (rest : list (item + err)) : list (item + err) :=
  match m with
  | IAll => rest
  | ICount => [inl (N.of_nat (length rest))]
  | ILast => match rest with [] => [] | x :: r => [last r x] end
  | INth n => match nth_error rest n with Some x => x :: skipn (S n) rest | None => [] end
  | ISum => [sum_results rest 0]
  end.
Definition iter_meth (src : source) (segs : list (list adesc)) (chain : list adesc) (k : nat) (m : imeth)
  : list (item + err) * list (item + err) :=
  let s := nest (map (map adapter_of) segs) src in
  let c := map adapter_of chain in
  let '(f, it1) := nexts k c (s, []) in
  (f, meth_obs m (drain (total_out s) c it1)).
Definition iter_meth_ok src segs chain k m (first obs : list (item + err)) : bool :=
  let '(f, o) := iter_meth src segs chain k m in
  list_eqb res_eqb f first && list_eqb res_eqb o obs.
