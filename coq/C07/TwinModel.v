(* C07/TwinModel.v -- TWINS: statements that are identical once blank nodes are blanked out except for
   ONE ground atom at one position (anywhere: subject / predicate / object / graph name, at any depth
   inside quoted triples; the graph name may also be absent in one twin and present in another).
   The blank-blind ORDER used to sort the statements (iso_cmp) must separate twins exactly as the
   blank-blind EQUALITY used to compare the sorted statements pairwise (iso_eqb) does: if the order is
   coarser, the answer depends on the order in which the two arguments enumerate their statements.
   Definitions only. *)
From Sophia.C02 Require Import Model.
From Sophia.C07 Require Import Model.

(* ---------- a position inside a statement ---------- *)
(* inside a term: a list of directions (0 = subject, 1 = predicate, 2 = object of a quoted triple) *)
Fixpoint put_t (path : list N) (x : term) (t : term) : term :=
  match path with
  | [] => x
  | d :: path' =>
      match t with
      | Triple s p o =>
          if d =? 0 then Triple (put_t path' x s) p o
          else if d =? 1 then Triple s (put_t path' x p) o
          else Triple s p (put_t path' x o)
      | _ => t
      end
  end.
Fixpoint valid_t (path : list N) (t : term) : bool :=
  match path with
  | [] => true
  | d :: path' =>
      match t with
      | Triple s p o => if d =? 0 then valid_t path' s else if d =? 1 then valid_t path' p else valid_t path' o
      | _ => false
      end
  end.
(* inside a statement: component 0..2 = subject / predicate / object, anything else = graph name; the
   thing put there is an OPTIONAL term: None only makes sense for the graph name itself (default graph) *)
Definition put_q (pos : N) (path : list N) (x : option term) (q : quad) : quad :=
  if pos =? 0 then match x with Some t => mkQ (put_t path t (qs q)) (qp q) (qo q) (qg q) | None => q end
  else if pos =? 1 then match x with Some t => mkQ (qs q) (put_t path t (qp q)) (qo q) (qg q) | None => q end
  else if pos =? 2 then match x with Some t => mkQ (qs q) (qp q) (put_t path t (qo q)) (qg q) | None => q end
  else match path, x with
       | [], _ => mkQ (qs q) (qp q) (qo q) x
       | _ :: _, Some t => mkQ (qs q) (qp q) (qo q) (match qg q with Some g => Some (put_t path t g) | None => None end)
       | _ :: _, None => q
       end.
Definition valid_q (pos : N) (path : list N) (x : option term) (q : quad) : bool :=
  if pos =? 0 then (match x with Some _ => true | None => false end) && valid_t path (qs q)
  else if pos =? 1 then (match x with Some _ => true | None => false end) && valid_t path (qp q)
  else if pos =? 2 then (match x with Some _ => true | None => false end) && valid_t path (qo q)
  else match path, x with
       | [], _ => true
       | _ :: _, Some _ => match qg q with Some g => valid_t path g | None => false end
       | _ :: _, None => false
       end.

(* the order of two things put at the same position: the derived Ord of Option<IsoTerm> *)
Definition atom_cmp (x y : option term) : comparison := gn_cmp iso_cmp x y.
Definition atom_eqb (x y : option term) : bool := gn_eqb iso_eqb x y.

(* ---------- structural equality of statements (to find a twin in the printed dataset) ---------- *)
Definition quad_same (a b : quad) : bool :=
  term_same (qs a) (qs b) && term_same (qp a) (qp b) && term_same (qo a) (qo b)
  && opt_eqb term_same (qg a) (qg b).

(* cmp_eqb : comparison -> comparison -> bool comes from C02/Model.v *)

Fixpoint pairwise {A} (f : A -> A -> bool) (l : list A) : bool :=
  match l with
  | [] => true
  | x :: r => forallb (f x) r && pairwise f r
  end.

(* ---------- harness-facing checkers ---------- *)
(* [tw] = the twins of one group as (template statement, thing put at [pos]/[path]); the templates are
   equal up to blank node labels.  Checked by evaluation of the model:
   - every twin is a statement of d1 and the position exists in its template;
   - the templates are pairwise blank-blind equal AND blank-blind order-equal;
   - any two twins are ordered by what was put at the position, exactly (quad_cmp = atom_cmp),
     are NOT order-equal, and are NOT blank-blind equal (order and equality agree on them). *)
Definition twin_pair_ok (pos : N) (path : list N) (a b : quad * option term) : bool :=
  let '(t1, x1) := a in let '(t2, x2) := b in
  let q1 := put_q pos path x1 t1 in let q2 := put_q pos path x2 t2 in
  quad_eqb iso_eqb t1 t2 && cmp_eqb (quad_cmp iso_cmp t1 t2) Eq
  && cmp_eqb (quad_cmp iso_cmp q1 q2) (atom_cmp x1 x2)
  && cmp_eqb (quad_cmp iso_cmp q2 q1) (CompOpp (atom_cmp x1 x2))
  && negb (cmp_eqb (atom_cmp x1 x2) Eq)
  && negb (atom_eqb x1 x2)
  && negb (quad_eqb iso_eqb q1 q2).
Definition twin_ok (pos : N) (path : list N) (tw : list (quad * option term)) (d1 : list quad) : bool :=
  forallb (fun a => valid_q pos path (snd a) (fst a)
                    && existsb (quad_same (put_q pos path (snd a) (fst a))) d1) tw
  && pairwise (twin_pair_ok pos path) tw.

(* the answers of the implementation on d1 against enumeration orders of the copy (and the other way round
   where observed) *)
Definition orders_ok (d1 : list quad) (l : list (list quad * bool * option bool)) : bool :=
  forallb (fun x => let '(d2, a, r) := x in
                    iso_ok d1 d2 a && match r with Some r => iso_ok d2 d1 r | None => true end) l.

(* ---------- the model itself enumerates every relative order of a twin group ---------- *)
(* all the ways of inserting x into l *)
Fixpoint insert_everywhere {A} (x : A) (l : list A) : list (list A) :=
  match l with
  | [] => [[x]]
  | y :: r => (x :: l) :: map (cons y) (insert_everywhere x r)
  end.
Fixpoint perms {A} (l : list A) : list (list A) :=
  match l with
  | [] => [[]]
  | x :: r => flat_map (insert_everywhere x) (perms r)
  end.
(* d = front ++ group ++ back; the model answers [answer] on d1 against every front ++ g' ++ back, g'
   a permutation of the group, in both argument orders *)
Definition all_orders_ok (d1 front group back : list quad) (answer : bool) : bool :=
  forallb (fun g => iso_ok d1 (front ++ g ++ back) answer && iso_ok (front ++ g ++ back) d1 answer)
          (perms group).

(* ---------- the class of defects this guards against, inside the model ---------- *)
(* a blank-blind order that forgets the language tag of literals (coarser than iso_eqb) *)
Fixpoint iso_cmp_notag (a b : term) : comparison :=
  match a, b with
  | Bnode _, Bnode _ => Eq
  | Triple s1 p1 o1, Triple s2 p2 o2 =>
      then_cmp (iso_cmp_notag s1 s2) (then_cmp (iso_cmp_notag p1 p2) (iso_cmp_notag o1 o2))
  | LitLang l1 _, LitLang l2 _ => str_cmp l1 l2
  | _, _ => term_cmp a b
  end.
(* a blank-blind equality that forgets the language tag (coarser than iso_cmp) *)
Fixpoint iso_eqb_notag (a b : term) : bool :=
  match a, b with
  | Bnode _, Bnode _ => true
  | Triple s1 p1 o1, Triple s2 p2 o2 => iso_eqb_notag s1 s2 && iso_eqb_notag p1 p2 && iso_eqb_notag o1 o2
  | LitLang l1 _, LitLang l2 _ => str_eqb l1 l2
  | _, _ => term_eqb a b
  end.

(* ---------- language tags in another case mix: the canonical copy ---------- *)
Definition canon_q (q : quad) : quad :=
  mkQ (canon (qs q)) (canon (qp q)) (canon (qo q))
      (match qg q with Some g => Some (canon g) | None => None end).
