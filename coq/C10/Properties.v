(* C10/Properties.v -- pinned statements of property C10 (ownership model of the term index).
   Designs (Model.clone_mode): Owned = the current code (i2t owns a copy of every term); Rebuilt = i2t borrows
   from the keys, Clone rebuilds it; Derived = i2t borrows, derived Clone.  The theorems hold for every design
   but Derived; the two defects found in the borrowing designs are kept as refuted witnesses. *)
From Sophia.C10 Require Import Model Proofs Query QueryProofs Observe ObserveProofs.

(* every reachable world is well-formed: stores own pairwise disjoint, never-freed allocations (the text of
   their keys AND of the entries of i2t that own theirs), each i2t is aligned with the store's own keys *)
Check (reachable_wf : forall m ops, m <> Derived -> WF m (run m ops)).
Check (step_wf : forall m w o, m <> Derived -> WF m w -> WF m (step m w o)).
(* no read of a live store touches released memory or another store's memory, after ANY history
   interleaving insert / clone / drop (of originals or clones) / swap-move / growth *)
Check (reachable_read_safe : forall m ops sid s i, m <> Derived -> In (sid, s) (live (run m ops)) ->
  read (run m ops) s i = ReadOutOfRange \/ exists t, read (run m ops) s i = ReadOk t).
Check (reachable_read_safe Owned : forall ops sid s i, Owned <> Derived -> In (sid, s) (live (run Owned ops)) ->
  read (run Owned ops) s i = ReadOutOfRange \/ exists t, read (run Owned ops) s i = ReadOk t).
(* the audit hook reports all-true on every reachable store *)
Check (reachable_audit : forall m ops sid s, m <> Derived -> In (sid, s) (live (run m ops)) ->
  forallb (fun b => b) (audit s) = true).
(* independence: an operation on another store changes neither this store nor what it returns *)
Check (frame : forall m w o sid, touches o sid = false ->
  find_store (live (step m w o)) sid = find_store (live w) sid).
Check (independent_reads : forall m w o sid s i, m <> Derived -> WF m w -> touches o sid = false ->
  find_store (live w) sid = Some s ->
  find_store (live (step m w o)) sid = Some s
  /\ read (step m w o) s i = read w s i).
(* a clone has the content of its original at the time of cloning *)
Check (clone_keys_spec : forall ks from ks' nx, clone_keys ks from = (ks', nx) ->
  map k_index ks' = map k_index ks /\ map k_term ks' = map k_term ks /\ length ks' = length ks
  /\ from <= nx
  /\ (forall a, In a (flat_map k_owned ks') -> from <= a < nx)
  /\ NoDup (flat_map k_owned ks')).
Check (clone_slots_spec : forall l from l' nx, clone_slots l from = (l', nx) ->
  map s_term l' = map s_term l /\ map s_self l' = map s_self l
  /\ from <= nx
  /\ (forall a, In a (flat_map slot_owned l') -> from <= a < nx)
  /\ NoDup (flat_map slot_owned l')).

(* ---- terms cloned out of a store (Clone::clone of what get_term / triples() / quads() hand out) ---- *)
(* Owned design: after any history, a term cloned out of any live store stays readable whatever is done
   afterwards, to that store (drop included) or to any other *)
Check (escaped_clone_safe : forall ops sid s i sl ops',
  In (sid, s) (live (run Owned ops)) -> nth_error (i2t s) i = Some sl ->
  read_term (fold_left (step Owned) ops' (fst (clone_term (run Owned ops) sl))) (snd (clone_term (run Owned ops) sl))
  = ReadOk (s_term sl)).
(* and cloning it out disturbs nothing *)
Check (clone_term_wf : forall m w sl, WF m w ->
  WF m (fst (clone_term w sl)) /\ live (fst (clone_term w sl)) = live w /\ freed (fst (clone_term w sl)) = freed w).

(* ---- compound operations of the widened harness ---- *)
(* a clone returns, index by index, what its original returned when it was cloned; the original is unchanged *)
Check (clone_same_content : forall m w s w' s', m <> Derived -> Inv_s m s -> clone_store m w s = (w', s') ->
  content s' = content s).
Check (clone_step_content : forall m w src dst s, m <> Derived -> WF m w ->
  find_store (live w) src = Some s -> find_store (live w) dst = None ->
  exists s', find_store (live (step m w (Clone src dst))) dst = Some s'
             /\ content s' = content s
             /\ find_store (live (step m w (Clone src dst))) src = Some s).
(* Clone::clone_from *)
Check (clone_from_content : forall m w src dst s sd, m <> Derived -> WF m w -> src <> dst ->
  find_store (live w) src = Some s -> find_store (live w) dst = Some sd ->
  let w' := fold_left (step m) (clone_from_ops src dst) w in
  exists s', find_store (live w') dst = Some s' /\ content s' = content s
             /\ find_store (live w') src = Some s).
(* std::mem::take / mem::replace: the content moves, an empty store stays, nothing is allocated or freed *)
Check (take_spec : forall m w src dst s,
  find_store (live w) src = Some s -> find_store (live w) dst = None ->
  let w' := fold_left (step m) (take_ops src dst) w in
  find_store (live w') dst = Some s /\ find_store (live w') src = Some empty_store
  /\ next w' = next w /\ freed w' = freed w).
(* the bulk constructors are the fold of the single inserts from the empty store: after any history the new
   store returns the terms of the source sequence, first occurrences only, in order *)
Check (collect_content : forall m ops d ts, m <> Derived -> find_store (live (run m ops)) d = None ->
  exists s, find_store (live (run m (ops ++ collect_ops d ts))) d = Some s
            /\ content s = add_new [] (map (fun x => fst (fst x)) ts)).

(* ---- the statement indexes and the queries (Query.v): graphs and datasets with one index or with all of them ---- *)
(* after ANY history of insert / remove / clone / drop / move / query over several stores, all the indexes of
   every live store hold the same statements ... *)
Check (reachable_qwf : forall ops sid s, qfind (fst (qrun ops)) sid = Some s -> Qwf s).
Check (qstep_wf : forall w o, WQ w -> WQ (fst (qstep w o))).
(* ... so every query, whichever index the constants of its pattern select, returns exactly the statements of
   the store that match the pattern *)
Check (q_query_spec : forall st p, Qwf st -> q_query st p = filter (pat_matches (q_design st) p) (stmts st)).
Check (reachable_query_spec : forall ops sid s p, qfind (fst (qrun ops)) sid = Some s ->
  q_query s p = filter (pat_matches (q_design s) p) (stmts s)).
(* insert / remove: the statements afterwards and the value returned *)
Check (q_insert_spec : forall st q, Qwf st ->
  Qwf (fst (q_insert st q))
  /\ stmts (fst (q_insert st q)) = add_quad (norm (q_design st) q) (stmts st)
  /\ snd (q_insert st q) = negb (mem_quad (norm (q_design st) q) (stmts st))).
Check (q_remove_spec : forall st q, Qwf st ->
  Qwf (fst (q_remove st q))
  /\ stmts (fst (q_remove st q)) = del_quad (norm (q_design st) q) (stmts st)
  /\ snd (q_remove st q) = mem_quad (norm (q_design st) q) (stmts st)).
(* a query changes nothing; an operation on another store changes nothing of this one *)
Check (q_query_pure : forall w sid p, fst (qstep w (QQuery sid p)) = w).
Check (q_frame : forall w o sid, qtouches o sid = false -> qfind (fst (qstep w o)) sid = qfind w sid).
(* a clone is its original at the time of cloning, and whatever is done afterwards to the original or to other
   stores (mutations, drops, moves, queries of any shape, in any order) it answers every query as the original
   did then; and the other way round *)
Check (q_clone_spec : forall w src dst s, src <> dst -> qfind w src = Some s -> qfind w dst = None ->
  qfind (fst (qstep w (QClone src dst))) dst = Some s /\ qfind (fst (qstep w (QClone src dst))) src = Some s).
Check (q_clone_independent : forall w src dst s ops p, src <> dst -> qfind w src = Some s -> qfind w dst = None ->
  forallb (fun o => negb (qtouches o dst)) ops = true ->
  exists c, qfind (fst (qrun_from (fst (qstep w (QClone src dst))) ops)) dst = Some c /\ q_query c p = q_query s p).
Check (q_original_independent : forall w src dst s ops p, src <> dst -> qfind w src = Some s -> qfind w dst = None ->
  forallb (fun o => negb (qtouches o src)) ops = true ->
  exists c, qfind (fst (qrun_from (fst (qstep w (QClone src dst))) ops)) src = Some c /\ q_query c p = q_query s p).

(* ---- the other observation methods (Observe.v, round 7): subjects / predicates / objects / graph_names / iris /
   blank_nodes / literals / quoted_triples / variables / contains ---- *)
(* what they yield *)
Check (subjects_spec : forall sg st t, In t (observe sg st ASubjects) <-> exists q, In q (stmts st) /\ qs q = t).
Check (predicates_spec : forall sg st t, In t (observe sg st APredicates) <-> exists q, In q (stmts st) /\ qp q = t).
Check (objects_spec : forall sg st t, In t (observe sg st AObjects) <-> exists q, In q (stmts st) /\ qo q = t).
Check (graph_names_spec : forall sg st g,
  In g (observe sg st AGraphNames) <-> g <> 0 /\ exists q, In q (stmts st) /\ qg q = g).
Check (iris_spec : forall sg st t,
  In t (observe sg st AIris) <->
  is_iri sg t = true /\ exists q x, In q (stmts st) /\ In x (spog q) /\ In t (atoms depth_fuel sg x)).
Check (quoted_triples_spec : forall sg st t,
  In t (observe sg st AQuoted) <->
  is_quoted sg t = true /\ exists q x, In q (stmts st) /\ In x (spog q) /\ In t (constituents depth_fuel sg x)).
Check (contains_spec : forall st q, Qwf st ->
  q_contains st q = existsb (pat_matches (q_design st) (mkPat true true true true q)) (stmts st)).
(* they depend on the statements of the store and on nothing else (no value kept from an earlier call) *)
Check (observe_stmts_only : forall sg a b x, stmts a = stmts b -> observe sg a x = observe sg b x).
(* an observation changes nothing; an operation on another store changes nothing of this one *)
Check (a_obs_pure : forall sg w sid a, fst (astep sg w (AObs sid a)) = w).
Check (a_has_pure : forall sg w sid q, fst (astep sg w (AHas sid q)) = w).
Check (a_frame : forall sg w o sid, atouches o sid = false -> qfind (fst (astep sg w o)) sid = qfind w sid).
Check (a_reachable_qwf : forall sg ops sid s, qfind (fst (arun sg ops)) sid = Some s -> Qwf s).
(* a clone and its original answer every accessor and every `contains` as the original did at the time of cloning,
   whatever is done afterwards to the other one (mutations that change its graph names, subjects, ...; drops; moves;
   queries and observations of any kind on either side, before or after, in any order) *)
Check (a_clone_spec : forall sg w src dst s, src <> dst -> qfind w src = Some s -> qfind w dst = None ->
  let w' := fst (astep sg w (AQ (QClone src dst))) in
  qfind w' dst = Some s /\ qfind w' src = Some s).
Check (a_clone_independent : forall sg w src dst s ops, src <> dst -> qfind w src = Some s -> qfind w dst = None ->
  forallb (fun o => negb (atouches o dst)) ops = true ->
  exists c, qfind (fst (arun_from sg (fst (astep sg w (AQ (QClone src dst)))) ops)) dst = Some c
            /\ (forall a, observe sg c a = observe sg s a) /\ (forall q, q_contains c q = q_contains s q)).
Check (a_original_independent : forall sg w src dst s ops, src <> dst -> qfind w src = Some s -> qfind w dst = None ->
  forallb (fun o => negb (atouches o src)) ops = true ->
  exists c, qfind (fst (arun_from sg (fst (astep sg w (AQ (QClone src dst)))) ops)) src = Some c
            /\ (forall a, observe sg c a = observe sg s a) /\ (forall q, q_contains c q = q_contains s q)).

Print Assumptions reachable_wf.
Print Assumptions step_wf.
Print Assumptions reachable_read_safe.
Print Assumptions reachable_audit.
Print Assumptions frame.
Print Assumptions independent_reads.
Print Assumptions clone_keys_spec.
Print Assumptions clone_slots_spec.
Print Assumptions escaped_clone_safe.
Print Assumptions clone_term_wf.
Print Assumptions derived_clone_refuted.
Print Assumptions term_clone_escapes_refuted.
Print Assumptions rebuilt_clone_ok.
Print Assumptions owned_clone_ok.
Print Assumptions term_clone_owned_ok.
Print Assumptions clone_same_content.
Print Assumptions clone_step_content.
Print Assumptions clone_from_content.
Print Assumptions take_spec.
Print Assumptions collect_content.
Print Assumptions collect_example.
Print Assumptions compound_example.
Print Assumptions reachable_qwf.
Print Assumptions qstep_wf.
Print Assumptions q_query_spec.
Print Assumptions reachable_query_spec.
Print Assumptions q_insert_spec.
Print Assumptions q_remove_spec.
Print Assumptions q_query_pure.
Print Assumptions q_frame.
Print Assumptions q_clone_spec.
Print Assumptions q_clone_independent.
Print Assumptions q_original_independent.
Print Assumptions clone_mutate_query_example.
Print Assumptions dataset_query_example.
Print Assumptions subjects_spec.
Print Assumptions predicates_spec.
Print Assumptions objects_spec.
Print Assumptions graph_names_spec.
Print Assumptions iris_spec.
Print Assumptions quoted_triples_spec.
Print Assumptions contains_spec.
Print Assumptions observe_stmts_only.
Print Assumptions a_obs_pure.
Print Assumptions a_has_pure.
Print Assumptions a_frame.
Print Assumptions a_reachable_qwf.
Print Assumptions a_clone_spec.
Print Assumptions a_clone_independent.
Print Assumptions a_original_independent.
Print Assumptions graph_names_clone_example.
Print Assumptions graph_has_no_graph_names.
