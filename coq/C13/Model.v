(* C13/Model.v -- executable model of sophia_sparql's evaluation of the SPARQL algebra
   (sparql/src/{wrapper,exec,bgp,binding,matcher}.rs, matcher/_any_pattern.rs) AFTER the proposed
   fixes C13-c (GRAPH with an absent name / no named graph is empty), C13-d (project drops the
   variables that are not projected) and C13-e (GRAPH ?g joins { ?g -> name } after evaluating
   the inner pattern instead of pre-binding ?g); the pre-fix code is kept as [select0].
   Also: the SPARQL 1.1 section 18 semantics of the same fragment ([spec]).
   Definitions only.

   Conventions.
   * Terms are Common/Term.v's; Term::eq is modelled by STRUCTURAL equality [teq]: Term::eq
     differs from it only by the ASCII case of language tags, and the harness lower-cases the
     language tags of datasets, queries and results before they reach the model.
   * HashMap<Arc<str>, ResultTerm> (BindingMap) is modelled by an association list sorted by key
     without duplicate keys ([amap]), so that two maps with the same content are equal.
   * Expression evaluation (expression.rs, function.rs) is the parameter [exprlib]. *)
From Sophia.Common Require Export Prelude Term.
From Coq Require Export Permutation.

(* ---------- small boolean list utilities ---------- *)
Fixpoint memb {A} (eqb : A -> A -> bool) (x : A) (l : list A) : bool :=
  match l with [] => false | y :: l' => eqb x y || memb eqb x l' end.
(* keep the first occurrence of each element *)
Fixpoint dedupb {A} (eqb : A -> A -> bool) (l : list A) : list A :=
  match l with
  | [] => []
  | x :: l' => x :: filter (fun y => negb (eqb x y)) (dedupb eqb l')
  end.
Fixpoint filter_map {A B} (f : A -> option B) (l : list A) : list B :=
  match l with
  | [] => []
  | x :: l' => match f x with Some y => y :: filter_map f l' | None => filter_map f l' end
  end.

(* ---------- structural equality on terms ---------- *)
Fixpoint teq (a b : term) : bool :=
  match a, b with
  | Iri x, Iri y => str_eqb x y
  | Bnode x, Bnode y => str_eqb x y
  | Var x, Var y => str_eqb x y
  | LitDt l1 d1, LitDt l2 d2 => str_eqb l1 l2 && str_eqb d1 d2
  | LitLang l1 t1, LitLang l2 t2 => str_eqb l1 l2 && str_eqb t1 t2
  | Triple s1 p1 o1, Triple s2 p2 o2 => teq s1 s2 && teq p1 p2 && teq o1 o2
  | _, _ => false
  end.
Definition oteq (a b : option term) : bool := opt_eqb teq a b.

(* ---------- BindingMap: sorted association lists ---------- *)
Definition amap := list (str * term).
Fixpoint lookup (k : str) (m : amap) : option term :=
  match m with
  | [] => None
  | (k', v) :: m' => if str_eqb k k' then Some v else lookup k m'
  end.
(* HashMap::insert (replaces an existing entry) *)
Fixpoint insert (k : str) (v : term) (m : amap) : amap :=
  match m with
  | [] => [(k, v)]
  | (k', v') :: m' =>
      match str_cmp k k' with
      | Lt => (k, v) :: m
      | Eq => (k, v) :: m'
      | Gt => (k', v') :: insert k v m'
      end
  end.
Definition keys (m : amap) : list str := map fst m.
(* HashMap::retain(|k, _| vs.contains(k)) *)
Definition restrict (vs : list str) (m : amap) : amap :=
  filter (fun kv => memb str_eqb (fst kv) vs) m.
Definition remove (k : str) (m : amap) : amap :=
  filter (fun kv => negb (str_eqb k (fst kv))) m.
Fixpoint sortedb (m : amap) : bool :=
  match m with
  | [] => true
  | (k, _) :: m' =>
      match m' with
      | [] => true
      | (k', _) :: _ => match str_cmp k k' with Lt => sortedb m' | _ => false end
      end
  end.
Definition kv_eqb (a b : str * term) : bool := str_eqb (fst a) (fst b) && teq (snd a) (snd b).
Definition amap_eqb (a b : amap) : bool := list_eqb kv_eqb a b.

(* ---------- patterns (spargebra TermPattern / NamedNodePattern / TriplePattern) ---------- *)
(* a query variable or a blank node placeholder: the two kinds of things a BGP binds
   (Binding.v and Binding.b) *)
Inductive atom := AV (v : str) | AB (b : str).
Definition atom_eqb (a b : atom) : bool :=
  match a, b with AV x, AV y => str_eqb x y | AB x, AB y => str_eqb x y | _, _ => false end.

Inductive tpat :=
| PConst (t : term)              (* NamedNode / Literal *)
| PAtom (a : atom)               (* Variable / BlankNode *)
| PTrip (s p o : tpat).          (* quoted triple pattern *)
Definition tp3 := (tpat * tpat * tpat)%type.
Definition triple := (term * term * term)%type.
Definition triple_eqb (a b : triple) : bool :=
  let '(s1, p1, o1) := a in let '(s2, p2, o2) := b in teq s1 s2 && teq p1 p2 && teq o1 o2.

(* Binding { v, b } *)
Record binding := mkB { bv : amap; bb : amap }.
Definition empty_binding : binding := mkB [] [].
Definition get (a : atom) (b : binding) : option term :=
  match a with AV v => lookup v (bv b) | AB i => lookup i (bb b) end.
Definition set (a : atom) (t : term) (b : binding) : binding :=
  match a with
  | AV v => mkB (insert v t (bv b)) (bb b)
  | AB i => mkB (bv b) (insert i t (bb b))
  end.
Definition wfbind (b : binding) : bool := sortedb (bv b) && sortedb (bb b).

(* ---------- matcher.rs: SparqlMatcher ---------- *)
Inductive matcher :=
| MFree (a : atom)               (* Var / Bnode: matches anything *)
| MTrip (s p o : matcher)        (* non-ground quoted triple *)
| MBound (t : term).
(* SparqlMatcher::build *)
Fixpoint build (p : tpat) (b : binding) : matcher :=
  match p with
  | PAtom a => match get a b with Some t => MBound t | None => MFree a end
  | PTrip s p o =>
      match build s b, build p b, build o b with
      | MBound s', MBound p', MBound o' => MBound (Triple s' p' o')
      | ms, mp, mo => MTrip ms mp mo
      end
  | PConst t => MBound t
  end.
Definition is_bound (m : matcher) : bool := match m with MBound _ => true | _ => false end.
(* TermMatcher::matches for SparqlMatcher *)
Fixpoint m_matches (m : matcher) (t : term) : bool :=
  match m with
  | MBound t' => teq t' t
  | MTrip a b c =>
      match t with
      | Triple s p o => m_matches a s && m_matches b p && m_matches c o
      | _ => false
      end
  | MFree _ => true
  end.
Definition matcher3 := (matcher * matcher * matcher)%type.
Definition build3 (tp : tp3) (b : binding) : matcher3 :=
  let '(s, p, o) := tp in (build s b, build p b, build o b).
Definition matches3 (m : matcher3) (t : triple) : bool :=
  let '(sm, pm, om) := m in let '(s, p, o) := t in
  m_matches sm s && m_matches pm p && m_matches om o.

(* ---------- binding.rs: populate_bindings ---------- *)
(* None = Err(()): the match is inconsistent with an existing binding.  The [_ => None] arm of
   PTrip is `result.triple().unwrap()` on a non-triple: unreachable, see Proofs.populate_no_panic. *)
Fixpoint populate (p : tpat) (t : term) (b : binding) : option binding :=
  match p with
  | PAtom a =>
      match get a b with
      | Some t' => if teq t' t then Some b else None
      | None => Some (set a t b)
      end
  | PTrip ps pp po =>
      match t with
      | Triple ts tp to =>
          match populate ps ts b with
          | Some b1 => match populate pp tp b1 with
                       | Some b2 => populate po to b2
                       | None => None
                       end
          | None => None
          end
      | _ => None
      end
  | PConst _ => Some b
  end.
Definition populate3 (tp : tp3) (m : triple) (b : binding) : option binding :=
  let '(ps, pp, po) := tp in let '(ms, mp, mo) := m in
  match populate ps ms b with
  | Some b1 => match populate pp mp b1 with
               | Some b2 => populate po mo b2
               | None => None
               end
  | None => None
  end.
(* the two places where populate_bindings_term would panic (unwrap / debug_assert) *)
Fixpoint shape_ok (p : tpat) (t : term) : bool :=
  match p with
  | PConst c => teq c t
  | PAtom _ => true
  | PTrip ps pp po =>
      match t with
      | Triple ts tp to => shape_ok ps ts && shape_ok pp tp && shape_ok po to
      | _ => false
      end
  end.
Definition shape_ok3 (tp : tp3) (m : triple) : bool :=
  let '(ps, pp, po) := tp in let '(ms, mp, mo) := m in
  shape_ok ps ms && shape_ok pp mp && shape_ok po mo.

(* variables / atoms of a pattern (AnyPattern::atoms) *)
Fixpoint atoms (p : tpat) : list atom :=
  match p with
  | PConst _ => []
  | PAtom a => [a]
  | PTrip s p o => atoms s ++ atoms p ++ atoms o
  end.
Definition atoms3 (tp : tp3) : list atom := let '(s, p, o) := tp in atoms s ++ atoms p ++ atoms o.
Definition vars_of_atoms (l : list atom) : list str :=
  filter_map (fun a => match a with AV v => Some v | AB _ => None end) l.
(* populate_variables: a HashSet, modelled as the list of first occurrences *)
Definition populate_variables (ps : list tp3) (binding : option binding) : list str :=
  dedupb str_eqb ((match binding with Some b => keys (bv b) | None => [] end)
                  ++ vars_of_atoms (flat_map atoms3 ps)).

(* ---------- datasets ---------- *)
Definition quad := (triple * option term)%type.      (* None = default graph *)
Definition dataset := list quad.
Definition quad_eqb (a b : quad) : bool := triple_eqb (fst a) (fst b) && oteq (snd a) (snd b).
(* GraphNameMatcher for &[Option<ArcTerm>] *)
Definition gm_matches (gm : list (option term)) (g : option term) : bool := memb oteq g gm.
(* Dataset::quads_matching(sm, pm, om, graph_matcher).map(Quad::into_triple) *)
Definition ds_qm (D : dataset) (m : matcher3) (gm : list (option term)) : list triple :=
  map fst (filter (fun q => gm_matches gm (snd q) && matches3 m (fst q)) D).
(* the set of names of the named graphs *)
Definition graph_names_set (D : dataset) : list term := dedupb teq (filter_map snd D).
(* ... collected into a BTreeSet<ArcTerm> (ordered by Term::cmp) *)
Fixpoint ins_term (x : term) (l : list term) : list term :=
  match l with
  | [] => [x]
  | y :: l' => match term_cmp x y with Gt => y :: ins_term x l' | _ => x :: l end
  end.
Definition sort_terms (l : list term) : list term := fold_right ins_term [] l.
Definition ds_names (D : dataset) : list term := sort_terms (graph_names_set D).

(* ---------- the algebra (spargebra::algebra::GraphPattern) ---------- *)
Inductive npat := NConst (iri : str) | NVar (v : str).      (* NamedNodePattern of GRAPH *)
Inductive ukind := UPath | UJoin | ULeftJoin | UMinus | UValues | UReduced | UGroup | UService.
Definition ukind_eqb (a b : ukind) : bool :=
  match a, b with
  | UPath, UPath | UJoin, UJoin | ULeftJoin, ULeftJoin | UMinus, UMinus | UValues, UValues
  | UReduced, UReduced | UGroup, UGroup | UService, UService => true
  | _, _ => false
  end.

(* expression.rs / function.rs as a parameter: [eval_expr e mu = None] is an evaluation error;
   only Binding.v is consulted (EXISTS, which also reads the dataset, is outside the model) *)
Record exprlib := mkL {
  expr : Type;
  value : Type;
  eval_expr : expr -> amap -> option value;    (* ArcExpression::eval *)
  is_truthy : value -> option bool;            (* EvalResult::is_truthy *)
  into_term : value -> term;                   (* EvalResult::into_term *)
  ocrit : Type;                                (* ORDER BY criteria *)
  sorter : list ocrit -> list binding -> list binding   (* sort_unstable_by(cmp_bindings_with) *)
}.

Inductive err := NotImplemented (k : ukind) | NotImplementedFromNamed | NotImplementedForm
               | Override (v : str).
Inductive result := Ok (vs : list str) (rows : list binding) | Err (e : err).
(* what SparqlDataset::query returns *)
Inductive answer :=
| ARows (vs : list str) (rows : list (list (option term)))   (* Bindings::into_iter *)
| ABool (b : bool)
| AErr (e : err).

Section Algebra.
Variable L : exprlib.

Inductive pattern :=
| Bgp (ps : list tp3)
| Filter (e : expr L) (inner : pattern)
| Union (l r : pattern)
| Graph (name : npat) (inner : pattern)
| Extend (inner : pattern) (v : str) (e : expr L)
| OrderBy (inner : pattern) (crit : list (ocrit L))
| Project (inner : pattern) (vs : list str)
| Distinct (inner : pattern)
| Slice (inner : pattern) (start : nat) (len : option nat)
| Unsup (k : ukind).       (* Path, Join, LeftJoin, Minus, Values, Reduced, Group, Service *)


(* FILTER: arc_expr.eval(b).and_then(|e| e.is_truthy()).unwrap_or(false) *)
Definition filter_keep (e : expr L) (mu : amap) : bool :=
  match eval_expr L e mu with
  | Some v => match is_truthy L v with Some true => true | _ => false end
  | None => false
  end.
(* BIND: if let Some(val) = arc_expr.eval(&b) { b.v.insert(varkey, val.into_term()) } *)
Definition extend_row (v : str) (e : expr L) (b : binding) : binding :=
  match eval_expr L e (bv b) with
  | Some val => set (AV v) (into_term L val) b
  | None => b
  end.
Definition extend_mu (v : str) (e : expr L) (mu : amap) : amap :=
  match eval_expr L e mu with
  | Some val => insert v (into_term L val) mu
  | None => mu
  end.

(* DISTINCT: seen.insert(variables.map(|v| b.v.get(v))) keeps the first row of each key *)
Definition row_key (vs : list str) (b : binding) : list (option term) :=
  map (fun v => lookup v (bv b)) vs.
Fixpoint dedup_rows (vs : list str) (seen : list (list (option term))) (rows : list binding)
  : list binding :=
  match rows with
  | [] => []
  | r :: rs =>
      if memb (list_eqb oteq) (row_key vs r) seen then dedup_rows vs seen rs
      else r :: dedup_rows vs (row_key vs r :: seen) rs
  end.
(* skip(start).take(n) *)
Definition slice {A} (start : nat) (len : option nat) (l : list A) : list A :=
  match len with Some n => firstn n (skipn start l) | None => skipn start l end.
(* project (after fix d): b.v.retain(|k, _| projected.contains(k)) *)
Definition restrict_row (vs : list str) (b : binding) : binding := mkB (restrict vs (bv b)) (bb b).
(* graph_rec (after fix e): join a solution with { var -> name } *)
Definition join_var (var : str) (name : term) (b : binding) : option binding :=
  match lookup var (bv b) with
  | Some other => if teq other name then Some b else None
  | None => Some (set (AV var) name b)
  end.
Definition join_var_mu (var : str) (name : term) (mu : amap) : option amap :=
  match lookup var mu with
  | Some other => if teq other name then Some mu else None
  | None => Some (insert var name mu)
  end.
Definition add_var (v : str) (vs : list str) : list str :=
  if memb str_eqb v vs then vs else vs ++ [v].

Fixpoint split_last {A} (l : list A) : option (list A * A) :=
  match l with
  | [] => None
  | x :: l' => match split_last l' with
               | None => Some ([], x)
               | Some (f, z) => Some (x :: f, z)
               end
  end.

Section Engine.
(* the Dataset behind the ExecState *)
Variable qm : matcher3 -> list (option term) -> list triple.   (* quads_matching + into_triple *)
Variable gnames : list term.                                    (* graph_names() as a BTreeSet *)

(* bgp.rs: bgp_rec; the result list is `bs` in push order *)
Fixpoint bgp_rec (patterns : list tp3) (b : binding) (gm : list (option term)) : list binding :=
  match patterns with
  | [] => [b]
  | first :: remaining =>
      let '(sm, pm, om) := build3 first b in
      let all_bound := is_bound sm && is_bound pm && is_bound om in
      let matches := qm (sm, pm, om) gm in
      match split_last matches with
      | None => []                                     (* no matches: abort *)
      | Some (first_matches, last_match) =>
          if all_bound then bgp_rec remaining b gm     (* existence test *)
          else
            flat_map (fun m => match populate3 first m b with
                               | Some b' => bgp_rec remaining b' gm
                               | None => []
                               end) first_matches
            ++ match populate3 first last_match b with
               | Some b' => bgp_rec remaining b' gm
               | None => []
               end
      end
  end.

(* exec.rs: bgp + bgp::make_iterator *)
Definition bgp (ps : list tp3) (gm : list (option term)) (binding : option binding) : result :=
  Ok (populate_variables ps binding)
     (bgp_rec ps (match binding with Some b => b | None => empty_binding end) gm).

(* exec.rs after fix c: only_if_named_graph *)
Definition only_if_named (name : term) (r : result) : result :=
  match r with
  | Ok vs rows => if memb teq name gnames then Ok vs rows else Ok vs []
  | Err e => Err e
  end.

(* exec.rs after fix e: graph_rec; [sel] is `self.select(inner, ..)` *)
Fixpoint graph_rec (sel : list (option term) -> option binding -> result) (var : str)
         (names : list term) (binding : option binding) : result :=
  match names with
  | name :: rest =>
      match sel [Some name] binding with
      | Err e => Err e
      | Ok vs rows =>
          match graph_rec sel var rest binding with
          | Err e => Err e
          | Ok _ rows2 => Ok (add_var var vs) (filter_map (join_var var name) rows ++ rows2)
          end
      end
  | [] => Ok [] []
  end.

Definition graph (sel : list (option term) -> option binding -> result) (name : npat)
           (binding : option binding) : result :=
  match name with
  | NConst i => only_if_named (Iri i) (sel [Some (Iri i)] binding)
  | NVar var =>
      match (match binding with Some b => lookup var (bv b) | None => None end) with
      | Some name => only_if_named name (sel [Some name] binding)
      | None =>
          match sel [] binding with
          | Err e => Err e
          | Ok vs _ =>
              match gnames with
              | [] => Ok (add_var var vs) []
              | _ => graph_rec sel var gnames binding
              end
          end
      end
  end.

(* exec.rs: select *)
Fixpoint select (p : pattern) (gm : list (option term)) (binding : option binding) : result :=
  match p with
  | Bgp ps => bgp ps gm binding
  | Filter e inner =>
      match select inner gm binding with
      | Err x => Err x
      | Ok vs rows => Ok vs (filter (fun b => filter_keep e (bv b)) rows)
      end
  | Union l r =>
      match select l gm binding with
      | Err x => Err x
      | Ok lv li =>
          match select r gm binding with
          | Err x => Err x
          | Ok rv ri => Ok (lv ++ filter (fun v => negb (memb str_eqb v lv)) rv) (li ++ ri)
          end
      end
  | Graph name inner => graph (select inner) name binding
  | Extend inner v e =>
      match select inner gm binding with
      | Err x => Err x
      | Ok vs rows =>
          if memb str_eqb v vs then Err (Override v)
          else Ok (vs ++ [v]) (map (extend_row v e) rows)
      end
  | OrderBy inner crit =>
      match select inner gm binding with
      | Err x => Err x
      | Ok vs rows => Ok vs (sorter L crit rows)
      end
  | Project inner vs' =>
      match select inner gm binding with
      | Err x => Err x
      | Ok _ rows => Ok vs' (map (restrict_row vs') rows)
      end
  | Distinct inner =>
      match select inner gm binding with
      | Err x => Err x
      | Ok vs rows => Ok vs (dedup_rows vs [] rows)
      end
  | Slice inner start len =>
      match select inner gm binding with
      | Err x => Err x
      | Ok vs rows => Ok vs (slice start len rows)
      end
  | Unsup k => Err (NotImplemented k)
  end.

(* ----- the code before fixes c, d, e ----- *)
Fixpoint graph_rec0 (sel : list (option term) -> option binding -> result) (var : str)
         (names : list term) (binding : option binding) : result :=
  match names with
  | name :: rest =>
      let b := set (AV var) name (match binding with Some b => b | None => empty_binding end) in
      match sel [Some name] (Some b) with
      | Err e => Err e
      | Ok vs rows =>
          match graph_rec0 sel var rest binding with
          | Err e => Err e
          | Ok _ rows2 => Ok vs (rows ++ rows2)
          end
      end
  | [] => Ok [] []
  end.
Definition graph0 (sel : list (option term) -> option binding -> result) (name : npat)
           (binding : option binding) : result :=
  match name with
  | NConst i => sel [Some (Iri i)] binding
  | NVar var =>
      match (match binding with Some b => lookup var (bv b) | None => None end) with
      | Some name => sel [Some name] binding
      | None =>
          match sel [] binding with
          | Err e => Err e
          | Ok _ _ =>
              match gnames with
              | [] => sel [] binding
              | _ => graph_rec0 sel var gnames binding
              end
          end
      end
  end.
Fixpoint select0 (p : pattern) (gm : list (option term)) (binding : option binding) : result :=
  match p with
  | Bgp ps => bgp ps gm binding
  | Filter e inner =>
      match select0 inner gm binding with
      | Err x => Err x
      | Ok vs rows => Ok vs (filter (fun b => filter_keep e (bv b)) rows)
      end
  | Union l r =>
      match select0 l gm binding with
      | Err x => Err x
      | Ok lv li =>
          match select0 r gm binding with
          | Err x => Err x
          | Ok rv ri => Ok (lv ++ filter (fun v => negb (memb str_eqb v lv)) rv) (li ++ ri)
          end
      end
  | Graph name inner => graph0 (select0 inner) name binding
  | Extend inner v e =>
      match select0 inner gm binding with
      | Err x => Err x
      | Ok vs rows =>
          if memb str_eqb v vs then Err (Override v)
          else Ok (vs ++ [v]) (map (extend_row v e) rows)
      end
  | OrderBy inner crit =>
      match select0 inner gm binding with
      | Err x => Err x
      | Ok vs rows => Ok vs (sorter L crit rows)
      end
  | Project inner vs' =>
      match select0 inner gm binding with
      | Err x => Err x
      | Ok _ rows => Ok vs' rows            (* only the variable list is replaced *)
      end
  | Distinct inner =>
      match select0 inner gm binding with
      | Err x => Err x
      | Ok vs rows => Ok vs (dedup_rows vs [] rows)
      end
  | Slice inner start len =>
      match select0 inner gm binding with
      | Err x => Err x
      | Ok vs rows => Ok vs (slice start len rows)
      end
  | Unsup k => Err (NotImplemented k)
  end.
End Engine.

(* ---------- wrapper.rs: SparqlWrapper::query and ExecState::new ---------- *)
(* spargebra::QueryDataset { default, named } *)
Definition dsclause := (list str * option (list str))%type.
Inductive query :=
| QSelect (ds : option dsclause) (p : pattern)
| QAsk (ds : option dsclause) (p : pattern)
| QConstruct
| QDescribe.
(* ExecState::new: Err = FROM NAMED not implemented, else the default matcher *)
Definition default_matcher (ds : option dsclause) : option (list (option term)) :=
  match ds with
  | None => Some [None]
  | Some (_, Some _) => None
  | Some (default, None) => Some (map (fun i => Some (Iri i)) default)
  end.
Definition rows_of (vs : list str) (rows : list binding) : list (list (option term)) :=
  map (row_key vs) rows.
Definition run_query (D : dataset) (q : query) : answer :=
  match q with
  | QSelect ds p =>
      match default_matcher ds with
      | None => AErr NotImplementedFromNamed
      | Some gm => match select (ds_qm D) (ds_names D) p gm None with
                   | Ok vs rows => ARows vs (rows_of vs rows)
                   | Err e => AErr e
                   end
      end
  | QAsk ds p =>
      match default_matcher ds with
      | None => AErr NotImplementedFromNamed
      | Some gm => match select (ds_qm D) (ds_names D) p gm None with
                   | Ok vs rows => ABool (match rows with [] => false | _ => true end)
                   | Err e => AErr e
                   end
      end
  | QConstruct | QDescribe => AErr NotImplementedForm
  end.
Definition run_query0 (D : dataset) (q : query) : answer :=
  match q with
  | QSelect ds p =>
      match default_matcher ds with
      | None => AErr NotImplementedFromNamed
      | Some gm => match select0 (ds_qm D) (ds_names D) p gm None with
                   | Ok vs rows => ARows vs (rows_of vs rows)
                   | Err e => AErr e
                   end
      end
  | QAsk ds p =>
      match default_matcher ds with
      | None => AErr NotImplementedFromNamed
      | Some gm => match select0 (ds_qm D) (ds_names D) p gm None with
                   | Ok vs rows => ABool (match rows with [] => false | _ => true end)
                   | Err e => AErr e
                   end
      end
  | QConstruct | QDescribe => AErr NotImplementedForm
  end.

(* ====================================================================================== *)
(* SPECIFICATION: SPARQL 1.1 Query, section 18 (multiset semantics), as lists of solution
   mappings (amap) whose order is irrelevant.                                              *)
(* ====================================================================================== *)

(* the active graph: the default graph (None) or the named graph (Some name) *)
Definition graph_of (D : dataset) (g : option term) : list triple :=
  map fst (filter (fun q => oteq g (snd q)) D).

(* 18.3 basic graph patterns.  A pattern instance mapping is a total assignment of the
   variables AND the blank node placeholders of the BGP (as a [binding]: bv = mu, bb = sigma);
   it is a solution when every instantiated triple pattern is a triple of the graph; the
   multiplicity of mu is the number of distinct sigma: the list below has one entry per
   (mu, sigma) and is then projected on mu. *)
Fixpoint subterms (t : term) : list term :=
  t :: match t with Triple s p o => subterms s ++ subterms p ++ subterms o | _ => [] end.
Definition universe (G : list triple) : list term :=
  dedupb teq (flat_map (fun t : triple => let '(s, p, o) := t in
                                          subterms s ++ subterms p ++ subterms o) G).
Fixpoint assigns (xs : list atom) (U : list term) : list binding :=
  match xs with
  | [] => [empty_binding]
  | a :: xs' => flat_map (fun t => map (set a t) (assigns xs' U)) U
  end.
Fixpoint inst (p : tpat) (b : binding) : option term :=
  match p with
  | PConst t => Some t
  | PAtom a => get a b
  | PTrip s p o =>
      match inst s b, inst p b, inst o b with
      | Some s', Some p', Some o' => Some (Triple s' p' o')
      | _, _, _ => None
      end
  end.
Definition inst3 (tp : tp3) (b : binding) : option triple :=
  let '(s, p, o) := tp in
  match inst s b, inst p b, inst o b with
  | Some s', Some p', Some o' => Some (s', p', o')
  | _, _, _ => None
  end.
Definition sat3 (G : list triple) (b : binding) (tp : tp3) : bool :=
  match inst3 tp b with Some t => memb triple_eqb t G | None => false end.
Definition bgp_atoms (ps : list tp3) : list atom := dedupb atom_eqb (flat_map atoms3 ps).
Definition spec_bgp_full (G : list triple) (ps : list tp3) : list binding :=
  filter (fun b => forallb (sat3 G b) ps) (assigns (bgp_atoms ps) (universe G)).
Definition spec_bgp (G : list triple) (ps : list tp3) : list amap :=
  map bv (spec_bgp_full G ps).

(* 18.5 / 18.6: eval(D(G), pattern) *)
Fixpoint spec (D : dataset) (p : pattern) (g : option term) : list amap :=
  match p with
  | Bgp ps => spec_bgp (graph_of D g) ps
  | Filter e inner => filter (filter_keep e) (spec D inner g)          (* errors are false *)
  | Union l r => spec D l g ++ spec D r g
  | Graph (NConst i) inner =>
      if memb teq (Iri i) (graph_names_set D) then spec D inner (Some (Iri i)) else []
  | Graph (NVar v) inner =>                                  (* never the default graph *)
      flat_map (fun n => filter_map (join_var_mu v n) (spec D inner (Some n)))
               (graph_names_set D)
  | Extend inner v e => map (extend_mu v e) (spec D inner g)  (* error: left unbound *)
  | OrderBy inner _ => spec D inner g
  | Project inner vs => map (restrict vs) (spec D inner g)
  | Distinct inner => dedupb amap_eqb (spec D inner g)
  | Slice inner start len => slice start len (spec D inner g)  (* of ONE order of the list *)
  | Unsup _ => []
  end.

(* The same semantics as a relation, which also covers OFFSET / LIMIT below other operators:
   [answers D p g rows] = "rows is an admissible answer for p": a multiset is any ordering of
   it, and Slice cuts a window out of ANY admissible ordering of its operand (18.5: "Slice" is
   defined on the sequence obtained by ToList, whose order is only constrained by ORDER BY,
   which is property C14). *)
Fixpoint answers (D : dataset) (p : pattern) (g : option term) (rows : list amap) : Prop :=
  match p with
  | Bgp ps => Permutation rows (spec_bgp (graph_of D g) ps)
  | Filter e inner =>
      exists l, answers D inner g l /\ Permutation rows (filter (filter_keep e) l)
  | Union l r =>
      exists l1 l2, answers D l g l1 /\ answers D r g l2 /\ Permutation rows (l1 ++ l2)
  | Graph (NConst i) inner =>
      if memb teq (Iri i) (graph_names_set D) then answers D inner (Some (Iri i)) rows
      else rows = []
  | Graph (NVar v) inner =>
      exists f : term -> list amap,
        (forall n, In n (graph_names_set D) -> answers D inner (Some n) (f n))
        /\ Permutation rows (flat_map (fun n => filter_map (join_var_mu v n) (f n))
                                      (graph_names_set D))
  | Extend inner v e =>
      exists l, answers D inner g l /\ Permutation rows (map (extend_mu v e) l)
  | OrderBy inner _ => exists l, answers D inner g l /\ Permutation rows l
  | Project inner vs => exists l, answers D inner g l /\ Permutation rows (map (restrict vs) l)
  | Distinct inner => exists l, answers D inner g l /\ Permutation rows (dedupb amap_eqb l)
  | Slice inner start len => exists l, answers D inner g l /\ rows = slice start len l
  | Unsup _ => False
  end.

(* syntactic classes used by the theorems *)
Fixpoint supported (p : pattern) : bool :=
  match p with
  | Bgp _ => true
  | Filter _ i | Graph _ i | Extend i _ _ | OrderBy i _ | Project i _ | Distinct i
  | Slice i _ _ => supported i
  | Union l r => supported l && supported r
  | Unsup _ => false
  end.
Fixpoint slice_free (p : pattern) : bool :=
  match p with
  | Bgp _ | Unsup _ => true
  | Filter _ i | Graph _ i | Extend i _ _ | OrderBy i _ | Project i _ | Distinct i => slice_free i
  | Union l r => slice_free l && slice_free r
  | Slice _ _ _ => false
  end.
(* the variable list computed by select (independent of the data) *)
Fixpoint out_vars (p : pattern) : list str :=
  match p with
  | Bgp ps => populate_variables ps None
  | Filter _ i | OrderBy i _ | Distinct i | Slice i _ _ => out_vars i
  | Union l r => out_vars l ++ filter (fun v => negb (memb str_eqb v (out_vars l))) (out_vars r)
  | Graph (NConst _) i => out_vars i
  | Graph (NVar v) i => add_var v (out_vars i)
  | Extend i v _ => out_vars i ++ [v]
  | Project _ vs => vs
  | Unsup _ => []
  end.
(* no BIND overrides a variable of its operand (otherwise: SparqlWrapperError::Override) *)
Fixpoint no_override (p : pattern) : bool :=
  match p with
  | Bgp _ | Unsup _ => true
  | Filter _ i | Graph _ i | OrderBy i _ | Project i _ | Distinct i | Slice i _ _ => no_override i
  | Union l r => no_override l && no_override r
  | Extend i v _ => no_override i && negb (memb str_eqb v (out_vars i))
  end.
End Algebra.

Arguments Bgp {L}. Arguments Filter {L}. Arguments Union {L}. Arguments Graph {L}.
Arguments Extend {L}. Arguments OrderBy {L}. Arguments Project {L}. Arguments Distinct {L}.
Arguments Slice {L}. Arguments Unsup {L}.
Arguments QSelect {L}. Arguments QAsk {L}. Arguments QConstruct {L}. Arguments QDescribe {L}.
