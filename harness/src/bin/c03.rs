//! C03: N-Triples / N-Quads serialisation round-trips every dataset exactly.
//!
//! Three streams of cases, all derived from --seed:
//!  * dataset (about 75 %): a list of well-formed strict / RDF-star quads with nasty lexical forms,
//!    labels, tags, IRIs and graph names is serialised with sophia's NqSerializer / NtSerializer;
//!    ORACLE (plain Rust, independent of the model): sophia's parsers (nq, gnq, nt) read the text
//!    back to exactly the same quads (tags up to ASCII case), the text has one LF per quad, no CR,
//!    and every line on its own parses to the corresponding quad;
//!    Coq: `case_ok` = well-formed per the Coq predicate, model writer bytes == implementation
//!    bytes, reference reader reads the implementation's bytes back to the same quads.
//!  * w3c-label (about 5 %): labels legal for the W3C grammar but refused by BnodeId::new
//!    (consecutive dots, ':'), built unchecked; Coq side only (Rio's verdict is tallied).
//!  * reader (about 20 %): hand-formatted N-Quads text with ECHAR / UCHAR escapes, white space,
//!    comments, CRLF, possibly one mutation making it malformed; sophia's parser and the Coq
//!    reference reader must agree (same quads, or both reject): validates the reference reader.
use sophia_api::prelude::*;
use sophia_api::quad::Spog;
use sophia_api::serializer::{QuadSerializer, Stringifier, TripleSerializer};
use sophia_api::source::{QuadSource, TripleSource};
use sophia_api::term::{BnodeId, LanguageTag, Term, TermKind};
use sophia_turtle::serializer::{nq::NqSerializer, nt::NtSerializer};
use verif_harness::*;

#[derive(Clone, Debug, PartialEq)]
enum T { Iri(String), B(String), Lit(String, String), Lang(String, String), Tr(Box<[T; 3]>) }
type Q = (T, T, T, Option<T>);

fn to_st(t: &T) -> ST {
    match t {
        T::Iri(s) => iri(s),
        T::B(s) => bnode(s),
        T::Lit(l, d) => lit_dt(l, d),
        T::Lang(l, g) => lit_lang(l, g),
        T::Tr(b) => triple(to_st(&b[0]), to_st(&b[1]), to_st(&b[2])),
    }
}
fn from_term<X: Term>(x: X) -> T {
    match x.kind() {
        TermKind::Iri => T::Iri(x.iri().unwrap().as_str().to_string()),
        TermKind::BlankNode => T::B(x.bnode_id().unwrap().as_str().to_string()),
        TermKind::Literal => match x.language_tag() {
            Some(tag) => T::Lang(x.lexical_form().unwrap().to_string(), tag.as_str().to_string()),
            None => T::Lit(x.lexical_form().unwrap().to_string(), x.datatype().unwrap().as_str().to_string()),
        },
        TermKind::Triple => { let [s, p, o] = x.triple().unwrap(); T::Tr(Box::new([from_term(s), from_term(p), from_term(o)])) }
        TermKind::Variable => T::Iri(format!("?variable?{}", x.variable().unwrap().as_str())),
    }
}
/// exact equality, except language tags up to ASCII case
fn same(a: &T, b: &T) -> bool {
    match (a, b) {
        (T::Lang(l1, g1), T::Lang(l2, g2)) => l1 == l2 && g1.eq_ignore_ascii_case(g2),
        (T::Tr(x), T::Tr(y)) => (0..3).all(|i| same(&x[i], &y[i])),
        (T::Lang(..), _) | (T::Tr(_), _) => false,
        _ => a == b,
    }
}
fn same_q(a: &Q, b: &Q) -> bool {
    same(&a.0, &b.0) && same(&a.1, &b.1) && same(&a.2, &b.2) && match (&a.3, &b.3) { (None, None) => true, (Some(x), Some(y)) => same(x, y), _ => false }
}
fn same_qs(a: &[Q], b: &[Q]) -> bool { a.len() == b.len() && a.iter().zip(b).all(|(x, y)| same_q(x, y)) }
fn c_term(t: &T) -> String {
    match t {
        T::Iri(s) => format!("(Iri {})", coq_str(s)),
        T::B(s) => format!("(Bnode {})", coq_str(s)),
        T::Lit(l, d) => format!("(LitDt {} {})", coq_str(l), coq_str(d)),
        T::Lang(l, g) => format!("(LitLang {} {})", coq_str(l), coq_str(g)),
        T::Tr(b) => format!("(Triple {} {} {})", c_term(&b[0]), c_term(&b[1]), c_term(&b[2])),
    }
}
/// expected quads are printed from the plain data; `coq_term` of the harness lib prints the sophia
/// terms actually handed to the serialiser (checked equal below)
fn c_quad(q: &Q) -> String {
    format!("({}, {}, {}, {})", c_term(&q.0), c_term(&q.1), c_term(&q.2), coq_opt(q.3.as_ref().map(c_term)))
}
fn c_quads(qs: &[Q]) -> String { coq_list(qs.iter().map(c_quad)) }
fn show(t: &T) -> String {
    match t { T::Iri(s) => format!("<{s}>"), T::B(s) => format!("_:{s}"), T::Lit(l, d) => format!("{l:?}^^<{d}>"), T::Lang(l, g) => format!("{l:?}@{g}"), T::Tr(b) => format!("<<{} {} {}>>", show(&b[0]), show(&b[1]), show(&b[2])) }
}
fn show_q(q: &Q) -> String { format!("{} {} {} {}", show(&q.0), show(&q.1), show(&q.2), q.3.as_ref().map(show).unwrap_or("(default graph)".into())) }

// ---------- parsing with sophia ----------
fn parse_nq(bytes: &[u8]) -> Result<Vec<Q>, String> {
    let mut out = vec![];
    sophia_turtle::parser::nq::parse_bufread(bytes).for_each_quad(|q| out.push((from_term(q.s()), from_term(q.p()), from_term(q.o()), q.g().map(from_term)))).map_err(|e| e.to_string())?;
    Ok(out)
}
fn parse_gnq(bytes: &[u8]) -> Result<Vec<Q>, String> {
    let mut out = vec![];
    sophia_turtle::parser::gnq::parse_bufread(bytes).for_each_quad(|q| out.push((from_term(q.s()), from_term(q.p()), from_term(q.o()), q.g().map(from_term)))).map_err(|e| e.to_string())?;
    Ok(out)
}
fn parse_nt(bytes: &[u8]) -> Result<Vec<Q>, String> {
    let mut out = vec![];
    sophia_turtle::parser::nt::parse_bufread(bytes).for_each_triple(|t| out.push((from_term(t.s()), from_term(t.p()), from_term(t.o()), None))).map_err(|e| e.to_string())?;
    Ok(out)
}

// ---------- generators ----------
fn pk(r: &mut Rng, v: &[&'static str]) -> &'static str { v[r.below(v.len())] }
const LEX_POOL: &[&str] = &["\"", "\\", "\n", "\r", "\t", " ", "a", "Z", "0", "'", ".", "<", ">", "@", "^", "#", "_:", "\u{e9}", "e\u{301}", "\u{200d}", "\u{fffd}", "\u{ffff}", "\u{10000}", "\u{1f600}", "\u{10ffff}", "\u{e000}", "\u{d7ff}", "\u{7f}", "\u{80}", "\u{85}", "\u{2028}", "\u{feff}",
    "\\\"", "\\\\\"", "\\n", "\\u0041", "\\U0001F600", "\"@en", "\"^^<x:y>", "\" .\n<x:a> <x:b> <x:c> .\n", "\r\n", "\n\r", "\\\r", "\"\"\""];
fn gen_lex(r: &mut Rng) -> String {
    let mut s = String::new();
    let n = match r.below(10) { 0 => 0, 1 => 1, 2..=7 => r.range(2, 8), _ => r.range(9, 20) };
    for _ in 0..n {
        match r.below(10) {
            0..=2 => s.push(char::from_u32(r.below(32) as u32).unwrap()), // every C0 control, U+0000 included
            3 => s.push(*r.pick(&['"', '\\', '\n', '\r'])),
            _ => s.push_str(pk(r, LEX_POOL)),
        }
    }
    s
}
const IRI_BASES: &[&str] = &["http://example.org/", "http://example.org/ns#", "https://\u{e9}x.example/\u{65e5}\u{672c}/", "tag:a", "urn:x:y:", "x:", "http://[2001:db8::1]:8080/p/", "http://[::1]:8080/p/", "http://u:p@h.example/", "file:///a/b", "mailto:a@b.c", "http://example.org/?q=\u{e000}&r="];
const IRI_PARTS: &[&str] = &["a", "B", "0", "%20", "%C3%A9", "\u{e9}", "\u{10000}", "\u{efffd}", "-", ".", "_", "~", "!", "$", "&", "'", "(", ")", "*", "+", ",", ";", "=", ":", "@", "/", "?k=v", "#f", "..", "//"];
// ---- independent RFC 3987 check (absolute IRI with optional fragment), from the ABNF ----
fn ucschar(c: char) -> bool { let u = c as u32; matches!(u, 0xA0..=0xD7FF | 0xF900..=0xFDCF | 0xFDF0..=0xFFEF) || ((0x10000..=0xEFFFD).contains(&u) && (u & 0xFFFF) <= 0xFFFD && !(0xE0000..=0xE0FFF).contains(&u)) }
fn iprivate(c: char) -> bool { let u = c as u32; matches!(u, 0xE000..=0xF8FF | 0xF0000..=0xFFFFD | 0x100000..=0x10FFFD) }
fn iunreserved(c: char) -> bool { c.is_ascii_alphanumeric() || "-._~".contains(c) || ucschar(c) }
fn sub_delim(c: char) -> bool { "!$&'()*+,;=".contains(c) }
/// every character is allowed by `ok`, or is the start of a pct-encoded triplet
fn chars_ok(s: &str, ok: impl Fn(char) -> bool) -> bool {
    let v: Vec<char> = s.chars().collect();
    let mut i = 0;
    while i < v.len() {
        if v[i] == '%' { if i + 2 < v.len() + 0 && v[i + 1].is_ascii_hexdigit() && v[i + 2].is_ascii_hexdigit() { i += 3; continue; } else { return false; } }
        if !ok(v[i]) { return false; }
        i += 1;
    }
    true
}
fn rfc3987_abs(s: &str) -> bool {
    let Some((scheme, rest)) = s.split_once(':') else { return false };
    if !(scheme.starts_with(|c: char| c.is_ascii_alphabetic()) && scheme.chars().all(|c| c.is_ascii_alphanumeric() || "+-.".contains(c))) { return false; }
    let (rest, frag) = match rest.split_once('#') { Some((a, b)) => (a, Some(b)), None => (rest, None) };
    let (hier, query) = match rest.split_once('?') { Some((a, b)) => (a, Some(b)), None => (rest, None) };
    let ipchar = |c: char| iunreserved(c) || sub_delim(c) || c == ':' || c == '@';
    if let Some(f) = frag { if !chars_ok(f, |c| ipchar(c) || c == '/' || c == '?') { return false; } }
    if let Some(q) = query { if !chars_ok(q, |c| ipchar(c) || iprivate(c) || c == '/' || c == '?') { return false; } }
    let path = if let Some(h) = hier.strip_prefix("//") {
        let (auth, path) = match h.find('/') { Some(i) => (&h[..i], &h[i..]), None => (h, "") };
        let hostport = match auth.split_once('@') { Some((u, hp)) => { if !chars_ok(u, |c| iunreserved(c) || sub_delim(c) || c == ':') { return false; } hp } None => auth };
        let (host, port) = if hostport.starts_with('[') {
            let Some(i) = hostport.find(']') else { return false };
            if !hostport[1..i].chars().all(|c| c.is_ascii_hexdigit() || c == ':' || c == '.') || i == 1 { return false; }
            match &hostport[i + 1..] { "" => ("", None), p if p.starts_with(':') => ("", Some(&p[1..])), _ => return false }
        } else { match hostport.split_once(':') { Some((h, p)) => (h, Some(p)), None => (hostport, None) } };
        if !chars_ok(host, |c| iunreserved(c) || sub_delim(c)) { return false; }
        if let Some(p) = port { if !p.chars().all(|c| c.is_ascii_digit()) { return false; } }
        path
    } else { hier };
    chars_ok(path, |c| ipchar(c) || c == '/')
}
/// an absolute IRI accepted by sophia_iri::Iri::new and valid for the independent RFC 3987 check
/// above.  sophia_iri accepts a few strings that are not RFC 3987 IRIs (e.g. `x://:'` : a
/// non-digit port); those are outside the quantifier of C03 ("all absolute IRIs"): tallied, redrawn.
fn gen_iri(r: &mut Rng, sum: &mut Summary) -> String {
    loop {
        let mut s = pk(r, IRI_BASES).to_string();
        for _ in 0..r.below(5) { s.push_str(pk(r, IRI_PARTS)); }
        if sophia_iri::Iri::new(s.as_str()).is_err() { if rfc3987_abs(&s) { sum.bump("iri-draw-valid-RFC3987-but-refused-by-sophia_iri(IPv6 regex, see C09)"); } continue; }
        if !rfc3987_abs(&s) { sum.bump("iri-draw-accepted-by-sophia_iri-but-not-RFC3987"); if !sum.samples.iter().any(|x| x.starts_with("not an RFC 3987 IRI")) { sum.samples.push(format!("not an RFC 3987 IRI but accepted by sophia_iri::Iri::new: {s:?}")); } continue; }
        return s;
    }
}
const LAB_FIRST: &[&str] = &["a", "Z", "_", "0", "9", "\u{e9}", "\u{3b1}", "\u{3001}", "\u{10000}", "\u{effff}", "\u{c0}", "\u{200c}"];
const LAB_MID: &[&str] = &["a", "z", "_", "-", "0", "7", ".", ".", "\u{b7}", "\u{300}", "\u{36f}", "\u{203f}", "\u{2040}", "\u{e9}", "\u{d7ff}", "\u{fdcf}", "\u{10000}", "\u{effff}"];
/// a label of the W3C grammar (the last character is never '.'); `w3c_only`: force a feature that
/// BnodeId::new refuses (consecutive dots or a colon)
fn gen_label_raw(r: &mut Rng, w3c_only: bool) -> String {
    let mut s = pk(r, LAB_FIRST).to_string();
    for _ in 0..r.below(6) { s.push_str(pk(r, LAB_MID)); }
    if w3c_only { s.push_str(pk(r, &["..", ":", "...", ".:", ":."])); s.push_str(pk(r, LAB_FIRST)); }
    while s.ends_with('.') { s.pop(); s.push_str(pk(r, LAB_FIRST)); }
    s
}
fn gen_label(r: &mut Rng, sum: &mut Summary) -> String {
    loop {
        let s = gen_label_raw(r, false);
        if BnodeId::new(s.as_str()).is_ok() { return s; }
        sum.bump("label-draw-refused-by-BnodeId::new(consecutive dots)");
    }
}
fn rand_case(r: &mut Rng, s: &str) -> String { s.chars().map(|c| if r.chance(1, 2) { c.to_ascii_uppercase() } else { c.to_ascii_lowercase() }).collect() }
/// a well-formed BCP47 tag (RFC 5646 section 2.1 syntax) by construction, in random case
fn gen_tag(r: &mut Rng, lower_only: bool) -> String {
    let t = if r.chance(1, 8) { pk(r, &["x-private", "x-a1-12345678", "i-klingon", "en-GB-oed", "zh-min-nan", "i-default", "art-lojban"]).to_string() } else {
        let mut parts: Vec<String> = vec![pk(r, &["en", "fr", "de", "zh", "sr", "yue", "es", "abcde", "abcdefgh"]).to_string()];
        if parts[0].len() <= 3 && r.chance(1, 8) { parts.push(pk(r, &["cmn", "yue", "abc"]).to_string()); }
        if r.chance(1, 4) { parts.push(pk(r, &["Latn", "Cyrl", "Hant"]).to_string()); }
        if r.chance(1, 2) { parts.push(pk(r, &["US", "be", "419", "GB", "001"]).to_string()); }
        if r.chance(1, 5) { parts.push(pk(r, &["1996", "valencia", "rozaj", "1694acad"]).to_string()); }
        if r.chance(1, 6) { parts.push("u".into()); parts.push(pk(r, &["co", "phonebk", "12"]).to_string()); }
        if r.chance(1, 6) { parts.push("x".into()); parts.push(pk(r, &["priv", "1", "a-b"]).to_string()); }
        parts.join("-")
    };
    let t = if lower_only { t.to_ascii_lowercase() } else { rand_case(r, &t) };
    assert!(LanguageTag::new(t.as_str()).is_ok());
    t
}
/// accepted by LanguageTag::new (documented as more permissive than BCP47) but not BCP47
const LAX_TAGS: &[&str] = &["a-u-12", "i-private", "a", "en-x", "a1", "en1-us", "abcdefghi", "en-a"];
const DATATYPES: &[&str] = &["http://www.w3.org/2001/XMLSchema#string", "http://www.w3.org/2001/XMLSchema#string", "http://www.w3.org/2001/XMLSchema#integer", "http://www.w3.org/2001/XMLSchema#String", "http://www.w3.org/2001/XMLSchema#strin", "http://www.w3.org/2001/XMLSchema#string1", "http://www.w3.org/1999/02/22-rdf-syntax-ns#HTML", "x:dt"];
struct Gen<'a> { r: Rng, sum: &'a mut Summary, lower_tags: bool, w3c_labels: bool, lax_tags: bool }
impl Gen<'_> {
    fn bnode(&mut self) -> T { if self.w3c_labels { T::B(gen_label_raw(&mut self.r, true)) } else { T::B(gen_label(&mut self.r, self.sum)) } }
    fn literal(&mut self) -> T {
        let lex = gen_lex(&mut self.r);
        if self.lax_tags { T::Lang(lex, pk(&mut self.r, LAX_TAGS).to_string()) }
        else if self.r.chance(1, 3) { T::Lang(lex, gen_tag(&mut self.r, self.lower_tags)) }
        else { let dt = if self.r.chance(1, 6) { gen_iri(&mut self.r, self.sum) } else { pk(&mut self.r, DATATYPES).to_string() }; T::Lit(lex, dt) }
    }
    fn quoted(&mut self, depth: usize) -> T { T::Tr(Box::new([self.subject(depth), T::Iri(gen_iri(&mut self.r, self.sum)), self.object(depth)])) }
    fn subject(&mut self, depth: usize) -> T {
        match self.r.below(if depth > 0 { 5 } else { 4 }) { 0 | 1 => T::Iri(gen_iri(&mut self.r, self.sum)), 2 | 3 => self.bnode(), _ => self.quoted(depth - 1) }
    }
    fn object(&mut self, depth: usize) -> T {
        match self.r.below(if depth > 0 { 9 } else { 8 }) { 0 | 1 => T::Iri(gen_iri(&mut self.r, self.sum)), 2 | 3 => self.bnode(), 4..=7 => self.literal(), _ => self.quoted(depth - 1) }
    }
    fn quad(&mut self, graphs: bool) -> Q {
        let depth = if self.r.chance(1, 3) { self.r.range(1, 3) } else { 0 };
        let g = if !graphs { None } else { match self.r.below(4) { 0 | 1 => None, 2 => Some(T::Iri(gen_iri(&mut self.r, self.sum))), _ => Some(self.bnode()) } };
        (self.subject(depth), T::Iri(gen_iri(&mut self.r, self.sum)), self.object(depth), g)
    }
}
fn has_tr(t: &T) -> bool { matches!(t, T::Tr(_)) }
fn nasty(t: &T) -> bool {
    match t {
        T::Iri(s) => !s.is_ascii(),
        T::B(s) => !s.is_ascii() || s.contains('.') || s.chars().next().unwrap().is_ascii_digit(),
        T::Lit(l, _) => l.chars().any(|c| (c as u32) < 32 || c == '"' || c == '\\' || !c.is_ascii()),
        T::Lang(l, g) => l.chars().any(|c| (c as u32) < 32 || c == '"' || c == '\\' || !c.is_ascii()) || g.chars().any(|c| c.is_ascii_uppercase()),
        T::Tr(_) => true,
    }
}

// ---------- hand formatter for the reader stream ----------
fn esc_lex(r: &mut Rng, s: &str) -> String {
    let mut o = String::new();
    for c in s.chars() {
        let e = match c { '\t' => Some("\\t"), '\u{8}' => Some("\\b"), '\n' => Some("\\n"), '\r' => Some("\\r"), '\u{c}' => Some("\\f"), '"' => Some("\\\""), '\'' => Some("\\'"), '\\' => Some("\\\\"), _ => None };
        let must = matches!(c, '\n' | '\r' | '"' | '\\');
        match r.below(6) {
            0 => o.push_str(&if (c as u32) < 0x10000 && r.chance(1, 2) { format!("\\u{:04X}", c as u32) } else { format!("\\U{:08x}", c as u32) }),
            1 | 2 if e.is_some() => o.push_str(e.unwrap()),
            _ if must => o.push_str(e.unwrap()),
            _ => o.push(c),
        }
    }
    o
}
fn esc_iri(r: &mut Rng, s: &str) -> String {
    s.chars().map(|c| if !c.is_ascii() && r.chance(1, 3) { if (c as u32) < 0x10000 { format!("\\u{:04x}", c as u32) } else { format!("\\U{:08X}", c as u32) } } else { c.to_string() }).collect()
}
fn ws(r: &mut Rng, allow_empty: bool) -> &'static str { match r.below(8) { 0 if allow_empty => "", 1 => "\t", 2 => "  ", 3 => " \t ", _ => " " } }
fn fmt_term(r: &mut Rng, t: &T) -> String {
    match t {
        T::Iri(s) => format!("<{}>", esc_iri(r, s)),
        T::B(s) => format!("_:{s}"),
        T::Lit(l, d) => if d == "http://www.w3.org/2001/XMLSchema#string" && r.chance(2, 3) { format!("\"{}\"", esc_lex(r, l)) } else { format!("\"{}\"^^<{}>", esc_lex(r, l), esc_iri(r, d)) },
        T::Lang(l, g) => format!("\"{}\"@{g}", esc_lex(r, l)),
        T::Tr(b) => { let (s, p, o) = (fmt_term(r, &b[0]), fmt_term(r, &b[1]), fmt_term(r, &b[2])); let e1 = s.ends_with('>'); let e2 = o.ends_with('>') || o.ends_with('"'); format!("<<{}{s}{}{p}{}{o}{}>>", ws(r, true), ws(r, e1), ws(r, true), ws(r, e2)) }
    }
}
fn fmt_doc(r: &mut Rng, qs: &[Q], bare_cr: bool) -> String {
    let mut o = String::new();
    if r.chance(1, 4) { o.push_str(pk(r, &["\n", "# a comment <x> \"y\" .\n", "  \t\n", "\r\n", "#\n\n"])); }
    for (i, q) in qs.iter().enumerate() {
        o.push_str(ws(r, true).trim_start_matches(|_| r.chance(1, 2)));
        let (s, p, ob) = (fmt_term(r, &q.0), fmt_term(r, &q.1), fmt_term(r, &q.2));
        o.push_str(&s); o.push_str(ws(r, s.ends_with('>'))); o.push_str(&p); o.push_str(ws(r, true)); o.push_str(&ob);
        if let Some(g) = &q.3 { let ok = ob.ends_with('>') || ob.ends_with('"'); o.push_str(ws(r, ok)); o.push_str(&fmt_term(r, g)); }
        o.push_str(ws(r, true)); o.push('.'); o.push_str(ws(r, true));
        if r.chance(1, 5) { o.push_str("# trailing comment . \" <"); }
        let last = i + 1 == qs.len();
        if !(last && r.chance(1, 3)) { o.push_str(if bare_cr { "\r" } else { pk(r, &["\n", "\n", "\r\n", "\n\n", "\n \t\n#c\n", "\n\r\n"]) }); }
    }
    o
}
const MUTATIONS: &[&str] = &["raw-lf-in-literal", "raw-cr-in-literal", "drop-final-dot", "literal-subject", "bad-echar", "bad-hex", "unterminated-iri", "space-in-iri", "bnode-predicate", "empty-langtag", "single-caret", "two-statements-one-line", "unterminated-literal", "junk-after-dot", "literal-graph"];
fn mutate(r: &mut Rng, doc: &str) -> (String, &'static str) {
    let m = *r.pick(MUTATIONS);
    // the mutated statement goes on a line of its own (a bare CR inside a trailing comment would end
    // the comment for the grammar but not for Rio)
    let sep = if doc.is_empty() || doc.ends_with('\n') { "" } else { "\n" };
    let line = |s: &str| format!("{doc}{sep}{s}\n");
    let d = match m {
        "raw-lf-in-literal" => line("<x:s> <x:p> \"a\nb\" ."),
        "raw-cr-in-literal" => line("<x:s> <x:p> \"a\rb\" ."),
        "drop-final-dot" => line("<x:s> <x:p> <x:o>"),
        "literal-subject" => line("\"s\" <x:p> <x:o> ."),
        "bad-echar" => line("<x:s> <x:p> \"a\\xb\" ."),
        "bad-hex" => line("<x:s> <x:p> \"a\\u12G4\" ."),
        "unterminated-iri" => line("<x:s> <x:p> <x:o ."),
        "space-in-iri" => line("<x:s> <x:p> <x:o o> ."),
        "bnode-predicate" => line("<x:s> _:p <x:o> ."),
        "empty-langtag" => line("<x:s> <x:p> \"a\"@ ."),
        "single-caret" => line("<x:s> <x:p> \"a\"^<x:d> ."),
        "two-statements-one-line" => line("<x:s> <x:p> <x:o> . <x:s> <x:p> <x:o2> ."),
        "unterminated-literal" => line("<x:s> <x:p> \"abc ."),
        "junk-after-dot" => line("<x:s> <x:p> <x:o> . junk"),
        _ => line("<x:s> <x:p> <x:o> \"g\" ."),
    };
    (d, m)
}

fn main() {
    let a = parse_args();
    let mut sum = Summary::default();
    sum.rule = "case = dataset of 0..4 well-formed strict/RDF-star quads (subjects IRI|bnode|quoted triple up to depth 3, objects also literals; lexical forms over all C0 controls, DEL, quotes, backslashes, CR/LF/TAB, non-BMP, combining marks, injection attempts; labels with dots / leading digits / middle dot / non-ASCII; BCP47 tags in random case; default / IRI / blank graph names) serialised as N-Quads or N-Triples, or a hand-formatted N-Quads text (escapes, white space, comments, one optional mutation); \
non-trivial = the dataset is non-empty and some term needs escaping, is non-ASCII, is a dotted/digit-leading label, an upper-case tag or a quoted triple (for reader cases: the text contains a backslash escape or is mutated); distinct = distinct serialised / formatted texts".into();
    let base = Rng::new(a.seed);
    let mut cases: Vec<(usize, String)> = vec![];
    let mut seen = std::collections::HashSet::new();
    let range: Vec<usize> = match a.only { Some(i) => vec![i], None => (0..a.n).collect() };
    for idx in range {
        let mut r = base.fork(idx as u64);
        let stream = match r.below(40) { 0 | 1 => "w3c-label", 2 => "lax-tag", 3..=9 => "reader", _ => "dataset" };
        let nq = (stream != "dataset" && stream != "lax-tag") || r.chance(2, 3);
        let nquads = match r.below(10) { 0 => 0, 1..=4 => 1, 5..=7 => 2, _ => r.range(3, 4) };
        let mut g = Gen { r: r.fork(1), sum: &mut sum, lower_tags: stream == "reader", w3c_labels: stream == "w3c-label", lax_tags: stream == "lax-tag" };
        let mut quads: Vec<Q> = (0..nquads).map(|_| g.quad(nq)).collect();
        // related statements: the same triple in another graph, an exact duplicate, the same subject/predicate
        // with another object ... next to the original or at the end (writers must not merge or drop any of them)
        if stream == "dataset" && !quads.is_empty() && g.r.chance(1, 3) {
            for _ in 0..g.r.range(1, 2) {
                let k = g.r.below(quads.len()); let q = quads[k].clone();
                let v: Q = match g.r.below(6) {
                    0 | 1 => { g.sum.bump("related:same-triple-other-graph"); let other = match (&q.3, g.r.below(3)) { (Some(_), 0) => None, (_, 1) => Some(T::Iri(gen_iri(&mut g.r, g.sum))), _ => Some(g.bnode()) }; (q.0, q.1, q.2, if nq { other } else { q.3 }) }
                    2 => { g.sum.bump("related:duplicate"); q }
                    3 => { g.sum.bump("related:same-sp-other-object"); let o = g.object(0); (q.0, q.1, o, q.3) }
                    4 => { g.sum.bump("related:same-po-other-subject"); let sb = g.subject(0); (sb, q.1, q.2, q.3) }
                    _ => { g.sum.bump("related:object-as-subject"); let o = g.object(0); match &q.2 { T::Iri(_) | T::B(_) | T::Tr(_) => (q.2.clone(), q.1, o, q.3), _ => (q.0, q.1, o, q.3) } }
                };
                if g.r.chance(2, 3) { quads.insert(k + 1, v); } else { quads.push(v); }
            }
        }
        if stream == "lax-tag" { let l = g.literal(); quads.push((T::Iri("x:s".into()), T::Iri("x:p".into()), l, None)); }
        if stream == "w3c-label" && !quads.iter().any(|q| matches!(q.0, T::B(_)) || matches!(q.2, T::B(_))) { quads.push((g.bnode(), T::Iri("x:p".into()), g.bnode(), None)); }
        sum.evaluations += 1;
        sum.bump(&format!("stream:{stream}"));
        if stream == "reader" {
            // EOL ::= [#xD#xA]+ : a bare CR ends a line for the grammar. Rio only looks for LF and
            // silently skips the statement after a bare CR, so these documents are checked against
            // the intended quads on the Coq side only and Rio's behaviour is tallied.
            let bare_cr = r.chance(1, 12);
            let mut text = fmt_doc(&mut r, &quads, bare_cr);
            if bare_cr {
                match parse_nq(text.as_bytes()) { Ok(got) if same_qs(&got, &quads) => sum.bump("reader:bare-CR-eol:sophia-reads-all"), Ok(got) => { sum.bump("reader:bare-CR-eol:sophia-silently-loses-statements"); sum.bump_by("reader:bare-CR-eol:statements-lost", (quads.len() - got.len().min(quads.len())) as u64) }, Err(_) => sum.bump("reader:bare-CR-eol:sophia-rejects") }
                if a.only.is_some() { println!("CASE {idx} (reader, bare CR line ends): text {text:?}"); }
                cases.push((idx, format!("read_ok {} {}", coq_bytes(text.as_bytes()), c_quads(&quads))));
                continue;
            }
            let mutated = r.chance(1, 4);
            let mut mname = "none";
            if mutated { let (d, m) = mutate(&mut r, &text); text = d; mname = m; }
            let bytes = text.as_bytes();
            let res = parse_nq(bytes);
            let body = match &res {
                Ok(got) => {
                    sum.bump("reader:accepted-by-sophia");
                    if !mutated && !same_qs(got, &quads) { sum.bump("reader:sophia-differs-from-intended"); if a.only.is_some() { println!("sophia parsed {:?}\nintended {:?}", got, quads); } }
                    if mutated { sum.bump(&format!("reader:mutation-accepted-by-sophia:{mname}")); }
                    format!("read_ok {} {}", coq_bytes(bytes), c_quads(got))
                }
                Err(_) => { sum.bump(&format!("reader:rejected:{mname}")); format!("read_rejects {}", coq_bytes(bytes)) }
            };
            if a.only.is_some() { println!("CASE {idx} (reader, mutation {mname}): text {text:?}\n => {:?}", res); }
            let nontrivial = text.contains('\\') || mutated;
            if seen.insert(text.clone()) && nontrivial { sum.distinct_nontrivial += 1; }
            if sum.samples.len() < 6 && nontrivial && idx % 7 == 0 { sum.samples.push(format!("case {idx} (reader, mutation {mname}): {text:?}")); }
            cases.push((idx, body));
            continue;
        }
        if stream == "w3c-label" {
            // BnodeId::new refuses these labels (and new_unchecked asserts in this build), so no sophia
            // term can carry them: the text is hand-formatted, the Coq reader must read it back, Rio's
            // verdict is only tallied
            let text = fmt_doc(&mut r, &quads, false);
            match parse_nq(text.as_bytes()) { Ok(got) if same_qs(&got, &quads) => sum.bump("w3c-label:rio-reads-back"), Ok(_) => sum.bump("w3c-label:rio-reads-differently"), Err(_) => sum.bump("w3c-label:rio-rejects") }
            if a.only.is_some() { println!("CASE {idx} (w3c-label): text {text:?}"); }
            if seen.insert(text.clone()) { sum.distinct_nontrivial += 1; }
            cases.push((idx, format!("wf_quads {0} && read_ok {1} {0}", c_quads(&quads), coq_bytes(text.as_bytes()))));
            continue;
        }
        let lax = stream == "lax-tag";
        // (a) serialise with the implementation
        let bytes: Vec<u8> = if nq {
            let d: Vec<Spog<ST>> = quads.iter().map(|q| ([to_st(&q.0), to_st(&q.1), to_st(&q.2)], q.3.as_ref().map(to_st))).collect();
            let mut ser = NqSerializer::new_stringifier();
            ser.serialize_dataset(&d).unwrap();
            ser.as_utf8().to_vec()
        } else {
            let d: Vec<[ST; 3]> = quads.iter().map(|q| [to_st(&q.0), to_st(&q.1), to_st(&q.2)]).collect();
            let mut ser = NtSerializer::new_stringifier();
            ser.serialize_graph(&d).unwrap();
            ser.as_utf8().to_vec()
        };
        let text = String::from_utf8_lossy(&bytes).to_string();
        sum.bump(if nq { "format:nq" } else { "format:nt" });
        sum.bump(&format!("quads:{}", quads.len()));
        for q in &quads {
            if has_tr(&q.0) || has_tr(&q.2) { sum.bump("quad-with-quoted-triple"); }
            match &q.3 { None => sum.bump("graph:default"), Some(T::Iri(_)) => sum.bump("graph:iri"), Some(_) => sum.bump("graph:bnode") }
            if let T::Lit(l, _) | T::Lang(l, _) = &q.2 { if l.contains('\r') { sum.bump("object-literal-with-CR"); } if l.contains('\u{0}') { sum.bump("object-literal-with-U+0000"); } if l.ends_with('\\') { sum.bump("object-literal-ending-in-backslash"); } }
        }
        if a.only.is_some() { println!("CASE {idx} ({stream}, {}):", if nq { "nq" } else { "nt" }); for q in &quads { println!("  {}", show_q(q)); } println!("text: {text:?}"); }
        // (b) ORACLE
        if lax {
            match parse_nq(&bytes) { Ok(got) if same_qs(&got, &quads) => sum.bump("lax-tag(not BCP47, accepted by LanguageTag::new):sophia-reads-back"), Ok(_) => sum.bump("lax-tag(not BCP47, accepted by LanguageTag::new):sophia-reads-differently"), Err(_) => sum.bump("lax-tag(not BCP47, accepted by LanguageTag::new):sophia-parser-rejects-own-output") }
        } else {
            let mut fail = |what: String| sum.oracle_failures.push((idx.to_string(), format!("{} of the dataset [{}]: {what}; serialised text {text:?}", if nq { "N-Quads round trip" } else { "N-Triples round trip" }, quads.iter().map(show_q).collect::<Vec<_>>().join(" | "))));
            let parsers: Vec<(&str, fn(&[u8]) -> Result<Vec<Q>, String>)> = if nq { vec![("nq", parse_nq), ("gnq", parse_gnq)] } else { vec![("nt", parse_nt), ("nq", parse_nq)] };
            for (name, p) in &parsers {
                match p(&bytes) {
                    Err(e) => fail(format!("sophia's {name} parser rejects the serialiser's output: {e}")),
                    Ok(got) => if !same_qs(&got, &quads) { fail(format!("sophia's {name} parser reads back different quads: {}", got.iter().map(show_q).collect::<Vec<_>>().join(" | "))) },
                }
            }
            let lf = bytes.iter().filter(|b| **b == b'\n').count();
            if lf != quads.len() || bytes.contains(&b'\r') { fail(format!("{lf} LF bytes (CR present: {}) for {} quads", bytes.contains(&b'\r'), quads.len())); }
            else {
                let lines: Vec<&[u8]> = bytes.split_inclusive(|b| *b == b'\n').collect();
                for (i, l) in lines.iter().enumerate() {
                    match parsers[0].1(l) { Ok(got) if got.len() == 1 && same_q(&got[0], &quads[i]) => {}, other => fail(format!("line {i} alone does not parse to quad {i}: {:?}", other)) }
                }
            }
        }
        // (c) Coq case
        for q in &quads { assert_eq!(coq_term(&to_st(&q.2)), c_term(&q.2)); assert_eq!(coq_term(&to_st(&q.0)), c_term(&q.0)); }
        let nontrivial = !quads.is_empty() && quads.iter().any(|q| nasty(&q.0) || nasty(&q.1) || nasty(&q.2) || q.3.as_ref().is_some_and(nasty));
        if seen.insert(text.clone()) && nontrivial { sum.distinct_nontrivial += 1; }
        if sum.samples.len() < 6 && nontrivial && idx % 5 == 0 { sum.samples.push(format!("case {idx} ({stream}): {text:?}")); }
        if lax { cases.push((idx, format!("(if {0} then write_ok {1} {2} else nt_write_ok {1} {2}) && (if wf_quads {1} then read_ok {2} {1} else true)", coq_bool(nq), c_quads(&quads), coq_bytes(&bytes)))); }
        else { cases.push((idx, format!("case_ok {} {} {}", coq_bool(nq), c_quads(&quads), coq_bytes(&bytes)))); }
    }
    if a.only.is_none() {
        let header = "From Sophia.Common Require Import Prelude Term.\nFrom Sophia.C03 Require Import Model.\n";
        sum.shards = write_shards(&a.out, header, &cases, a.shards);
        sum.extra.push(("coq_cases".into(), cases.len().to_string()));
        std::fs::write(format!("{}/summary.json", a.out), sum.to_json()).unwrap();
    }
    println!("c03: {} cases, {} distinct non-trivial, {} oracle failures", sum.evaluations, sum.distinct_nontrivial, sum.oracle_failures.len());
    for (c, d) in sum.oracle_failures.iter().take(5) { println!("ORACLE FAILURE case {c}: {d}"); }
}
