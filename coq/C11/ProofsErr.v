(* C11/ProofsErr.v -- theorems about the error paths of ModelErr.v *)
From Sophia.C11 Require Import Model Proofs ModelErr.

(* ---------- the histories of Model.v are embedded unchanged ---------- *)
Theorem e_hist_none sk pl d h :
  estep sk pl (d, None) (EH h) = ((fst (hstep sk pl d h), None), EX (snd (hstep sk pl d h))).
Proof. reflexivity. Qed.

Theorem erun_embeds sk pl : forall ops d,
  erun sk pl (d, None) (map EH ops) = map EX (hrun sk pl d ops).
Proof.
  induction ops as [|o ops IH]; intros d; cbn [map erun hrun]; auto.
  rewrite e_hist_none. destruct (hstep sk pl d o) as [d' r]. cbn [fst snd map]. rewrite IH. reflexivity.
Qed.

Lemma list_eqb_map_EX : forall a b, list_eqb eout_eqb (map EX a) (map EX b) = list_eqb xout_eqb a b.
Proof. induction a as [|x a IH]; intros [|y b]; simpl; auto. rewrite IH. reflexivity. Qed.

Theorem ecase_embeds sk pl init ops obs :
  ecase_ok sk pl init (map EH ops) (map EX obs) = xcase_ok sk pl init ops obs.
Proof. unfold ecase_ok, xcase_ok. rewrite erun_embeds, list_eqb_map_EX. reflexivity. Qed.

(* ---------- while no failure of the store is pending, the bulk mutations are those of Model.v ---------- *)
Lemma e_insert_none sk d gs t :
  e_insert sk (d, None) gs t = ((fst (x_insert sk d gs t), None), EX (snd (x_insert sk d gs t))).
Proof.
  unfold e_insert, x_insert. destruct (lands gs) as [g|]; cbn [fst snd tick]; auto.
  destruct (s_insert sk d (mkQ t g)) as [d' fl]. reflexivity.
Qed.
Lemma e_remove_none sk d gs t :
  e_remove sk (d, None) gs t = ((fst (x_remove sk d gs t), None), EX (snd (x_remove sk d gs t))).
Proof.
  unfold e_remove, x_remove. destruct (lands gs) as [g|]; cbn [fst snd tick]; auto.
  destruct (s_remove sk d (mkQ t g)) as [d' fl]. reflexivity.
Qed.
Lemma x_insert_out sk d gs t :
  (exists fl, snd (x_insert sk d gs t) = XO (OFlag fl)) \/ snd (x_insert sk d gs t) = XOnlyDefault.
Proof.
  unfold x_insert. destruct (lands gs); [|right; reflexivity].
  destruct (s_insert sk d _) as [d' fl]. left. exists fl. reflexivity.
Qed.
Lemma x_remove_out sk d gs t : exists fl, snd (x_remove sk d gs t) = XO (OFlag fl).
Proof.
  unfold x_remove. destruct (lands gs); [|exists false; reflexivity].
  destruct (s_remove sk d _) as [d' fl]. exists fl. reflexivity.
Qed.

Theorem e_insert_all_none sk : forall items d n,
  e_insert_all sk (d, None) items n =
  ((fst (x_insert_all sk d items n), None), EX (snd (x_insert_all sk d items n))).
Proof.
  induction items as [|[gs t] items IH]; intros d n; cbn [e_insert_all x_insert_all]; auto.
  rewrite e_insert_none. destruct (x_insert_out sk d gs t) as [[fl E]|E];
    destruct (x_insert sk d gs t) as [d' r]; cbn [fst snd] in *; subst r; auto.
Qed.
Theorem e_remove_all_none sk : forall items d n,
  e_remove_all sk (d, None) items n =
  ((fst (x_remove_all sk d items n), None), EX (snd (x_remove_all sk d items n))).
Proof.
  induction items as [|[gs t] items IH]; intros d n; cbn [e_remove_all x_remove_all]; auto.
  rewrite e_remove_none. destruct (x_remove_out sk d gs t) as [fl E].
  destruct (x_remove sk d gs t) as [d' r]; cbn [fst snd] in *; subst r; auto.
Qed.

(* a bulk insertion / removal whose source fails after k items leaves the store as the bulk operation on
   these k items does, and reports the source's error unless the sink failed first *)
Theorem failed_source_insert_all sk pl d items k :
  estep sk pl (d, None) (EInsAllF items k) =
  let r := x_insert_all sk d (firstn (N.to_nat k) items) 0 in
  ((fst r, None), match snd r with XO (OCount _) => ESrcErr | x => EX x end).
Proof.
  cbn [estep]. unfold e_insert_all_f. rewrite e_insert_all_none. cbv zeta.
  destruct (x_insert_all sk d (firstn (N.to_nat k) items) 0) as [d' [[| | | |]|]]; reflexivity.
Qed.
Theorem failed_source_remove_all sk pl d items k :
  estep sk pl (d, None) (ERemAllF items k) =
  let r := x_remove_all sk d (firstn (N.to_nat k) items) 0 in
  ((fst r, None), match snd r with XO (OCount _) => ESrcErr | x => EX x end).
Proof.
  cbn [estep]. unfold e_remove_all_f. rewrite e_remove_all_none. cbv zeta.
  destruct (x_remove_all sk d (firstn (N.to_nat k) items) 0) as [d' [[| | | |]|]]; reflexivity.
Qed.

(* ---------- elementary facts about the three kinds of store ---------- *)
Lemma quad_eqb_N_spec (a b : tq) : quad_eqb N N.eqb a b = true <-> a = b.
Proof. apply (quad_eqb_spec N N.eqb N_eqb_spec'). Qed.

Lemma s_insert_in sk d q x : In x (fst (s_insert sk d q)) <-> In x d \/ x = q.
Proof.
  destruct sk; [apply (proj1 (s_insert_set_spec d q)) | |]; cbn [s_insert fst]; rewrite in_app_iff; simpl; intuition.
Qed.
Lemma remove_first_in q : forall d x,
  (In x (fst (remove_first q d)) -> In x d) /\ (In x d -> x <> q -> In x (fst (remove_first q d))).
Proof.
  induction d as [|y d IH]; intros x; cbn [remove_first fst]; [tauto|].
  destruct (quad_eqb N N.eqb q y) eqn:E.
  - apply quad_eqb_N_spec in E. subst y. cbn [fst]. simpl. split; [tauto|]. intros [->|H] Hn; [congruence|auto].
  - specialize (IH x). destruct (remove_first q d) as [r' b]. cbn [fst] in *. simpl. tauto.
Qed.
Lemma s_remove_in sk d q x :
  (In x (fst (s_remove sk d q)) -> In x d) /\ (In x d -> x <> q -> In x (fst (s_remove sk d q))).
Proof.
  destruct sk; cbn [s_remove].
  - pose proof (proj1 (s_remove_set_spec d q) x) as H. unfold s_remove in H. tauto.
  - cbn [fst]. rewrite filter_In. split; [tauto|]. intros H Hn. split; auto.
    destruct (quad_eqb N N.eqb q x) eqn:E; auto. apply quad_eqb_N_spec in E. congruence.
  - apply remove_first_in.
Qed.

(* ---------- nothing is rolled back, nothing else is touched: whatever is pending ---------- *)
Lemma e_insert_effect sk (st : estate) gs t x :
  In x (fst (fst (e_insert sk st gs t))) ->
  In x (fst st) \/ (lands gs = Some (qg x) /\ t = qt x).
Proof.
  unfold e_insert. destruct (lands gs) as [g|]; [|auto].
  destruct (tick (snd st)) as [[|] b']; cbn [fst]; auto.
  destruct (s_insert sk (fst st) (mkQ t g)) as [d' fl] eqn:E. cbn [fst].
  intros H. assert (H' : In x (fst (s_insert sk (fst st) (mkQ t g)))) by (rewrite E; exact H).
  apply s_insert_in in H'. destruct H' as [H'| ->]; auto.
Qed.
Lemma e_insert_keeps sk (st : estate) gs t x : In x (fst st) -> In x (fst (fst (e_insert sk st gs t))).
Proof.
  unfold e_insert. destruct (lands gs) as [g|]; [|auto].
  destruct (tick (snd st)) as [[|] b']; cbn [fst]; auto.
  destruct (s_insert sk (fst st) (mkQ t g)) as [d' fl] eqn:E. cbn [fst].
  intros H. assert (H' : In x (fst (s_insert sk (fst st) (mkQ t g)))) by (apply s_insert_in; auto).
  rewrite E in H'. exact H'.
Qed.
Lemma e_insert_cases sk (st : estate) gs t :
  (exists st' fl, e_insert sk st gs t = (st', EX (XO (OFlag fl))))
  \/ (exists r, e_insert sk st gs t = ((fst st, snd (fst (e_insert sk st gs t))), r) /\ forall fl, r <> EX (XO (OFlag fl))).
Proof.
  unfold e_insert. destruct (lands gs) as [g|].
  - destruct (tick (snd st)) as [[|] b'].
    + right. exists ESinkErr. split; [reflexivity|]. intros fl; discriminate.
    + destruct (s_insert sk (fst st) (mkQ t g)) as [d' fl]. left. eauto.
  - right. exists (EX XOnlyDefault). destruct st; split; [reflexivity|]. intros fl; discriminate.
Qed.

(* insert_all, whether it succeeds, meets a sink error or (see src_fails) a source error: every quad that was
   there before is still there ... *)
Theorem insert_all_keeps sk : forall items (st : estate) n x,
  In x (fst st) -> In x (fst (fst (e_insert_all sk st items n))).
Proof.
  induction items as [|[gs t] items IH]; intros st n x H; cbn [e_insert_all]; auto.
  pose proof (e_insert_keeps sk st gs t x H) as K.
  destruct (e_insert sk st gs t) as [st' r]. cbn [fst] in K.
  destruct r as [[[fl| | | |]|]| | |]; auto.
Qed.
(* ... and every quad that is there afterwards was there before or is an item, in the graph it addresses *)
Theorem insert_all_only_adds sk : forall items (st : estate) n x,
  In x (fst (fst (e_insert_all sk st items n))) ->
  In x (fst st) \/ exists gs, In (gs, qt x) items /\ lands gs = Some (qg x).
Proof.
  induction items as [|[gs t] items IH]; intros st n x; cbn [e_insert_all]; auto.
  pose proof (e_insert_effect sk st gs t x) as K.
  destruct (e_insert sk st gs t) as [st' r]. cbn [fst] in K.
  assert (Stop : In x (fst st') -> In x (fst st) \/ exists gs0, In (gs0, qt x) ((gs, t) :: items) /\ lands gs0 = Some (qg x)).
  { intros H. destruct (K H) as [H'|[H1 H2]]; [auto|]. right. exists gs. subst t. split; [left; reflexivity|assumption]. }
  destruct r as [[[fl| | | |]|]| | |]; auto.
  intros H. apply IH in H. destruct H as [H|[gs0 [H1 H2]]]; [auto|]. right. exists gs0. split; [right|]; assumption.
Qed.

Lemma firstn_In_incl {A} (x : A) : forall n l, In x (firstn n l) -> In x l.
Proof. induction n as [|n IH]; intros [|y l]; simpl; try tauto. intros [H|H]; auto. Qed.
Lemma src_fails_state r : fst (src_fails r) = fst r.
Proof. destruct r as [st [[[| | | |]|]| | |]]; reflexivity. Qed.

(* the seeded defect class: a FAILED bulk insertion through a view (the source failed, or the store did) never
   makes the store lose a quad, and adds nothing but items, in the graphs they address *)
Theorem failed_insert_all_keeps sk pl (st : estate) items k x :
  In x (fst st) -> In x (fst (fst (estep sk pl st (EInsAllF items k)))).
Proof. intros H. cbn [estep]. unfold e_insert_all_f. rewrite src_fails_state. apply insert_all_keeps, H. Qed.
Theorem failed_insert_all_only_adds sk pl (st : estate) items k x :
  In x (fst (fst (estep sk pl st (EInsAllF items k)))) ->
  In x (fst st) \/ exists gs, In (gs, qt x) items /\ lands gs = Some (qg x).
Proof.
  cbn [estep]. unfold e_insert_all_f. rewrite src_fails_state. intros H.
  apply insert_all_only_adds in H. destruct H as [H|[gs [H1 H2]]]; [auto|].
  right. exists gs. split; [|assumption]. eapply firstn_In_incl; eassumption.
Qed.

(* remove_all (succeeding or failing): only items go away, in the graphs they address *)
Lemma e_remove_effect sk (st : estate) gs t x :
  (In x (fst (fst (e_remove sk st gs t))) -> In x (fst st))
  /\ (In x (fst st) -> ~ (lands gs = Some (qg x) /\ t = qt x) -> In x (fst (fst (e_remove sk st gs t)))).
Proof.
  unfold e_remove. destruct (lands gs) as [g|]; [|tauto].
  destruct (tick (snd st)) as [[|] b']; cbn [fst]; [tauto|].
  pose proof (s_remove_in sk (fst st) (mkQ t g) x) as [H1 H2].
  destruct (s_remove sk (fst st) (mkQ t g)) as [d' fl]. cbn [fst] in *. split; auto.
  intros H Hn. apply H2; auto. intros ->. apply Hn. cbn [qg qt]. auto.
Qed.
Theorem remove_all_only_removes sk : forall items (st : estate) n x,
  (In x (fst (fst (e_remove_all sk st items n))) -> In x (fst st))
  /\ (In x (fst st) -> (forall gs, In (gs, qt x) items -> lands gs <> Some (qg x)) ->
      In x (fst (fst (e_remove_all sk st items n)))).
Proof.
  induction items as [|[gs t] items IH]; intros st n x; cbn [e_remove_all]; [tauto|].
  pose proof (e_remove_effect sk st gs t x) as [K1 K2].
  destruct (e_remove sk st gs t) as [st' r]. cbn [fst] in K1, K2.
  assert (K3 : In x (fst st) -> (forall gs0, In (gs0, qt x) ((gs, t) :: items) -> lands gs0 <> Some (qg x)) -> In x (fst st')).
  { intros H Hn. apply K2; auto. intros [E1 E2]. subst t. apply (Hn gs); [left; reflexivity|assumption]. }
  destruct r as [[[fl| | | |]|]| | |]; cbn [fst]; try (split; [exact K1|exact K3]).
  destruct (IH st' (if fl then n + 1 else n) x) as [I1 I2]. split; [auto|].
  intros H Hn. apply I2; [apply K3; assumption|]. intros gs0 Hin. apply Hn. right; assumption.
Qed.
Theorem failed_remove_all_only_removes sk pl (st : estate) items k x :
  (In x (fst (fst (estep sk pl st (ERemAllF items k)))) -> In x (fst st))
  /\ (In x (fst st) -> (forall gs, In (gs, qt x) items -> lands gs <> Some (qg x)) ->
      In x (fst (fst (estep sk pl st (ERemAllF items k))))).
Proof.
  cbn [estep]. unfold e_remove_all_f. rewrite src_fails_state.
  destruct (remove_all_only_removes sk (firstn (N.to_nat k) items) st 0 x) as [H1 H2]. split; [exact H1|].
  intros H Hn. apply H2; auto. intros gs Hin. apply Hn. eapply firstn_In_incl; eassumption.
Qed.

(* ---------- a store that fails at its (k+1)-th call ---------- *)
(* a bulk insertion whose items all reach the store: the store accepts k of them, the next one fails; the
   content is that of the bulk insertion of the first k items, and the failure is consumed (unless sticky) *)
Theorem budget_stops_insert_all sk s : forall items k d n,
  Forall (fun it => lands (fst it) <> None) items -> (k < length items)%nat ->
  e_insert_all sk (d, Some (N.of_nat k, s)) items n =
  ((fst (x_insert_all sk d (firstn k items) n), if s then Some (0, true) else None), ESinkErr).
Proof.
  induction items as [|[gs t] items IH]; intros k d n Hl Hk; cbn [length] in Hk; [lia|].
  inversion Hl as [|? ? Hg Hl']; subst. cbn [fst] in Hg.
  cbn [e_insert_all]. unfold e_insert. destruct (lands gs) as [g|] eqn:Eg; [|congruence].
  cbn [snd fst tick]. destruct k as [|k].
  - cbn [N.of_nat N.eqb firstn x_insert_all fst]. reflexivity.
  - replace (N.eqb (N.of_nat (S k)) 0) with false by (symmetry; apply N.eqb_neq; lia).
    replace (N.pred (N.of_nat (S k))) with (N.of_nat k) by lia.
    cbn [firstn x_insert_all]. unfold x_insert. rewrite Eg.
    destruct (s_insert sk d (mkQ t g)) as [d' fl]. apply IH; [assumption|lia].
Qed.

(* a matching removal (remove_matching / retain_matching through graph_mut(g), or on the store) stopped by the
   store: whatever the harness reports as removed is accepted only if it is k distinct victims, and then the
   content is the old one minus exactly these *)
Lemma subset_q_spec a b : subset_q a b = true -> forall q, In q a -> In q b.
Proof.
  unfold subset_q. rewrite forallb_forall. intros H q Hq.
  apply (ds_contains_In N N.eqb N_eqb_spec'). auto.
Qed.
Lemma nodup_q_spec : forall l, nodup_q l = true -> NoDup l.
Proof.
  induction l as [|q l IH]; cbn [nodup_q]; intros H; constructor; apply andb_true_iff in H; destruct H as [H1 H2]; auto.
  intros Hin. apply (ds_contains_In N N.eqb N_eqb_spec') in Hin. rewrite Hin in H1. discriminate.
Qed.
Theorem partial_removal_effect d k s x removed (st' : estate) :
  e_partial SSet (d, Some (k, s)) x removed = (st', ESinkErr) ->
  exists v, victims d x = Some v
  /\ (forall q, In q (fst st') <-> In q d /\ ~ In q removed)
  /\ (forall q, In q removed -> In q v) /\ NoDup removed
  /\ N.of_nat (length removed) = k /\ (k < N.of_nat (length v))%N
  /\ snd st' = (if s then Some (0, true) else None)
  /\ (NoDup d -> NoDup (fst st')).
Proof.
  unfold e_partial. cbn [fst snd]. destruct (victims d x) as [v|]; [|discriminate].
  destruct ((k <? N.of_nat (length v)) && N.eqb (N.of_nat (length removed)) k && nodup_q removed && subset_q removed v) eqn:E;
    [|discriminate].
  intros H. injection H as <-. cbn [fst snd].
  apply andb_true_iff in E. destruct E as [E E4]. apply andb_true_iff in E. destruct E as [E E3].
  apply andb_true_iff in E. destruct E as [E1 E2].
  apply N.ltb_lt in E1. apply N.eqb_eq in E2.
  exists v. split; [reflexivity|].
  pose proof (x_remove_quads_spec removed d O) as [S1 S2]. cbv zeta in S1, S2. unfold x_remove_quads.
  split; [exact S1|]. split; [apply (subset_q_spec _ _ E4)|]. split; [apply nodup_q_spec, E3|]. split; [exact E2|]. split; [exact E1|].
  split; [reflexivity|exact S2].
Qed.

(* the victims of a matching removal through the view of graph g are quads of the store in that graph *)
Theorem view_victims_in_graph d g sm pm om v :
  (victims d (XRemMatching g sm pm om) = Some v \/ victims d (XRetMatching g sm pm om) = Some v) ->
  forall q, In q v -> qg q = g /\ In q d.
Proof.
  intros [H|H]; cbn [victims] in H; injection H as <-; intros q Hq; apply in_map_iff in Hq;
    destruct Hq as [t [<- Ht]]; cbn [qg]; split; auto.
  - rewrite (dg_query_is_filter N N.eqb) in Ht. apply filter_In in Ht. destruct Ht as [Ht _].
    apply (dg_member N N.eqb N_eqb_spec') in Ht. exact Ht.
  - apply filter_In in Ht. destruct Ht as [Ht _]. apply (dg_member N N.eqb N_eqb_spec') in Ht. exact Ht.
Qed.

(* non-vacuity: the seeded scenario (a failed insert_all through graph_mut(g) re-yielding a quad of g), a store
   failing at its second call, a matching removal stopped half-way in either order *)
Example error_paths_nonvacuous :
  erun SSet [] ([mkQ (mkT 1 2 3) (Some 9); mkQ (mkT 1 2 3) None], None)
       [EInsAllF [([Some 9], mkT 4 5 6); ([Some 9], mkT 1 2 3); ([Some 9], mkT 7 8 9)] 2;
        EH (HNew (XDObs [] DOAll));
        ESetBudget (Some (1, false));
        EH (HNew (XInsAll [([None], mkT 4 5 6); ([None], mkT 7 8 9)]));
        EH (HNew (XDObs [] DOAll));
        ESetBudget (Some (1, false));
        EPartial (XRemMatching (Some 9) MAny MAny MAny) [mkQ (mkT 4 5 6) (Some 9)];
        EH (HNew (XGObs [] (HGraph (Some 9)) GOAll))]
  = [ESrcErr;
     EX (XO (OQuads [mkQ (mkT 1 2 3) (Some 9); mkQ (mkT 1 2 3) None; mkQ (mkT 4 5 6) (Some 9)]));
     EX (XO (OFlag true));
     ESinkErr;
     EX (XO (OQuads [mkQ (mkT 1 2 3) (Some 9); mkQ (mkT 1 2 3) None; mkQ (mkT 4 5 6) (Some 9); mkQ (mkT 4 5 6) None]));
     EX (XO (OFlag true));
     ESinkErr;
     EX (XO (OTriples [mkT 1 2 3]))]
  /\ snd (estep SSet [] ([mkQ (mkT 1 2 3) None; mkQ (mkT 4 5 6) None], Some (1, true))
                (EPartial (XRemMatching None MAny MAny MAny) [mkQ (mkT 1 2 3) (Some 9)])) = EInvalid
  /\ snd (estep SSet [] ([mkQ (mkT 1 2 3) None; mkQ (mkT 4 5 6) None], Some (1, true))
                (EPartial (XRemMatching None MAny MAny MAny) [mkQ (mkT 4 5 6) None])) = ESinkErr.
Proof. repeat split; vm_compute; reflexivity. Qed.
