(* C13/NestedProofs.v -- the engine's two-phase matching of a (nested) quoted-triple pattern
   (matcher.rs then binding.rs) IS unification, at every depth of nesting: a quoted-triple
   pattern that is nested in another one and is not ground is never a wildcard. *)
From Sophia.C13 Require Import Model Maps BgpProofs Nested.
From Coq Require Import Lia.

(* ---------- populate (binding.rs) against unification ---------- *)
(* on a term of the right shape (what the matcher guarantees) they are the same walk *)
Lemma pmatch_populate p : forall t b, shape_ok p t = true -> pmatch p t b = populate p t b.
Proof.
  induction p as [c|a|s IHs p IHp o IHo]; intros t b; simpl.
  - intros ->. reflexivity.
  - reflexivity.
  - destruct t; try discriminate. rewrite !andb_true_iff. intros [[H1 H2] H3].
    rewrite (IHs _ b H1). destruct (populate s t1 b) as [b1|]; [|reflexivity].
    rewrite (IHp _ b1 H2). destruct (populate p t2 b1) as [b2|]; [|reflexivity].
    apply IHo; assumption.
Qed.
Lemma pmatch_shape p : forall t b b', pmatch p t b = Some b' -> shape_ok p t = true.
Proof.
  induction p as [c|a|s IHs p IHp o IHo]; intros t b b'; simpl.
  - destruct (teq c t); [reflexivity | discriminate].
  - reflexivity.
  - destruct t; try discriminate.
    destruct (pmatch s t1 b) as [b1|] eqn:E1; [|discriminate].
    destruct (pmatch p t2 b1) as [b2|] eqn:E2; [|discriminate].
    intros E3. rewrite (IHs _ _ _ E1), (IHp _ _ _ E2), (IHo _ _ _ E3). reflexivity.
Qed.
Lemma pmatch_ext p : forall t b b', pmatch p t b = Some b' -> ext b b'.
Proof.
  induction p as [c|a|s IHs p IHp o IHo]; intros t b b'; simpl.
  - destruct (teq c t); [|discriminate]. intros E. injection E as <-. apply ext_refl.
  - destruct (get a b) as [t'|] eqn:G.
    + destruct (teq t' t); [|discriminate]. intros E. injection E as <-. apply ext_refl.
    + intros E. injection E as <-. apply ext_set. exact G.
  - destruct t; try discriminate.
    destruct (pmatch s t1 b) as [b1|] eqn:E1; [|discriminate].
    destruct (pmatch p t2 b1) as [b2|] eqn:E2; [|discriminate].
    intros E3. eapply ext_trans; [eapply IHs; eauto|]. eapply ext_trans; [eapply IHp; eauto|].
    eapply IHo; eauto.
Qed.

(* ---------- the matcher (matcher.rs) against unification ---------- *)
(* a matcher built under b that REJECTS a term: unification fails under every extension of b
   (in particular under the bindings populate has reached when it gets to that component) *)
Lemma reject_pmatch p : forall t b b1,
  ext b b1 -> m_matches (build p b) t = false -> pmatch p t b1 = None.
Proof.
  induction p as [c|a|s IHs p IHp o IHo]; intros t b b1 He.
  - simpl. intros ->. reflexivity.
  - simpl. destruct (get a b) as [t'|] eqn:G; simpl; [|discriminate].
    intros Hf. rewrite (He _ _ G), Hf. reflexivity.
  - rewrite build_trip, trip_of_matches. destruct t; try (intros _; reflexivity).
    intros Hf. simpl.
    destruct (m_matches (build s b) t1) eqn:M1.
    + destruct (pmatch s t1 b1) as [b2|] eqn:P1; [|reflexivity].
      assert (He2 : ext b b2) by (eapply ext_trans; [exact He | eapply pmatch_ext; eauto]).
      destruct (m_matches (build p b) t2) eqn:M2.
      * destruct (pmatch p t2 b2) as [b3|] eqn:P2; [|reflexivity].
        assert (He3 : ext b b3) by (eapply ext_trans; [exact He2 | eapply pmatch_ext; eauto]).
        simpl in Hf. exact (IHo _ b b3 He3 Hf).
      * rewrite (IHp _ b b2 He2 M2). reflexivity.
    + rewrite (IHs _ b b1 He M1). reflexivity.
Qed.

(* a quoted-triple pattern -- ground or not, at any depth, under any binding -- accepts exactly
   the quoted triples whose three components its three component matchers accept: a component
   that is itself a non-ground quoted-triple pattern is not a wildcard *)
Theorem quoted_pattern_matches_componentwise s p o b t :
  m_matches (build (PTrip s p o) b) t = true <->
  exists ts tp to, t = Triple ts tp to /\ m_matches (build s b) ts = true
                   /\ m_matches (build p b) tp = true /\ m_matches (build o b) to = true.
Proof.
  rewrite build_trip, trip_of_matches. split.
  - destruct t; try discriminate. rewrite !andb_true_iff. intros [[H1 H2] H3].
    exists t1, t2, t3. auto.
  - intros [ts [tp [to [-> [H1 [H2 H3]]]]]]. rewrite H1, H2, H3. reflexivity.
Qed.

(* THE TWO PHASES ARE UNIFICATION: keeping the terms the matcher accepts and then recording the
   bindings gives, for every pattern (any nesting), every term and every current binding, what
   one unification walk gives -- in particular nothing when an inner pattern does not match *)
Theorem engine_match_is_unification p t b : engine_match p t b = pmatch p t b.
Proof.
  unfold engine_match. destruct (m_matches (build p b) t) eqn:M; symmetry.
  - apply pmatch_populate. eapply matches_shape; eauto.
  - eapply reject_pmatch; eauto using ext_refl.
Qed.
Theorem engine_match3_is_unification tp m b : engine_match3 tp m b = pmatch3 tp m b.
Proof.
  destruct tp as [[s p] o], m as [[ms mp] mo].
  generalize (engine_match_is_unification (PTrip s p o) (Triple ms mp mo) b).
  unfold engine_match, engine_match3. rewrite build_trip, trip_of_matches.
  cbn [build3 matches3 populate3 pmatch3 populate pmatch]. auto.
Qed.

(* ---------- unification against the algebra (18.3: pattern instance mappings) ---------- *)
Theorem pmatch_sound p t b b' :
  pmatch p t b = Some b' -> ext b b' /\ inst p b' = Some t /\ dom_add b b' (atoms p).
Proof.
  intros H. pose proof (pmatch_shape _ _ _ _ H) as Hs.
  rewrite (pmatch_populate _ _ _ Hs) in H. exact (populate_sound _ _ _ _ H Hs).
Qed.
Theorem pmatch_complete p t b r :
  ext b r -> inst p r = Some t -> exists b', pmatch p t b = Some b' /\ ext b' r.
Proof.
  intros He Hi.
  assert (Hs : shape_ok p t = true)
    by (eapply matches_shape; eapply (build_matches p b r t); eauto).
  rewrite (pmatch_populate _ _ _ Hs). eapply populate_complete; eauto.
Qed.
(* a pattern with d levels of quoted-triple structure only matches terms with at least d levels *)
Lemma shape_depth p : forall t, shape_ok p t = true -> (sdepth p <= tdepth t)%nat.
Proof.
  induction p as [c|a|s IHs p IHp o IHo]; intros t; simpl; try lia.
  destruct t; try discriminate. rewrite !andb_true_iff. intros [[H1 H2] H3].
  apply IHs in H1. apply IHp in H2. apply IHo in H3. simpl. lia.
Qed.
Theorem pmatch_depth p t b b' : pmatch p t b = Some b' -> (sdepth p <= tdepth t)%nat.
Proof. intros H. eapply shape_depth, pmatch_shape; eauto. Qed.
Theorem engine_match_depth p t b b' : engine_match p t b = Some b' -> (sdepth p <= tdepth t)%nat.
Proof. rewrite engine_match_is_unification. apply pmatch_depth. Qed.

(* ---------- bgp.rs: one step of bgp_rec, written with unification ---------- *)
Lemma flat_map_filter {A B} (f : A -> bool) (g : A -> list B) l :
  flat_map g (filter f l) = flat_map (fun x => if f x then g x else []) l.
Proof.
  induction l as [|x l IH]; simpl; [reflexivity|].
  destruct (f x); simpl; rewrite IH; reflexivity.
Qed.
Lemma filter_nil_existsb {A} (f : A -> bool) l : filter f l = [] <-> existsb f l = false.
Proof.
  induction l as [|x l IH]; simpl; [tauto|].
  destruct (f x); simpl; [split; discriminate | exact IH].
Qed.
(* Over the triples G of the active graph: a triple pattern whose atoms are all bound is an
   existence test; otherwise every triple of G is unified with the pattern under the current
   binding and the recursion goes on with each unifier *)
Theorem bgp_rec_unify G gm first rest b :
  bgp_rec (qmG G) (first :: rest) b gm =
  if all_bound3 (build3 first b)
  then (if existsb (matches3 (build3 first b)) G then bgp_rec (qmG G) rest b gm else [])
  else flat_map (unify_step (fun b' => bgp_rec (qmG G) rest b' gm) first b) G.
Proof.
  rewrite bgp_rec_cons.
  change (qmG G (build3 first b) gm) with (filter (matches3 (build3 first b)) G).
  assert (Hstep : flat_map (bgp_step (qmG G) first rest b gm) (filter (matches3 (build3 first b)) G)
                  = flat_map (unify_step (fun b' => bgp_rec (qmG G) rest b' gm) first b) G).
  { rewrite flat_map_filter. apply flat_map_ext. intros m. unfold bgp_step, unify_step.
    rewrite <- engine_match3_is_unification. unfold engine_match3.
    destruct (matches3 (build3 first b) m); reflexivity. }
  rewrite <- Hstep.
  destruct (filter (matches3 (build3 first b)) G) as [|x l] eqn:E.
  - apply filter_nil_existsb in E. rewrite E. destruct (all_bound3 (build3 first b)); reflexivity.
  - assert (Ex : existsb (matches3 (build3 first b)) G = true).
    { destruct (existsb (matches3 (build3 first b)) G) eqn:X; [reflexivity|].
      apply filter_nil_existsb in X. congruence. }
    rewrite Ex. reflexivity.
Qed.
