(* C03/Properties.v -- pinned statements of property C03:
   N-Triples / N-Quads serialisation round-trips every dataset exactly. *)
From Sophia.Common Require Import Prelude Term.
From Sophia.C03 Require Import Model Proofs Adapters AdaptersProofs.

(* (0) the Rust loop of quoted_string (scan to the first special byte, copy the prefix, write the
   escape, recurse on the remainder) is byte-wise escaping of LF, CR, double quote, backslash *)
Check (quoted_string_spec : forall txt : list N,
  quoted_string txt = flat_map (fun c => if is_special c then esc c else [c]) txt).

(* (1) unescaping inverts quoted_string for ALL strings (no hypothesis at all) *)
Check (unescape_quoted_string : forall s : list N, unescape (quoted_string s) = Some s).
Check (rd_str_body_qs : forall s rest : list N,
  rd_str_body (qs_cp s ++ 34 :: rest) = Some (s, rest)).
(* byte-level escaping commutes with UTF-8 encoding, and the strict decoder inverts the encoder *)
Check (quoted_string_utf8 : forall s : str, quoted_string (utf8 s) = utf8 (quoted_string s)).
Check (utf8_dec_utf8 : forall s : str, scalar_str s = true -> utf8_dec (utf8 s) = Some s).
Check (lexical_roundtrip : forall s : str, scalar_str s = true ->
  match utf8_dec (quoted_string (utf8 s)) with Some cps => unescape cps | None => None end = Some s).

(* (2) a written term is self-delimiting and the reader gives it back: any well-formed term at
   any position, nested quoted triples of any depth, followed by any admissible text *)
Check (write_term_utf8 : forall t : term, write_term t = utf8 (wt t)).
Check (rd_term_wt : forall (t : term) (p : pos) (fuel : nat) (rest : str),
  wf_at p t = true -> stop_ok rest = true -> (depth t < fuel)%nat ->
  rd_term fuel p (wt t ++ rest) = Some (t, rest)).

(* (3) the round trip, in full generality: every list of well-formed strict or RDF-star quads *)
Check (nq_roundtrip : forall qs : list quad, wf_quads qs = true -> nq_read (nq_write qs) = Some qs).
Check (nt_roundtrip : forall ts : list triple, wf_triples ts = true -> nt_read (nt_write ts) = Some ts).
Check (nq_write_injective : forall d1 d2 : list quad, wf_quads d1 = true -> wf_quads d2 = true ->
  nq_write d1 = nq_write d2 -> d1 = d2).

(* (4) one statement per line: every statement is a body without LF / CR bytes followed by the
   single byte LF; hence exactly one LF per quad and no CR in the document *)
Check (statement_is_one_line : forall q : quad, wf_quad q = true ->
  exists body, nq_write_quad q = body ++ [10] /\ count 10 body = 0%nat /\ count 13 body = 0%nat).
Check (one_line_per_quad : forall qs : list quad, wf_quads qs = true ->
  count 10 (nq_write qs) = length qs /\ count 13 (nq_write qs) = 0%nat).

(* (5) the other public entry points.  A serialiser used for several calls appends, and the result is
   the serialisation of the concatenation; a statement composed by hand from the public
   write_triple / write_term is the serialiser's statement *)
Check (nq_write_app : forall a b : list quad, nq_write (a ++ b) = nq_write a ++ nq_write b).
Check (nt_write_app : forall a b : list triple, nt_write (a ++ b) = nt_write a ++ nt_write b).
Check (nq_write_calls_concat : forall calls : list (list quad),
  nq_write_calls calls = nq_write (concat calls)).
Check (nt_write_calls_concat : forall calls : list (list triple),
  nt_write_calls calls = nt_write (concat calls)).
Check (write_calls_ok_concat : forall (nq : bool) (calls : list (list quad)) (bytes : list N),
  write_calls_ok nq calls bytes
  = if nq then write_ok (concat calls) bytes else nt_write_ok (concat calls) bytes).
Check (compose_quad_spec : forall q : quad, compose_quad q = nq_write_quad q).
Check (write_term_triple : forall s p o : term,
  write_term (Triple s p o) = [60; 60] ++ write_triple s p o ++ [62; 62]).
(* generalised RDF (variables, any term anywhere): strict well-formedness is a special case, and
   the one-statement-per-line shape also holds there *)
Check (wf_at_gwf : forall (t : term) (p : pos), wf_at p t = true -> gwf t = true).
Check (wf_quads_gwf : forall qs : list quad, wf_quads qs = true -> gwf_quads qs = true).
Check (gen_statement_is_one_line : forall q : quad, gwf_quad q = true ->
  exists body, nq_write_quad q = body ++ [10] /\ count 10 body = 0%nat /\ count 13 body = 0%nat).
Check (gen_one_line_per_quad : forall qs : list quad, gwf_quads qs = true ->
  count 10 (nq_write qs) = length qs /\ count 13 (nq_write qs) = 0%nat).

(* ---- non-vacuity ---- *)
(* three statements: blank nodes a.b / 1 / b-middle-dot, a language-tagged literal with LF, quote,
   backslash, CR, U+0000, e-acute and a non-BMP character, a doubly nested quoted triple with an
   empty plain literal, an empty IRI, a typed literal, IRI and blank graph names *)
Definition ex_doc : list quad :=
  [ (Bnode [97;46;98], Iri [104;58;112], LitLang [10;34;92;13;0;233;128512] [101;110;45;85;83], Some (Bnode [49]));
    (Triple (Bnode [97]) (Iri [112]) (Triple (Iri [120]) (Iri [121]) (LitDt [] xsd_string)),
       Iri [104;58;112], Bnode [98;183], None);
    (Iri [], Iri [104;58;112], LitDt [49] [104;58;105], Some (Iri [103])) ].
Example ex_doc_wf : wf_quads ex_doc = true.
Proof. vm_compute. reflexivity. Qed.
Example ex_doc_roundtrip : nq_read (nq_write ex_doc) = Some ex_doc.
Proof. vm_compute. reflexivity. Qed.
Example ex_labels :
  map label_ok [[97;46;98]; [49;97]; [97;46;46;98]; [97;183]; [97;58;98]; [97;46]; [183;97]; [46;97]; []]
  = [true; true; true; true; true; false; false; false; false].
Proof. vm_compute. reflexivity. Qed.
Example ex_tags :
  map langtag_ok [[101;110]; [101;110;45;85;83]; [120;45;49;50]; [101;110;45]; [49;101]; [101;110;45;45;97]; []]
  = [true; true; true; false; false; false; false].
Proof. vm_compute. reflexivity. Qed.

(* a generalised statement: literal subject, variable predicate, quoted triple with a blank-node
   predicate as object, variable graph name: generalised-well-formed, not strictly well-formed *)
Definition ex_gen : list quad :=
  [ (LitDt [97;10] xsd_string, Var [120;49], Triple (Var [121]) (Bnode [98]) (LitLang [] [101;110]), Some (Var [103])) ].
Example ex_gen_wf : gwf_quads ex_gen = true /\ wf_quads ex_gen = false.
Proof. vm_compute. split; reflexivity. Qed.
Example ex_gen_bytes :
  gen_case_ok true ex_gen
    [34;97;92;110;34;32;63;120;49;32;60;60;63;121;32;95;58;98;32;34;34;64;101;110;62;62;32;63;103;46;10] = true.
Proof. vm_compute. reflexivity. Qed.
(* three calls (one of them empty) on one serialiser *)
Example ex_calls : nq_write_calls [[nth 0 ex_doc (Iri [], Iri [], Iri [], None)]; []; tl ex_doc] = nq_write ex_doc.
Proof. vm_compute. reflexivity. Qed.
Example ex_calls_ok : case_calls_ok true [[nth 0 ex_doc (Iri [], Iri [], Iri [], None)]; []; tl ex_doc] (nq_write ex_doc) = true.
Proof. vm_compute. reflexivity. Qed.
(* a variable name with an end of line is not generalised-well-formed (and would break the line shape) *)
Example bad_var_refuted :
  let d := [(Var [97;10;98], Iri [112], Iri [111], None)] in
  gwf_quads d = false /\ count 10 (nq_write d) = 2%nat.
Proof. vm_compute. split; reflexivity. Qed.

(* ---- the hypotheses are needed: ill-formed terms do not round-trip ---- *)
(* a label ending in a dot: the label is read without it and a stray dot remains; rejected *)
Example bad_label_refuted :
  let d := [(Iri [115], Iri [112], Bnode [97;46], None)] in
  wf_quads d = false /\ nq_read (nq_write d) = None.
Proof. vm_compute. split; reflexivity. Qed.
(* an IRI containing a closing angle bracket is cut short and the rest re-read as a graph name *)
Example bad_iri_refuted :
  let d := [(Iri [115], Iri [112], Iri [97;62;32;60;98], None)] in
  wf_quads d = false /\
  nq_read (nq_write d) = Some [(Iri [115], Iri [112], Iri [97], Some (Iri [98]))].
Proof. vm_compute. split; reflexivity. Qed.
(* a seeded writer that does not escape CR is caught by the reader: a raw CR is not allowed in
   STRING_LITERAL_QUOTE *)
Example raw_cr_rejected : rd_str_body [97; 13; 98; 34] = None.
Proof. vm_compute. reflexivity. Qed.

Print Assumptions quoted_string_spec.
Print Assumptions unescape_quoted_string.
Print Assumptions rd_str_body_qs.
Print Assumptions quoted_string_utf8.
Print Assumptions utf8_dec_utf8.
Print Assumptions lexical_roundtrip.
Print Assumptions write_term_utf8.
Print Assumptions rd_term_wt.
Print Assumptions nq_roundtrip.
Print Assumptions nt_roundtrip.
Print Assumptions nq_write_injective.
Print Assumptions statement_is_one_line.
Print Assumptions one_line_per_quad.
Print Assumptions ex_doc_roundtrip.
Print Assumptions bad_label_refuted.
Print Assumptions bad_iri_refuted.
Print Assumptions nq_write_app.
Print Assumptions nt_write_app.
Print Assumptions nq_write_calls_concat.
Print Assumptions nt_write_calls_concat.
Print Assumptions write_calls_ok_concat.
Print Assumptions compose_quad_spec.
Print Assumptions write_term_triple.
Print Assumptions wf_at_gwf.
Print Assumptions wf_quads_gwf.
Print Assumptions gen_statement_is_one_line.
Print Assumptions gen_one_line_per_quad.
Print Assumptions ex_gen_bytes.
Print Assumptions ex_calls_ok.

(* ============================================================================================ *)
(* (6) between the serialiser and the target: io::Write with short writes, interruptions, budgets *)
(* whatever the way the text is cut into buffers and whatever the caps / interruptions of a target
   that never gives up, everything arrives and the call succeeds *)
Check (short_writes_lose_nothing : forall (ans : list wout) (bufs : list (list N)),
  patient ans = true ->
  received (write_bufs ans None bufs []) = concat bufs /\ verdict (write_bufs ans None bufs []) = true).
Check (serialise_any_chunking : forall (ch : chunking) (qs : list quad) (ans : list wout),
  faithful_on ch qs -> patient ans = true ->
  received (write_bufs ans None (flat_map ch qs) []) = nq_write qs
  /\ verdict (write_bufs ans None (flat_map ch qs) []) = true).
Check (blocks_concat : forall (sz : nat) (txt : list N), concat (blocks sz txt) = txt).
Check (serialise_in_blocks : forall (sz : nat) (qs : list quad) (ans : list wout), patient ans = true ->
  received (write_bufs ans None (blocks sz (nq_write qs)) []) = nq_write qs
  /\ verdict (write_bufs ans None (blocks sz (nq_write qs)) []) = true).
(* a target with a total budget of b bytes receives exactly the first b bytes; success iff all fitted *)
Check (budget_cuts_a_prefix : forall (ans : list wout) (b : nat) (bufs : list (list N)),
  patient ans = true ->
  received (write_bufs ans (Some b) bufs []) = firstn b (concat bufs)
  /\ verdict (write_bufs ans (Some b) bufs []) = (length (concat bufs) <=? b)%nat).
(* no hypothesis at all: a prefix arrives, and success means everything arrived *)
Check (received_is_a_prefix : forall (bufs : list (list N)) (ans : list wout) (bud : option nat) (got : list N),
  exists n, received (write_bufs ans bud bufs got) = got ++ firstn n (concat bufs)
    /\ (verdict (write_bufs ans bud bufs got) = true
        -> received (write_bufs ans bud bufs got) = got ++ concat bufs)).
Check (sink_bytes_ok_spec : forall (nq : bool) (qs : list quad) (bud : option N) (recv : list N) (ok : bool),
  sink_bytes_ok nq qs bud recv ok = true ->
  recv = firstn (cap (obudget bud) (length (model_text nq qs))) (model_text nq qs)
  /\ ok = Nat.eqb (cap (obudget bud) (length (model_text nq qs))) (length (model_text nq qs))).

(* (7) between the parser and the reader: Source adapters and the iterators of map_* / filter_map_* *)
Check (@for_each_filter : forall (A : Type) (p : A -> bool) (rs : list (round A)),
  for_each (filter_rounds p rs) = (filter p (fst (for_each rs)), snd (for_each rs))).
Check (@for_each_map : forall (A B : Type) (g : A -> B) (rs : list (round A)),
  for_each (map_rounds g rs) = (map g (fst (for_each rs)), snd (for_each rs))).
Check (@iter_collect_is_for_each : forall (A B : Type) (f : A -> option B) (rs : list (round A)),
  settled rs = true ->
  iter_collect f rs = (filter_map f (fst (for_each rs)), snd (for_each rs))).
Check (@iter_collect_map : forall (A B : Type) (g : A -> B) (rs : list (round A)),
  settled rs = true ->
  iter_collect (fun x => Some (g x)) rs = (map g (fst (for_each rs)), snd (for_each rs))).

(* ---- non-vacuity ---- *)
(* ex_doc through a target that takes 1, then is interrupted, then 2, 3, 1, ... bytes per call,
   statement by statement and byte by byte *)
Example ex_trickle :
  let ans := [Take 1; Intr; Take 2; Take 3; Intr; Intr; Take 1; Take 7; Take 1; Take 1000] in
  patient ans = true
  /\ received (write_bufs ans None (flat_map per_statement ex_doc) []) = nq_write ex_doc
  /\ received (write_bufs ans None (flat_map per_byte ex_doc) []) = nq_write ex_doc
  /\ received (write_bufs ans None (blocks 40 (nq_write ex_doc)) []) = nq_write ex_doc.
Proof. vm_compute. repeat split; reflexivity. Qed.
(* a budget of 50 bytes *)
Example ex_budget :
  sink_bytes_ok true ex_doc (Some 50) (firstn 50 (nq_write ex_doc)) false = true
  /\ sink_ok true ex_doc (Some 50) 50 false = true
  /\ sink_ok true ex_doc (Some 50) 50 true = false
  /\ sink_ok true ex_doc None (N.of_nat (length (nq_write ex_doc))) true = true
  /\ sink_ok false ex_doc (Some 100000) (N.of_nat (length (nt_write (nt_of ex_doc)))) true = true.
Proof. vm_compute. repeat split; reflexivity. Qed.
(* the hypothesis is needed: a target that gives up, or answers Ok(0), gets a strict prefix -- and
   the call fails *)
Example impatient_refuted :
  write_bufs [Take 2; Fail] None [[1; 2; 3]; [4]] [] = ([], None, [1; 2], false)
  /\ write_bufs [Take 3; Take 0] None [[1; 2; 3]; [4]] [] = ([], None, [1; 2; 3], false).
Proof. vm_compute. split; reflexivity. Qed.
(* a hand-over that offers a block to `write` ONCE and ignores the count (instead of write_all) is
   not this model: on a target taking 2 bytes per call it would deliver [1;2] of [1;2;3] and go on
   with [4]; write_all delivers all four bytes *)
Example ex_write_all_retries :
  received (write_bufs [Take 2; Take 2; Take 2] None [[1; 2; 3]; [4]] []) = [1; 2; 3; 4].
Proof. vm_compute. reflexivity. Qed.

(* the call that delivers the last statement may itself answer Ok(false): the iterator still
   hands that statement out; empty rounds (blank lines, comments) are skipped *)
Example ex_iter_last_round :
  iter_collect (fun x : N => Some x) [([1], More); ([], More); ([2; 3], More); ([4], Done)] = ([1; 2; 3; 4], true)
  /\ iter_collect (fun x : N => Some x) [([1], More); ([2], More); ([], Done)] = ([1; 2], true)
  /\ iter_collect (fun x : N => Some x) [([1], More); ([2], Broke); ([3], More)] = ([1; 2], false)
  /\ iter_collect (keep 2) (number_rounds 0 [(1, More); (0, More); (2, More); (1, Done)]) = ([1; 3], true).
Proof. vm_compute. repeat split; reflexivity. Qed.
Example ex_traces :
  iter_trace_ok 2 [(1, More); (0, More); (2, More); (1, Done)] [1; 3] true = true
  /\ iter_trace_ok 0 [(1, More); (1, Done)] [0] true = false
  /\ each_trace_ok 3 [(1, More); (0, More); (2, More); (1, Broke)] [1; 2] false = true
  /\ trace_ok [(1, More); (0, More); (2, More); (0, Done)] 3 = true.
Proof. vm_compute. repeat split; reflexivity. Qed.
(* the hypothesis is needed: a source that delivers again after having answered Ok(false) *)
Example unsettled_refuted :
  let rs := [([1], Done); ([2], Done)] in
  settled rs = false /\ fst (for_each rs) = [1] /\ fst (iter_collect (fun x : N => Some x) rs) = [1; 2].
Proof. vm_compute. repeat split; reflexivity. Qed.

Print Assumptions short_writes_lose_nothing.
Print Assumptions serialise_any_chunking.
Print Assumptions blocks_concat.
Print Assumptions serialise_in_blocks.
Print Assumptions budget_cuts_a_prefix.
Print Assumptions received_is_a_prefix.
Print Assumptions sink_bytes_ok_spec.
Print Assumptions for_each_filter.
Print Assumptions for_each_map.
Print Assumptions iter_collect_is_for_each.
Print Assumptions iter_collect_map.
Print Assumptions ex_trickle.
Print Assumptions ex_budget.
Print Assumptions ex_iter_last_round.
Print Assumptions ex_traces.
