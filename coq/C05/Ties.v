(* C05/Ties.v -- a tie-reporting copy of hash_n_degree_quads and of step 5 of relabel_with
   (C05/Model.v): same computation, and in addition a flag telling whether the run met a TIE, i.e.
   a place where RDFC-1.0 picks among equals by position instead of by content:
     - two permutations of one blank node list reach the same (minimal) path with different
       issuers (step 5.4.6 keeps the first one enumerated), or
     - two results of one hash path list carry the same hash (step 5.3 keeps list order).
   Used only to STATE the invariance theorem with an explicit no-ties hypothesis (Proofs.v shows
   that erasing the flag gives back the model).  Definitions only. *)
From Sophia.C05 Require Import Model.

Definition iss_eqb (a b : issuer) : bool := list_eqb pair_eqb a b.

Section TiesAlgo.
Variable H : str -> str.

Section BodyT.
Variable rec : str -> issuer -> N -> res (str * issuer * bool).
Variable st : state.

Fixpoint perm_rec_t (chosen : str) (depth : N) (ic : issuer) (path : str) (rl : list str)
         (tie : bool) : res (option (issuer * str) * bool) :=
  match rl with
  | [] => Ok (Some (ic, path), tie)
  | r :: rl' =>
      match rec r ic (depth + 1) with
      | Err e => Err e
      | Ok (h, ic2, t) =>
          let '(_, id, _) := issue s_b ic r in
          let path' := path ++ s_bn ++ id ++ [60] ++ h ++ [62] in
          if negb (is_nil chosen) && prune_rule (st_prune st) chosen path' then Ok (None, tie || t)
          else perm_rec_t chosen depth ic2 path' rl' (tie || t)
      end
  end.

(* state = (chosen_path, chosen_issuer, is the chosen path tied?, tie met in a recursive call?) *)
Definition one_perm_t (base : issuer) (depth : N) (acc : str * option issuer * bool * bool)
           (p : list str) : res (str * option issuer * bool * bool) :=
  let '(chosen, chosen_iss, tied, sub) := acc in
  let '(ic, path, rl) := perm_ids (st_canon st) base [] [] p in
  if negb (is_nil chosen) && prune_rule (st_prune st) chosen path then Ok acc
  else match perm_rec_t chosen depth ic path rl false with
       | Err e => Err e
       | Ok (None, t) => Ok (chosen, chosen_iss, tied, sub || t)
       | Ok (Some (ic', path'), t) =>
           if is_nil chosen || str_ltb path' chosen then Ok (path', Some ic', false, sub || t)
           else
             let same := match chosen_iss with Some c => iss_eqb c ic' | None => true end in
             Ok (chosen, chosen_iss, tied || (str_eqb path' chosen && negb same), sub || t)
       end.
Fixpoint all_perms_t (base : issuer) (depth : N) (acc : str * option issuer * bool * bool)
         (ps : list (list str)) : res (str * option issuer * bool * bool) :=
  match ps with
  | [] => Ok acc
  | p :: ps' =>
      match one_perm_t base depth acc p with
      | Err e => Err e
      | Ok acc' => all_perms_t base depth acc' ps'
      end
  end.
Fixpoint hn_groups_t (iss : issuer) (depth : N) (data : str) (ret : option issuer) (tie : bool)
         (hn : list (str * list str)) : res (str * option issuer * bool) :=
  match hn with
  | [] => Ok (data, ret, tie)
  | (rh, bl) :: hn' =>
      let data1 := data ++ rh in
      if match st_plimit st with Some pl => pl <? N.of_nat (length bl) | None => false end
      then Err EToxicPerm
      else
        let base := match ret with Some r => r | None => iss end in
        match all_perms_t base depth ([], None, false, false) (heap_perms bl) with
        | Err e => Err e
        | Ok (chosen, chosen_iss, tied, sub) =>
            hn_groups_t iss depth (data1 ++ chosen) chosen_iss (tie || tied || sub) hn'
        end
  end.
Definition hnd_body_t (ident : str) (iss : issuer) (depth : N) : res (str * issuer * bool) :=
  if match st_df1000 st with
     | Some df => df * N.of_nat (length (st_b2q st)) <? depth * 1000
     | None => false
     end
  then Err EToxicDepth
  else
    match bt_get (st_b2q st) ident with
    | None => Err ENoId
    | Some qs =>
        match hn_quads H st ident iss qs [] with
        | Err e => Err e
        | Ok hn =>
            match hn_groups_t iss depth [] None false hn with
            | Err e => Err e
            | Ok (data, ret, tie) =>
                Ok (H data, match ret with Some r => r | None => iss end, tie)
            end
        end
    end.
End BodyT.

Fixpoint hnd_t (fuel : nat) (st : state) (ident : str) (iss : issuer) (depth : N)
  : res (str * issuer * bool) :=
  match fuel with
  | O => Err EFuel
  | S f => hnd_body_t (hnd_t f st) st ident iss depth
  end.

Fixpoint step5_paths_t (fuel : nat) (st : state) (ids : list str)
  : res (list (str * issuer) * bool) :=
  match ids with
  | [] => Ok ([], false)
  | n :: ids' =>
      match hnd_t fuel st n (issue_ s_b [] n) 0 with
      | Err e => Err e
      | Ok (h, i, t) =>
          match step5_paths_t fuel st ids' with
          | Err e => Err e
          | Ok (l, t') => Ok ((h, i) :: l, t || t')
          end
      end
  end.
(* two results with the same hash (adjacent after sorting) *)
Fixpoint adjacent_equal (l : list (str * issuer)) : bool :=
  match l with
  | a :: ((b :: _) as r) => str_eqb (fst a) (fst b) || adjacent_equal r
  | _ => false
  end.
Fixpoint step5_t (fuel : nat) (st : state) (h2b : list (str * list str)) (tie : bool)
  : res (issuer * bool) :=
  match h2b with
  | [] => Ok (st_canon st, tie)
  | (_, ids) :: r =>
      match step5_paths_t fuel st ids with
      | Err e => Err e
      | Ok (paths, t) =>
          step5_t fuel (with_canon st (step5_issue (st_canon st) paths)) r
                  (tie || t || adjacent_equal (sort_by path_leb paths))
      end
  end.

(* did the run of relabel_with meet a tie?  (None: the run fails) *)
Definition run_ties (v : variant) (fuel : nat) (df1000 plimit : option N) (d : list quad)
  : option bool :=
  match step2 (v_once v) d [] with
  | Err _ => None
  | Ok b2q =>
      let b2h := step3_b2h H b2q in
      let (h2b, canon) := step4 (step3_h2b b2h) [] in
      match step5_t fuel (mkState b2q b2h canon df1000 plimit (v_prune v)) h2b false with
      | Err _ => None
      | Ok (_, tie) => Some tie
      end
  end.
End TiesAlgo.

Definition no_ties (H : str -> str) (fuel : nat) (df1000 plimit : option N) (d : list quad) : Prop :=
  run_ties H (mkVar true true) fuel df1000 plimit d = Some false.

Definition inj_on (pi : str -> str) (l : list str) : Prop :=
  forall x y, In x l -> In y l -> pi x = pi y -> x = y.
