(* C11/ModelErr.v -- ERROR PATHS of mutations through views (api/src/graph/adapter.rs, api/src/dataset/adapter.rs,
   and the provided bulk methods of MutableGraph / MutableDataset in api/src/graph.rs, api/src/dataset.rs):
   * a bulk mutation whose SOURCE fails after k items (insert_all / remove_all stop there and report the
     source's error: try_for_each_triple / try_for_each_quad);
   * a store whose insert / remove FAILS at the (k+1)-th call (every view hands the store's error on, a bulk
     mutation stops at the first error of the sink).
   In both cases nothing is rolled back: the store holds what the elementary operations performed so far
   have produced.  Definitions only; the histories of Model.v are embedded (EH).  *)
From Sophia.C11 Require Export Model.

(* the pending failure of the store: Some (k, sticky) = the (k+1)-th insert / remove call from now on
   fails (once; for ever if sticky) *)
Definition budget := option (N * bool).
(* one call of the store's insert / remove: does it fail, and what is pending afterwards *)
Definition tick (b : budget) : bool * budget :=
  match b with
  | None => (false, None)
  | Some (k, sticky) =>
      if N.eqb k 0 then (true, if sticky then Some (0, true) else None) else (false, Some (N.pred k, sticky))
  end.

Inductive eout :=
| EX (x : xout)      (* an answer of Model.v *)
| ESrcErr            (* StreamError::SourceError *)
| ESinkErr           (* the store's own error, as such or wrapped (StreamError::SinkError, GraphAsDatasetMutationError::Graph) *)
| EInvalid.          (* the harness described a partial removal that cannot have happened: never equal to anything *)

Definition estate := (dataset N * budget)%type.

(* insert / remove through graph_mut(g1).as_dataset_mut().graph_mut(g2)...: a GraphAsDataset layer answers by
   itself for a named graph (no call reaches the store), otherwise the store is called once *)
Definition e_insert (sk : skind) (st : estate) (gs : list (option N)) (t : tt) : estate * eout :=
  match lands gs with
  | None => (st, EX XOnlyDefault)
  | Some g =>
      let '(f, b') := tick (snd st) in
      if f then ((fst st, b'), ESinkErr)
      else let '(d', fl) := s_insert sk (fst st) (mkQ t g) in ((d', b'), EX (XO (OFlag fl)))
  end.
Definition e_remove (sk : skind) (st : estate) (gs : list (option N)) (t : tt) : estate * eout :=
  match lands gs with
  | None => (st, EX (XO (OFlag false)))
  | Some g =>
      let '(f, b') := tick (snd st) in
      if f then ((fst st, b'), ESinkErr)
      else let '(d', fl) := s_remove sk (fst st) (mkQ t g) in ((d', b'), EX (XO (OFlag fl)))
  end.

(* insert_all / remove_all: item by item, counting the true flags, stopping at the first error of the sink,
   which is the answer *)
Fixpoint e_insert_all (sk : skind) (st : estate) (items : list (list (option N) * tt)) (n : N) : estate * eout :=
  match items with
  | [] => (st, EX (XO (OCount n)))
  | (gs, t) :: rest =>
      match e_insert sk st gs t with
      | (st', EX (XO (OFlag fl))) => e_insert_all sk st' rest (if fl then n + 1 else n)
      | (st', r) => (st', r)
      end
  end.
Fixpoint e_remove_all (sk : skind) (st : estate) (items : list (list (option N) * tt)) (n : N) : estate * eout :=
  match items with
  | [] => (st, EX (XO (OCount n)))
  | (gs, t) :: rest =>
      match e_remove sk st gs t with
      | (st', EX (XO (OFlag fl))) => e_remove_all sk st' rest (if fl then n + 1 else n)
      | (st', r) => (st', r)
      end
  end.
(* the source fails after its first k items: these are consumed as above; if the sink took them all, the
   answer is the source's error *)
Definition src_fails (r : estate * eout) : estate * eout :=
  match r with
  | (st, EX (XO (OCount _))) => (st, ESrcErr)
  | _ => r
  end.
Definition e_insert_all_f sk st items (k : N) := src_fails (e_insert_all sk st (firstn (N.to_nat k) items) 0).
Definition e_remove_all_f sk st items (k : N) := src_fails (e_remove_all sk st (firstn (N.to_nat k) items) 0).

(* remove_matching / retain_matching (of MutableGraph through graph_mut(g), of MutableDataset on the store):
   the quads that the call collects first and then removes one by one *)
Definition victims (d : dataset N) (x : xop) : option (list tq) :=
  match x with
  | XRemMatching g sm pm om =>
      Some (map (fun t => mkQ t g) (dg_matching N N.eqb d g (mdesc_t sm) (mdesc_t pm) (mdesc_t om)))
  | XRetMatching g sm pm om =>
      Some (map (fun t => mkQ t g)
                (filter (fun t => negb (triple_matches N (mdesc_t sm) (mdesc_t pm) (mdesc_t om) t)) (dg_triples N N.eqb d g)))
  | XDRemMatching sm pm om gm =>
      Some (ds_quads_matching N d (mdesc_t sm) (mdesc_t pm) (mdesc_t om) (gdesc_g gm))
  | XDRetMatching sm pm om gm =>
      Some (filter (fun q => negb (triple_matches N (mdesc_t sm) (mdesc_t pm) (mdesc_t om) (qt q) && gdesc_g gm (qg q))) d)
  | _ => None
  end.

Definition subset_q (a b : list tq) : bool := forallb (fun q => ds_contains N N.eqb b q) a.
Fixpoint nodup_q (l : list tq) : bool :=
  match l with
  | [] => true
  | q :: r => negb (ds_contains N N.eqb r q) && nodup_q r
  end.
(* the store failed while the victims were being removed.  The order in which the implementation
   enumerates them is not part of the property, so the harness says WHICH quads went away and the model
   accepts that iff they are k distinct victims, k being the number of calls the store still accepted and
   smaller than the number of victims *)
Definition e_partial (sk : skind) (st : estate) (x : xop) (removed : list tq) : estate * eout :=
  match snd st, victims (fst st) x with
  | Some (k, sticky), Some v =>
      if (k <? N.of_nat (length v)) && N.eqb (N.of_nat (length removed)) k && nodup_q removed && subset_q removed v
      then ((fst (x_remove_quads sk (fst st) removed), if sticky then Some (0, true) else None), ESinkErr)
      else (st, EInvalid)
  | _, _ => (st, EInvalid)
  end.

Definition as_xop (h : hist_op) : xop := match h with HOld o => translate o | HNew x => x end.
Definition lift (b : budget) (r : dataset N * xout) : estate * eout := ((fst r, b), EX (snd r)).
Definition sub_budget (b : budget) (n : N) : budget :=
  match b with Some (k, s) => Some (k - n, s) | None => None end.

(* an operation of Model.v: as there while no failure is pending; otherwise every call of the store counts *)
Definition e_hist (sk : skind) (pl : pool) (st : estate) (h : hist_op) : estate * eout :=
  match snd st with
  | None => lift None (hstep sk pl (fst st) h)
  | Some (k, _) =>
      match as_xop h with
      | XIns gs t => e_insert sk st gs t
      | XRem gs t => e_remove sk st gs t
      | XInsAll items => e_insert_all sk st items 0
      | XRemAll items => e_remove_all sk st items 0
      | x => match victims (fst st) x with
             | Some v => let n := N.of_nat (length v) in
                         if n <=? k then lift (sub_budget (snd st) n) (xstep sk pl (fst st) x) else (st, EInvalid)
             | None => lift (snd st) (xstep sk pl (fst st) x)      (* an observation *)
             end
      end
  end.

Inductive eop :=
| EH (h : hist_op)
| EInsAllF (items : list (list (option N) * tt)) (k : N)   (* insert_all from a source that fails after k items *)
| ERemAllF (items : list (list (option N) * tt)) (k : N)
| ESetBudget (b : budget)
| EPartial (x : xop) (removed : list tq).                  (* a matching removal stopped by the store *)

Definition estep (sk : skind) (pl : pool) (st : estate) (o : eop) : estate * eout :=
  match o with
  | EH h => e_hist sk pl st h
  | EInsAllF items k => e_insert_all_f sk st items k
  | ERemAllF items k => e_remove_all_f sk st items k
  | ESetBudget b => ((fst st, b), EX (XO (OFlag (match b with Some _ => true | None => false end))))
  | EPartial x removed => e_partial sk st x removed
  end.
Fixpoint erun (sk : skind) (pl : pool) (st : estate) (ops : list eop) : list eout :=
  match ops with
  | [] => []
  | o :: ops' => let '(st', r) := estep sk pl st o in r :: erun sk pl st' ops'
  end.
Definition eout_eqb (a b : eout) : bool :=
  match a, b with
  | EX x, EX y => xout_eqb x y
  | ESrcErr, ESrcErr => true
  | ESinkErr, ESinkErr => true
  | _, _ => false
  end.
Definition ecase_ok (sk : skind) (pl : pool) (init : list tq) (ops : list eop) (observed : list eout) : bool :=
  let d0 := fold_left (fun d q => fst (s_insert sk d q)) init [] in
  list_eqb eout_eqb (erun sk pl (d0, None) ops) observed.
