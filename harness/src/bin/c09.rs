//! C09: sophia_iri's validators (Iri::new, IriRef::new, is_absolute_iri_ref, is_relative_iri_ref,
//! Namespace::get) and resolver (Iri::as_base, BaseIri::resolve) against
//!   * the Coq model (C09/Model.v: the regenerated regexes run by a derivative matcher; RFC 3986 5.2), and
//!   * an independent ORACLE written here from the ABNF of RFC 3987 / RFC 3986 (a splitting
//!     recogniser, no regular expression) and from the text of RFC 3986 section 5.2.
//! Every case also runs the other public entry points of the anchored files on the same string: is_valid_iri_ref,
//! is_valid_suffixed_iri_ref (None / Some), Iri::new / IriRef::new over &str, String, Box<str>, Rc<str>, Arc<str>,
//! Cow (verdict, InvalidIri payload, as_str / Deref / AsRef / Borrow / as_ref / unwrap / map_unchecked / new_unchecked /
//! new_unchecked_const / Display / as_iri / as_iri_ref, Eq / Ord / Hash / comparisons with str and across containers),
//! BaseIri::new / BaseIriRef::new (the resolver's recogniser) with as_base / to_base / to_base_iri / as_ref /
//! into_inner and the components seen through Deref (against RFC 3986 appendix B), Namespace's other constructors,
//! and a second (base, reference) pair -- absolute or RELATIVE base, the reference mostly the case's own string,
//! valid or not -- through every resolve entry point (Iri / IriRef / BaseIri / BaseIriRef, resolve / resolve_into,
//! typed references of every IsIriRef type / &str).
//! Every case also goes through the serde entry points of iri/src/_serde.rs: `impl Deserialize for Iri / IriRef` over
//! String, Box<str>, Rc<str>, Arc<str>, Cow, &str, driven by serde's own value deserializers (visit_str / visit_string /
//! visit_borrowed_str / visit_bytes), by serde_json (from_str plain and \u-escaped, from_slice, from_reader, from_value) and
//! by toml, bare and inside Option / Vec / map / derived structs / tagged and untagged enums; `impl Serialize` and the
//! Serialize -> Deserialize round trip.  ORACLE: a value is constructed iff the text is an RFC 3987 IRI (IRI reference),
//! it holds the text unchanged, nothing panics.
//! Directed streams: every ASCII delimiter, every non-ASCII character whose Unicode case mapping contains an ASCII
//! character (U+017F, U+212A, U+0130, U+0131, ligatures ... computed from std's tables) and compatibility look-alikes of
//! the delimiters / letters / digits, substituted at every grammar position (scheme first / middle / last, userinfo,
//! host, IPv6, IPvFuture, port, every kind of path, query, fragment, pct-encoded) -- full pipeline and Coq model; and a
//! wider SWEEP (validators against the RFC 3987 recogniser only) of ~3000 characters (U+0000-U+02FF, every cased
//! neighbour of ASCII, letterlike / fullwidth / small forms, every numeric or white-space character, every class
//! boundary +-2 of the regexes and of the RFC) at every position.
//! `--probe <hex of utf-8>` prints every verdict for one string (used to replay `ka` counter-examples and sweep findings).
use serde::de::value::{BorrowedStrDeserializer, BytesDeserializer, Error as VErr, StrDeserializer, StringDeserializer, U32Deserializer, UnitDeserializer};
use serde::{Deserialize, Serialize};
use sophia_api::ns::Namespace;
use sophia_iri::resolve::{BaseIri, BaseIriRef};
use sophia_iri::{AsIri, AsIriRef, InvalidIri, Iri, IriRef, is_absolute_iri_ref, is_relative_iri_ref, is_valid_iri_ref, is_valid_suffixed_iri_ref};
use std::borrow::{Borrow, Cow};
use std::cmp::Ordering;
use std::collections::hash_map::DefaultHasher;
use std::hash::{Hash, Hasher};
use std::panic::{AssertUnwindSafe, catch_unwind};
use std::rc::Rc;
use std::sync::Arc;
use verif_harness::*;

// =====================================================================================
// ORACLE 1: RFC 3987 recogniser (works on chars; splits at the delimiters the grammar forces)
// =====================================================================================
fn is_alpha(c: char) -> bool { c.is_ascii_alphabetic() }
fn is_digit(c: char) -> bool { c.is_ascii_digit() }
fn is_hex(c: char) -> bool { c.is_ascii_hexdigit() }
fn is_sub_delim(c: char) -> bool { "!$&'()*+,;=".contains(c) }
fn is_unreserved(c: char) -> bool { is_alpha(c) || is_digit(c) || "-._~".contains(c) }
const UCS: [(u32, u32); 17] = [(0xA0, 0xD7FF), (0xF900, 0xFDCF), (0xFDF0, 0xFFEF), (0x10000, 0x1FFFD), (0x20000, 0x2FFFD), (0x30000, 0x3FFFD), (0x40000, 0x4FFFD), (0x50000, 0x5FFFD), (0x60000, 0x6FFFD), (0x70000, 0x7FFFD), (0x80000, 0x8FFFD), (0x90000, 0x9FFFD), (0xA0000, 0xAFFFD), (0xB0000, 0xBFFFD), (0xC0000, 0xCFFFD), (0xD0000, 0xDFFFD), (0xE1000, 0xEFFFD)];
const PRIV: [(u32, u32); 3] = [(0xE000, 0xF8FF), (0xF0000, 0xFFFFD), (0x100000, 0x10FFFD)];
fn is_ucschar(c: char) -> bool { UCS.iter().any(|&(a, b)| a <= c as u32 && c as u32 <= b) }
fn is_iprivate(c: char) -> bool { PRIV.iter().any(|&(a, b)| a <= c as u32 && c as u32 <= b) }
fn is_iunreserved(c: char) -> bool { is_unreserved(c) || is_ucschar(c) }

/// *( <single chars accepted by `ok`> / pct-encoded )
fn chars_or_pct(s: &[char], ok: impl Fn(char) -> bool) -> bool {
    let mut i = 0;
    while i < s.len() {
        if s[i] == '%' {
            if i + 2 < s.len() && is_hex(s[i + 1]) && is_hex(s[i + 2]) { i += 3; } else { return false; }
        } else if ok(s[i]) { i += 1; } else { return false; }
    }
    true
}
fn is_ipchar_seq(s: &[char]) -> bool { chars_or_pct(s, |c| is_iunreserved(c) || is_sub_delim(c) || c == ':' || c == '@') }
fn is_scheme(s: &[char]) -> bool { !s.is_empty() && is_alpha(s[0]) && s[1..].iter().all(|&c| is_alpha(c) || is_digit(c) || "+-.".contains(c)) }
fn is_dec_octet(s: &[char]) -> bool {
    if s.is_empty() || s.len() > 3 || !s.iter().all(|&c| is_digit(c)) { return false; }
    if s.len() > 1 && s[0] == '0' { return false; }
    s.iter().collect::<String>().parse::<u32>().unwrap() <= 255
}
fn split_on(s: &[char], d: char) -> Vec<&[char]> { s.split(|&c| c == d).collect() }
fn is_ipv4(s: &[char]) -> bool { let p = split_on(s, '.'); p.len() == 4 && p.iter().all(|x| is_dec_octet(x)) }
fn is_h16(s: &[char]) -> bool { (1..=4).contains(&s.len()) && s.iter().all(|&c| is_hex(c)) }
/// number of 16-bit units of  h16 *( ":" h16 ) [ ":" IPv4address ]  (None if malformed; "" is 0 units)
fn units(s: &[char]) -> Option<usize> {
    if s.is_empty() { return Some(0); }
    let p = split_on(s, ':');
    let mut n = 0;
    for (i, x) in p.iter().enumerate() {
        if is_h16(x) { n += 1; } else if i == p.len() - 1 && is_ipv4(x) { n += 2; } else { return None; }
    }
    Some(n)
}
fn is_ipv6(s: &[char]) -> bool {
    let pos = (0..s.len().saturating_sub(1)).find(|&i| s[i] == ':' && s[i + 1] == ':');
    match pos {
        None => units(s) == Some(8),
        Some(i) => {
            let (l, r) = (&s[..i], &s[i + 2..]);
            // nothing but h16 groups before "::" (an IPv4 tail may only end the address)
            if !l.is_empty() && !split_on(l, ':').iter().all(|x| is_h16(x)) { return false; }
            match (units(l), units(r)) { (Some(a), Some(b)) => a + b <= 7, _ => false }
        }
    }
}
fn is_ipvfuture(s: &[char]) -> bool {
    if s.is_empty() || !(s[0] == 'v' || s[0] == 'V') { return false; }
    let Some(dot) = s.iter().position(|&c| c == '.') else { return false };
    let (ver, rest) = (&s[1..dot], &s[dot + 1..]);
    !ver.is_empty() && ver.iter().all(|&c| is_hex(c)) && !rest.is_empty() && rest.iter().all(|&c| is_unreserved(c) || is_sub_delim(c) || c == ':')
}
fn is_iauthority(a: &[char]) -> bool {
    // [ iuserinfo "@" ]: neither ihost nor port contains "@", iuserinfo does not either
    let (ui, hp) = match a.iter().position(|&c| c == '@') { Some(i) => (Some(&a[..i]), &a[i + 1..]), None => (None, a) };
    if let Some(ui) = ui { if !chars_or_pct(ui, |c| is_iunreserved(c) || is_sub_delim(c) || c == ':') { return false; } }
    let (host_ok, after): (bool, &[char]) = if hp.first() == Some(&'[') {
        match hp.iter().position(|&c| c == ']') {
            None => return false,
            Some(j) => (is_ipv6(&hp[1..j]) || is_ipvfuture(&hp[1..j]), &hp[j + 1..]),
        }
    } else {
        // IPv4address is a special case of ireg-name; neither contains ":"
        let j = hp.iter().position(|&c| c == ':').unwrap_or(hp.len());
        (chars_or_pct(&hp[..j], |c| is_iunreserved(c) || is_sub_delim(c)), &hp[j..])
    };
    host_ok && (after.is_empty() || (after[0] == ':' && after[1..].iter().all(|&c| is_digit(c))))
}
/// "//" iauthority ipath-abempty / ipath-absolute / (rootless | noscheme) / ipath-empty
fn is_hier_or_relative_part(h: &[char], noscheme: bool) -> bool {
    if h.len() >= 2 && h[0] == '/' && h[1] == '/' {
        let rest = &h[2..];
        let j = rest.iter().position(|&c| c == '/').unwrap_or(rest.len());
        return is_iauthority(&rest[..j]) && split_on(&rest[j..], '/').iter().all(|x| is_ipchar_seq(x));
    }
    let segs = split_on(h, '/');
    if !segs.iter().all(|x| is_ipchar_seq(x)) { return false; }
    if h.is_empty() { return true; }
    if h[0] == '/' { return true; }     // "/" [ isegment-nz *( "/" isegment ) ]  ("//..." was handled above)
    // first segment non-empty; without ":" for a relative reference
    !(noscheme && segs[0].contains(&':'))
}
fn split_qf(s: &[char]) -> (&[char], Option<&[char]>, Option<&[char]>) {
    let (s, f) = match s.iter().position(|&c| c == '#') { Some(i) => (&s[..i], Some(&s[i + 1..])), None => (s, None) };
    let (s, q) = match s.iter().position(|&c| c == '?') { Some(i) => (&s[..i], Some(&s[i + 1..])), None => (s, None) };
    (s, q, f)
}
fn qf_ok(q: Option<&[char]>, f: Option<&[char]>) -> bool {
    q.map_or(true, |q| chars_or_pct(q, |c| is_iunreserved(c) || is_sub_delim(c) || ":@/?".contains(c) || is_iprivate(c)))
        && f.map_or(true, |f| chars_or_pct(f, |c| is_iunreserved(c) || is_sub_delim(c) || ":@/?".contains(c)))
}
fn rfc_iri(s: &str) -> bool {
    let v: Vec<char> = s.chars().collect();
    let Some(colon) = v.iter().position(|&c| c == ':') else { return false };
    if !is_scheme(&v[..colon]) { return false; }
    let (h, q, f) = split_qf(&v[colon + 1..]);
    qf_ok(q, f) && is_hier_or_relative_part(h, false)
}
fn rfc_irelative_ref(s: &str) -> bool {
    let v: Vec<char> = s.chars().collect();
    let (h, q, f) = split_qf(&v);
    qf_ok(q, f) && is_hier_or_relative_part(h, true)
}

// =====================================================================================
// ORACLE 2: RFC 3986 section 5.2 (transform references), 5.2.3 (merge), 5.2.4 (remove_dot_segments), 5.3
// =====================================================================================
#[derive(Debug, Clone, PartialEq)]
struct Parts { scheme: Option<String>, authority: Option<String>, path: String, query: Option<String>, fragment: Option<String> }
/// Appendix B:  ^(([^:/?#]+):)?(//([^/?#]*))?([^?#]*)(\?([^#]*))?(#(.*))?
fn parse5(s: &str) -> Parts {
    let (s, fragment) = match s.find('#') { Some(i) => (&s[..i], Some(s[i + 1..].to_string())), None => (s, None) };
    let (s, query) = match s.find('?') { Some(i) => (&s[..i], Some(s[i + 1..].to_string())), None => (s, None) };
    let (scheme, s) = match s.find(|c| ":/?#".contains(c)) { Some(i) if i > 0 && s.as_bytes()[i] == b':' => (Some(s[..i].to_string()), &s[i + 1..]), _ => (None, s) };
    let (authority, s) = if let Some(r) = s.strip_prefix("//") { let j = r.find('/').unwrap_or(r.len()); (Some(r[..j].to_string()), &r[j..]) } else { (None, s) };
    Parts { scheme, authority, path: s.to_string(), query, fragment }
}
fn remove_dot_segments(path: &str) -> String {
    let mut inp = path.to_string();
    let mut out = String::new();
    while !inp.is_empty() {
        if inp.starts_with("../") { inp.drain(..3); }                                   // A
        else if inp.starts_with("./") { inp.drain(..2); }
        else if inp.starts_with("/./") { inp.drain(..2); }                               // B
        else if inp == "/." { inp = "/".into(); }
        else if inp.starts_with("/../") { inp.drain(..3); pop_last(&mut out); }          // C
        else if inp == "/.." { inp = "/".into(); pop_last(&mut out); }
        else if inp == "." || inp == ".." { inp.clear(); }                               // D
        else {                                                                           // E
            let start = if inp.starts_with('/') { 1 } else { 0 };
            let end = inp[start..].find('/').map(|i| i + start).unwrap_or(inp.len());
            out.push_str(&inp[..end]);
            inp.drain(..end);
        }
    }
    out
}
fn pop_last(out: &mut String) { match out.rfind('/') { Some(i) => out.truncate(i), None => out.clear() } }
fn merge(base: &Parts, rpath: &str) -> String {
    if base.authority.is_some() && base.path.is_empty() { format!("/{rpath}") }
    else { match base.path.rfind('/') { Some(i) => format!("{}{rpath}", &base.path[..=i]), None => rpath.to_string() } }
}
fn resolve52(base: &str, r: &str) -> String {
    let b = parse5(base);
    let r = parse5(r);
    let t = if r.scheme.is_some() {
        Parts { scheme: r.scheme, authority: r.authority, path: remove_dot_segments(&r.path), query: r.query, fragment: r.fragment }
    } else if r.authority.is_some() {
        Parts { scheme: b.scheme, authority: r.authority, path: remove_dot_segments(&r.path), query: r.query, fragment: r.fragment }
    } else if r.path.is_empty() {
        Parts { scheme: b.scheme, authority: b.authority, path: b.path, query: r.query.or(b.query), fragment: r.fragment }
    } else if r.path.starts_with('/') {
        Parts { scheme: b.scheme, authority: b.authority, path: remove_dot_segments(&r.path), query: r.query, fragment: r.fragment }
    } else {
        let m = merge(&b, &r.path);
        Parts { scheme: b.scheme, authority: b.authority, path: remove_dot_segments(&m), query: r.query, fragment: r.fragment }
    };
    let mut o = String::new();                                                           // 5.3
    if let Some(s) = t.scheme { o.push_str(&s); o.push(':'); }
    if let Some(a) = t.authority { o.push_str("//"); o.push_str(&a); }
    o.push_str(&t.path);
    if let Some(q) = t.query { o.push('?'); o.push_str(&q); }
    if let Some(f) = t.fragment { o.push('#'); o.push_str(&f); }
    o
}

// =====================================================================================
// generators
// =====================================================================================
fn ch(u: u32) -> char { char::from_u32(u).unwrap() }
fn boundary_chars() -> Vec<char> {
    let mut v = vec![];
    for &(a, b) in UCS.iter().chain(PRIV.iter()) {
        for u in [a.wrapping_sub(1), a, b, b + 1] { if let Some(c) = char::from_u32(u) { if !v.contains(&c) { v.push(c); } } }
    }
    v.push(ch(0x7F)); v.push(ch(0x9F)); v.push(ch(0xD7FF)); v.push(ch(0xE000)); v.push(ch(0x10FFFF)); v.push(ch(0xFDD0)); v.push(ch(0xFDEF));
    v
}
fn ipv6_text(nl: usize, nr: usize, v4: bool, dc: bool, upper: bool) -> String {
    let g = |i: usize| -> String { let pool = ["1", "ab", "0", "FFFF", "a1b2", "9", "c", "00d"]; let s = pool[i % pool.len()].to_string(); if upper { s.to_uppercase() } else { s } };
    let l: Vec<String> = (0..nl).map(g).collect();
    let mut r: Vec<String> = (0..nr).map(|i| g(i + 3)).collect();
    if v4 { r.push("1.2.3.4".into()); }
    if dc { format!("{}::{}", l.join(":"), r.join(":")) } else { let mut a = l; a.extend(r); a.join(":") }
}
/// the systematic part: every string here is checked in every run (when --n is large enough)
fn systematic() -> Vec<String> {
    let mut v: Vec<String> = vec![];
    // IP-literal: all shapes, valid and one-too-many
    for nl in 0..=8 { for nr in 0..=8 { for v4 in [false, true] {
        if nl + nr + if v4 { 2 } else { 0 } <= 9 { v.push(format!("http://[{}]/", ipv6_text(nl, nr, v4, true, (nl + nr) % 3 == 0))); }
    } } }
    for n in 5..=9 { v.push(format!("http://[{}]/", ipv6_text(n, 0, false, false, false))); v.push(format!("s://[{}]", ipv6_text(n, 0, true, false, true))); }
    for s in ["::", ":::", "1::2::3", ":1::2", "1::2:", "1:2:3:4:5:6:7:8:", ":1:2:3:4:5:6:7:8", "12345::", "::g", "::1.2.3", "::1.2.3.4.5", "1.2.3.4::", "::1.2.3.4:5", "1::1.2.3.4", "::ffff:1.2.3.4", "", "1", "::1%25eth0",
              "v1.x", "V1.x", "vF.a:b", "VfF0.-._~!$&'()*+,;=:", "v.x", "v1.", "v1", "vG.x", "v1.x/y", "v1.\u{e9}", "v1.[", "x1.y", "v1.%41"] {
        v.push(format!("http://[{s}]/")); v.push(format!("//u@[{s}]:8"));
    }
    // dec-octet boundaries, as ls32 of an IPv6 address (where they matter) and as host (always an ireg-name)
    for o in ["0", "9", "10", "99", "100", "199", "200", "249", "250", "255", "256", "260", "299", "300", "999", "00", "01", "001", "1000", ""] {
        v.push(format!("http://[::1.2.3.{o}]/")); v.push(format!("http://[::{o}.2.3.4]/")); v.push(format!("http://1.2.3.{o}/")); v.push(format!("//{o}.{o}.{o}.{o}"));
    }
    // ucschar / iprivate range ends +-1, in every component
    for c in boundary_chars() {
        for t in ["http://a/{}", "http://a/?{}", "http://a/#{}", "http://{}/", "http://{}@a/", "{}", "{}:x", "?{}", "#{}", "//{}", "a/{}", "s:{}"] { v.push(t.replace("{}", &c.to_string())); }
    }
    // ASCII: every character in every component
    for u in 0x20u32..0x7F { let c = ch(u);
        for t in ["s:{}", "s:/{}", "s://{}", "s://{}@h", "s://h:{}", "s:?{}", "s:#{}", "{}", "x{}:y", "/{}", "a/{}", "//h/{}", "s://[v1.{}]", "s:%{}0", "s:%0{}"] { v.push(t.replace("{}", &c.to_string())); }
    }
    for s in ["", "#", "?", "/", "//", "///", "////", "a:", ":", ":a", "1a:b", "a/b:c", "./a:b", "a:b", "%41", "%4", "%", "%zz", "%4g", "a b", "a\tb", "a\nb", "\n", "a\n",
              "s://a:b/", "s://a:80x/", "s://a:/", "s://a:", "s://a@b@c/", "s://a@/", "s://@", "s://:@:", "s://[::1]x/", "s://[::1]:80/", "s://[::1]:", "//[::1", "//[", "//]", "s://a[b]/", "s://[::1]@h/",
              "http://[1:2::3]/", "http://[:1::2:3:4:5:6]/", "http://[V1.x]/", "http://[v1.x]/", "s:/", "s://", "s:///", "s:////", "s:/a//b", "s:a//b", "s:a/b", "s:.", "s:..", "s:/..", "s://h/..", "s:?", "s:#", "s:?#", "s:#?", "s:##", "s:?a?b#c?d#",
              "S+-.9:", "9s:", "+s:", "s\u{e9}:a", "http://\u{e9}.ex/\u{e9}?\u{e9}#\u{e9}", "http://a/?\u{e000}", "http://a/\u{e000}", "http://a/#\u{e000}", "//\u{e000}", "\u{feff}", "s:\u{feff}",
              "http://a/b/c/d;p?q", "mailto:a@b", "urn:x:y", "file:///etc/passwd", "tel:+1-816-555-1212", "ldap://[2001:db8::7]/c=GB?objectClass?one", "http://a/%C3%A9", "http://a/%c3%a9"] {
        v.push(s.to_string());
    }
    v
}
/// every grammar position of an IRI / a relative reference where one character is substituted ("{}")
const POSITIONS: &[(&str, &str)] = &[
    ("scheme:first", "{}b://h/p"), ("scheme:first,short", "{}:x"), ("scheme:whole", "{}:"), ("scheme:middle", "a{}b://h/p"), ("scheme:last", "ab{}:p"), ("scheme:last,authority", "http{}://example.org/"),
    ("userinfo", "s://u{}@h/"), ("userinfo:after-colon", "s://u:{}@h"),
    ("host", "s://{}/"), ("host:middle", "s://a{}b.c/p"), ("host:relative", "//{}"),
    ("ipv6:h16", "s://[1:{}::2]/"), ("ipv6:first", "s://[{}::]/"), ("ipv6:dec-octet", "s://[::1.2.3.{}]/"), ("ipvfuture:v", "s://[{}1.x]/"), ("ipvfuture:version", "s://[v{}.x]/"), ("ipvfuture:tail", "s://[v1.{}]/"),
    ("port", "s://h:{}/"), ("port:middle", "s://h:8{}0/p"), ("port:relative", "//h:{}"),
    ("path:abempty", "s://h/{}"), ("path:abempty,later", "s://h/a/{}b"), ("path:absolute", "s:/{}"), ("path:rootless", "s:{}"), ("path:rootless,later", "s:a/{}"),
    ("path:noscheme,first", "{}"), ("path:noscheme,first,middle", "a{}b/c"), ("path:noscheme,later", "a/{}"), ("path:relative,absolute", "/{}"), ("path:relative,dot", "./{}"),
    ("query", "s:?{}"), ("query:authority", "s://h/p?a={}"), ("query:relative", "?{}"), ("query:relative,path", "p?{}"),
    ("fragment", "s:#{}"), ("fragment:authority", "s://h/p?q#{}"), ("fragment:relative", "#{}"), ("fragment:relative,path", "p#a{}"), ("fragment:relative,query", "?x#y{}z"),
    ("pct:first", "s:%{}0"), ("pct:second", "s:%0{}"), ("pct:relative", "%4{}"),
];
/// non-ASCII characters related to an ASCII character by the Unicode case mappings (computed from std's tables, not
/// listed): U+0130, U+0131, U+017F, U+212A, U+00DF, U+0149, U+01F0, U+1E96..U+1E9A, U+FB00..U+FB06 ...
fn ascii_case_partners() -> Vec<char> {
    let mut v = vec![];
    for u in 0x80u32..=0x10FFFF {
        if let Some(c) = char::from_u32(u) {
            if c.to_lowercase().chain(c.to_uppercase()).any(|x| x.is_ascii()) { v.push(c); }
        }
    }
    v
}
/// compatibility / look-alike forms of the delimiters, letters and digits, other digits, white space, line ends,
/// controls, non-characters
const LOOKALIKES: &[char] = &['\u{FF1A}', '\u{FF0F}', '\u{FF1F}', '\u{FF03}', '\u{FF20}', '\u{FF3B}', '\u{FF3D}', '\u{FF05}', '\u{FF0E}', '\u{FE55}', '\u{2024}', '\u{2044}', '\u{FF21}', '\u{FF41}', '\u{FF56}', '\u{FF10}', '\u{0660}', '\u{0966}', '\u{1D7CE}',
    '\u{2126}', '\u{212B}', '\u{00B5}', '\u{1E9E}', '\u{00AA}', '\u{0345}', '\u{03C2}', '\u{00A0}', '\u{2028}', '\u{3000}', '\u{0085}', '\u{0000}', '\u{000A}', '\u{000D}', '\u{007F}', '\u{FFFD}', '\u{FEFF}', '\u{FFFE}', '\u{10FFFF}'];
const DELIMS: &[char] = &[':', '/', '?', '#', '[', ']', '@', '%', '.', '+', '-', 'a', 'G', 'v', '0', '5', ' '];
/// the directed stream that goes through the full pipeline and the Coq model: DELIMS, ascii_case_partners and LOOKALIKES
/// at every position
fn directed_positions() -> Vec<String> {
    let mut chars: Vec<char> = DELIMS.to_vec();
    for c in ascii_case_partners().into_iter().chain(LOOKALIKES.iter().copied()) { if !chars.contains(&c) { chars.push(c); } }
    let mut v = vec![];
    for c in chars { for (_, t) in POSITIONS { v.push(t.replace("{}", &c.to_string())); } }
    v
}
/// the characters of the validators-only sweep
fn sweep_chars() -> Vec<char> {
    let mut set = std::collections::BTreeSet::new();
    let mut add = |u: u32| { if let Some(c) = char::from_u32(u) { set.insert(c); } };
    for u in 0..0x300 { add(u); }
    for (a, b) in [(0x2000u32, 0x2200u32), (0x3000, 0x3004), (0xFB00, 0xFB07), (0xFE50, 0xFE70), (0xFF00, 0xFFF0)] { for u in a..b { add(u); } }
    // every class boundary of the regexes / of RFC 3987, +-2
    for &(a, b) in UCS.iter().chain(PRIV.iter()) { for d in 0..=2u32 { add(a.wrapping_sub(d)); add(a + d); add(b.wrapping_sub(d)); add(b + d); } }
    for p in 0..=16u32 { add(p * 0x10000 + 0xFFFE); add(p * 0x10000 + 0xFFFF); add(p * 0x10000); }
    for u in [0xD7FFu32, 0xE000, 0xFDD0, 0xFDEF, 0xE0000, 0xE0FFF, 0xE1000] { add(u); }
    for u in 0x80u32..=0x10FFFF {
        if let Some(c) = char::from_u32(u) {
            // \d, \s, (?i): every numeric or white-space character, every character whose case mapping is or contains ASCII
            if c.is_numeric() || c.is_whitespace() || c.to_lowercase().chain(c.to_uppercase()).any(|x| x.is_ascii()) { add(u); }
        }
    }
    set.into_iter().collect()
}

const ALPHABET: &[char] = &[':', '/', '?', '#', '[', ']', '@', '%', '.', '-', 'v', 'V', '0', '1', '2', '5', '9', 'a', 'f', 'F', 'g', 'G', '+', '!', '~', '_', '\u{e9}', '\u{e000}', ' ', '^', '\u{fdd0}'];
fn gen_str(r: &mut Rng, pool: &[&str], lo: usize, hi: usize) -> String { let n = r.range(lo, hi); (0..n).map(|_| *r.pick(pool)).collect() }
const UNRES: &[&str] = &["a", "Z", "0", "9", "-", ".", "_", "~", "\u{e9}", "\u{a0}", "\u{d7ff}", "\u{f900}", "\u{10000}", "\u{efffd}", "g", "v"];
const SUBD: &[&str] = &["!", "$", "&", "'", "(", ")", "*", "+", ",", ";", "="];
const PCT: &[&str] = &["%41", "%c3%A9", "%2e", "%2F", "%00", "%fF"];
fn pchars(r: &mut Rng, extra: &[&str], lo: usize, hi: usize) -> String {
    let n = r.range(lo, hi);
    (0..n).map(|_| match r.below(10) { 0..=5 => *r.pick(UNRES), 6 => *r.pick(SUBD), 7 => *r.pick(PCT), _ => if extra.is_empty() { "a" } else { *r.pick(extra) } }).collect()
}
fn gen_host(r: &mut Rng) -> String {
    match r.below(8) {
        0 | 1 => { let v4 = r.chance(1, 3); let nr = r.below(if v4 { 6 } else { 8 }); let nl = r.below(8 - nr - if v4 { 2 } else { 0 } + 1).min(7); format!("[{}]", ipv6_text(nl, nr, v4, true, r.chance(1, 2))) }
        2 => format!("[{}]", ipv6_text(if r.chance(1, 2) { 8 } else { 6 }, 0, false, false, false).replacen("1:ab:0:FFFF:a1b2:9", "1:ab:0:FFFF:a1b2:9:1.2.3.4", if r.chance(1, 4) { 1 } else { 0 })),
        3 => format!("[{}{}.{}]", r.pick(&["v", "V"]), gen_str(r, &["1", "a", "F", "0"], 1, 3), pchars(r, &[":"], 1, 4).replace('%', "").replace(|c: char| !c.is_ascii(), "x")),
        4 => format!("{}.{}.{}.{}", r.pick(&["0", "9", "10", "99", "100", "199", "200", "249", "250", "255", "256"]), r.below(300), r.below(30), r.below(256)),
        _ => pchars(r, &[], 0, 5),
    }
}
fn gen_authority(r: &mut Rng) -> String {
    let mut a = String::new();
    if r.chance(1, 3) { a.push_str(&pchars(r, &[":"], 0, 4)); a.push('@'); }
    a.push_str(&gen_host(r));
    if r.chance(1, 3) { a.push(':'); a.push_str(&gen_str(r, &["0", "8", "443", "65536"], 0, 2)); }
    a
}
const DOTSEGS: &[&str] = &[".", "..", "", "a", "b", "c;p", "..a", "a..", "...", "%2e", "%2E%2e", "a:b", "@", "g"];
fn gen_segs(r: &mut Rng, lo: usize, hi: usize, dots: bool) -> Vec<String> {
    let n = r.range(lo, hi);
    (0..n).map(|_| if dots && r.chance(2, 3) { r.pick(DOTSEGS).to_string() } else { pchars(r, &[":", "@"], 0, 3) }).collect()
}
fn gen_qf(r: &mut Rng) -> String {
    let mut s = String::new();
    if r.chance(1, 3) { s.push('?'); s.push_str(&pchars(r, &[":", "@", "/", "?", "\u{e000}", "\u{f8ff}", "\u{10fffd}"], 0, 4)); }
    if r.chance(1, 3) { s.push('#'); s.push_str(&pchars(r, &[":", "@", "/", "?"], 0, 4)); }
    s
}
fn gen_scheme(r: &mut Rng) -> String { format!("{}{}", r.pick(&["s", "http", "A", "z", "urn"]), gen_str(r, &["a", "Z", "0", "+", "-", "."], 0, 2)) }
/// a member of IRI (absolute = true) or irelative-ref
fn gen_member(r: &mut Rng, absolute: bool, dots: bool) -> String {
    let mut s = String::new();
    if absolute { s.push_str(&gen_scheme(r)); s.push(':'); }
    match r.below(4) {
        0 | 1 => { s.push_str("//"); s.push_str(&gen_authority(r)); for g in gen_segs(r, 0, 4, dots) { s.push('/'); s.push_str(&g); } }
        2 => { s.push('/'); let g = gen_segs(r, 0, 4, dots); if !g.is_empty() { let first = if g[0].is_empty() { "x".to_string() } else { g[0].clone() }; s.push_str(&first); for x in &g[1..] { s.push('/'); s.push_str(x); } } }
        _ => { let g = gen_segs(r, 0, 4, dots); if !g.is_empty() { let mut first = if g[0].is_empty() { "y".to_string() } else { g[0].clone() }; if !absolute { first = first.replace(':', "") ; if first.is_empty() { first = "n".into(); } } s.push_str(&first); for x in &g[1..] { s.push('/'); s.push_str(x); } } }
    }
    s.push_str(&gen_qf(r));
    s
}
fn mutate(r: &mut Rng, s: &str) -> String {
    let mut v: Vec<char> = s.chars().collect();
    let c = *r.pick(ALPHABET);
    match r.below(3) {
        0 if !v.is_empty() => { let i = r.below(v.len()); v.remove(i); }
        1 if !v.is_empty() => { let i = r.below(v.len()); v[i] = c; }
        _ => { let i = r.below(v.len() + 1); v.insert(i, c); }
    }
    v.into_iter().collect()
}

const DIRECTED_BASES: &[&str] = &["s:/a", "s:a", "s:", "s://h", "s://h/", "http://a/b/c/d;p?q", "s:/a/b", "s:a/b", "s://h?q", "s:/.."];
const DIRECTED_REFS: &[&str] = &["", ".", "..", "./", "../", "../..", "../../..", "/.//x", "/./", "/..", "//h/..", "//h/./x", "g:h", "g:/a/../b", "g:a/./b", "?y", "#s", "./g:h", "..//x", ".//x", "x/../../../y", "/", "//", "///x", "a/./b/../c", "%2e%2e/x", ".a", "..a/b", "http:g", ";x", "g;x=1/../y"];
/// bases that are relative references (BaseIriRef / IriRef::resolve)
const DIRECTED_REL_BASES: &[&str] = &["", "a", "a/b", "a/b/", "/", "/a", "/a/b", "//h", "//h/", "//h/a/b", "?q", "#f", "a?q#f", ".", "..", "../a", "a/../b", "./a", "//h?q", "/..", "/.", "a/", "//u@[::1]:8/x/y", "\u{e9}/\u{e9}"];

/// (relative base, reference) pairs: the last segment of the base replaced / dot segments climbing above a relative
/// base / a first segment with ':' uncovered by the removal of "./" or of the root (results that are no IRI reference)
const DIRECTED_REL_PAIRS: &[(&str, &str)] = &[("", "./:"), (".", "./:?Z"), ("/@", "/../,:v/~#v@'~"), ("a", "./b:c"), ("a/b", "../../c:d"), ("", ""), ("a/b/c", "../../../../x"), ("/a/b", "../../../x:y"),
    ("//h", "../x:y"), ("//h/a", "/.//x"), ("/a", "/.//x"), ("a", "/.//x"), ("a?q", ""), ("a?q", "#f"), ("a?q#g", "?r"), ("//h?q", "x"), ("a/b", "//k/../l"), ("x", "s:a/../b"), ("..", ".."), ("../a", "../b"), ("a//b", ".."), ("", "."), ("", ".."), ("", "../:")];

/// comparison of an observed result of the typed resolution against RFC 3986 5.2 (the property); same texts for every
/// absolute base
fn spec_check(b: &str, rf: &str, got: &Result<String, String>, inputs_rfc_valid: bool, fails: &mut Vec<String>, sum: &mut Summary) {
    let expected = resolve52(b, rf);
    match got {
        Ok(g) => {
            if *g != expected {
                let (pb, pr) = (parse5(b), parse5(rf));
                let dotty = |p: &str| p.split('/').any(|x| x == "." || x == "..");
                let tag = if pr.scheme.is_some() || pr.authority.is_some() { "dot segments are kept in a reference that has a scheme or an authority" }
                    else if !pr.path.starts_with('/') && !pr.path.is_empty() && dotty(&pb.path) { "dot segments of the base path are kept" }
                    else if pb.authority.is_none() { "'..' above the root of a base without authority" }
                    else { "other" };
                fails.push(format!("[resolve differs from RFC 3986 5.2: {tag}] resolving {} against {} gives {} but RFC 3986 5.2 gives {}", show(rf), show(b), show(g), show(&expected)));
                sum.bump(&format!("resolve:differs-from-5.2:{tag}"));
            }
            if !rfc_iri(g) { fails.push(format!("[resolve result is not an IRI] resolving {} against {} gives {} which is not an RFC 3987 IRI", show(rf), show(b), show(g))); }
            else if !Iri::new(g.as_str()).is_ok() && inputs_rfc_valid { fails.push(format!("[resolve result is rejected] resolving {} against {} gives {} which Iri::new rejects", show(rf), show(b), show(g))); }
        }
        Err(p) => { fails.push(format!("[resolve panics] resolving the accepted reference {} against the accepted base {} panics ({p}); RFC 3986 5.2 gives {}", show(rf), show(b), show(&expected))); sum.bump("resolve:panic"); }
    }
}
// =====================================================================================
fn quiet<T>(f: impl FnOnce() -> T) -> Result<T, String> {
    catch_unwind(AssertUnwindSafe(f)).map_err(|e| e.downcast_ref::<String>().cloned().or_else(|| e.downcast_ref::<&str>().map(|s| s.to_string())).unwrap_or_else(|| "panic".into()))
}
struct Verdict { abs: bool, rel: bool, iri: bool, iref: bool, o_iri: bool, o_rel: bool }
fn verdicts(s: &str) -> Verdict {
    Verdict { abs: is_absolute_iri_ref(s), rel: is_relative_iri_ref(s), iri: Iri::new(s).is_ok(), iref: IriRef::new(s).is_ok(), o_iri: rfc_iri(s), o_rel: rfc_irelative_ref(s) }
}
fn show(s: &str) -> String { format!("{:?}", s) }

// =====================================================================================
// the other public entry points: every container type of the wrappers, every way back from a wrapper to
// its text, the comparison/hash impls, BaseIri/BaseIriRef with their component accessors, Namespace's other
// constructors, and every resolve entry point (typed / &str, owned / borrowed, resolve / resolve_into,
// absolute / relative base)
// =====================================================================================
fn st<T: Borrow<str>>(t: &T) -> &str { <T as Borrow<str>>::borrow(t) }
fn hash_of<T: Hash + ?Sized>(x: &T) -> u64 { let mut h = DefaultHasher::new(); x.hash(&mut h); h.finish() }
fn leak(s: &str) -> &'static str { Box::leak(s.to_string().into_boxed_str()) }

macro_rules! wrapper_checks { ($fname:ident, $W:ident) => {
    /// `$W::new` on the container type T: verdict and error payload; for an accepted value every accessor and
    /// conversion gives back the text; Eq/Ord/Hash and the comparisons with `str` are those of the text.
    /// Returns Ord::cmp($W(s), $W(other)) when both are accepted.
    fn $fname<'a, T>(tn: &str, mk: &dyn Fn(&'a str) -> T, s: &'a str, accepted: bool, other: Option<&'a str>, fails: &mut Vec<String>) -> Option<Ordering>
    where T: Borrow<str> + Clone + Hash + Ord {
        let w = stringify!($W);
        let r = quiet(|| -> (Vec<String>, Option<Ordering>) {
            let mut f = vec![];
            let mut ord = None;
            match $W::new(mk(s)) {
                Err(InvalidIri(e)) => {
                    if accepted { f.push(format!("{w}::<{tn}>::new({}) is Err although {w}::<&str>::new accepts the same text", show(s))); }
                    if e != s { f.push(format!("{w}::<{tn}>::new({}) returns InvalidIri({}), not the rejected text", show(s), show(&e))); }
                }
                Ok(i) => {
                    if !accepted { f.push(format!("{w}::<{tn}>::new({}) is Ok although {w}::<&str>::new rejects the same text", show(s))); }
                    let texts: Vec<(&str, String)> = vec![
                        ("as_str()", i.as_str().to_string()),
                        ("Deref", { let t: &T = &*i; st(t).to_string() }),
                        ("AsRef<T>", st(<$W<T> as AsRef<T>>::as_ref(&i)).to_string()),
                        ("Borrow<T>", st(<$W<T> as Borrow<T>>::borrow(&i)).to_string()),
                        ("AsRef<str>", <$W<T> as AsRef<str>>::as_ref(&i).to_string()),
                        ("Borrow<str>", <$W<T> as Borrow<str>>::borrow(&i).to_string()),
                        ("as_ref().unwrap()", { let b: $W<&str> = i.as_ref(); b.unwrap().to_string() }),
                        ("Display", i.to_string()),
                        ("as_iri_ref()", { let b: IriRef<&str> = i.as_iri_ref(); b.as_str().to_string() }),
                        ("clone().unwrap()", st(&i.clone().unwrap()).to_string()),
                        ("map_unchecked(to_string)", { let m: $W<String> = i.clone().map_unchecked(|t| st(&t).to_string()); m.unwrap() }),
                        ("map_unchecked(identity)", { let m: $W<T> = i.clone().map_unchecked(|t| t); m.as_str().to_string() }),
                        ("new_unchecked", $W::new_unchecked(mk(s)).as_str().to_string()),
                    ];
                    for (n, t) in texts { if t != s { f.push(format!("{w}::<{tn}>::new({}) then {n} gives {}", show(s), show(&t))); } }
                    if hash_of(&i) != hash_of(s) { f.push(format!("{w}::<{tn}>({}) does not hash like its text", show(s))); }
                    if let Some(o) = other { if let Ok(j) = $W::new(mk(o)) {
                        let exp = s.cmp(o);
                        let c = Ord::cmp(&i, &j);
                        ord = Some(c);
                        let ords = [("Ord::cmp", Some(c)), ("PartialOrd", PartialOrd::partial_cmp(&i, &j)), ("PartialOrd (swapped)", PartialOrd::partial_cmp(&j, &i).map(Ordering::reverse)),
                                    ("PartialOrd<str>", <$W<T> as PartialOrd<str>>::partial_cmp(&i, o)), ("str: PartialOrd<_>", <str as PartialOrd<$W<T>>>::partial_cmp(o, &i).map(Ordering::reverse))];
                        for (n, x) in ords { if x != Some(exp) { f.push(format!("{n} of {w}::<{tn}>({}) and {} is {:?}, the texts compare {:?}", show(s), show(o), x, exp)); } }
                        let eqs = [("PartialEq", i == j), ("PartialEq (swapped)", j == i), ("not !=", !(i != j)), ("PartialEq<str>", <$W<T> as PartialEq<str>>::eq(&i, o)), ("str: PartialEq<_>", <str as PartialEq<$W<T>>>::eq(o, &i))];
                        for (n, x) in eqs { if x != (exp == Ordering::Equal) { f.push(format!("{n} of {w}::<{tn}>({}) and {} is {x}, the texts compare {:?}", show(s), show(o), exp)); } }
                        if exp == Ordering::Equal && hash_of(&i) != hash_of(&j) { f.push(format!("equal {w}::<{tn}>({}) hash differently", show(s))); }
                    } }
                }
            }
            (f, ord)
        });
        match r { Ok((f, o)) => { fails.extend(f); o } Err(p) => { fails.push(format!("{w}::<{tn}> accessors/conversions of {} panic: {p}", show(s))); None } }
    }
} }
wrapper_checks!(iri_wrapper_checks, Iri);
wrapper_checks!(iriref_wrapper_checks, IriRef);
/// run a wrapper check over every container type; all observed orderings were compared with the text's ordering
macro_rules! over_containers { ($f:ident, $s:expr, $acc:expr, $other:expr, $fails:expr) => {{
    let o = [
        $f("&str", &|x| x, $s, $acc, $other, $fails),
        $f("String", &|x: &str| x.to_string(), $s, $acc, $other, $fails),
        $f("Box<str>", &|x: &str| Box::<str>::from(x), $s, $acc, $other, $fails),
        $f("Rc<str>", &|x: &str| Rc::<str>::from(x), $s, $acc, $other, $fails),
        $f("Arc<str>", &|x: &str| Arc::<str>::from(x), $s, $acc, $other, $fails),
        $f("Cow::Borrowed", &|x| Cow::Borrowed(x), $s, $acc, $other, $fails),
        $f("Cow::Owned", &|x: &str| Cow::<str>::Owned(x.to_string()), $s, $acc, $other, $fails),
    ];
    o[0]
}} }
/// comparisons between wrappers over different containers, and the `const` constructors
fn hetero_checks(s: &str, o: &str, iri: bool, fails: &mut Vec<String>) {
    let exp = s == o;
    let r = quiet(|| {
        let mut e: Vec<(&str, bool, bool)> = vec![];
        let (a, b) = (IriRef::new(s).unwrap(), IriRef::new(o).unwrap());
        let (ao, bo) = (IriRef::new(s.to_string()).unwrap(), IriRef::new(o.to_string()).unwrap());
        let (ac, bc) = (IriRef::new(Cow::Borrowed(s)).unwrap(), IriRef::new(Cow::<str>::Owned(o.to_string())).unwrap());
        e.push(("IriRef<String> == IriRef<&str>", ao == b, exp)); e.push(("IriRef<&str> == IriRef<String>", a == bo, exp));
        e.push(("IriRef<Cow> == IriRef<&str>", ac == b, exp)); e.push(("IriRef<&str> == IriRef<Cow>", a == bc, exp)); e.push(("IriRef<String> == IriRef<Cow>", ao == bc, exp));
        let k = IriRef::new_unchecked_const(leak(s));
        e.push(("IriRef::new_unchecked_const == IriRef<String>", k == bo, exp));
        e.push(("IriRef::new_unchecked_const keeps the text", k.as_str() == s, true));
        if iri {
            let (a, b) = (Iri::new(s).unwrap(), Iri::new(o).unwrap());
            let (ao, bo) = (Iri::new(s.to_string()).unwrap(), Iri::new(o.to_string()).unwrap());
            let bc = Iri::new(Cow::<str>::Owned(o.to_string())).unwrap();
            e.push(("Iri<String> == Iri<&str>", ao == b, exp)); e.push(("Iri<&str> == Iri<String>", a == bo, exp)); e.push(("Iri<&str> == Iri<Cow>", a == bc, exp));
            let k = Iri::new_unchecked_const(leak(s));
            e.push(("Iri::new_unchecked_const == Iri<String>", k == bo, exp));
            e.push(("Iri::new_unchecked_const keeps the text", k.as_str() == s, true));
        }
        e
    });
    match r {
        Ok(e) => for (n, x, want) in e { if x != want { fails.push(format!("{n} is {x} for {} and {}", show(s), show(o))); } },
        Err(p) => fails.push(format!("heterogeneous comparison of {} and {} panics: {p}", show(s), show(o))),
    }
}

/// BaseIri::new / BaseIriRef::new (the resolver's own recogniser) on any string; for an accepted value:
/// as_base / to_base / to_base_iri / as_ref / into_inner / Borrow / Deref / as_iri / as_iri_ref keep the text, and the
/// components reported through Deref are those of RFC 3986 appendix B.  Returns (BaseIri::new ok, BaseIriRef::new ok,
/// components reported for an accepted value).
fn base_checks(s: &str, v: &Verdict, fails: &mut Vec<String>) -> (bool, bool, Option<(bool, Parts)>) {
    let ox_abs = BaseIri::new(s).is_ok();
    let ox_ref = BaseIriRef::new(s).is_ok();
    for (n, x, e) in [("BaseIri::<String>::new", BaseIri::new(s.to_string()).is_ok(), ox_abs), ("BaseIri::<Box<str>>::new", BaseIri::new(Box::<str>::from(s)).is_ok(), ox_abs),
                      ("BaseIriRef::<String>::new", BaseIriRef::new(s.to_string()).is_ok(), ox_ref), ("BaseIriRef::<Rc<str>>::new", BaseIriRef::new(Rc::<str>::from(s)).is_ok(), ox_ref)] {
        if x != e { fails.push(format!("{n}({}).is_ok() = {x} but {e} on a &str", show(s))); }
    }
    if ox_abs != v.o_iri { fails.push(format!("[resolver's recogniser differs from RFC 3987] BaseIri::new({}).is_ok() = {ox_abs} but the RFC 3987 rule IRI {} it", show(s), if v.o_iri { "accepts" } else { "rejects" })); }
    if ox_ref != (v.o_iri || v.o_rel) { fails.push(format!("[resolver's recogniser differs from RFC 3987] BaseIriRef::new({}).is_ok() = {ox_ref} but the RFC 3987 rule IRI-reference {} it", show(s), if v.o_iri || v.o_rel { "accepts" } else { "rejects" })); }
    let mut comp = None;
    if v.iref {
        let r = quiet(|| {
            let mut f: Vec<String> = vec![];
            let i = IriRef::new(s).unwrap();
            let b: BaseIriRef<&str> = i.as_base();
            let bo: BaseIriRef<String> = IriRef::new(s.to_string()).unwrap().to_base();
            let bb: BaseIriRef<Box<str>> = IriRef::new(Box::<str>::from(s)).unwrap().to_base();
            let mut texts: Vec<(&str, String)> = vec![
                ("IriRef::as_base() Borrow<str>", <BaseIriRef<&str> as Borrow<str>>::borrow(&b).to_string()),
                ("IriRef::as_base() Deref as_str", b.as_str().to_string()),
                ("IriRef::as_base() to_string", b.to_string()),
                ("IriRef::as_base().as_iri_ref()", b.as_iri_ref().as_str().to_string()),
                ("IriRef::<String>::to_base() Borrow<str>", <BaseIriRef<String> as Borrow<str>>::borrow(&bo).to_string()),
                ("IriRef::<Box<str>>::to_base() Deref as_str", bb.as_str().to_string()),
                ("IriRef::<String>::to_base().as_iri_ref()", bo.as_iri_ref().unwrap().to_string()),
            ];
            if !(b == BaseIriRef::new(s).unwrap()) { f.push(format!("IriRef::as_base() of {} differs from BaseIriRef::new of the same text", show(s))); }
            let parts_of = |x: &BaseIriRef<&str>| Parts { scheme: x.scheme().map(String::from), authority: x.authority().map(String::from), path: x.path().to_string(), query: x.query().map(String::from), fragment: x.fragment().map(String::from) };
            let p = parts_of(&b);
            let po = Parts { scheme: bo.scheme().map(String::from), authority: bo.authority().map(String::from), path: bo.path().to_string(), query: bo.query().map(String::from), fragment: bo.fragment().map(String::from) };
            if p != po { f.push(format!("as_base() and to_base() of {} report different components: {:?} vs {:?}", show(s), p, po)); }
            let abs = b.is_absolute();
            if abs != bo.is_absolute() { f.push(format!("as_base() and to_base() of {} disagree on is_absolute", show(s))); }
            if abs {
                let a: BaseIri<&str> = b.clone().to_base_iri();
                let ao: BaseIri<String> = bo.clone().to_base_iri();
                texts.push(("to_base_iri() as_str", a.as_str().to_string()));
                texts.push(("to_base_iri().as_iri()", a.as_iri().as_str().to_string()));
                texts.push(("to_base_iri() [String] as_ref()", BaseIri::as_ref(&ao).as_str().to_string()));
                texts.push(("to_base_iri() [String] into_inner()", ao.into_inner()));
            }
            for (n, t) in texts { if t != s { f.push(format!("IriRef::new({}) then {n} gives {}", show(s), show(&t))); } }
            (f, abs, p)
        });
        match r {
            Ok((f, abs, p)) => {
                fails.extend(f);
                if abs != v.o_iri { fails.push(format!("BaseIriRef({}).is_absolute() = {abs} but RFC 3987 IRI says {}", show(s), v.o_iri)); }
                let e = parse5(s);
                if p != e { fails.push(format!("[components differ from RFC 3986 appendix B] BaseIriRef({}) reports {:?}, appendix B gives {:?}", show(s), p, e)); }
                comp = Some((abs, p));
            }
            Err(p) => fails.push(format!("IriRef::new({}) is accepted but the conversions to/through BaseIriRef panic: {p}", show(s))),
        }
    }
    if v.iri {
        let r = quiet(|| {
            let mut f: Vec<String> = vec![];
            let i = Iri::new(s).unwrap();
            let a: BaseIri<&str> = i.as_base();
            let ao: BaseIri<String> = Iri::new(s.to_string()).unwrap().to_base();
            let aa: BaseIri<Arc<str>> = Iri::new(Arc::<str>::from(s)).unwrap().to_base();
            let texts: Vec<(&str, String)> = vec![
                ("as_iri()", i.as_iri().as_str().to_string()),
                ("as_base() Borrow<str>", <BaseIri<&str> as Borrow<str>>::borrow(&a).to_string()),
                ("as_base() Deref as_str", a.as_str().to_string()),
                ("as_base().as_ref()", BaseIri::as_ref(&a).as_str().to_string()),
                ("as_base().as_iri()", a.as_iri().as_str().to_string()),
                ("as_base().as_iri_ref()", a.as_iri_ref().as_str().to_string()),
                ("as_base().clone().into_inner()", a.clone().into_inner().to_string()),
                ("to_base() [String] as_ref()", BaseIri::as_ref(&ao).as_str().to_string()),
                ("to_base() [String] Borrow<str>", <BaseIri<String> as Borrow<str>>::borrow(&ao).to_string()),
                ("to_base() [Arc<str>] into_inner()", aa.into_inner().to_string()),
                ("to_base() [String] into_inner()", ao.clone().into_inner()),
            ];
            for (n, t) in texts { if t != s { f.push(format!("Iri::new({}) then {n} gives {}", show(s), show(&t))); } }
            if !(a == BaseIri::new(s).unwrap()) { f.push(format!("Iri::as_base() of {} differs from BaseIri::new of the same text", show(s))); }
            let p = Parts { scheme: Some(a.scheme().to_string()), authority: a.authority().map(String::from), path: a.path().to_string(), query: a.query().map(String::from), fragment: a.fragment().map(String::from) };
            let po = Parts { scheme: Some(ao.scheme().to_string()), authority: ao.authority().map(String::from), path: ao.path().to_string(), query: ao.query().map(String::from), fragment: ao.fragment().map(String::from) };
            if p != po { f.push(format!("Iri::as_base() and to_base() of {} report different components", show(s))); }
            (f, p)
        });
        match r {
            Ok((f, p)) => { fails.extend(f); if comp.as_ref().map(|c| &c.1) != Some(&p) { fails.push(format!("BaseIri({}) and BaseIriRef of the same text report different components: {:?} vs {:?}", show(s), p, comp)); } }
            Err(p) => fails.push(format!("Iri::new({}) is accepted but the conversions to/through BaseIri panic: {p}", show(s))),
        }
    }
    (ox_abs, ox_ref, comp)
}

/// Namespace: the other constructors and what `get` / `get_unchecked` return
fn namespace_checks(ns: &str, suf: &str, s: &str, ns_ok: bool, get_ok: bool, fails: &mut Vec<String>) {
    let r = quiet(|| {
        let mut f: Vec<String> = vec![];
        match Namespace::new(ns.to_string()) {
            Err(InvalidIri(e)) => { if ns_ok { f.push(format!("Namespace::<String>::new({}) is Err, on a &str it is Ok", show(ns))); } if e != ns { f.push(format!("Namespace::new({}) returns InvalidIri({})", show(ns), show(&e))); } }
            Ok(n) => {
                if !ns_ok { f.push(format!("Namespace::<String>::new({}) is Ok, on a &str it is Err", show(ns))); }
                let g = n.get(suf).is_ok();
                if g != get_ok { f.push(format!("Namespace::<String>({}).get({}).is_ok() = {g}, with a &str namespace {get_ok}", show(ns), show(suf))); }
            }
        }
        if ns_ok {
            let n = Namespace::new(ns).unwrap();
            let k = Namespace::new_unchecked_const(leak(ns));
            let mut texts: Vec<(&str, String, &str)> = vec![
                ("Deref as_str", n.as_str().to_string(), ns),
                ("inner()", n.inner().unwrap().to_string(), ns),
                ("From<IriRef>", Namespace::from(IriRef::new(ns).unwrap()).inner().unwrap().to_string(), ns),
                ("From<IriRef<Box<str>>>", Namespace::from(IriRef::new(Box::<str>::from(ns)).unwrap()).as_str().to_string(), ns),
                ("new_unchecked", Namespace::new_unchecked(ns).as_str().to_string(), ns),
                ("new_unchecked_const", k.as_str().to_string(), ns),
                ("get_unchecked to_string", n.get_unchecked(suf).to_string(), s),
                ("new_unchecked_const get_unchecked", k.get_unchecked(suf).to_string(), s),
            ];
            if k.get(suf).is_ok() != get_ok { f.push(format!("Namespace::new_unchecked_const({}).get({}).is_ok() differs from Namespace::new(..).get", show(ns), show(suf))); }
            let nf = Namespace::from(IriRef::new(ns).unwrap());
            if nf.get(suf).is_ok() != get_ok { f.push(format!("Namespace::from(IriRef({})).get({}).is_ok() differs from Namespace::new(..).get", show(ns), show(suf))); }
            if let Ok(t) = n.get(suf) {
                texts.push(("get to_string", t.to_string(), s));
                texts.push(("get iriref()", t.iriref().as_str().to_string(), s));
                texts.push(("get to_iriref()", t.to_iriref().as_str().to_string(), s));
            }
            for (m, t, e) in texts { if t != e { f.push(format!("Namespace({}) / suffix {}: {m} gives {}", show(ns), show(suf), show(&t))); } }
        }
        f
    });
    match r { Ok(f) => fails.extend(f), Err(p) => fails.push(format!("Namespace({}) with suffix {}: a constructor or accessor panics: {p}", show(ns), show(suf))) }
}

/// does the first path segment (the part before the first '/', '?' or '#') contain a ':'
fn first_colon_segment(s: &str) -> bool { s.split(|c| c == '/' || c == '?' || c == '#').next().unwrap_or("").contains(':') }
/// what every resolve entry point returns for one (base, reference)
struct ResObs {
    /// reference passed as a typed value (only when IriRef::new accepts it): Ok(text) or Err(panic message)
    typed: Vec<(&'static str, Result<String, String>)>,
    /// reference passed as &str: Ok(Some(text)) / Ok(None) for Err(IriParseError) / Err(panic message)
    strv: Vec<(&'static str, Result<Option<String>, String>)>,
    /// Debug text of the first IriParseError
    err: Option<String>,
}
fn resolve_all(base: &str, base_abs: bool, rf: &str, rf_ref: bool, rf_abs: bool) -> ResObs {
    let mut typed: Vec<(&'static str, Result<String, String>)> = vec![];
    let mut strv: Vec<(&'static str, Result<Option<String>, String>)> = vec![];
    let mut err = None;
    if base_abs {
        if rf_ref {
            typed.push(("BaseIri<&str>::resolve(IriRef<&str>)", quiet(|| { let bi = Iri::new(base).unwrap(); let b = bi.as_base(); b.resolve(IriRef::new(rf).unwrap()).unwrap() })));
            typed.push(("Iri<&str>::resolve(IriRef<&str>)", quiet(|| Iri::new(base).unwrap().resolve(IriRef::new(rf).unwrap()).unwrap())));
            typed.push(("Iri<Box<str>>::resolve(IriRef<Rc<str>>)", quiet(|| Iri::new(Box::<str>::from(base)).unwrap().resolve(IriRef::new(Rc::<str>::from(rf)).unwrap()).unwrap())));
            typed.push(("BaseIri<String>::resolve(IriRef<String>)", quiet(|| Iri::new(base.to_string()).unwrap().to_base().resolve(IriRef::new(rf.to_string()).unwrap()).unwrap())));
            typed.push(("BaseIri::as_ref().resolve(BaseIriRef<&str>)", quiet(|| { let b = Iri::new(base.to_string()).unwrap().to_base(); let ri = IriRef::new(rf).unwrap(); BaseIri::as_ref(&b).resolve(ri.as_base()).unwrap() })));
            typed.push(("BaseIri::resolve_into(IriRef<&str>)", quiet(|| { let bi = Iri::new(base).unwrap(); let b = bi.as_base(); let mut buf = String::new(); let o = b.resolve_into(IriRef::new(rf).unwrap(), &mut buf).as_str().to_string(); if o == buf { o } else { format!("{o} [but the buffer holds {buf}]") } })));
            typed.push(("BaseIri::resolve_into(IriRef<String>) in a cleared buffer", quiet(|| { let b = Iri::new(base.to_string()).unwrap().to_base(); let mut buf = String::from("s:previous/content"); buf.clear(); let o = b.resolve_into(IriRef::new(rf.to_string()).unwrap(), &mut buf).unwrap().to_string(); if o == buf { o } else { format!("{o} [but the buffer holds {buf}]") } })));
            // the buffer is the caller's: whatever it held before must not show in the result (nor make the call panic)
            typed.push(("BaseIri::resolve_into(IriRef<&str>) in a USED buffer", quiet(|| { let bi = Iri::new(base).unwrap(); let b = bi.as_base(); let mut buf = String::from("previous content"); let o = b.resolve_into(IriRef::new(rf).unwrap(), &mut buf).as_str().to_string(); if o == buf { o } else { format!("{o} [but the buffer holds {buf}]") } })));
            typed.push(("BaseIri::resolve_into(IriRef<&str>) in a buffer holding the base", quiet(|| { let bi = Iri::new(base).unwrap(); let b = bi.as_base(); let mut buf = format!("{base}/../x:y?#"); let o = b.resolve_into(IriRef::new(rf).unwrap(), &mut buf).as_str().to_string(); if o == buf { o } else { format!("{o} [but the buffer holds {buf}]") } })));
            if rf_abs {
                typed.push(("BaseIri::resolve(Iri<&str>)", quiet(|| { let bi = Iri::new(base).unwrap(); bi.as_base().resolve(Iri::new(rf).unwrap()).unwrap() })));
                typed.push(("BaseIri::resolve(BaseIri<String>)", quiet(|| { let bi = Iri::new(base).unwrap(); bi.as_base().resolve(Iri::new(rf.to_string()).unwrap().to_base()).unwrap() })));
            }
            typed.push(("BaseIriRef::to_base_iri().resolve(IriRef<&str>)", quiet(|| IriRef::new(base).unwrap().to_base().to_base_iri().resolve(IriRef::new(rf).unwrap()).unwrap())));
        }
        strv.push(("BaseIri::resolve(&str)", quiet(|| { let bi = Iri::new(base).unwrap(); bi.as_base().resolve(rf).map(|i| i.unwrap()).map_err(|e| format!("{e:?}")) }).map(|x| match x { Ok(t) => Some(t), Err(e) => { err.get_or_insert(e); None } })));
        strv.push(("BaseIri::resolve_into(&str)", quiet(|| { let b = Iri::new(base.to_string()).unwrap().to_base(); let mut buf = String::new(); let o = b.resolve_into(rf, &mut buf).ok().map(|i| i.as_str().to_string()); o.map(|o| if o == buf { o } else { format!("{o} [but the buffer holds {buf}]") }) })));
    }
    if rf_ref {
        typed.push(("BaseIriRef<&str>::resolve(IriRef<&str>)", quiet(|| { let bi = IriRef::new(base).unwrap(); let b = bi.as_base(); b.resolve(IriRef::new(rf).unwrap()).unwrap() })));
        typed.push(("IriRef<&str>::resolve(IriRef<&str>)", quiet(|| IriRef::new(base).unwrap().resolve(IriRef::new(rf).unwrap()).unwrap())));
        typed.push(("IriRef<Arc<str>>::resolve(IriRef<Cow>)", quiet(|| IriRef::new(Arc::<str>::from(base)).unwrap().resolve(IriRef::new(Cow::Borrowed(rf)).unwrap()).unwrap())));
        typed.push(("BaseIriRef<String>::resolve(BaseIriRef<&str>)", quiet(|| { let ri = IriRef::new(rf).unwrap(); IriRef::new(base.to_string()).unwrap().to_base().resolve(ri.as_base()).unwrap() })));
        typed.push(("BaseIriRef::resolve_into(IriRef<&str>)", quiet(|| { let bi = IriRef::new(base).unwrap(); let b = bi.as_base(); let mut buf = String::new(); let o = b.resolve_into(IriRef::new(rf).unwrap(), &mut buf).as_str().to_string(); if o == buf { o } else { format!("{o} [but the buffer holds {buf}]") } })));
        typed.push(("BaseIriRef::resolve_into(IriRef<&str>) in a USED buffer", quiet(|| { let bi = IriRef::new(base).unwrap(); let b = bi.as_base(); let mut buf = String::from("previous content"); let o = b.resolve_into(IriRef::new(rf).unwrap(), &mut buf).as_str().to_string(); if o == buf { o } else { format!("{o} [but the buffer holds {buf}]") } })));
        typed.push(("BaseIriRef::resolve_into(IriRef<&str>) in a buffer holding the base", quiet(|| { let bi = IriRef::new(base).unwrap(); let b = bi.as_base(); let mut buf = format!("{base}/../x:y?#"); let o = b.resolve_into(IriRef::new(rf).unwrap(), &mut buf).as_str().to_string(); if o == buf { o } else { format!("{o} [but the buffer holds {buf}]") } })));
        if rf_abs { typed.push(("BaseIriRef::resolve(Iri<&str>)", quiet(|| { let bi = IriRef::new(base).unwrap(); bi.as_base().resolve(Iri::new(rf).unwrap()).unwrap() }))); }
    }
    strv.push(("BaseIriRef::resolve(&str)", quiet(|| { let bi = IriRef::new(base).unwrap(); bi.as_base().resolve(rf).map(|i| i.unwrap()).map_err(|e| format!("{e:?}")) }).map(|x| match x { Ok(t) => Some(t), Err(e) => { err.get_or_insert(e); None } })));
    strv.push(("BaseIriRef::resolve_into(&str) in a USED buffer", quiet(|| { let b = IriRef::new(base.to_string()).unwrap().to_base(); let mut buf = String::from("s:previous/content?q#f"); let o = b.resolve_into(rf, &mut buf).ok().map(|i| i.as_str().to_string()); o.map(|o| if o == buf { o } else { format!("{o} [but the buffer holds {buf}]") }) })));
    strv.push(("BaseIriRef::resolve_into(&str)", quiet(|| { let b = IriRef::new(base.to_string()).unwrap().to_base(); let mut buf = String::new(); let o = b.resolve_into(rf, &mut buf).ok().map(|i| i.as_str().to_string()); o.map(|o| if o == buf { o } else { format!("{o} [but the buffer holds {buf}]") }) })));
    ResObs { typed, strv, err }
}
/// all entry points agree with one another; the &str entry points accept exactly the RFC 3987 references (but for the
/// known corner where the resolver refuses a path that would start with "//"); the result is an accepted value.
/// Returns (typed result if the reference is typed, &str result).
fn resolve_consistency(base: &str, base_abs: bool, rf: &str, rf_valid_rfc: bool, o: &ResObs, fails: &mut Vec<String>, sum: &mut Summary) -> (Option<Result<String, String>>, Option<Option<String>>) {
    let what = if base_abs { "absolute" } else { "relative" };
    let typed0 = o.typed.first().map(|x| x.1.clone());
    if let Some((n0, t0)) = o.typed.first() {
        for (n, t) in &o.typed[1..] {
            let same = match (t0, t) { (Ok(a), Ok(b)) => a == b, (Err(_), Err(_)) => true, _ => false };
            if !same { fails.push(format!("resolve entry points differ on base {} ref {}: {n0} gives {:?}, {n} gives {:?}", show(base), show(rf), t0, t)); }
        }
    }
    let mut str0: Option<Option<String>> = None;
    for (n, t) in &o.strv {
        match t {
            Err(p) if !base_abs && p.contains("InvalidIri(") => fails.push(format!("[relative base: resolve result is not an IRI reference] {n} of {} against the accepted relative base {} panics in IriRef::new_unchecked (dev build; a release build returns the invalid value): {p}", show(rf), show(base))),
            Err(p) => fails.push(format!("[resolve(&str) panics] {n} of {} against the {what} base {} panics: {p}", show(rf), show(base))),
            Ok(x) => match &str0 { None => str0 = Some(x.clone()), Some(y) => if x != y { fails.push(format!("resolve entry points differ on base {} ref {}: {} gives {:?}, {n} gives {:?}", show(base), show(rf), o.strv[0].0, y, x)); } },
        }
    }
    if let (Some(t), Some(x)) = (&typed0, &str0) {
        if t.as_ref().ok() != x.as_ref() { fails.push(format!("typed and &str resolution differ on base {} ref {}: {:?} vs {:?}", show(base), show(rf), t, x)); }
    }
    match &str0 {
        Some(Some(x)) => {
            sum.bump("resolve(&str):Ok");
            if !rf_valid_rfc { fails.push(format!("[resolver's recogniser differs from RFC 3987] resolve(&str) against {} accepts {} which is not an RFC 3987 IRI reference (result {})", show(base), show(rf), show(x))); }
            let ok = if base_abs { rfc_iri(x) } else { rfc_iri(x) || rfc_irelative_ref(x) };
            if !ok && typed0.is_none() { fails.push(format!("[resolve result is not an IRI] resolve(&str) of {} against {} gives {} which is not an RFC 3987 {}", show(rf), show(base), show(x), if base_abs { "IRI" } else { "IRI reference" })); }
        }
        Some(None) => {
            let two = o.err.as_deref().map_or(false, |e| e.contains("PathStartingWithTwoSlashes"));
            if rf_valid_rfc && two { sum.bump("resolve(&str):Err on the known '//' corner"); }
            else if rf_valid_rfc { fails.push(format!("[resolver's recogniser differs from RFC 3987] resolve(&str) against {} rejects the valid reference {} ({:?})", show(base), show(rf), o.err)); }
            else { sum.bump("resolve(&str):Err on an invalid reference"); }
        }
        None => {}
    }
    (typed0, str0)
}

// =====================================================================================
// the serde entry points (iri/src/_serde.rs)
// =====================================================================================
/// what one construction path did: Ok(Some(text held by the constructed value)) / Ok(None) = Err returned / Err(panic)
type Out = Result<Option<String>, String>;
trait Txt { fn txt(&self) -> String; }
impl<T: Borrow<str>> Txt for Iri<T> { fn txt(&self) -> String { self.as_str().to_string() } }
impl<T: Borrow<str>> Txt for IriRef<T> { fn txt(&self) -> String { self.as_str().to_string() } }
fn rec<W: Txt, E>(v: &mut Vec<(String, Out)>, w: &str, name: &str, f: impl FnOnce() -> Result<W, E>) { v.push((format!("{w}{name}"), quiet(|| f().ok().map(|i| i.txt())))); }
/// JSON string literal with every non-ASCII or control character (and ':' '/' '?' '#') written as \uXXXX (surrogate pairs)
fn json_all_escaped(s: &str) -> String {
    let mut o = String::from("\"");
    for c in s.chars() {
        if c.is_ascii_alphanumeric() { o.push(c); } else { let mut b = [0u16; 2]; for u in c.encode_utf16(&mut b) { o.push_str(&format!("\\u{:04x}", u)); } }
    }
    o.push('"');
    o
}
#[derive(Serialize, Deserialize, Debug)] struct IriDoc { id: Iri<String> }
#[derive(Serialize, Deserialize, Debug)] struct IriRefDoc { id: IriRef<String> }
#[derive(Deserialize, Debug)] struct IriBorrowDoc<'a> { #[serde(borrow)] id: Iri<&'a str> }
#[derive(Deserialize, Debug)] struct IriRefBorrowDoc<'a> { #[serde(borrow)] id: IriRef<&'a str> }
#[derive(Serialize, Deserialize, Debug)] struct IriBoxDoc { n: u8, id: Iri<Box<str>>, tail: Vec<u8> }
#[derive(Serialize, Deserialize, Debug)] struct IriRefBoxDoc { n: u8, id: IriRef<Box<str>>, tail: Vec<u8> }
/// the table of the crate's own tests
#[derive(Serialize, Deserialize, Debug)] struct MyTable { iri: Option<Iri<String>>, iriref: Option<IriRef<String>> }
#[derive(Serialize, Deserialize, Debug)] struct MyUncheckedTable { iri: Option<String>, iriref: Option<String> }
#[derive(Serialize, Debug)] struct RawDoc<'a> { id: &'a str }
#[derive(Serialize, Deserialize, Debug)] enum Tagged { Abs(Iri<String>), Ref(IriRef<String>) }
#[derive(Serialize, Deserialize, Debug)] #[serde(untagged)] enum AbsOrRef { Abs(Iri<String>), Ref(IriRef<Arc<str>>) }
#[derive(Serialize, Deserialize, Debug)] #[serde(tag = "kind", content = "id")] enum Adjacent { Abs(Iri<String>), Ref(IriRef<String>) }

macro_rules! serde_paths { ($fname:ident, $W:ident, $Doc:ident, $BorrowDoc:ident, $BoxDoc:ident, $Variant:ident, $field:ident) => {
    /// every way to obtain a `$W` through serde from the text `s`
    fn $fname(s: &str) -> Vec<(String, Out)> {
        let w = stringify!($W);
        let json = serde_json::to_string(s).unwrap();
        let plain = json == format!("\"{s}\"");           // no escape: the JSON reader can lend the text
        let esc = json_all_escaped(s);
        let raw_toml = quiet(|| toml::to_string(&RawDoc { id: s }).unwrap()).unwrap_or_default();
        let mut v: Vec<(String, Out)> = vec![];
        // serde's own value deserializers: each drives one visitor method of the inner type
        rec(&mut v, w, "<String>::deserialize(StrDeserializer)", || $W::<String>::deserialize(StrDeserializer::<VErr>::new(s)));
        rec(&mut v, w, "<String>::deserialize(StringDeserializer)", || $W::<String>::deserialize(StringDeserializer::<VErr>::new(s.to_string())));
        rec(&mut v, w, "<String>::deserialize(BorrowedStrDeserializer)", || $W::<String>::deserialize(BorrowedStrDeserializer::<VErr>::new(s)));
        rec(&mut v, w, "<String>::deserialize(BytesDeserializer)", || $W::<String>::deserialize(BytesDeserializer::<VErr>::new(s.as_bytes())));
        rec(&mut v, w, "<&str>::deserialize(BorrowedStrDeserializer)", || $W::<&str>::deserialize(BorrowedStrDeserializer::<VErr>::new(s)));
        rec(&mut v, w, "<Box<str>>::deserialize(StrDeserializer)", || $W::<Box<str>>::deserialize(StrDeserializer::<VErr>::new(s)));
        rec(&mut v, w, "<Rc<str>>::deserialize(StringDeserializer)", || $W::<Rc<str>>::deserialize(StringDeserializer::<VErr>::new(s.to_string())));
        rec(&mut v, w, "<Arc<str>>::deserialize(StrDeserializer)", || $W::<Arc<str>>::deserialize(StrDeserializer::<VErr>::new(s)));
        rec(&mut v, w, "<Cow<str>>::deserialize(BorrowedStrDeserializer)", || $W::<Cow<str>>::deserialize(BorrowedStrDeserializer::<VErr>::new(s)));
        // serde_json
        rec(&mut v, w, "<String> serde_json::from_str", || serde_json::from_str::<$W<String>>(&json));
        rec(&mut v, w, "<String> serde_json::from_str (\\u escapes)", || serde_json::from_str::<$W<String>>(&esc));
        rec(&mut v, w, "<Box<str>> serde_json::from_str", || serde_json::from_str::<$W<Box<str>>>(&json));
        rec(&mut v, w, "<Arc<str>> serde_json::from_str (\\u escapes)", || serde_json::from_str::<$W<Arc<str>>>(&esc));
        rec(&mut v, w, "<Cow<str>> serde_json::from_str", || serde_json::from_str::<$W<Cow<str>>>(&json));
        if plain { rec(&mut v, w, "<&str> serde_json::from_str", || serde_json::from_str::<$W<&str>>(&json)); }
        let doc_json = format!("{{\"id\":{json}}}");
        if plain { rec(&mut v, w, " borrowed in a struct, serde_json::from_str", || serde_json::from_str::<$BorrowDoc>(&doc_json).map(|d| d.id)); }
        rec(&mut v, w, "<String> serde_json::from_slice", || serde_json::from_slice::<$W<String>>(json.as_bytes()));
        rec(&mut v, w, "<Rc<str>> serde_json::from_reader", || serde_json::from_reader::<_, $W<Rc<str>>>(std::io::Cursor::new(json.as_bytes())));
        rec(&mut v, w, "<String> serde_json::from_value", || serde_json::from_value::<$W<String>>(serde_json::Value::String(s.to_string())));
        rec(&mut v, w, "<String> deserialize(&serde_json::Value)", || $W::<String>::deserialize(&serde_json::Value::String(s.to_string())));
        // inside other types
        rec(&mut v, w, "<String> in Option, serde_json", || serde_json::from_str::<Option<$W<String>>>(&json).map(|o| o.unwrap()));
        rec(&mut v, w, "<String> in Vec, serde_json", || serde_json::from_str::<Vec<$W<String>>>(&format!("[{json},{esc}]")).map(|mut x| { let a = x.pop().unwrap(); let b = x.pop().unwrap(); assert!(a == b); a }));
        rec(&mut v, w, "<String> in a tuple, serde_json", || serde_json::from_str::<(u8, $W<String>)>(&format!("[7,{json}]")).map(|x| x.1));
        rec(&mut v, w, "<String> as a map value, serde_json", || serde_json::from_str::<std::collections::BTreeMap<String, $W<String>>>(&format!("{{\"k\":{json}}}")).map(|mut m| m.remove("k").unwrap()));
        rec(&mut v, w, "<String> in a derived struct, serde_json", || serde_json::from_str::<$Doc>(&format!("{{\"id\":{esc}}}")).map(|d| d.id));
        rec(&mut v, w, "<Box<str>> between other fields, serde_json", || serde_json::from_str::<$BoxDoc>(&format!("{{\"n\":1,\"id\":{json},\"tail\":[1,2]}}")).map(|d| d.id));
        rec(&mut v, w, "<String> in an externally tagged enum, serde_json", || serde_json::from_str::<Tagged>(&format!("{{\"{}\":{json}}}", stringify!($Variant))).map(|t| match t { Tagged::$Variant(x) => x, _ => panic!("other variant") }));
        rec(&mut v, w, "<String> in an adjacently tagged enum, serde_json", || serde_json::from_str::<Adjacent>(&format!("{{\"kind\":\"{}\",\"id\":{json}}}", stringify!($Variant))).map(|t| match t { Adjacent::$Variant(x) => x, _ => panic!("other variant") }));
        rec(&mut v, w, "<String> in MyTable, serde_json", || serde_json::from_str::<MyTable>(&format!("{{\"{}\":{json}}}", stringify!($field))).map(|t| t.$field.unwrap()));
        // toml (the format of the crate's own tests)
        if !raw_toml.is_empty() {
            rec(&mut v, w, "<String> in a derived struct, toml::from_str", || toml::from_str::<$Doc>(&raw_toml).map(|d| d.id));
            rec(&mut v, w, "<String> in MyTable, toml::from_str", || toml::from_str::<MyTable>(&raw_toml.replacen("id", stringify!($field), 1)).map(|t| t.$field.unwrap()));
            rec(&mut v, w, "<String> toml::Value::try_into", || toml::Value::String(s.to_string()).try_into::<$W<String>>());
        }
        v
    }
} }
serde_paths!(iri_serde_paths, Iri, IriDoc, IriBorrowDoc, IriBoxDoc, Abs, iri);
serde_paths!(iriref_serde_paths, IriRef, IriRefDoc, IriRefBorrowDoc, IriRefBoxDoc, Ref, iriref);

/// All serde construction paths of `s` against the ORACLE (accepted iff RFC 3987 says IRI / IRI reference; the value
/// holds the text; no panic), inputs that are no string, the untagged enum as a classifier, Serialize and the round trip.
/// Returns what the model is compared with: (Iri deserialized, IriRef deserialized, classification by the untagged enum,
/// Iri round trip, IriRef round trip).
fn serde_checks(s: &str, v: &Verdict, fails: &mut Vec<String>, sum: &mut Summary) -> (Option<String>, Option<String>, Option<bool>, Option<String>, Option<String>) {
    let mut firsts: Vec<Option<String>> = vec![];
    for (paths, want, rule) in [(iri_serde_paths(s), v.o_iri, "IRI"), (iriref_serde_paths(s), v.o_iri || v.o_rel, "IRI-reference")] {
        sum.bump_by("serde:construction paths run", paths.len() as u64);
        let mut first: Option<Option<String>> = None;
        for (n, o) in paths {
            match o {
                Err(p) => fails.push(format!("[serde entry point panics] {n} on the text {} panics: {p} (RFC 3987 {rule}: {want})", show(s))),
                Ok(Some(t)) => {
                    if !want { fails.push(format!("[serde entry point differs from RFC 3987] {n} accepts {} which is not an RFC 3987 {rule}", show(s))); }
                    if t != s { fails.push(format!("[serde entry point changes the text] {n} on {} holds {}", show(s), show(&t))); }
                    first.get_or_insert(Some(t));
                }
                Ok(None) => { if want { fails.push(format!("[serde entry point differs from RFC 3987] {n} rejects {} which is an RFC 3987 {rule}", show(s))); } first.get_or_insert(None); }
            }
        }
        firsts.push(first.unwrap_or(None));
    }
    // inputs that are not a string: an error, never a panic, never a value
    for (n, o) in [("Iri<String> from a u32", quiet(|| Iri::<String>::deserialize(U32Deserializer::<VErr>::new(7)).is_ok())), ("IriRef<String> from a unit", quiet(|| IriRef::<String>::deserialize(UnitDeserializer::<VErr>::new()).is_ok())),
                   ("IriRef<String> from JSON null", quiet(|| serde_json::from_str::<IriRef<String>>("null").is_ok())), ("Iri<String> from a JSON array", quiet(|| serde_json::from_str::<Iri<String>>("[\"s:a\"]").is_ok())),
                   ("Option<Iri<String>> from JSON null is None", quiet(|| !matches!(serde_json::from_str::<Option<Iri<String>>>("null"), Ok(None))))] {
        if o != Ok(false) { fails.push(format!("[serde entry point] {n}: {:?}", o)); }
    }
    // the untagged enum { Abs(Iri), Ref(IriRef) } classifies
    let json = serde_json::to_string(s).unwrap();
    let cls = quiet(|| serde_json::from_str::<AbsOrRef>(&json).ok().map(|x| match x { AbsOrRef::Abs(i) => (true, i.unwrap()), AbsOrRef::Ref(i) => (false, i.as_str().to_string()) }));
    let want_cls = if v.o_iri { Some(true) } else if v.o_rel { Some(false) } else { None };
    let cls_obs = match &cls {
        Ok(c) => {
            if c.as_ref().map(|x| x.0) != want_cls { fails.push(format!("[serde entry point differs from RFC 3987] the untagged enum {{Abs(Iri), Ref(IriRef)}} reads {} as {:?} (true = absolute) but RFC 3987 says {:?}", show(s), c.as_ref().map(|x| x.0), want_cls)); }
            if let Some((_, t)) = c { if t != s { fails.push(format!("[serde entry point changes the text] the untagged enum on {} holds {}", show(s), show(t))); } }
            c.as_ref().map(|x| x.0)
        }
        Err(p) => { fails.push(format!("[serde entry point panics] the untagged enum {{Abs(Iri), Ref(IriRef)}} on {} panics: {p}", show(s))); None }
    };
    // Serialize, and Serialize -> Deserialize
    let mut rts: Vec<Option<String>> = vec![];
    for (is_iri, acc) in [(true, v.iri), (false, v.iref)] {
        if !acc { rts.push(None); continue; }
        let w = if is_iri { "Iri" } else { "IriRef" };
        let r = quiet(|| {
            let mut f: Vec<String> = vec![];
            macro_rules! ser { ($W:ident, $Doc:ident, $field:ident) => {{
                let texts: Vec<(&str, String)> = vec![
                    ("serde_json::to_string of <&str>", serde_json::to_string(&$W::new_unchecked(s)).unwrap()),
                    ("serde_json::to_string of <String>", serde_json::to_string(&$W::new_unchecked(s.to_string())).unwrap()),
                    ("serde_json::to_string of <Box<str>>", serde_json::to_string(&$W::new_unchecked(Box::<str>::from(s))).unwrap()),
                    ("serde_json::to_string of <Rc<str>>", serde_json::to_string(&$W::new_unchecked(Rc::<str>::from(s))).unwrap()),
                    ("serde_json::to_string of <Cow<str>>", serde_json::to_string(&$W::new_unchecked(Cow::Borrowed(s))).unwrap()),
                    ("serde_json::to_vec of <Arc<str>>", String::from_utf8(serde_json::to_vec(&$W::new_unchecked(Arc::<str>::from(s))).unwrap()).unwrap()),
                    ("serde_json::to_value of <String>", serde_json::to_value(&$W::new_unchecked(s.to_string())).unwrap().to_string()),
                ];
                for (n, t) in texts { if t != json { f.push(format!("[serde Serialize] {n} for {w}({}) gives {t}, the text serializes as {json}", show(s))); } }
                if serde_json::to_value(&$W::new_unchecked(s)).unwrap() != serde_json::Value::String(s.to_string()) { f.push(format!("[serde Serialize] {w}({}) does not serialize as a string value", show(s))); }
                match toml::Value::try_from(&$W::new_unchecked(s)) { Ok(toml::Value::String(t)) if t == s => (), o => f.push(format!("[serde Serialize] toml::Value::try_from({w}({})) gives {:?}", show(s), o)) }
                let doc = $Doc { id: $W::new_unchecked(s.to_string()) };
                let j = serde_json::to_string(&doc).unwrap();
                if j != format!("{{\"id\":{json}}}") { f.push(format!("[serde Serialize] a derived struct holding {w}({}) serializes as {j}", show(s))); }
                match serde_json::from_str::<$Doc>(&j) { Ok(d) if d.id == doc.id => (), o => f.push(format!("[serde round trip] {w}({}) in a derived struct through serde_json comes back as {:?}", show(s), o.map(|d| d.id.unwrap()).map_err(|e| e.to_string()))) }
                match toml::to_string(&doc) {
                    Ok(t) => match toml::from_str::<$Doc>(&t) { Ok(d) if d.id == doc.id => (), o => f.push(format!("[serde round trip] {w}({}) in a derived struct through toml comes back as {:?}", show(s), o.map(|d| d.id.unwrap()).map_err(|e| e.to_string()))) },
                    Err(e) => f.push(format!("[serde Serialize] toml::to_string of a derived struct holding {w}({}) fails: {e}", show(s))),
                }
                let table = MyTable { iri: None, iriref: None };
                let table = MyTable { $field: Some($W::new_unchecked(s.to_string())), ..table };
                match toml::to_string(&table).map_err(|e| e.to_string()).and_then(|t| toml::from_str::<MyTable>(&t).map_err(|e| e.to_string())) { Ok(t) if t.$field.as_ref().map(|x| x.as_str()) == Some(s) => (), o => f.push(format!("[serde round trip] MyTable holding {w}({}) through toml comes back as {:?}", show(s), o)) }
                // the round trip handed to the model
                let back = serde_json::from_str::<$W<String>>(&serde_json::to_string(&$W::new_unchecked(s)).unwrap()).ok().map(|x| x.unwrap());
                if back.as_deref() != Some(s) { f.push(format!("[serde round trip] {w}({}) through serde_json comes back as {:?}", show(s), back)); }
                (f, back)
            }} }
            if is_iri { ser!(Iri, IriDoc, iri) } else { ser!(IriRef, IriRefDoc, iriref) }
        });
        match r { Ok((f, back)) => { fails.extend(f); rts.push(back); sum.bump("serde:round trips"); } Err(p) => { fails.push(format!("[serde entry point panics] Serialize / round trip of {w}({}) panics: {p}", show(s))); rts.push(None); } }
    }
    (firsts[0].clone(), firsts[1].clone(), cls_obs, rts[0].clone(), rts[1].clone())
}

fn probe(hexs: &str) {
    let bytes: Vec<u8> = (0..hexs.len() / 2).map(|i| u8::from_str_radix(&hexs[2 * i..2 * i + 2], 16).unwrap()).collect();
    let s = String::from_utf8(bytes).expect("utf-8");
    let v = verdicts(&s);
    println!("string {}  code points {}", show(&s), coq_str(&s));
    println!("  sophia: is_absolute_iri_ref={} is_relative_iri_ref={} Iri::new.is_ok={} IriRef::new.is_ok={}", v.abs, v.rel, v.iri, v.iref);
    println!("  RFC 3987 recogniser (oracle): IRI={} irelative-ref={}", v.o_iri, v.o_rel);
    println!("  oxiri: Iri::parse.is_ok={} IriRef::parse.is_ok={}", sophia_iri::resolve::BaseIri::new(s.as_str()).is_ok(), sophia_iri::resolve::BaseIriRef::new(s.as_str()).is_ok());
    if v.iri { println!("  Iri::as_base: {:?}", quiet(|| Iri::new(s.as_str()).unwrap().as_base().to_string())); }
    if v.iref { println!("  IriRef::as_base: {:?}", quiet(|| IriRef::new(s.as_str()).unwrap().as_base().to_string())); }
    let mut fails = vec![];
    let mut sum = Summary::default();
    let sd = serde_checks(&s, &v, &mut fails, &mut sum);
    println!("  serde: Iri deserialized {:?}, IriRef deserialized {:?}, untagged enum (true = Abs) {:?}, round trips {:?} {:?}", sd.0, sd.1, sd.2, sd.3, sd.4);
    for f in &fails { println!("  ORACLE FAILURE: {f}"); }
    println!("  verdict: {}", if v.abs == v.o_iri && v.rel == v.o_rel && fails.is_empty() { "agreement" } else { "DISAGREEMENT between sophia_iri and RFC 3987" });
}

fn main() {
    let a = parse_args();
    std::panic::set_hook(Box::new(|_| {}));
    if let Some(i) = a.rest.iter().position(|x| x == "--probe") { probe(&a.rest[i + 1]); return; }
    let mut sum = Summary::default();
    sum.rule = "case = one string (systematic list first: all IPv6 shapes with 0-8 groups around '::', IPvFuture incl. 'V', dec-octet boundaries, every ucschar/iprivate range end +-1 and every ASCII character in every component; then generated members of IRI / irelative-ref, their single-character mutants, random strings over 31 delimiter-heavy characters) checked for validation, as_base and Namespace::get, \
plus (for 2 cases out of 3) a (base, reference) pair of generated members with dot segments checked for resolution through every resolve entry point; \
on every case also: the validators called directly (is_valid_iri_ref, is_valid_suffixed_iri_ref), the constructors over 7 container types with every accessor/conversion/comparison of the wrappers, BaseIri/BaseIriRef::new and their components, Namespace's other constructors, \
and a second pair (absolute or relative base, directed or generated; reference = the case's string 2 times out of 3, valid or not) resolved as typed value and as &str; every serde construction path (Deserialize over 6 container types through serde's value deserializers, serde_json and toml, bare and nested; Serialize; round trip) on the case's string; \
a directed stream (ASCII delimiters, every non-ASCII character tied to ASCII by the Unicode case mappings, look-alikes, at every grammar position) and, outside the cases, a validators-only sweep of ~3000 characters at every position; \
non-trivial = contains an IP-literal, a non-ASCII or percent-encoded character, a userinfo/port, an empty or dot segment, or is rejected by someone; distinct = distinct (string, base, reference)".into();
    let mut sys = systematic();
    let n_old_sys = sys.len();
    // the directed positions come after the older systematic strings (whose case numbers stay what they were)
    sys.extend(directed_positions());
    sum.extra.push(("directed_position_strings".into(), (sys.len() - n_old_sys).to_string()));
    let base = Rng::new(a.seed);
    let mut cases = vec![];
    let mut seen = std::collections::HashSet::new();
    let range: Vec<usize> = match a.only { Some(i) => vec![i], None => (0..a.n).collect() };
    let verbose = a.only.is_some();
    const CAP: u64 = 400;
    let mut total_failures: u64 = 0;
    // ---------- the sweep: the validators against the RFC 3987 recogniser, ~3000 characters at every position ----------
    if a.only.is_none() {
        let chars = sweep_chars();
        let mut n = 0u64;
        let mut listed: u64 = 0;
        for &c in &chars {
            for (pos, t) in POSITIONS {
                let s = t.replace("{}", &c.to_string());
                let v = verdicts(&s);
                n += 1;
                let mut f: Vec<String> = vec![];
                if v.abs != v.o_iri { f.push(format!("is_absolute_iri_ref({}) = {} but the RFC 3987 rule IRI {} it", show(&s), v.abs, if v.o_iri { "accepts" } else { "rejects" })); }
                if v.rel != v.o_rel { f.push(format!("is_relative_iri_ref({}) = {} but the RFC 3987 rule irelative-ref {} it", show(&s), v.rel, if v.o_rel { "accepts" } else { "rejects" })); }
                if v.iri != v.o_iri && v.abs == v.o_iri { f.push(format!("Iri::new({}).is_ok() = {} but RFC 3987 IRI says {}", show(&s), v.iri, v.o_iri)); }
                if v.iref != (v.o_iri || v.o_rel) && v.abs == v.o_iri && v.rel == v.o_rel { f.push(format!("IriRef::new({}).is_ok() = {} but RFC 3987 IRI-reference says {}", show(&s), v.iref, v.o_iri || v.o_rel)); }
                if is_valid_iri_ref(&s) != (v.o_iri || v.o_rel) && f.is_empty() { f.push(format!("is_valid_iri_ref({}) = {} but RFC 3987 IRI-reference says {}", show(&s), !(v.o_iri || v.o_rel), v.o_iri || v.o_rel)); }
                if (v.iri && BaseIri::new(s.as_str()).is_err()) || (v.iref && BaseIriRef::new(s.as_str()).is_err()) { f.push(format!("Iri::new / IriRef::new accept {} but the resolver refuses it: as_base() / resolve() on the accepted value panic", show(&s))); }
                for x in f {
                    sum.bump("oracle-failure:sweep");
                    total_failures += 1;
                    // replayed with `--probe <hex>` (the case id is spliced into the replay command after `--only`)
                    if listed < CAP { listed += 1; sum.oracle_failures.push((format!("0 --probe {}", s.bytes().map(|b| format!("{b:02x}")).collect::<String>()), format!("[sweep: U+{:04X} at {pos}] {x}", c as u32))); }
                }
            }
        }
        sum.extra.push(("sweep_strings".into(), n.to_string()));
        sum.extra.push(("sweep_characters".into(), chars.len().to_string()));
        sum.bump_by("sweep:validators vs RFC 3987 recogniser", n);
    }
    for idx in range {
        let mut r = base.fork(idx as u64);
        // ---------- the string ----------
        let (kind, s): (&str, String) = if idx < sys.len() { (if idx < n_old_sys { "systematic" } else { "directed-position" }, sys[idx].clone()) } else {
            match r.below(10) {
                0..=2 => ("member-iri", gen_member(&mut r, true, false)),
                3 | 4 => ("member-relative", gen_member(&mut r, false, false)),
                5 | 6 => { let abs = r.chance(1, 2); let m = gen_member(&mut r, abs, false); ("mutant", mutate(&mut r, &m)) }
                7 => { let m = r.pick(&sys).clone(); ("mutant-of-systematic", mutate(&mut r, &m)) }
                _ => { let n = r.range(0, 9); ("random", (0..n).map(|_| *r.pick(ALPHABET)).collect()) }
            }
        };
        sum.bump(&format!("kind:{kind}"));
        let v = verdicts(&s);
        let mut fails: Vec<String> = vec![];
        if v.abs != v.o_iri { fails.push(format!("is_absolute_iri_ref({}) = {} but the RFC 3987 rule IRI {} it", show(&s), v.abs, if v.o_iri { "accepts" } else { "rejects" })); }
        if v.rel != v.o_rel { fails.push(format!("is_relative_iri_ref({}) = {} but the RFC 3987 rule irelative-ref {} it", show(&s), v.rel, if v.o_rel { "accepts" } else { "rejects" })); }
        if v.iri != v.o_iri && v.abs == v.o_iri { fails.push(format!("Iri::new({}).is_ok() = {} but RFC 3987 IRI says {}", show(&s), v.iri, v.o_iri)); }
        if v.iref != (v.o_iri || v.o_rel) && v.abs == v.o_iri && v.rel == v.o_rel { fails.push(format!("IriRef::new({}).is_ok() = {} but RFC 3987 IRI-reference says {}", show(&s), v.iref, v.o_iri || v.o_rel)); }
        if v.abs && v.rel { fails.push(format!("{} is classified both absolute and relative", show(&s))); }
        // accepted values can be used as a base
        if v.iri {
            match quiet(|| { let i = Iri::new(s.as_str()).unwrap(); let b = i.as_base(); let t = Iri::new(s.clone()).unwrap().to_base(); (b.to_string(), t.to_string()) }) {
                Ok((b, t)) => { if b != s || t != s { fails.push(format!("Iri::as_base/to_base of {} changed the text to {} / {}", show(&s), show(&b), show(&t))); } }
                Err(p) => fails.push(format!("Iri::new({}) is accepted but as_base()/to_base() panics: {p}", show(&s))),
            }
        }
        if v.iref {
            if let Err(p) = quiet(|| { let i = IriRef::new(s.as_str()).unwrap(); let _ = i.as_base(); let _ = IriRef::new(s.clone()).unwrap().to_base(); }) {
                fails.push(format!("IriRef::new({}) is accepted but as_base()/to_base() panics: {p}", show(&s)));
            }
        }
        // Namespace::get validates ns + suffix with the same validator
        let cut = { let n = s.chars().count(); r.below(n + 1) };
        let (ns, suf): (String, String) = (s.chars().take(cut).collect(), s.chars().skip(cut).collect());
        let ns_ok = Namespace::new(ns.as_str()).is_ok();
        let get_ok = ns_ok && Namespace::new(ns.as_str()).unwrap().get(&suf).is_ok();
        let ns_oracle = rfc_iri(&ns) || rfc_irelative_ref(&ns);
        if ns_ok == ns_oracle && get_ok != (ns_ok && (v.o_iri || v.o_rel)) && v.iref == (v.o_iri || v.o_rel) {
            fails.push(format!("Namespace::new({}).get({}).is_ok() = {} but the concatenation is {} by RFC 3987", show(&ns), show(&suf), get_ok, if v.o_iri || v.o_rel { "valid" } else { "invalid" }));
        }
        let mut body = format!("val_ok {} {} {} {} {} {} {} {} {} {}", coq_str(&s), coq_bool(v.abs), coq_bool(v.rel), coq_bool(v.iri), coq_bool(v.iref), coq_bool(v.o_iri), coq_bool(v.o_rel), cut, coq_bool(ns_ok), coq_bool(get_ok));
        let mut text = format!("{kind} {}", show(&s));
        let mut nontrivial = s.contains('[') || s.contains('%') || !s.is_ascii() || s.contains('@') || s.contains("//") || s.contains("/.") || !(v.abs || v.rel);
        // ---------- a (base, reference) pair ----------
        let mut pair: Option<(String, String)> = None;
        if idx % 3 != 0 {
            let b = if r.chance(1, 6) { r.pick(DIRECTED_BASES).to_string() } else { gen_member(&mut r, true, true) };
            let rf = if r.chance(1, 4) { r.pick(DIRECTED_REFS).to_string() } else { let abs = r.chance(1, 5); gen_member(&mut r, abs, true) };
            let (vb, vr) = (verdicts(&b), verdicts(&rf));
            text.push_str(&format!(" | base {} ref {}", show(&b), show(&rf)));
            pair = Some((b.clone(), rf.clone()));
            if vb.iri && vr.iref {
                sum.bump("pairs-resolved");
                let expected = resolve52(&b, &rf);
                let got = quiet(|| { let bi = Iri::new(b.as_str()).unwrap(); let base = bi.as_base(); let out = base.resolve(IriRef::new(rf.as_str()).unwrap()); out.as_str().to_string() });
                let got2 = quiet(|| Iri::new(b.as_str()).unwrap().resolve(IriRef::new(rf.as_str()).unwrap()).as_str().to_string());
                spec_check(&b, &rf, &got, vb.o_iri && (vr.o_iri || vr.o_rel), &mut fails, &mut sum);
                if let Ok(g) = &got { if got2.as_ref().ok() != Some(g) { fails.push(format!("Iri::resolve and BaseIri::resolve differ on base {} ref {}: {:?} vs {}", show(&b), show(&rf), got2, show(g))); } }
                // every other entry point: owned/borrowed containers, resolve_into, BaseIriRef, references typed otherwise, &str
                let obs = resolve_all(&b, true, &rf, true, vr.iri);
                let (typed0, str0) = resolve_consistency(&b, true, &rf, vr.o_iri || vr.o_rel, &obs, &mut fails, &mut sum);
                if let Some(t0) = &typed0 { if t0.as_ref().ok() != got.as_ref().ok() { fails.push(format!("resolve entry points differ on base {} ref {}: {:?} vs {:?}", show(&b), show(&rf), t0, got)); } }
                sum.bump(&format!("resolve-entry-points-per-pair:{}", obs.typed.len() + obs.strv.len()));
                if let Some(x) = &str0 { body.push_str(&format!(" && res_str_ok {} {} {}", coq_str(&b), coq_str(&rf), coq_opt(x.as_ref().map(|g| coq_str(g))))); }
                body.push_str(&format!(" && res_ok {} {} {}", coq_str(&b), coq_str(&rf), coq_opt(got.as_ref().ok().map(|g| coq_str(g)))));
                if verbose { println!("  resolve: got {:?}, RFC 3986 5.2 oracle {}", got, show(&expected)); }
                nontrivial = nontrivial || rf.contains('.') || b.contains("/.");
            } else { sum.bump("pairs-not-both-accepted"); }
        }
        // ---------- the other public entry points (their random choices come from a separate fork of the seed) ----------
        let mut r2 = base.fork((idx as u64) | (1 << 40));
        {
            let valid_oracle = v.o_iri || v.o_rel;
            // validators
            let valid = is_valid_iri_ref(&s);
            let suf_none = is_valid_suffixed_iri_ref(&s, None);
            let suf_some = is_valid_suffixed_iri_ref(&ns, Some(&suf));
            for (n, x) in [("is_valid_iri_ref(s)", valid), ("is_valid_suffixed_iri_ref(s, None)", suf_none), ("is_valid_suffixed_iri_ref(ns, Some(suffix))", suf_some),
                           ("is_valid_suffixed_iri_ref(\"\", Some(s))", is_valid_suffixed_iri_ref("", Some(&s))), ("is_valid_suffixed_iri_ref(s, Some(\"\"))", is_valid_suffixed_iri_ref(&s, Some("")))] {
                if x != valid_oracle { fails.push(format!("{n} = {x} for s = {} (ns = {}, suffix = {}) but the RFC 3987 rule IRI-reference {} it", show(&s), show(&ns), show(&suf), if valid_oracle { "accepts" } else { "rejects" })); }
            }
            body.push_str(&format!(" && suffixed_ok {} {} {} {} {}", coq_str(&s), cut, coq_bool(valid), coq_bool(suf_none), coq_bool(suf_some)));
            // a second accepted text to compare with
            let other: String = match r2.below(6) {
                0 => s.clone(),
                1 => format!("{s}a"),
                2 => { let mut c: Vec<char> = s.chars().collect(); c.pop(); c.into_iter().collect() }
                3 => pair.as_ref().map_or_else(|| s.clone(), |p| p.0.clone()),
                4 => pair.as_ref().map_or_else(|| s.to_uppercase(), |p| p.1.clone()),
                _ => { let mut c: Vec<char> = s.chars().collect(); if let Some(l) = c.last_mut() { *l = if *l == 'b' { 'a' } else { 'b' }; } c.into_iter().collect() }
            };
            let vo = verdicts(&other);
            // constructors over every container type, accessors, conversions, comparisons
            let ci = over_containers!(iri_wrapper_checks, s.as_str(), v.iri, Some(other.as_str()), &mut fails);
            let cr = over_containers!(iriref_wrapper_checks, s.as_str(), v.iref, Some(other.as_str()), &mut fails);
            if let (Some(a), Some(b)) = (ci, cr) { if a != b { fails.push(format!("Iri and IriRef order {} and {} differently", show(&s), show(&other))); } }
            if v.iref && vo.iref { hetero_checks(&s, &other, v.iri && vo.iri, &mut fails); sum.bump("wrapper-comparisons"); }
            if let Some(c) = cr { body.push_str(&format!(" && cmp_ok {} {} {}", coq_str(&s), coq_str(&other), match c { Ordering::Less => "Lt", Ordering::Equal => "Eq", Ordering::Greater => "Gt" })); sum.bump(&format!("wrapper-order:{c:?}")); }
            // the resolver's recogniser and component accessors
            let (ox_abs, ox_ref, comp) = base_checks(&s, &v, &mut fails);
            body.push_str(&format!(" && basenew_ok {} {} {}", coq_str(&s), coq_bool(ox_abs), coq_bool(ox_ref)));
            if let Some((abs, p)) = &comp {
                let o = |x: &Option<String>| coq_opt(x.as_ref().map(|y| coq_str(y)));
                body.push_str(&format!(" && parts_ok {} {} {} {} {} {} {}", coq_str(&s), coq_bool(*abs), o(&p.scheme), o(&p.authority), coq_str(&p.path), o(&p.query), o(&p.fragment)));
                sum.bump("components-compared");
            }
            namespace_checks(&ns, &suf, &s, ns_ok, get_ok, &mut fails);
            // the serde entry points
            let (de_iri, de_ref, cls, rt_iri, rt_ref) = serde_checks(&s, &v, &mut fails, &mut sum);
            let o = |x: &Option<String>| coq_opt(x.as_ref().map(|y| coq_str(y)));
            body.push_str(&format!(" && serde_ok {} {} {} {} {} {}", coq_str(&s), o(&de_iri), o(&de_ref), coq_opt(cls.map(|b| coq_bool(b).to_string())), o(&rt_iri), o(&rt_ref)));
            sum.bump(match cls { Some(true) => "serde:untagged enum:Abs", Some(false) => "serde:untagged enum:Ref", None => "serde:untagged enum:Err" });
            // resolution of (mostly) the case's own string, also when it is not a valid reference, against an absolute or a relative base
            let nb = if r2.chance(1, 2) { if r2.chance(1, 4) { r2.pick(DIRECTED_BASES).to_string() } else { gen_member(&mut r2, true, true) } }
                     else if r2.chance(1, 3) { r2.pick(DIRECTED_REL_BASES).to_string() } else { gen_member(&mut r2, false, true) };
            let nr = match r2.below(6) { 0 => r2.pick(DIRECTED_REFS).to_string(), 1 => { let abs = r2.chance(1, 5); gen_member(&mut r2, abs, true) } _ => s.clone() };
            let (nb, nr) = if r2.chance(1, 12) { let p = r2.pick(DIRECTED_REL_PAIRS); (p.0.to_string(), p.1.to_string()) } else { (nb, nr) };
            let (vnb, vnr) = (verdicts(&nb), verdicts(&nr));
            if verbose { println!("  second pair: base {} ref {}", show(&nb), show(&nr)); }
            if vnb.iref {
                sum.bump(if vnb.iri { "second-pair:absolute-base" } else { "second-pair:relative-base" });
                let obs = resolve_all(&nb, vnb.iri, &nr, vnr.iref, vnr.iri);
                let (typed0, str0) = resolve_consistency(&nb, vnb.iri, &nr, vnr.o_iri || vnr.o_rel, &obs, &mut fails, &mut sum);
                if verbose { println!("  second pair: typed {:?} &str {:?} ({:?})", typed0, str0, obs.err); }
                if let Some(t0) = &typed0 {
                    if vnb.iri { spec_check(&nb, &nr, t0, vnb.o_iri && (vnr.o_iri || vnr.o_rel), &mut fails, &mut sum); }
                    else {
                        match t0 {
                            Ok(g) => {
                                if !(rfc_iri(g) || rfc_irelative_ref(g)) { fails.push(format!("[relative base: resolve result is not an IRI reference] resolving {} against the relative base {} gives {} which is not an RFC 3987 IRI reference", show(&nr), show(&nb), show(g))); }
                                else if !IriRef::new(g.as_str()).is_ok() && (vnr.o_iri || vnr.o_rel) { fails.push(format!("[resolve result is rejected] resolving {} against the relative base {} gives {} which IriRef::new rejects", show(&nr), show(&nb), show(g))); }
                                // two references without a scheme resolve to a reference without a scheme (RFC 3986 4.2: "./" before a first segment with ':')
                                if !vnr.o_iri && rfc_iri(g) { fails.push(format!("[relative base: resolve result is not an IRI reference] resolving the relative reference {} against the relative base {} gives {} which has a scheme", show(&nr), show(&nb), show(g))); }
                                if vnr.o_iri && !rfc_iri(g) { fails.push(format!("resolving the absolute reference {} against the relative base {} gives {} which is not absolute", show(&nr), show(&nb), show(g))); }
                                sum.bump(if g.starts_with("./") && parse5(&nr).scheme.is_none() && first_colon_segment(&g[2..]) { "resolve:relative-base:first segment protected by './'" } else { "resolve:relative-base:Ok" });
                            }
                            Err(p) if p.contains("InvalidIri(") => { fails.push(format!("[relative base: resolve result is not an IRI reference] resolving the accepted reference {} against the accepted relative base {} panics in IriRef::new_unchecked (dev build; a release build returns the invalid value): {p}", show(&nr), show(&nb))); sum.bump("resolve:relative-base-invalid-result"); }
                            Err(p) => { fails.push(format!("[resolve panics] resolving the accepted reference {} against the accepted relative base {} panics ({p})", show(&nr), show(&nb))); sum.bump("resolve:panic"); }
                        }
                    }
                    body.push_str(&format!(" && {} {} {} {}", if vnb.iri { "res_ok" } else { "res_rel_ok" }, coq_str(&nb), coq_str(&nr), coq_opt(t0.as_ref().ok().map(|g| coq_str(g)))));
                }
                if let Some(x) = &str0 { body.push_str(&format!(" && res_str_ok {} {} {}", coq_str(&nb), coq_str(&nr), coq_opt(x.as_ref().map(|g| coq_str(g))))); }
                text.push_str(&format!(" | base {} ref {}", show(&nb), show(&nr)));
            } else { sum.bump("second-pair:base-not-accepted"); }
        }
        if verbose {
            println!("CASE {idx}: {text}");
            println!("  sophia: abs={} rel={} Iri::new={} IriRef::new={} | oracle: IRI={} irelative-ref={} | Namespace({}).get({}) = {}", v.abs, v.rel, v.iri, v.iref, v.o_iri, v.o_rel, show(&ns), show(&suf), get_ok);
            for f in &fails { println!("  ORACLE FAILURE: {f}"); }
            println!("  coq: {body}");
        }
        sum.bump(match (v.o_iri, v.o_rel) { (true, _) => "rfc:IRI", (_, true) => "rfc:irelative-ref", _ => "rfc:invalid" });
        // every failure is counted; at most CAP per category are listed in the summary (the first ones)
        for f in &fails {
            let key = format!("oracle-failure:{}", f.split(|c| c == '(' || c == ']').next().unwrap_or("").trim_start_matches('['));
            sum.bump(&key);
            total_failures += 1;
            if sum.dist.iter().find(|e| e.0 == key).map_or(0, |e| e.1) <= CAP { sum.oracle_failures.push((idx.to_string(), f.clone())); }
        }
        if !fails.is_empty() { sum.bump("cases-with-oracle-failure"); }
        if seen.insert(text.clone()) && nontrivial { sum.distinct_nontrivial += 1; }
        if sum.samples.len() < 6 && nontrivial && idx >= sys.len() { sum.samples.push(format!("case {idx}: {text} => abs={} rel={}", v.abs, v.rel)); }
        sum.evaluations += 1;
        cases.push((idx, body));
    }
    if a.only.is_none() {
        let header = "From Sophia.Common Require Import Prelude.\nFrom Sophia.C09 Require Import Regex Rfc3987 Resolve Model.\n";
        sum.shards = write_shards(&a.out, header, &cases, a.shards);
        sum.extra.push(("coq_cases".into(), cases.len().to_string()));
        sum.extra.push(("systematic_strings".into(), sys.len().to_string()));
        sum.extra.push(("oracle_failures_total".into(), total_failures.to_string()));
        std::fs::write(format!("{}/summary.json", a.out), sum.to_json()).unwrap();
    }
    println!("c09: {} cases ({} systematic available), {} distinct non-trivial, {} oracle failures ({} listed)", sum.evaluations, sys.len(), sum.distinct_nontrivial, total_failures, sum.oracle_failures.len());
}
