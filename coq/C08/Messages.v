(* C08/Messages.v -- error messages that embed text of the document: shortening a message at a byte offset
   (String::truncate / slicing) panics when the offset falls inside a character; the long non-ASCII tokens of the
   harness's error stream (k-byte character repeated, shifted by 0..3 ASCII bytes) put every cut offset inside a
   character for one of the shifts.  Definitions only. *)
From Sophia.Common Require Import Prelude Term.
From Sophia.C08 Require Import Utf8.

(* String::truncate(new_len): no effect when new_len > len; otherwise it asserts is_char_boundary(new_len):
   the panic is None *)
Definition truncate (b : list N) (n : nat) : option (list N) :=
  if Nat.ltb (length b) n then Some b else if is_boundary b n then Some (firstn n b) else None.

(* the long token: `pad` letters a, then `reps` times the character c *)
Definition filler (pad : nat) (c : N) (reps : nat) : str := repeat 97 pad ++ repeat c reps.

(* harness-facing: the bytes of a rendered message are the encoding of the code points cps, and the offsets of
   [lo, hi) that Rust's str::is_char_boundary rejects are exactly those the model rejects (the offsets are
   written as N numerals, the bounds as nat numerals) *)
Definition msg_ok (bytes : list N) (cps : str) (lo hi : nat) (non_boundaries : list N) : bool :=
  match utf8_dec bytes with Some s => str_eqb s cps | None => false end
  && list_eqb N.eqb (map N.of_nat (filter (fun i => negb (is_boundary bytes i)) (seq lo (hi - lo)))) non_boundaries.
Arguments msg_ok bytes%list cps%list (lo hi)%nat non_boundaries%list.

(* harness-facing: the messages of one error document under its paddings: every cut offset of [lo, hi) falls
   inside a character in at least one of them *)
Definition family_covers (msgs : list (list N)) (lo hi : nat) : bool :=
  forallb (fun n => existsb (fun m => match truncate m n with None => true | Some _ => false end) msgs)
          (seq lo (hi - lo)).
Arguments family_covers msgs%list (lo hi)%nat.
