(* C13/Fresh.v -- blank nodes CREATED by a query (BNODE(), SPARQL 1.1 section 17.4.2.9) and windows
   (OFFSET / LIMIT) over solution sequences.
   The expressions of Model.v are functions of the solution ([eval_expr e mu]); BNODE() is not: every
   evaluation -- one per solution of the pattern under BIND / SELECT (expr AS ?v) -- creates a node
   that is distinct from every node of the dataset and from every node created by another
   evaluation.  The model is therefore run with ONE placeholder node in the stead of the created
   ones (the harness masks the engine's rows in the same way) and the freshness of the engine's
   nodes is a condition of its own on the labels read off the engine's answer: [fresh_ok].
   [extend_fresh] is the specification of Extend(P, v, BNODE()) for a given supply of labels.
   Definitions only. *)
From Sophia.C13 Require Import Model.

(* the blank node labels of a term / of a dataset *)
Fixpoint term_bnodes (t : term) : list str :=
  match t with
  | Bnode b => [b]
  | Triple s p o => term_bnodes s ++ term_bnodes p ++ term_bnodes o
  | _ => []
  end.
Definition quad_bnodes (q : quad) : list str :=
  let '((s, p, o), g) := q in
  term_bnodes s ++ term_bnodes p ++ term_bnodes o
  ++ match g with Some t => term_bnodes t | None => [] end.
Definition ds_bnodes (D : dataset) : list str := flat_map quad_bnodes D.

Fixpoint nodupb (l : list str) : bool :=
  match l with
  | [] => true
  | x :: l' => negb (memb str_eqb x l') && nodupb l'
  end.
(* [rows]: for every row of the engine's answer, the labels of the created blank nodes of that row
   (each once).  No created node occurs in two rows, none is a node of the dataset. *)
Definition fresh_ok (D : dataset) (rows : list (list str)) : bool :=
  nodupb (concat rows) && forallb (fun l => negb (memb str_eqb l (ds_bnodes D))) (concat rows).

(* Extend(rows, v, BNODE()) with the supply of labels [labels]: the k-th solution gets the k-th label *)
Definition extend_fresh (v : str) (rows : list amap) (labels : list str) : list amap :=
  map (fun ml => insert v (Bnode (snd ml)) (fst ml)) (combine rows labels).
