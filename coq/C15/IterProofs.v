(* C15/IterProofs.v -- iterators as sources: turning a source into an iterator (into_iter of
   MapSource / FilterMapSource) and back into a source (blanket impl), any number of times, is the
   same stream as the flat adapter chain; manual next() calls followed by any way of draining the
   iterator lose nothing of what was pending. *)
From Sophia.Common Require Import Prelude.
From Sophia.C15 Require Import Model Proofs IterSource.

(* ---------- chains compose ---------- *)
Lemma through_app c1 : forall c2 x,
  through (c1 ++ c2) x = match through c1 x with Some y => through c2 y | None => None end.
Proof.
  induction c1 as [|a c1 IH]; intros c2 x; simpl; [reflexivity|].
  destruct a as [p|m|m]; simpl.
  - destruct (p x); auto.
  - apply IH.
  - destruct (m x); auto.
Qed.

Lemma fm_app_chain c1 c2 l : fm (c1 ++ c2) l = fm c2 (fm c1 l).
Proof.
  induction l as [|x l IH]; [reflexivity|].
  change (x :: l) with ([x] ++ l). rewrite !fm_app, IH. f_equal.
  unfold fm. simpl. rewrite !app_nil_r, through_app.
  destruct (through c1 x) as [y|]; simpl; [rewrite app_nil_r|]; reflexivity.
Qed.

Lemma wrap_app St c1 : forall c2 (f : sink St) x st,
  wrap St (c1 ++ c2) f x st = wrap St c1 (wrap St c2 f) x st.
Proof.
  induction c1 as [|a c1 IH]; intros c2 f x st; simpl; [reflexivity|].
  destruct a as [p|m|m]; simpl.
  - destruct (p x); auto.
  - apply IH.
  - destruct (m x); auto.
Qed.

Lemma feed_fm St c1 c2 (f : sink St) items : forall st,
  feed St (wrap St (c1 ++ c2) f) items st = feed St (wrap St c2 f) (fm c1 items) st.
Proof.
  induction items as [|x items IH]; intros st; [reflexivity|].
  change (x :: items) with ([x] ++ items). rewrite fm_app.
  simpl. rewrite wrap_app, wrap_through.
  unfold fm at 1. simpl. rewrite app_nil_r.
  destruct (through c1 x) as [y|]; simpl.
  - destruct (wrap St c2 f y st) as [st' [e|]]; [reflexivity|apply IH].
  - apply IH.
Qed.

(* ---------- the stream of the iterator ---------- *)
Lemma step_out_fm chain items oe :
  step_out chain (items, oe) = map inl (fm chain items) ++ match oe with Some e => [inr e] | None => [] end.
Proof.
  unfold step_out. simpl. f_equal.
  induction items as [|x items IH]; simpl; [reflexivity|].
  unfold fm in *. simpl. rewrite map_app, IH.
  destruct (through chain x); reflexivity.
Qed.

Lemma all_out_cons chain stp rest : all_out chain (stp :: rest) = step_out chain stp ++ all_out chain rest.
Proof. reflexivity. Qed.

Lemma step_out_length chain stp : (length (step_out chain stp) <= length (fst stp) + 1)%nat.
Proof.
  destruct stp as [items oe]. unfold step_out. simpl. rewrite app_length.
  assert (length (flat_map (fun x => match through chain x with Some y => [@inl item err y] | None => [] end) items) <= length items)%nat.
  { induction items as [|x items IH]; simpl; [lia|]. rewrite app_length. destruct (through chain x); simpl; lia. }
  destruct oe; simpl; lia.
Qed.

Lemma all_out_length chain src : (length (all_out chain src) < total_out src)%nat.
Proof.
  induction src as [|stp rest IH]; simpl; [lia|].
  fold (all_out chain rest). rewrite app_length.
  pose proof (step_out_length chain stp). unfold total_out in *. simpl in *. lia.
Qed.

(* the iterator, unfolded, is the list of all its results *)
Theorem iter_source_all_out chain src : iter_source chain src = of_results (all_out chain src).
Proof.
  unfold iter_source. rewrite drain_all; [reflexivity|]. simpl. apply all_out_length.
Qed.

Lemma of_results_app a b : of_results (a ++ b) = of_results a ++ of_results b.
Proof. unfold of_results. apply map_app. Qed.

(* ---------- one into_iter(), fed back into the Source API ---------- *)
Section Back.
Variable St : Type.

(* a run of Ok results in front of an iterator-backed source *)
Lemma run_oks c2 (f : sink St) ys : forall tl st,
  res3 (try_for_each St (of_results (map inl ys ++ tl)) c2 f st)
  = match feed St (wrap St c2 f) ys st with
    | (st', Some e) => (st', SinkError e)
    | (st', None) => res3 (try_for_each St (of_results tl) c2 f st')
    end.
Proof.
  induction ys as [|y ys IH]; intros tl st; [reflexivity|].
  simpl. destruct (wrap St c2 f y st) as [st' [e|]]; [reflexivity|]. apply IH.
Qed.

Theorem iter_source_flat c1 c2 (f : sink St) : forall src st,
  res3 (try_for_each St (iter_source c1 src) c2 f st) = res3 (try_for_each St src (c1 ++ c2) f st).
Proof.
  intros src. rewrite iter_source_all_out.
  induction src as [|[items oe] rest IH]; intros st; [reflexivity|].
  rewrite all_out_cons, step_out_fm, <- app_assoc, run_oks.
  cbn [try_for_each]. rewrite feed_fm.
  destruct (feed St (wrap St c2 f) (fm c1 items) st) as [st' [e|]]; [reflexivity|].
  destruct oe as [e|]; [reflexivity|]. apply IH.
Qed.

(* any nesting *)
Theorem nest_flat last (f : sink St) segs : forall src st,
  res3 (try_for_each St (nest segs src) last f st) = res3 (try_for_each St src (concat segs ++ last) f st).
Proof.
  induction segs as [|c r IH]; intros src st; [reflexivity|].
  simpl. rewrite IH, iter_source_flat, app_assoc. reflexivity.
Qed.
End Back.

(* the results themselves (errors do not end an iterator): nesting is the flat chain too *)
Lemma all_out_of_results c l :
  all_out c (of_results l)
  = flat_map (fun r => match r with
                       | inl y => match through c y with Some z => [inl z] | None => [] end
                       | inr e => [inr e]
                       end) l.
Proof.
  induction l as [|[y|e] l IH]; simpl; [reflexivity| |].
  - fold (all_out c (of_results l)). rewrite IH. unfold step_out. simpl. rewrite !app_nil_r. reflexivity.
  - fold (all_out c (of_results l)). rewrite IH. reflexivity.
Qed.

Theorem nested_all_out c1 c2 src : all_out c2 (iter_source c1 src) = all_out (c1 ++ c2) src.
Proof.
  rewrite iter_source_all_out, all_out_of_results.
  induction src as [|[items oe] rest IH]; [reflexivity|].
  rewrite !all_out_cons, !step_out_fm, !flat_map_app, IH, fm_app_chain. f_equal.
  f_equal.
  - induction (fm c1 items) as [|y ys IHy]; simpl; [reflexivity|].
    rewrite IHy. unfold fm. simpl. destruct (through c2 y); reflexivity.
  - destruct oe; reflexivity.
Qed.

Theorem nest_all_out last segs : forall src,
  all_out last (nest segs src) = all_out (concat segs ++ last) src.
Proof.
  induction segs as [|c r IH]; intros src; [reflexivity|].
  simpl. rewrite IH, nested_all_out, app_assoc. reflexivity.
Qed.

(* ---------- next() ---------- *)
(* one next(): the head of what is pending followed by what the source still produces *)
Lemma iter_next_spec chain src buf :
  let r := iter_next chain (src, buf) in
  fst r = hd_error (buf ++ all_out chain src)
  /\ snd (snd r) ++ all_out chain (fst (snd r)) = tl (buf ++ all_out chain src).
Proof.
  unfold iter_next. destruct buf as [|x b]; simpl.
  - pose proof (fill_spec chain src) as Hf. pose proof (fill_nil chain src) as Hn.
    destruct (fill src chain) as [src' b'] eqn:E. simpl in *.
    destruct b' as [|y b'']; simpl.
    + destruct (Hn eq_refl) as [H1 H2]. subst src'. rewrite H1. auto.
    + rewrite <- Hf. auto.
  - auto.
Qed.

(* k manual next() calls take the first k results; whatever drains the iterator afterwards gets
   exactly the others -- including those that were pending in the buffer *)
Theorem nexts_then_drain chain : forall k src buf,
  let L := buf ++ all_out chain src in
  let '(f, (src', buf')) := nexts k chain (src, buf) in
  f = firstn k L /\ buf' ++ all_out chain src' = skipn k L.
Proof.
  induction k as [|k IH]; intros src buf; [simpl; auto|].
  cbn [nexts]. cbv zeta.
  pose proof (iter_next_spec chain src buf) as H. cbv zeta in H.
  destruct (iter_next chain (src, buf)) as [x [src1 buf1]].
  destruct H as [Hx Ht]. cbn [fst snd] in Hx, Ht.
  destruct (buf ++ all_out chain src) as [|y L'] eqn:EL; simpl in *; subst x.
  - rewrite Ht. auto.
  - specialize (IH src1 buf1). simpl in IH.
    destruct (nexts k chain (src1, buf1)) as [l [src2 buf2]].
    rewrite Ht in IH. destruct IH as [H1 H2]. subst l. auto.
Qed.

Corollary drain_after_nexts chain k src fuel :
  let '(f, it') := nexts k chain (src, []) in
  (length (all_out chain src) < fuel)%nat ->
  f = firstn k (all_out chain src) /\ drain fuel chain it' = skipn k (all_out chain src).
Proof.
  pose proof (nexts_then_drain chain k src []) as H. simpl in H.
  destruct (nexts k chain (src, [])) as [f [src' buf']]. destruct H as [H1 H2].
  intros Hf. split; [exact H1|].
  rewrite drain_all; [exact H2|]. rewrite H2, skipn_length. lia.
Qed.

(* so every method of the iterator, after k next() calls, shows what it would show of the tail of
   the flat stream *)
Theorem iter_meth_spec src segs chain k m :
  iter_meth src segs chain k m
  = let full := all_out (concat (map (map adapter_of) segs) ++ map adapter_of chain) src in
    (firstn k full, meth_obs m (skipn k full)).
Proof.
  unfold iter_meth.
  pose proof (drain_after_nexts (map adapter_of chain) k (nest (map (map adapter_of) segs) src)
                (total_out (nest (map (map adapter_of) segs) src))) as H.
  destruct (nexts k (map adapter_of chain) (nest (map (map adapter_of) segs) src, [])) as [f it1].
  destruct (H (all_out_length _ _)) as [H1 H2].
  rewrite H1, H2, nest_all_out. reflexivity.
Qed.

(* ---------- the blanket impl on the iterator state = on the unfolded stream ---------- *)
Section LazyEager.
Variable St : Type.
Theorem iter_lazy_is_eager chain (g : sink St) : forall fuel src buf st,
  (length (buf ++ all_out chain src) < fuel)%nat ->
  ires3 (iter_try_for_each St fuel chain (src, buf) g st)
  = res3 (try_for_each St (of_results (buf ++ all_out chain src)) [] g st).
Proof.
  induction fuel as [|n IH]; intros src buf st Hf; [inversion Hf|].
  cbn [iter_try_for_each]. unfold iter_try_for_some.
  pose proof (iter_next_spec chain src buf) as H. cbv zeta in H.
  destruct (iter_next chain (src, buf)) as [x [src1 buf1]]. destruct H as [Hx Ht]. cbn [fst snd] in Hx, Ht.
  destruct (buf ++ all_out chain src) as [|y L'] eqn:EL; simpl in *; subst x.
  - reflexivity.
  - destruct y as [v|e]; simpl.
    + destruct (g v st) as [st' [e|]]; [reflexivity|].
      rewrite IH; [rewrite Ht; reflexivity|]. rewrite Ht. lia.
    + reflexivity.
Qed.
End LazyEager.

(* the size hint plays no part: an iterator used as a source ends when next() says so.  In
   particular the whole stream reaches the consumer when nothing fails *)
Corollary iterator_source_delivers_all chain fault src :
  (forall stp, In stp src -> snd stp = None) ->
  not_reached fault (length (fm chain (flat_map fst src))) ->
  res3 (try_for_each _ (iter_source chain src) [] (rec_sink fault) [])
  = (fm chain (flat_map fst src), Done).
Proof.
  intros Hc Hn. rewrite iter_source_flat, app_nil_r.
  assert (src = clean (map fst src)) as E.
  { clear Hn. induction src as [|[items oe] rest IH]; [reflexivity|].
    pose proof (Hc (items, oe) (or_introl eq_refl)) as Ho. simpl in Ho. subst oe. unfold clean in *. simpl. f_equal.
    apply IH. intros stp Hs. apply Hc. right. exact Hs. }
  rewrite E at 1.
  assert (items_of (map fst src) = flat_map fst src) as E2.
  { unfold items_of. clear. induction src as [|[i o] r IH]; simpl; [reflexivity|]. rewrite IH. reflexivity. }
  rewrite (no_fault_all chain fault (map fst src) []); simpl; rewrite E2; [reflexivity|exact Hn].
Qed.
