(* C08/Source.v -- how a parser's source may be DRIVEN (api/src/source.rs and api/src/source/{filter,map,filter_map}.rs).
   Definitions only.

   A source is seen through its one REQUIRED method, try_for_some_item: every call either delivers some statements
   (possibly none) and says "there may be more", or delivers some statements and reports an error of the source, or says
   "no more items"; a recording of the calls made on a fresh source up to "no more items" is a list of steps.  Everything
   else -- try_for_each_item, for_some_item, for_each_item, the methods of TripleSource / QuadSource (thin wrappers),
   the filter / map / filter_map adapters, their iterators, collect_* and add_to_* -- is a PROVIDED method: its default
   text is transcribed below, so what any sequence of calls (a history) delivers is determined by the steps.  A parser's
   source type may override the provided methods, but must behave like the default ones: the harness (harness/src/bin/c08.rs,
   round 6) runs histories on every parser's source and `hist_ok` compares each observed call with this model.

   Statements and error messages are numbers (their order of first appearance in the case). *)
From Sophia.Common Require Import Prelude.

(* ---- the recording of the required method ---- *)
Inductive sres := SMore | SFail (e : N).
Definition step := (list N * sres)%type.
Inductive ev := EvS (x : N) | EvE (e : N).

(* ---- what a call gives ---- *)
Inductive res :=
| RMore | REnd                      (* Ok(true) / Ok(false) of the *_some_* methods; Some / None of an iterator *)
| RDone                             (* Ok(()) of the *_each_* methods, Ok(collection) of collect_* *)
| RSrcErr (e : N) | RSinkErr        (* Err(SourceError(e)) / Err(SinkError(_)) *)
| RHint (lo : N) (hi : option N)    (* size_hint_* *)
| RCount (n : N)                    (* Ok(n) of add_to_* *)
| RPanic.                           (* never produced by the model *)
Definition obs := (list N * res)%type.

(* a sink that fails on its (k+1)-th call (None: never) *)
Definition sink := option N.
Fixpoint feed (xs : list N) (b : sink) : list N * bool * sink :=
  match xs with
  | [] => ([], false, b)
  | x :: r =>
      match b with
      | None => let '(d, f, b') := feed r None in (x :: d, f, b')
      | Some k => if k =? 0 then ([x], true, Some 0)
                  else let '(d, f, b') := feed r (Some (N.pred k)) in (x :: d, f, b')
      end
  end.

Definition is_more (r : sres) : bool := match r with SMore => true | SFail _ => false end.
Definition res_of (r : sres) : res := match r with SMore => RMore | SFail e => RSrcErr e end.

(* State of a source: the steps still to come; None = not determined by the recording (a sink failed in the middle of
   a step: what the parser does with the rest of that step is its own business). [atomic]: the source hands out at most
   one statement per step and has taken it before the sink runs (N-Triples, N-Quads, JSON-LD). *)
Definition state := option (list step).

(* Source::try_for_some_item, the required method *)
Definition try_some (atomic : bool) (s : list step) (b : sink) : list N * res * state * sink :=
  match s with
  | [] => ([], REnd, Some [], b)
  | (xs, r) :: t =>
      let '(d, failed, b') := feed xs b in
      if failed then (d, RSinkErr, if atomic && Nat.eqb (length xs) 1 && is_more r then Some t else None, b')
      else (d, res_of r, Some t, b')
  end.

(* Source::try_for_each_item:   while self.try_for_some_item(&mut f)? {}  Ok(())
   (the loop runs at most once per step, and once more to see the end) *)
Fixpoint try_each_loop (fuel : nat) (atomic : bool) (s : list step) (b : sink) : list N * res * state :=
  match fuel with
  | O => ([], RPanic, None)
  | S f =>
      let '(d, r, s', b') := try_some atomic s b in
      match r with
      | RMore => match s' with
                 | Some s'' => let '(d2, r2, s2) := try_each_loop f atomic s'' b' in (d ++ d2, r2, s2)
                 | None => (d, RPanic, None)
                 end
      | REnd => (d, RDone, s')
      | other => (d, other, s')
      end
  end.
Definition try_each (atomic : bool) (s : list step) (b : sink) : list N * res * state :=
  try_each_loop (S (length s)) atomic s b.

(* Source::for_some_item: try_for_some_item with a closure that cannot fail;
   Source::for_each_item:   while self.for_some_item(&mut f)? {}  Ok(()) *)
Definition for_some (atomic : bool) (s : list step) : list N * res * state :=
  let '(d, r, s', _) := try_some atomic s None in (d, r, s').
Fixpoint for_each_loop (fuel : nat) (atomic : bool) (s : list step) : list N * res * state :=
  match fuel with
  | O => ([], RPanic, None)
  | S f =>
      let '(d, r, s') := for_some atomic s in
      match r with
      | RMore => match s' with
                 | Some s'' => let '(d2, r2, s2) := for_each_loop f atomic s'' in (d ++ d2, r2, s2)
                 | None => (d, RPanic, None)
                 end
      | REnd => (d, RDone, s')
      | other => (d, other, s')
      end
  end.
Definition for_each (atomic : bool) (s : list step) : list N * res * state := for_each_loop (S (length s)) atomic s.

(* the closed form of both loops: statements up to the first error of the source, the first failure of the sink, or the end *)
Fixpoint each (atomic : bool) (s : list step) (b : sink) : list N * res * state :=
  match s with
  | [] => ([], RDone, Some [])
  | (xs, r) :: t =>
      let '(d, failed, b') := feed xs b in
      if failed then (d, RSinkErr, if atomic && Nat.eqb (length xs) 1 && is_more r then Some t else None)
      else match r with
           | SFail e => (d, RSrcErr e, Some t)
           | SMore => let '(d2, r2, s2) := each atomic t b' in (d ++ d2, r2, s2)
           end
  end.

(* everything a source still has to say, in order *)
Fixpoint events (s : list step) : list ev :=
  match s with
  | [] => []
  | (xs, r) :: t => map EvS xs ++ match r with SMore => [] | SFail e => [EvE e] end ++ events t
  end.
Definition obs_events (o : obs) : list ev :=
  map EvS (fst o) ++ match snd o with RSrcErr e => [EvE e] | _ => [] end.
Fixpoint count_stmts (l : list ev) : N :=
  match l with [] => 0 | EvS _ :: r => N.succ (count_stmts r) | EvE _ :: r => count_stmts r end.
Definition remaining (s : list step) : N := count_stmts (events s).

(* size_hint_*: "the same contract as Iterator::size_hint" on the statements still to come *)
Definition hint_ok (lo : N) (hi : option N) (n : N) : bool :=
  (lo <=? n) && match hi with None => true | Some h => n <=? h end.

(* ---- the adapters ---- *)
(* the predicates the harness uses, by the number of items the predicate has seen *)
Definition keep (k n : N) : bool :=
  match k with 0 => true | 1 => n mod 2 =? 0 | 2 => false | _ => negb (n mod 3 =? 0) end.
Fixpoint filter_from (k n : N) (xs : list N) : list N * N :=
  match xs with
  | [] => ([], n)
  | x :: r => let '(d, n') := filter_from k (N.succ n) r in (if keep k n then x :: d else d, n')
  end.
(* FilterSource / FilterMapSource::try_for_some_item: the inner call with a sink that sees only what the predicate keeps *)
Fixpoint filter_steps (k n : N) (s : list step) : list step :=
  match s with
  | [] => []
  | (xs, r) :: t => let '(d, n') := filter_from k n xs in (d, r) :: filter_steps k n' t
  end.

(* MapSourceIterator::next / FilterMapSourceIterator::next:
     while buffer.is_empty() && remaining { match source.for_some_item(push) { Ok(b) => remaining = b,
                                                                              Err(e) => { push Err(e); remaining = false } } }
     buffer.pop_front() *)
Fixpoint iter_fill (s : list step) : list ev * list step :=
  match s with
  | [] => ([], [])
  | (xs, SMore) :: t => match xs with [] => iter_fill t | _ => (map EvS xs, t) end
  | (xs, SFail e) :: t => (map EvS xs ++ [EvE e], t)
  end.
Definition iter_next (buf : list ev) (s : list step) : obs * list ev * list step :=
  let '(buf', s') := match buf with [] => iter_fill s | _ => (buf, s) end in
  match buf' with
  | [] => (([], REnd), [], s')
  | EvS x :: r => (([x], RMore), r, s')
  | EvE e :: r => (([], RSrcErr e), r, s')
  end.

(* ---- histories ---- *)
Inductive op := OSome (fail : bool) | OEach (fail_at : option N) | OHint.
Inductive fin :=
| FNone
| FCollect | FAddTo                  (* collect_triples / collect_quads, add_to_graph / add_to_dataset *)
| FFilter (k : N)                    (* filter_* / filter_map_* with predicate k, then calls on the adapter *)
| FMap                               (* map_* / to_quads / to_triples, then calls on the adapter *)
| FIter | FFilterIter (k : N).       (* map_*(..).into_iter() / filter_map_*(..).into_iter(), then next() calls *)

Definition res_eqb (a b : res) : bool :=
  match a, b with
  | RMore, RMore | REnd, REnd | RDone, RDone | RSinkErr, RSinkErr => true
  | RSrcErr x, RSrcErr y => x =? y
  | RCount x, RCount y => x =? y
  | RHint l h, RHint l' h' => (l =? l') && opt_eqb N.eqb h h'
  | _, _ => false
  end.
Definition obs_eqb (a b : obs) : bool := list_eqb N.eqb (fst a) (fst b) && res_eqb (snd a) (snd b).
Definition nil {A} (l : list A) : bool := match l with [] => true | _ => false end.

(* calls that involve no failing sink and no size hint *)
Definition infallible (o : op) : bool := match o with OSome false | OEach None => true | _ => false end.

(* one call on a source in a known state: what it must give, and the state after it (a size hint gives nothing: it is
   checked against its contract) *)
Definition run_op (atomic : bool) (s : list step) (o : op) : option obs * state :=
  match o with
  | OSome f => let '(d, r, s', _) := try_some atomic s (if f then Some 0 else None) in (Some (d, r), s')
  | OEach k => let '(d, r, s') := try_each atomic s k in (Some (d, r), s')
  | OHint => (None, Some s)
  end.
(* a sequence of calls: everything they give, and the state they leave *)
Fixpoint run_ops (atomic : bool) (s : list step) (ops : list op) : list obs * state :=
  match ops with
  | [] => ([], Some s)
  | o :: r =>
      let '(e, st) := run_op atomic s o in
      let here := match e with Some x => [x] | None => [] end in
      match st with
      | Some s' => let '(l, st') := run_ops atomic s' r in (here ++ l, st')
      | None => (here, None)
      end
  end.
Definition check_op (atomic : bool) (st : state) (o : op) (ob : obs) : bool * state :=
  match st with
  | None => (true, None)
  | Some s =>
      match run_op atomic s o with
      | (Some e, s') => (obs_eqb e ob, s')
      | (None, s') => (match snd ob with RHint lo hi => nil (fst ob) && hint_ok lo hi (remaining s) | _ => false end, s')
      end
  end.
Fixpoint check_ops (atomic : bool) (st : state) (ops : list op) (l : list obs) : bool * state * list obs :=
  match ops with
  | [] => (true, st, l)
  | o :: ops' =>
      match l with
      | [] => (false, st, [])
      | ob :: l' => let '(ok, st') := check_op atomic st o ob in
                    if ok then check_ops atomic st' ops' l' else (false, st', l')
      end
  end.
(* the calls on an iterator: next(), or size_hint() = the inner source's size hint *)
Fixpoint check_iter (buf : list ev) (s : list step) (ops : list op) (l : list obs) : bool :=
  match ops with
  | [] => nil l
  | o :: ops' =>
      match l with
      | [] => false
      | ob :: l' =>
          match o with
          | OHint => match snd ob with
                     | RHint lo hi => nil (fst ob) && hint_ok lo hi (count_stmts buf + remaining s) && check_iter buf s ops' l'
                     | _ => false
                     end
          | _ => let '(e, buf', s') := iter_next buf s in obs_eqb e ob && check_iter buf' s' ops' l'
          end
      end
  end.

(* The harness-facing checker: the steps recorded on a fresh source, the calls made before the consuming call, the
   consuming call, the calls made on what it returned, and everything that was observed. *)
Definition hist_ok (atomic : bool) (s : list step) (pre : list op) (f : fin) (post : list op) (l : list obs) : bool :=
  let '(ok, st, rest) := check_ops atomic (Some s) pre l in
  ok &&
  match f with
  | FNone => nil post && nil rest
  | FCollect =>
      match rest with
      | [ob] => match st with
                | None => true
                | Some s' => let '(d, r, _) := for_each atomic s' in
                             obs_eqb (match r with RSrcErr _ => [] | _ => d end, r) ob
                end
      | _ => false
      end
  | FAddTo =>
      match rest with
      | [ob] => match st with
                | None => true
                | Some s' => let '(d, r, _) := try_each atomic s' None in
                             obs_eqb (d, match r with RDone => RCount (N.of_nat (length d)) | _ => r end) ob
                end
      | _ => false
      end
  | FFilter k => let '(ok2, _, rest2) := check_ops atomic (option_map (filter_steps k 0) st) post rest in ok2 && nil rest2
  | FMap => let '(ok2, _, rest2) := check_ops atomic st post rest in ok2 && nil rest2
  | FIter => match st with None => true | Some s' => check_iter [] s' post rest end
  | FFilterIter k => match st with None => true | Some s' => check_iter [] (filter_steps k 0 s') post rest end
  end.
