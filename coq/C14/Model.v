(* C14/Model.v -- ORDER BY of sophia_sparql:
     sparql/src/exec.rs        order_by / cmp_bindings_with
     sparql/src/expression.rs  EvalResult::{sparql_cmp, sparql_order_by, order_by_class}
     sparql/src/value.rs       SparqlValue::{partial_cmp, order_by_class, order_by_cmp}
     sparql/src/value/_number.rs        SparqlNumber::{coerce_to_*, coercing_operator/partial_cmp, exact_cmp}
     sparql/src/value/_xsd_date_time.rs XsdDateTime::{partial_cmp, heterogeneous_cmp, timeline_cmp}
     api/src/term.rs           Term::cmp (Common/Term.v)
   Both the comparator of the original tree ([order_by_prefix]) and the repaired one
   ([order_by], build/proposed/C14.diff) are transcribed.  Definitions only.

   What is abstracted (stated again in Properties.v):
   - lexical form -> value (SparqlValue::try_from_term: Rust's integer/float parsers, BigDecimal,
     the dateTime regex + chrono) is NOT modelled: an [item] carries the term together with the
     value that the implementation parsed from it (the harness exports the real parsed value);
   - a finite binary float is its exact value  +-m * 2^e  (no mantissa width in the type);
   - the conversions integer/decimal -> f64/f32 (`as f64`, BigInt::to_f64, BigDecimal::to_f64, ...)
     are two arbitrary functions [c64 c32 : num -> fl] in this file (a concrete round-to-nearest-even
     is given for the examples); Rounding.v defines round-to-nearest-even for the proofs, Engine.v
     the functions that the engine uses, RoundingProofs.v / EngineProofs.v discharge [conv_ok];
   - a dateTime is its position in seconds + nanoseconds (local for Naive, UTC for Timezoned);
   - expressions are already evaluated: a solution is the list of its keys (option item);
   - slice::sort_unstable_by is not modelled: any permutation of the input that is sorted for
     the comparator is an admissible output (its contract for a total order). *)
From Coq Require Import QArith.
From Sophia.Common Require Export Prelude Term.
Close Scope Q_scope.
Open Scope N_scope.

(* ---------- numbers ---------- *)
Inductive fl := FNaN | FInf (neg : bool) | FFin (neg : bool) (m : N) (e : Z).
Inductive num :=
| NativeInt (z : Z) | BigInt (z : Z)
| Decimal (m scale : Z)              (* BigDecimal: m * 10^(-scale) *)
| Float (f : fl) | Double (f : fl).

Definition q_of_dec (m scale : Z) : Q :=
  if (0 <=? scale)%Z then Qmake m (Z.to_pos (10 ^ scale)) else Qmake (m * 10 ^ (- scale)) 1.
Definition q_of_fin (neg : bool) (m : N) (e : Z) : Q :=
  let s := if neg then (- Z.of_N m)%Z else Z.of_N m in
  if (0 <=? e)%Z then Qmake (s * 2 ^ e) 1 else Qmake s (Z.to_pos (2 ^ (- e))).

(* the affinely extended rationals: values of non-NaN floats *)
Inductive ext := ENInf | EFin (q : Q) | EPInf.
Definition ext_cmp (a b : ext) : comparison :=
  match a, b with
  | ENInf, ENInf => Eq | ENInf, _ => Lt | _, ENInf => Gt
  | EPInf, EPInf => Eq | EPInf, _ => Gt | _, EPInf => Lt
  | EFin x, EFin y => Qcompare x y
  end.
Definition fl_ext (f : fl) : option ext :=
  match f with
  | FNaN => None
  | FInf true => Some ENInf | FInf false => Some EPInf
  | FFin s m e => Some (EFin (q_of_fin s m e))
  end.
(* f64::partial_cmp / f32::partial_cmp (IEEE: NaN unordered, -0.0 == 0.0); f32 -> f64 is exact *)
Definition fl_partial_cmp (a b : fl) : option comparison :=
  match fl_ext a, fl_ext b with
  | Some x, Some y => Some (ext_cmp x y)
  | _, _ => None
  end.

(* exact value of the integer and decimal variants (coerce_to_decimal is exact) *)
Definition num_q (n : num) : option Q :=
  match n with
  | NativeInt z | BigInt z => Some (Qmake z 1)
  | Decimal m s => Some (q_of_dec m s)
  | Float _ | Double _ => None
  end.
(* integers and decimals among themselves: the fdec / fbig / fint closures, all exact *)
Definition intdec_cmp (a b : num) : option comparison :=
  match num_q a, num_q b with
  | Some x, Some y => Some (Qcompare x y)
  | _, _ => None
  end.

Section Coercions.
(* results of coerce_to_double / coerce_to_float on the integer and decimal variants *)
Variables c64 c32 : num -> fl.

Definition coerce_to_double (n : num) : fl :=
  match n with Float f | Double f => f | _ => c64 n end.
Definition coerce_to_float (n : num) : fl :=
  match n with Float f => f | _ => c32 n end.   (* Double -> f32 never happens in a comparison *)

(* coercing_operator instantiated by partial_cmp *)
Definition num_partial_cmp (a b : num) : option comparison :=
  match a, b with
  | Double x, _ => fl_partial_cmp x (coerce_to_double b)
  | _, Double y => fl_partial_cmp (coerce_to_double a) y
  | Float x, _ => fl_partial_cmp x (coerce_to_float b)
  | _, Float y => fl_partial_cmp (coerce_to_float a) y
  | _, _ => intdec_cmp a b
  end.
End Coercions.

(* --- repaired code: SparqlNumber::exact_cmp --- *)
Definition as_binary_float (n : num) : option fl :=
  match n with Float f | Double f => Some f | _ => None end.
(* binary_float_exact_cmp(lhs, rhs) with rhs already turned into its exact decimal value *)
Definition binary_float_exact_cmp (x : fl) (q : Q) : option comparison :=
  match x with
  | FNaN => None
  | FInf neg => Some (if neg then Lt else Gt)
  | FFin s m e => Some (Qcompare (q_of_fin s m e) q)    (* BigDecimal::try_from(f64) is exact *)
  end.
Definition num_exact_cmp (a b : num) : option comparison :=
  match as_binary_float a, as_binary_float b with
  | Some x, Some y => fl_partial_cmp x y
  | None, None => intdec_cmp a b
  | Some x, None => match num_q b with Some q => binary_float_exact_cmp x q | None => None end
  | None, Some y =>
      option_map CompOpp (match num_q a with Some q => binary_float_exact_cmp y q | None => None end)
  end.

(* ---------- dateTimes ---------- *)
Inductive xdt :=
| Naive (secs : Z) (nanos : N)          (* NaiveDateTime: local time *)
| Timezoned (secs : Z) (nanos : N).     (* DateTime<FixedOffset>: position on the UTC timeline *)
Definition inst_cmp (s1 : Z) (n1 : N) (s2 : Z) (n2 : N) : comparison :=
  then_cmp (Z.compare s1 s2) (N.compare n1 n2).
Definition h14 : Z := 50400.
(* heterogeneous_cmp(d1: timezoned, d2: naive); naive_to_fixed(d, +14) is d - 14h in UTC *)
Definition heterogeneous_cmp (s1 : Z) (n1 : N) (s2 : Z) (n2 : N) : option comparison :=
  match inst_cmp s1 n1 (s2 - h14) n2 with
  | Lt => Some Lt
  | _ => match inst_cmp s1 n1 (s2 + h14) n2 with
         | Gt => Some Gt
         | _ => None
         end
  end.
Definition dt_partial_cmp (a b : xdt) : option comparison :=
  match a, b with
  | Naive s1 n1, Naive s2 n2 => Some (inst_cmp s1 n1 s2 n2)
  | Naive s1 n1, Timezoned s2 n2 => option_map CompOpp (heterogeneous_cmp s2 n2 s1 n1)
  | Timezoned s1 n1, Naive s2 n2 => heterogeneous_cmp s1 n1 s2 n2
  | Timezoned s1 n1, Timezoned s2 n2 => Some (inst_cmp s1 n1 s2 n2)
  end.
(* repaired code: XsdDateTime::timeline_cmp *)
Definition dt_position (d : xdt) : Z * N :=
  match d with Naive s n | Timezoned s n => (s, n) end.
Definition timeline_cmp (a b : xdt) : comparison :=
  inst_cmp (fst (dt_position a)) (snd (dt_position a)) (fst (dt_position b)) (snd (dt_position b)).

(* ---------- SparqlValue ---------- *)
Inductive value :=
| VNum (n : num)
| VStr (lex : str) (tag : option str)
| VBool (b : option bool)              (* None: ill-formed xsd:boolean *)
| VDate (d : option xdt).              (* None: ill-formed xsd:dateTime *)

Definition bool_cmp (a b : bool) : comparison :=
  match a, b with false, true => Lt | true, false => Gt | _, _ => Eq end.

(* the shape shared by SparqlValue::partial_cmp and SparqlValue::order_by_cmp *)
Definition value_cmp_with (fnum : num -> num -> option comparison)
                          (fdate : xdt -> xdt -> option comparison) (a b : value) : option comparison :=
  match a, b with
  | VNum n1, VNum n2 => fnum n1 n2
  | VStr s1 None, VStr s2 None => Some (str_cmp s1 s2)
  | VStr s1 (Some t1), VStr s2 (Some t2) => Some (then_cmp (str_cmp (lower t1) (lower t2)) (str_cmp s1 s2))
  | VBool (Some b1), VBool (Some b2) => Some (bool_cmp b1 b2)
  | VDate (Some d1), VDate (Some d2) => fdate d1 d2
  | _, _ => None
  end.
Definition value_partial_cmp c64 c32 := value_cmp_with (num_partial_cmp c64 c32) dt_partial_cmp.
Definition value_order_by_cmp := value_cmp_with num_exact_cmp (fun a b => Some (timeline_cmp a b)).

Definition no_class : N := 255.
Definition value_order_by_class (v : value) : N :=
  match v with
  | VNum n => match num_exact_cmp n n with Some _ => 0 | None => 1 end
  | VStr _ None => 2
  | VStr _ (Some _) => 3
  | VBool (Some _) => 4
  | VDate (Some _) => 5
  | VBool None | VDate None => no_class
  end.

(* ---------- EvalResult ---------- *)
(* EvalResult::Term(ResultTerm{inner, value}) is (inner, value);
   EvalResult::Value(v) is (its as_term(), Some v) *)
Record item := mkItem { tm : term; val : option value }.

Definition is_literal (t : term) : bool :=
  match kind_of t with KLiteral => true | _ => false end.

Definition sparql_cmp c64 c32 (a b : item) : option comparison :=
  match val a, val b with
  | Some x, Some y => value_partial_cmp c64 c32 x y
  | _, _ => if is_literal (tm a) && is_literal (tm b) && term_eqb (tm a) (tm b) then Some Eq else None
  end.
(* the operator '<' of FILTER expressions: Less(lhs, rhs) => sparql_cmp.map(is_lt) *)
Definition lt_sparql c64 c32 (a b : item) : option bool :=
  option_map (fun c => match c with Lt => true | _ => false end) (sparql_cmp c64 c32 a b).

(* original tree: sparql_order_by with other = Some(val) *)
Definition order_by_prefix c64 c32 (a b : item) : comparison :=
  match sparql_cmp c64 c32 a b with
  | Some c => c
  | None => term_cmp (tm a) (tm b)
  end.

(* repaired code *)
Definition item_class (a : item) : N :=
  match val a with
  | Some v => value_order_by_class v
  | None => if is_literal (tm a) then no_class else 0
  end.
Definition class_cmp (a b : item) : comparison :=   (* (TermKind, u8) tuples *)
  then_cmp (N.compare (kind_rank (kind_of (tm a))) (kind_rank (kind_of (tm b))))
           (N.compare (item_class a) (item_class b)).
Definition in_class_cmp (a b : item) : comparison :=
  match (match val a, val b with
         | Some x, Some y => value_order_by_cmp x y
         | _, _ => None
         end) with
  | Some c => c
  | None => term_cmp (tm a) (tm b)
  end.
Definition order_by (a b : item) : comparison := then_cmp (class_cmp a b) (in_class_cmp a b).

(* ---------- exec.rs: cmp_bindings_with, parameterised by the comparator of bound keys ---------- *)
Definition key_cmp (ob : item -> item -> comparison) (k1 k2 : option item) : comparison :=
  match k1, k2 with
  | None, None => Eq
  | None, Some _ => Lt
  | Some _, None => Gt                     (* sparql_order_by(.., &None) *)
  | Some a, Some b => ob a b
  end.
Definition dir (desc : bool) (c : comparison) : comparison := if desc then CompOpp c else c.
Definition row := list (option item).
Fixpoint cmp_bindings_with (ob : item -> item -> comparison) (descs : list bool) (r1 r2 : row) : comparison :=
  match descs, r1, r2 with
  | d :: ds, k1 :: t1, k2 :: t2 =>
      then_cmp (dir d (key_cmp ob k1 k2)) (cmp_bindings_with ob ds t1 t2)
  | _, _, _ => Eq
  end.

(* a reference sort (insertion sort); the implementation's sort_unstable_by may return any
   other sorted permutation *)
Definition leb_of {A} (c : A -> A -> comparison) (a b : A) : bool :=
  match c a b with Gt => false | _ => true end.
Fixpoint insert {A} (c : A -> A -> comparison) (x : A) (l : list A) : list A :=
  match l with
  | [] => [x]
  | y :: l' => if leb_of c x y then x :: l else y :: insert c x l'
  end.
Fixpoint isort {A} (c : A -> A -> comparison) (l : list A) : list A :=
  match l with [] => [] | x :: l' => insert c x (isort c l') end.

(* ---------- a concrete conversion for the examples: round to nearest, ties to even ---------- *)
(* positive rational p/q to a float with [prec] bits and least exponent [emin] (of the unit in the
   last place), overflowing to infinity at 2^emax *)
Definition rne_pos (prec : Z) (emin emax : Z) (p q : Z) : fl :=
  let l := (Z.log2 p - Z.log2 q)%Z in                      (* floor(log2(p/q)) is l or l-1 *)
  let l := if (p * 2 ^ Z.max 0 (- l) <? q * 2 ^ Z.max 0 l)%Z then (l - 1)%Z else l in
  let e := Z.max emin (l - (prec - 1))%Z in
  let num := (p * 2 ^ Z.max 0 (- e))%Z in
  let den := (q * 2 ^ Z.max 0 e)%Z in
  let m := (num / den)%Z in
  let r2 := (2 * (num mod den))%Z in
  let m := if (den <? r2)%Z then (m + 1)%Z
           else if (r2 =? den)%Z then (if Z.even m then m else (m + 1)%Z) else m in
  if (2 ^ (emax - e) <=? m)%Z then FInf false else FFin false (Z.to_N m) e.
Definition rne (prec emin emax : Z) (x : Q) : fl :=
  match Qnum x with
  | Z0 => FFin false 0 0
  | Zpos p => rne_pos prec emin emax (Zpos p) (Zpos (Qden x))
  | Zneg p => match rne_pos prec emin emax (Zpos p) (Zpos (Qden x)) with
              | FFin _ m e => FFin true m e
              | FInf _ => FInf true
              | FNaN => FNaN
              end
  end.
Definition conv_rne (prec emin emax : Z) (n : num) : fl :=
  match num_q n with Some x => rne prec emin emax x | None => FNaN end.
Definition c64_rne := conv_rne 53 (-1074) 1024.
Definition c32_rne := conv_rne 24 (-149) 128.

(* ---------- a key computed by an expression: ORDER BY (?x * 1) ----------
   Multiply: as_number()? * as_number()? gives EvalResult::Value(Number n) with the same value
   and variant (BigInt stays BigInt); anything that is not a number is an evaluation error, i.e.
   an unbound key.  as_term() of the result is value_ref_to_arcterm: only the lexical form of
   NaN ("NaN") can matter for the order (NaNs fall back to Term::cmp), the others are left empty. *)
Definition xsd_ns : str :=
  [104;116;116;112;58;47;47;119;119;119;46;119;51;46;111;114;103;47;50;48;48;49;47;88;77;76;83;99;104;101;109;97;35].
Definition value_term (n : num) : term :=
  LitDt (match n with Float FNaN | Double FNaN => [78;97;78] | _ => [] end)
        (xsd_ns ++ match n with
                   | NativeInt _ | BigInt _ => [105;110;116;101;103;101;114]
                   | Decimal _ _ => [100;101;99;105;109;97;108]
                   | Float _ => [102;108;111;97;116]
                   | Double _ => [100;111;117;98;108;101]
                   end).
Definition times_one (k : option item) : option item :=
  match k with
  | Some a => match val a with
              | Some (VNum n) => Some (mkItem (value_term n) (Some (VNum n)))
              | _ => None
              end
  | None => None
  end.

(* ---------- harness-facing checkers ---------- *)
Definition cmp_code (c : comparison) : N := match c with Lt => 0 | Eq => 1 | Gt => 2 end.
(* the comparator observed on a pair of keys (by sorting the two-element multiset both ways) *)
Definition pair_ok (k1 k2 : option item) (observed : N) : bool :=
  N.eqb (cmp_code (key_cmp order_by k1 k2)) observed.

Fixpoint count_N (x : N) (l : list N) : N :=
  match l with [] => 0 | y :: l' => (if N.eqb x y then 1 else 0) + count_N x l' end.
Fixpoint all_pairs_le {A} (leb : A -> A -> bool) (l : list A) : bool :=
  match l with [] => true | x :: l' => forallb (leb x) l' && all_pairs_le leb l' end.
(* [out] lists, in output order, the positions of the solutions in the unsorted sequence [rows] *)
Definition rows_ok (descs : list bool) (rows : list row) (out : list N) : bool :=
  let n := N.of_nat (length rows) in
  N.eqb (N.of_nat (length out)) n
  && forallb (fun i => N.ltb i n && N.eqb (count_N i out) 1) out
  && all_pairs_le (leb_of (cmp_bindings_with order_by descs))
       (map (fun i => nth (N.to_nat i) rows []) out).
(* the same for ORDER BY (?x0 * 1), ... *)
Definition expr_rows_ok (descs : list bool) (rows : list row) (out : list N) : bool :=
  rows_ok descs (map (map times_one) rows) out.

(* ================= end-to-end queries (harness kinds q:..) ================= *)
(* ---------- the operators '<' '<=' '>' '>=' of expressions: EvalResult::sparql_compare ----------
   Two numbers are never an error: every operator is false when they have no order (NaN). *)
Definition sparql_compare c64 c32 (pred : comparison -> bool) (a b : item) : option bool :=
  match val a, val b with
  | Some (VNum x), Some (VNum y) =>
      Some (match num_partial_cmp c64 c32 x y with Some c => pred c | None => false end)
  | _, _ => option_map pred (sparql_cmp c64 c32 a b)
  end.
Definition is_lt (c : comparison) : bool := match c with Lt => true | _ => false end.
(* Less(lhs, rhs) on two keys: an unbound operand is an evaluation error *)
Definition lt_keys c64 c32 (k1 k2 : option item) : option bool :=
  match k1, k2 with
  | Some a, Some b => sparql_compare c64 c32 is_lt a b
  | _, _ => None
  end.
(* the comparison involves no integer/decimal -> float conversion (the abstracted c64 / c32) *)
Definition is_bin_float (n : num) : bool := match n with Float _ | Double _ => true | _ => false end.
Definition conv_free (a b : item) : bool :=
  match val a, val b with
  | Some (VNum x), Some (VNum y) => Bool.eqb (is_bin_float x) (is_bin_float y)
  | _, _ => true
  end.
(* observed answer of the engine to  key1 < key2 : 0 false, 1 true, 2 error (BIND leaves the variable unbound) *)
Definition lt_code (o : option bool) : N :=
  match o with Some false => 0 | Some true => 1 | None => 2 end.
Definition lt_entry_ok (k1 k2 : option item) (code : N) : bool :=
  (* what the property needs: a pair that the engine declares '<' is put in that order by ORDER BY *)
  (if N.eqb code 1 then match key_cmp order_by k1 k2 with Lt => true | _ => false end else true)
  && (* and the modelled operator itself, when its result does not depend on c64 / c32 *)
  match k1, k2 with
  | Some a, Some b =>
      if conv_free a b then N.eqb (lt_code (lt_keys c64_rne c32_rne k1 k2)) code else true
  | _, _ => N.eqb code 2
  end.
Definition key_at (k : N) (r : row) : option item := nth (N.to_nat k) r None.
Fixpoint forallb2 {A B} (f : A -> B -> bool) (l : list A) (m : list B) : bool :=
  match l, m with
  | [], [] => true
  | x :: l', y :: m' => f x y && forallb2 f l' m'
  | _, _ => false
  end.
(* [table] line i, column j: the engine's answer to  key_k(row i) < key_k(row j) *)
Definition lt_table_ok (rows : list row) (k : N) (table : list (list N)) : bool :=
  forallb2 (fun r1 line =>
              forallb2 (fun r2 code => lt_entry_ok (key_at k r1) (key_at k r2) code) rows line)
           rows table.

(* ---------- Slice above OrderBy (LIMIT / OFFSET), Distinct above OrderBy ---------- *)
Definition rows_at (rows : list row) (out : list N) : list row :=
  map (fun i => nth (N.to_nat i) rows []) out.
Definition sorted_ok (descs : list bool) (rs : list row) : bool :=
  all_pairs_le (leb_of (cmp_bindings_with order_by descs)) rs.
(* exec.rs slice: iter.skip(start).take(length) *)
Definition window {A} (start : N) (len : option N) (l : list A) : list A :=
  let t := skipn (N.to_nat start) l in
  match len with Some n => firstn (N.to_nat n) t | None => t end.
(* [full]: the output of the query without its window; [w]: the output with it *)
Definition window_ok (descs : list bool) (rows : list row) (full : list N)
                     (start : N) (len : option N) (w : list N) : bool :=
  list_eqb N.eqb w (window start len full) && sorted_ok descs (rows_at rows w).

(* ---------- integer arithmetic: value/_number.rs Add / Sub / Mul / Neg on NativeInt and BigInt ----------
   coercing_operator tries isize::checked_op and falls back to the fbig closure on overflow; fbig
   wraps its result with From<BigInt> WITHOUT normalising it: as soon as one operand is a BigInt the
   result is a BigInt, even when it fits in an isize (2^63 + (-2^63 + 3) is BigInt 3).
   Neg: checked_neg, else the opposite as a BigInt; the opposite of a BigInt is a BigInt. *)
Definition isize_min : Z := (-9223372036854775808)%Z.
Definition isize_max : Z := 9223372036854775807%Z.
Definition fits_isize (z : Z) : bool := (isize_min <=? z)%Z && (z <=? isize_max)%Z.
Inductive aop := OAdd | OSub | OMul | ONeg.        (* ONeg: unary minus of the first operand *)
Definition z_op (o : aop) (x y : Z) : Z :=
  match o with OAdd => x + y | OSub => x - y | OMul => x * y | ONeg => - x end%Z.
Definition int_val (n : num) : option Z :=
  match n with NativeInt z | BigInt z => Some z | _ => None end.
Definition int_arith (o : aop) (a b : num) : option num :=    (* None: not an integer operation *)
  match o with
  | ONeg => match a with
            | NativeInt x => Some (if fits_isize (- x) then NativeInt (- x) else BigInt (- x))
            | BigInt x => Some (BigInt (- x))
            | _ => None
            end
  | _ => match a, b with
         | NativeInt x, NativeInt y =>
             let r := z_op o x y in Some (if fits_isize r then NativeInt r else BigInt r)
         | NativeInt x, BigInt y | BigInt x, NativeInt y | BigInt x, BigInt y =>
             Some (BigInt (z_op o x y))
         | _, _ => None
         end
  end.
(* same variant and same integer *)
Definition int_repr_eqb (a b : num) : bool :=
  match a, b with
  | NativeInt x, NativeInt y | BigInt x, BigInt y => Z.eqb x y
  | _, _ => false
  end.
Definition num_of_key (k : option item) : option num :=
  match k with
  | Some a => match val a with Some (VNum n) => Some n | _ => None end
  | None => None
  end.
(* operands and observed result (the value cached in the term that BIND produced) of  ?a OP ?b *)
Definition int_arith_entry_ok (o : aop) (ka kb kr : option item) : bool :=
  match num_of_key ka, (match o with ONeg => Some (NativeInt 0) | _ => num_of_key kb end) with
  | Some x, Some y =>
      match int_arith o x y with
      | Some r => match num_of_key kr with Some r' => int_repr_eqb r r' | None => false end
      | None => true
      end
  | _, _ => true
  end.
Definition int_arith_ok (o : aop) (l : list (option item * option item * option item)) : bool :=
  forallb (fun t => match t with (ka, kb, kr) => int_arith_entry_ok o ka kb kr end) l.
