(* C09/Resolve.v -- SPECIFICATION of reference resolution: RFC 3986 section 5.2.2 (transform
   references), 5.2.3 (merge), 5.2.4 (remove_dot_segments), 5.3 (recomposition) and the
   component split of Appendix B, on strings of code points.
   This is what the property demands of Iri::resolve; what the implementation does (it delegates
   to the third-party crate oxiri) is modelled separately in Model.v (resolve_gen / resolve_impl).
   Definitions only. *)
From Sophia.Common Require Import Prelude.

Definition k_hash : N := 35.  Definition k_qmark : N := 63.  Definition k_slash : N := 47.
Definition k_colon : N := 58. Definition k_dot : N := 46.

(* split at the first character satisfying p: (before, Some (that character, after)) *)
Fixpoint split_first (p : N -> bool) (s : str) : str * option (N * str) :=
  match s with
  | [] => ([], None)
  | c :: s' => if p c then ([], Some (c, s'))
               else let (a, b) := split_first p s' in (c :: a, b)
  end.

Record parts := mk_parts
  { p_scheme : option str; p_authority : option str; p_path : str;
    p_query : option str; p_fragment : option str }.

(* the component split of Appendix B: fragment after the first '#', query after the first '?', scheme
   = non-empty prefix without ':' '/' '?' '#' followed by ':', authority after a leading "//" up to '/' *)
Definition parse5 (s : str) : parts :=
  let (s1, f) := split_first (N.eqb k_hash) s in
  let (s2, q) := split_first (N.eqb k_qmark) s1 in
  let (pre, d) := split_first (fun c => N.eqb c k_colon || N.eqb c k_slash) s2 in
  let '(sch, s3) :=
    match d with
    | Some (c, after) => if N.eqb c k_colon && negb (match pre with [] => true | _ => false end)
                         then (Some pre, after) else (None, s2)
    | None => (None, s2)
    end in
  let '(auth, pth) :=
    match s3 with
    | a :: b :: r =>
        if N.eqb a k_slash && N.eqb b k_slash
        then let (au, rest) := split_first (N.eqb k_slash) r in
             (Some au, match rest with Some (c, after) => c :: after | None => [] end)
        else (None, s3)
    | _ => (None, s3)
    end in
  mk_parts sch auth pth (option_map snd q) (option_map snd f).

Fixpoint strip_prefix (p s : str) : option str :=
  match p, s with
  | [], _ => Some s
  | x :: p', y :: s' => if N.eqb x y then strip_prefix p' s' else None
  | _ :: _, [] => None
  end.
Fixpoint drop_while (p : N -> bool) (s : str) : str :=
  match s with [] => [] | c :: s' => if p c then drop_while p s' else s end.
Fixpoint take_while (p : N -> bool) (s : str) : str :=
  match s with [] => [] | c :: s' => if p c then c :: take_while p s' else [] end.
Definition not_slash (c : N) : bool := negb (N.eqb c k_slash).

(* 5.2.4 2C: remove the last segment and its preceding "/" (if any) from the output buffer *)
Definition pop_last (out : str) : str :=
  match drop_while not_slash (rev out) with [] => [] | _ :: r => rev r end.
(* 5.2.4 2E: the first path segment of the input buffer, including the initial "/" (if any), up to
   but not including the next "/" *)
Definition first_seg (inp : str) : str * str :=
  match inp with
  | c :: r => if N.eqb c k_slash then (c :: take_while not_slash r, drop_while not_slash r)
              else (take_while not_slash inp, drop_while not_slash inp)
  | [] => ([], [])
  end.

Definition rds_step (inp out : str) : str * str :=
  match strip_prefix [k_dot; k_dot; k_slash] inp with Some r => (r, out) | None =>          (* A *)
  match strip_prefix [k_dot; k_slash] inp with Some r => (r, out) | None =>
  match strip_prefix [k_slash; k_dot; k_slash] inp with Some r => (k_slash :: r, out) | None => (* B *)
  if str_eqb inp [k_slash; k_dot] then ([k_slash], out) else
  match strip_prefix [k_slash; k_dot; k_dot; k_slash] inp with Some r => (k_slash :: r, pop_last out) | None => (* C *)
  if str_eqb inp [k_slash; k_dot; k_dot] then ([k_slash], pop_last out) else
  if str_eqb inp [k_dot] || str_eqb inp [k_dot; k_dot] then ([], out) else                   (* D *)
  let (seg, rest) := first_seg inp in (rest, out ++ seg)                                      (* E *)
  end end end end.
(* every step shortens the input buffer, so length+1 steps suffice *)
Fixpoint rds_loop (fuel : nat) (inp out : str) : str :=
  match fuel with
  | O => out
  | S k => match inp with [] => out | _ => let (i, o) := rds_step inp out in rds_loop k i o end
  end.
Definition remove_dot_segments (path : str) : str := rds_loop (S (length path)) path [].

(* 5.2.3 *)
Definition merge (b : parts) (rpath : str) : str :=
  match p_authority b, p_path b with
  | Some _, [] => k_slash :: rpath
  | _, bp => match drop_while not_slash (rev bp) with
             | [] => rpath                          (* no "/" in the base path *)
             | r => rev r ++ rpath                  (* up to and including the last "/" *)
             end
  end.

(* 5.2.2, strict *)
Definition transform (b r : parts) : parts :=
  match p_scheme r with
  | Some _ => mk_parts (p_scheme r) (p_authority r) (remove_dot_segments (p_path r)) (p_query r) (p_fragment r)
  | None =>
    match p_authority r with
    | Some _ => mk_parts (p_scheme b) (p_authority r) (remove_dot_segments (p_path r)) (p_query r) (p_fragment r)
    | None =>
      match p_path r with
      | [] => mk_parts (p_scheme b) (p_authority b) (p_path b)
                (match p_query r with Some q => Some q | None => p_query b end) (p_fragment r)
      | c :: _ =>
          let pth := if N.eqb c k_slash then remove_dot_segments (p_path r)
                     else remove_dot_segments (merge b (p_path r)) in
          mk_parts (p_scheme b) (p_authority b) pth (p_query r) (p_fragment r)
      end
    end
  end.

(* 5.3 *)
Definition recompose (t : parts) : str :=
  (match p_scheme t with Some s => s ++ [k_colon] | None => [] end) ++
  (match p_authority t with Some a => k_slash :: k_slash :: a | None => [] end) ++
  p_path t ++
  (match p_query t with Some q => k_qmark :: q | None => [] end) ++
  (match p_fragment t with Some f => k_hash :: f | None => [] end).

Definition resolve (base ref : str) : str := recompose (transform (parse5 base) (parse5 ref)).

(* the corner in which the letter of 5.2 changes the meaning of a path into an authority *)
Definition ambiguous_result (base ref : str) : bool :=
  let t := transform (parse5 base) (parse5 ref) in
  match p_authority t, p_path t with
  | None, a :: b :: _ => N.eqb a k_slash && N.eqb b k_slash
  | _, _ => false
  end.

