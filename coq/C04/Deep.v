(* C04/Deep.v -- two more pieces of the executable model (definitions only):

   (1) is_valid_prefix of api/src/prefix/_regex.rs (what the checked constructor Prefix::new, the debug build of
       Prefix::new_unchecked and the serde Deserialize impl of Prefix decide): the empty string, or a match of the
       REGENERATED regular expression PN_PREFIX (gen/RegexTurtle.v, `pn_prefix_re`);

   (2) the WRITE PHASE of turtle/src/serializer/_pretty.rs with its nesting bound MAX_DEPTH:
         * write_properties increments `depth` (so do annotations, which go through write_properties; collections
           do not), write_bnode does not open a `[` when depth >= MAX_DEPTH: it CUTS -- the blank node is added to
           `labelled`, its subject type goes from SubTree to Root, and `_:label` is written;
         * write_graph re-scans the subjects of the current graph as long as a pass wrote a tree (`while again`),
           so that the nodes cut loose by a pass are written by a later one;
         * write_all treats the graphs one after the other (the ranges of equal graph name in subject_types).
       Model.v's `write` / `write_all` is this writer without the bound (a single scan); it is kept as it is, and
       the checker below evaluates both whenever nothing is cut.
       Ghost fields (they influence nothing): d_cuts = the keys cut loose, d_trees = the keys written by write_tree,
       in order, d_odd = the keys marked Done by write_bnode / write_object while they were Root (does not happen on
       acyclic plans; recorded so that the theorems need no acyclicity hypothesis). *)
From Sophia.Common Require Export Prelude.
From Sophia.C04 Require Export Regex Model.

(* ===================================================================================== *)
(* (1) is_valid_prefix                                                                   *)
(* ===================================================================================== *)
Definition is_valid_prefix (p : str) : bool :=
  match p with [] => true | _ :: _ => matchb pn_prefix_re p end.
(* harness-facing: what a constructor of Prefix answered (true = accepted) *)
Definition prefix_ctor_ok (p : str) (obs_accept : bool) : bool := Bool.eqb (is_valid_prefix p) obs_accept.

(* ===================================================================================== *)
(* (2) the writer with MAX_DEPTH                                                         *)
(* ===================================================================================== *)
Definition max_depth : N := 64.

Record dstate := { d_st : stmap; d_lists : lmap; d_out : list quad; d_ok : bool; d_lab : list N;
                   d_cuts : list skey; d_trees : list skey; d_odd : list skey }.
Definition d_emit (w : dstate) (q : quad) : dstate :=
  {| d_st := d_st w; d_lists := d_lists w; d_out := d_out w ++ [q]; d_ok := d_ok w; d_lab := d_lab w;
     d_cuts := d_cuts w; d_trees := d_trees w; d_odd := d_odd w |}.
Definition d_fail (w : dstate) : dstate :=
  {| d_st := d_st w; d_lists := d_lists w; d_out := d_out w; d_ok := false; d_lab := d_lab w;
     d_cuts := d_cuts w; d_trees := d_trees w; d_odd := d_odd w |}.
Definition is_root (o : option stype) : bool := match o with Some Root => true | _ => false end.
(* subject_types[i].2 = Done, after `[ ... ]` or `{| ... |}` *)
Definition d_done (w : dstate) (k : skey) : dstate :=
  {| d_st := st_set (d_st w) k Done; d_lists := d_lists w; d_out := d_out w; d_ok := d_ok w; d_lab := d_lab w;
     d_cuts := d_cuts w; d_trees := d_trees w;
     d_odd := if is_root (st_get (d_st w) k) then k :: d_odd w else d_odd w |}.
Definition d_take_list (w : dstate) (bn : N) : dstate :=
  {| d_st := d_st w; d_lists := lm_remove (d_lists w) bn; d_out := d_out w; d_ok := d_ok w; d_lab := d_lab w;
     d_cuts := d_cuts w; d_trees := d_trees w; d_odd := d_odd w |}.
(* the MAX_DEPTH branch of write_bnode *)
Definition d_cut (w : dstate) (k : skey) : dstate :=
  {| d_st := st_set (d_st w) k Root; d_lists := d_lists w; d_out := d_out w; d_ok := d_ok w; d_lab := snd k :: d_lab w;
     d_cuts := k :: d_cuts w; d_trees := d_trees w; d_odd := d_odd w |}.
(* subject_types[i].2 = Done, after write_tree *)
Definition d_tree_done (w : dstate) (k : skey) : dstate :=
  {| d_st := st_set (d_st w) k Done; d_lists := d_lists w; d_out := d_out w; d_ok := d_ok w; d_lab := d_lab w;
     d_cuts := d_cuts w; d_trees := d_trees w ++ [k]; d_odd := d_odd w |}.

Section WriterD.
  Variables (maxd : N) (ks : list tk) (first rest nil type_ : N) (quads : list quad).

  (* ( i1 ... in ), as in Model.write; [wr] writes an item *)
  Fixpoint dlist (wr : dstate -> N -> dstate) (g : gname) (w : dstate) (c : option N) (items : list N) : dstate :=
    match items, c with
    | [], _ => w
    | it :: items', Some c =>
        let w := d_emit w (g, c, first, it) in
        let w := wr w it in
        match items' with
        | [] => d_emit w (g, c, rest, nil)
        | _ :: _ => match rest_of rest quads g c with
                    | Some r => dlist wr g (d_emit w (g, c, rest, r)) (Some r) items'
                    | None => d_fail w
                    end
        end
    | _ :: _, None => d_fail w
    end.

  (* [dwrite f true g depth w s]  = write_properties(s) entered with self.depth = depth
     [dwrite f false g depth w t] = write_term(t) with self.depth = depth *)
  Fixpoint dwrite (fuel : nat) (props : bool) (g : gname) (depth : N) (w : dstate) (t : N) : dstate :=
    match fuel with
    | O => d_fail w
    | S f =>
        if props then
          fold_left (fun w q =>
                       let w := dwrite f false g (depth + 1) (d_emit w q) (q_o q) in
                       match find_triple_from 0 ks (q_s q) (q_p q) (q_o q) with
                       | Some tr =>
                           match st_get (d_st w) (g, tr) with
                           | Some Annotation => d_done (dwrite f true g (depth + 1) w tr) (g, tr)   (* {| ... |} *)
                           | _ => w
                           end
                       | None => w
                       end)
                    (props_of type_ quads g t) w
        else
          match kind_of ks t with
          | TB =>
              match lm_get (d_lists w) t with
              | Some items => dlist (fun w it => dwrite f false g depth w it) g (d_take_list w t) (Some t) items
              | None =>
                  if memN t (d_lab w) then w                                                 (* _:label *)
                  else match st_get (d_st w) (g, t) with
                       | Some SubTree =>
                           if maxd <=? depth then d_cut w (g, t)                             (* too deep: _:label, new root *)
                           else d_done (dwrite f true g depth w t) (g, t)                    (* [ ... ] *)
                       | _ => w                                                              (* [] *)
                       end
              end
          | _ => w
          end
    end.

  Definition dwrite_fuel : nat := 2 * length quads + 4.

  (* write_tree on the subject [s] of graph [g] *)
  Definition dtree (g : gname) (w : dstate) (s : N) : dstate :=
    let w := dwrite dwrite_fuel false g 0 w s in
    let w := dwrite dwrite_fuel true g 0 w s in
    d_tree_done w (g, s).

  (* one `for i in self.graph_range` scan; the boolean is `again` *)
  Definition dpass (g : gname) (w : dstate) (range : list N) : dstate * bool :=
    fold_left (fun (acc : dstate * bool) s =>
                 if is_root (st_get (d_st (fst acc)) (g, s)) then (dtree g (fst acc) s, true) else acc)
              range (w, false).

  (* `while again`; the boolean says that the loop ended by itself (a scan that wrote nothing) *)
  Fixpoint dloop (fuel : nat) (g : gname) (w : dstate) (range : list N) : dstate * bool :=
    match fuel with
    | O => (w, false)
    | S f => let r := dpass g w range in
             if snd r then dloop f g (fst r) range else (fst r, true)
    end.
  (* write_graph: enough fuel for any number of cuts (DeepProofs.dgraph_finishes) *)
  Definition dgraph (g : gname) (w : dstate) (range : list N) : dstate * bool := dloop (S (length range)) g w range.
End WriterD.

(* the ranges of write_all / next_graph: maximal runs of equal graph name in subject_types *)
Fixpoint group_by_g (l : list skey) : list (gname * list N) :=
  match l with
  | [] => []
  | k :: l' => match group_by_g l' with
               | (g, ss) :: more => if g_eqb (fst k) g then (g, snd k :: ss) :: more else (fst k, [snd k]) :: (g, ss) :: more
               | [] => [(fst k, [snd k])]
               end
  end.

Definition d_init (labelled : list N) (st0 : stmap) (lists : lmap) : dstate :=
  {| d_st := st0; d_lists := lists; d_out := []; d_ok := true; d_lab := labelled; d_cuts := []; d_trees := []; d_odd := [] |}.

Definition dwrite_all (maxd : N) (ks : list tk) (first rest nil type_ : N) (quads : list quad) (w0 : dstate) : dstate * bool :=
  fold_left (fun (acc : dstate * bool) (gr : gname * list N) =>
               let r := dgraph maxd ks first rest nil type_ quads (fst gr) (fst acc) (snd gr) in
               (fst r, snd acc && snd r))
            (group_by_g (map fst (d_st w0))) (w0, true).

Definition demitted (maxd : N) (ks : list tk) (first rest nil type_ : N) (quads : list quad) (pl : plan) : dstate * bool :=
  dwrite_all maxd ks first rest nil type_ quads (d_init (pl_labelled pl) (pl_st pl) (pl_lists pl)).

(* ===================================================================================== *)
(* harness-facing checker                                                                *)
(* ===================================================================================== *)
Definition memk (k : skey) (l : list skey) : bool := existsb (skey_eqb k) l.
Definition is_nilk (l : list skey) : bool := match l with [] => true | _ => false end.

(* the model's plan AND its write phase against what the implementation wrote:
     labels    = the blank nodes labelled by the plan + the nodes cut loose at MAX_DEPTH;
     `(`       = the collections of the plan;
     `[`       = the SubTree nodes of the plan that were not cut;
   the model's own accounting: the loops ended, the recursion budget was not exhausted, every quad of the dataset is
   stated exactly once, every initial root and every node cut loose was written by write_tree, nothing was marked Done
   while it was a root; and, when nothing is cut, Model.plan_ok (the writer without the bound) holds too. *)
Definition plan_d_ok (maxd : N) (ks : list tk) (first rest nil type_ : N) (quads : list quad)
           (obs_labels : list N) (obs_collections obs_plists : N) : bool :=
  let pl := make_plan ks first rest nil quads in
  let r := demitted maxd ks first rest nil type_ quads pl in
  let w := fst r in
  let roots0 := map fst (filter (fun kv => stype_eqb (snd kv) Root) (pl_st pl)) in
  list_eqb N.eqb (sortN (pl_labelled pl ++ map snd (d_cuts w))) (sortN obs_labels) &&
  N.eqb (N.of_nat (length (pl_lists pl))) obs_collections &&
  N.eqb (count_st SubTree (pl_st pl)) (obs_plists + N.of_nat (length (d_cuts w))) &&
  snd r && d_ok w && exactly_once quads (d_out w) &&
  forallb (fun k => memk k (d_trees w)) (roots0 ++ d_cuts w) && is_nilk (d_odd w) &&
  (if is_nilk (d_cuts w) then plan_ok ks first rest nil type_ quads obs_labels obs_collections obs_plists else true).

(* number of nodes cut loose (for the harness's distribution: compared with the number it expects) *)
Definition cuts_ok (maxd : N) (ks : list tk) (first rest nil type_ : N) (quads : list quad) (n : N) : bool :=
  N.eqb (N.of_nat (length (d_cuts (fst (demitted maxd ks first rest nil type_ quads (make_plan ks first rest nil quads)))))) n.
