(* C13/ExprConcrete.v -- the concrete instance [XC] of the abstract part of ExprModel.v, used to
   RUN both evaluators against the engine (the theorems hold for every instance).
   Definitions only.
   * xsd:float / xsd:double: Coq's own executable specification of IEEE-754 binary formats
     (Coq.Floats.SpecFloat, plain Gallina over Z, no axiom, no primitive float) at
     (prec, emax) = (24, 128) and (53, 1024); decimal <-> binary conversions are correctly
     rounded (XSD floatLexicalMap, Rust's dec2flt); `{:e}` formatting is "the shortest decimal
     that reads back to the same number, the closest one if several, the upper one on a tie".
   * decimal division: bigdecimal 0.4 `impl_division` with DEFAULT_PRECISION = 100.
   * xsd:dateTime: the lexical form accepted by XsdDateTime::new for ordinary years, its
     position on the (local or UTC) time line in nanoseconds, the XSD 3.2.7.4 order. *)
From Coq Require Import String Ascii.
From Coq Require Import SpecFloat.
From Sophia.C13 Require Export ExprImpl.
Local Open Scope Z_scope.

Section Fmt.
Variable prec emax : Z.
Variable maxdig : nat.           (* 9 for binary32, 17 for binary64 *)
Definition sf := spec_float.

Definition sf_of_Z (z : Z) : sf := binary_normalize prec emax z 0 false.
(* correctly rounded sign * num / den, num >= 0, den > 0 *)
Definition sf_of_frac (neg : bool) (num den : Z) : sf :=
  match num, den with
  | Z0, _ => S754_zero neg
  | Zpos n, Zpos d =>
      if Z.eqb den 1 then binary_round prec emax neg n 0
      else SFdiv prec emax (S754_finite neg n 0) (S754_finite false d 0)
  | _, _ => S754_nan
  end.
(* sign * m * 10^e10 *)
Definition sf_of_dec10 (neg : bool) (m e10 : Z) : sf :=
  if 0 <=? e10 then sf_of_frac neg (m * 10 ^ e10) 1 else sf_of_frac neg m (10 ^ (- e10)).
Definition sf_of_decimal (d : dec) : sf :=
  let '(m, s) := d in sf_of_dec10 (m <? 0) (Z.abs m) (- Z.of_N s).
(* re-round a number of another format *)
Definition sf_convert (x : sf) : sf :=
  match x with
  | S754_finite s m e => binary_round prec emax s m e
  | _ => x
  end.
Definition sf_is_zero (x : sf) : bool := match x with S754_zero _ => true | _ => false end.
Definition sf_is_nan (x : sf) : bool := match x with S754_nan => true | _ => false end.
Definition sf_eqb (x y : sf) : bool :=
  match x, y with
  | S754_zero a, S754_zero b => Bool.eqb a b
  | S754_infinity a, S754_infinity b => Bool.eqb a b
  | S754_nan, S754_nan => true
  | S754_finite a m e, S754_finite b n f => Bool.eqb a b && Pos.eqb m n && Z.eqb e f
  | _, _ => false
  end.

(* ---- reading: sign? (digits [. digits] | . digits) ([eE] sign? digits)? ---- *)
Definition parse_number (s : str) : option (bool * Z * Z) :=      (* sign, mantissa, exponent of 10 *)
  let '(neg, r) := strip_sign s in
  let '(mant, eo) := split_first is_e r in
  let '(i, fo) := split_first is_dot mant in
  let f := match fo with Some f => f | None => [] end in
  if all_digits i && all_digits f && negb (is_nil i && is_nil f) then
    match digits_val 0 (i ++ f) with
    | None => None
    | Some m =>
        match eo with
        | None => Some (neg, m, - Z.of_nat (length f))
        | Some ex => match xsd_integer ex with
                     | Some e => Some (neg, m, e - Z.of_nat (length f))
                     | None => None
                     end
        end
    end
  else None.
Definition sf_number (s : str) : option sf :=
  option_map (fun t => let '(neg, m, e) := t in sf_of_dec10 neg m e) (parse_number s).
(* XSD: the numeric forms, INF, +INF, -INF, NaN *)
Definition sf_xsd (s : str) : option sf :=
  if eqs s "INF" || eqs s "+INF" then Some (S754_infinity false)
  else if eqs s "-INF" then Some (S754_infinity true)
  else if eqs s "NaN" then Some S754_nan
  else sf_number s.
(* Rust: the numeric forms; inf, infinity, nan in any case with an optional sign *)
Definition sf_rust (s : str) : option sf :=
  let '(neg, r) := strip_sign s in
  let l := lower r in
  if eqs l "inf" || eqs l "infinity" then Some (S754_infinity neg)
  else if eqs l "nan" then Some S754_nan
  else sf_number s.

(* ---- writing: format!("{:e}") ---- *)
(* v = num / den > 0; k with 10^k <= v < 10^(k+1) *)
Definition ge_pow10 (num den k : Z) : bool :=
  if 0 <=? k then den * 10 ^ k <=? num else den <=? num * 10 ^ (- k).
Fixpoint adjust_up (fuel : nat) (num den k : Z) : Z :=
  match fuel with
  | O => k
  | S f => if ge_pow10 num den (k + 1) then adjust_up f num den (k + 1) else k
  end.
Fixpoint adjust_down (fuel : nat) (num den k : Z) : Z :=
  match fuel with
  | O => k
  | S f => if ge_pow10 num den k then k else adjust_down f num den (k - 1)
  end.
Definition log10_floor (num den : Z) : Z :=
  let k0 := ((Z.log2 num - Z.log2 den) * 30103) / 100000 in
  adjust_up 8 num den (adjust_down 8 num den k0).
(* the n-digit candidates q and q+1 around v, scaled by 10^(k-n+1) *)
Definition candidates (num den k : Z) (n : Z) : Z * Z :=      (* q, 2*remainder compared later *)
  let sh := k - n + 1 in
  let '(a, b) := if 0 <=? sh then (num, den * 10 ^ sh) else (num * 10 ^ (- sh), den) in
  (a / b, (2 * (a mod b)) - b).            (* second component: <0 q is nearer, >0 q+1 is nearer *)
Fixpoint strip_zeros (fuel : nat) (q e : Z) : Z * Z :=
  match fuel with
  | O => (q, e)
  | S f => if (q mod 10 =? 0) && negb (q =? 0) then strip_zeros f (q / 10) (e + 1) else (q, e)
  end.
Fixpoint shortest (fuel : nat) (n : Z) (x : sf) (num den k : Z) : Z * Z :=   (* digits, exponent of 10 of the last digit *)
  match fuel with
  | O => (0, 0)
  | S f =>
      let '(q, side) := candidates num den k n in
      let sh := k - n + 1 in
      let ok1 := sf_eqb (sf_of_dec10 false q sh) x && negb (q =? 0) in
      let ok2 := sf_eqb (sf_of_dec10 false (q + 1) sh) x in
      (* both neighbours read back: the nearer one; on a tie core::fmt (flt2dec::strategy::dragon
         format_shortest: `up && (!down || mant * 2 >= scale)`) rounds the last digit UP *)
      if ok1 && ok2 then (if side <? 0 then (q, sh) else (q + 1, sh))
      else if ok1 then (q, sh)
      else if ok2 then (q + 1, sh)
      else shortest f (n + 1) x num den k
  end.
Definition sf_print (x : sf) : str :=
  match x with
  | S754_nan => L "NaN"
  | S754_infinity s => if s then L "-inf" else L "inf"
  | S754_zero s => if s then L "-0e0" else L "0e0"
  | S754_finite s m e =>
      let '(num, den) := if 0 <=? e then (Zpos m * 2 ^ e, 1) else (Zpos m, 2 ^ (- e)) in
      let k := log10_floor num den in
      let '(q0, e0) := shortest maxdig 1 (S754_finite false m e) num den k in
      let '(q, e10) := strip_zeros 20 q0 e0 in
      let ds := nat_str q in
      let ex := e10 + Z.of_nat (length ds) - 1 in
      (if s then [45%N] else []) ++
      (match ds with d0 :: (_ :: _) as r => d0 :: 46%N :: r | _ => ds end) ++
      [101%N] ++ z_to_str ex
  end.
End Fmt.

(* ---- bigdecimal 0.4: Div / impl_division(num, den, scale, 100) ---- *)
Fixpoint scale_up (fuel : nat) (num den scale : Z) : Z * Z :=     (* while num < den *)
  match fuel with
  | O => (num, scale)
  | S f => if num <? den then scale_up f (num * 10) den (scale + 1) else (num, scale)
  end.
Fixpoint div_loop (fuel : nat) (quotient remainder den scale precision : Z) : Z * Z * Z :=
  match fuel with
  | O => (quotient, remainder, scale)
  | S f =>
      if negb (remainder =? 0) && (precision <? 100) then
        div_loop f (quotient * 10 + remainder / den) ((remainder mod den) * 10) den
                 (scale + 1) (precision + 1)
      else (quotient, remainder, scale)
  end.
Definition count_digits (z : Z) : Z := Z.of_nat (length (nat_str z)).
Definition impl_division_pos (num den scale : Z) : Z * Z :=        (* num > 0, den > 0 *)
  let '(num, scale) := scale_up (S (Z.to_nat (Z.log2 den + 1))) num den scale in
  let q := num / den in
  let r := num mod den in
  if r =? 0 then (q, scale)
  else
    let '(quotient, remainder, scale) := div_loop 101 q (r * 10) den scale (count_digits q) in
    if remainder =? 0 then (quotient, scale)
    else (quotient + (if 5 <=? remainder / den then 1 else 0), scale)   (* get_rounding_term *)
.
Definition big_div (a b : dec) : dec :=
  let '(m1, s1) := a in let '(m2, s2) := b in
  if m1 =? 0 then a                                       (* self.is_zero() => self *)
  else if (m2 =? 1) && (s2 =? 0)%N then a                 (* other is one *)
  else
    let scale := Z.of_N s1 - Z.of_N s2 in
    if m1 =? m2 then dec_of_big (1, scale)
    else
      let '(q, sc) := impl_division_pos (Z.abs m1) (Z.abs m2) scale in
      dec_of_big (if Bool.eqb (m1 <? 0) (m2 <? 0) then q else - q, sc).

(* ---- xsd:dateTime ---- *)
(* days from 0000-03-01 (proleptic Gregorian), Howard Hinnant's days_from_civil *)
Definition days_from_civil (y m d : Z) : Z :=
  let y' := if m <=? 2 then y - 1 else y in
  let era := y' / 400 in
  let yoe := y' - era * 400 in
  let mp := (m + 9) mod 12 in
  let doy := (153 * mp + 2) / 5 + d - 1 in
  let doe := yoe * 365 + yoe / 4 - yoe / 100 + doy in
  era * 146097 + doe.
Definition is_leap (y : Z) : bool := ((y mod 4 =? 0) && negb (y mod 100 =? 0)) || (y mod 400 =? 0).
Definition days_in_month (y m : Z) : Z :=
  if (m =? 2) then (if is_leap y then 29 else 28)
  else if (m =? 4) || (m =? 6) || (m =? 9) || (m =? 11) then 30 else 31.
Definition two_digits (s : str) : option (Z * str) :=
  match s with
  | a :: b :: r => if is_digit a && is_digit b then Some (10 * dval a + dval b, r) else None
  | _ => None
  end.
Definition expect (ch : N) (s : str) : option str :=
  match s with x :: r => if (x =? ch)%N then Some r else None | [] => None end.
Fixpoint span_digits (s : str) : str * str :=
  match s with
  | x :: r => if is_digit x then let '(a, b) := span_digits r in (x :: a, b) else ([], s)
  | [] => ([], [])
  end.
(* (position in nanoseconds, timezone offset in seconds if any) *)
Definition dtval := (Z * option Z)%type.
Definition dt_parse (s : str) : option dtval :=
  let '(neg, s1) := match s with 45%N :: r => (true, r) | _ => (false, s) end in
  let '(ys, s2) := span_digits s1 in
  if (length ys <? 4)%nat then None else
  match digits_val 0 ys with None => None | Some y0 =>
  let y := if neg then - y0 else y0 in
  if 200000 <? y0 then None else
  bind (expect 45 s2) (fun s => bind (two_digits s) (fun '(mo, s) =>
  bind (expect 45 s) (fun s => bind (two_digits s) (fun '(d, s) =>
  bind (expect 84 s) (fun s => bind (two_digits s) (fun '(h, s) =>
  bind (expect 58 s) (fun s => bind (two_digits s) (fun '(mi, s) =>
  bind (expect 58 s) (fun s => bind (two_digits s) (fun '(se, s) =>
  let '(frac, s) := match s with
                    | 46%N :: r => let '(f, r') := span_digits r in (Some f, r')
                    | _ => (None, s)
                    end in
  match frac with Some [] => None | _ =>
  let nano := match frac with
              | None => Some 0
              | Some f => let f9 := firstn 9 f in
                          option_map (fun v => v * 10 ^ (9 - Z.of_nat (length f9))) (digits_val 0 f9)
              end in
  bind nano (fun nano =>
  let tz := match s with
            | [] => Some None
            | [90%N] => Some (Some 0)
            | sg :: r =>
                if (sg =? 43)%N || (sg =? 45)%N then
                  bind (two_digits r) (fun '(hh, r) => bind (expect 58 r) (fun r =>
                  bind (two_digits r) (fun '(mm, r) =>
                    match r with
                    | [] => let off := hh * 3600 + mm * 60 in
                            if off <? 86400 then Some (Some (if (sg =? 45)%N then - off else off))
                            else None
                    | _ => None
                    end)))
                else None
            end in
  bind tz (fun tz =>
  if (1 <=? mo) && (mo <=? 12) && (1 <=? d) && (d <=? days_in_month y mo) then
    let day := days_from_civil y mo d in
    let secs :=
      if (h <? 24) && (mi <? 60) && (se <? 60) then Some (day * 86400 + h * 3600 + mi * 60 + se)
      else if (h =? 24) && (mi =? 0) && (se =? 0) && (nano =? 0) then Some ((day + 1) * 86400)
      else None in
    option_map (fun sec =>
      let local := sec * 1000000000 + nano in
      match tz with
      | None => (local, None)
      | Some off => (local - off * 1000000000, Some off)       (* the UTC instant *)
      end) secs
  else None)) end))))))))))
  end.
(* XsdDateTime::partial_cmp: XSD 3.2.7.4 *)
Definition h14 : Z := 14 * 3600 * 1000000000.
Definition dt_compare (a b : dtval) : option comparison :=
  match a, b with
  | (x, None), (y, None) | (x, Some _), (y, Some _) => Some (x ?= y)
  | (x, Some _), (y, None) =>            (* heterogeneous_cmp(d1 zoned, d2 naive) *)
      if x <? y - h14 then Some Lt else if y + h14 <? x then Some Gt else None
  | (x, None), (y, Some _) =>
      if y <? x - h14 then Some Gt else if x + h14 <? y then Some Lt else None
  end.

(* XsdDateTime::new, the year field: the regex captures (\d{4,}), then
     let year: i32 = c.get(2).unwrap().as_str().parse().unwrap();     (before C13e-8)
     let year: i32 = c.get(2).unwrap().as_str().parse().ok()?;        (after) *)
Definition year_of_capture0 (ys : str) : outcome (option Z) :=
  match rust_prim true (- 2 ^ 31) (2 ^ 31 - 1) ys with Some y => Val (Some y) | None => Panic end.
Definition year_of_capture (ys : str) : outcome (option Z) :=
  Val (rust_prim true (- 2 ^ 31) (2 ^ 31 - 1) ys).

(* ---- the instance ---- *)
Definition F32 := (24, 128). Definition F64 := (53, 1024).
Definition XC : xlib :=
  mkX spec_float spec_float dtval
      (* float *)
      (sf_xsd 24 128) (sf_rust 24 128) (sf_print 24 128 12)
      (SFadd 24 128) (SFsub 24 128) (SFmul 24 128) (SFdiv 24 128) SFopp SFabs SFcompare
      sf_is_zero sf_is_nan
      (sf_of_Z 24 128)
      (fun d => sf_convert 24 128 (sf_of_decimal 53 1024 d))      (* BigDecimal::to_f32 goes through f64 *)
      (sf_convert 24 128)
      (* double *)
      (sf_xsd 53 1024) (sf_rust 53 1024) (sf_print 53 1024 20)
      (SFadd 53 1024) (SFsub 53 1024) (SFmul 53 1024) (SFdiv 53 1024) SFopp SFabs SFcompare
      sf_is_zero sf_is_nan
      (sf_of_Z 53 1024) (sf_of_decimal 53 1024) (sf_convert 53 1024)
      big_div
      dt_parse dt_compare (fun _ => [])
.
