(* C05/Related.v -- Hash Related Blank Node and step 3 of Hash N-Degree Quads (rdfc10.rs) taken apart:
   what the related hash is a function OF (position, predicate unless the position is g, the
   identifier currently known for the related node), and step 3 as "push every (related hash,
   related node) pair, quad after quad".  The datasets concerned: a blank node related to ONE other
   node through several quads that differ by predicate, graph name or direction.  Definitions only. *)
From Sophia.C05 Require Import Model.
From Coq Require Import Permutation.

(* the part of the input of hash_related_bnode that comes from the quad and the position *)
Definition related_pre (q : quad) (pos : N) : res str :=
  if pos =? pos_g then Ok [pos]
  else match q_pred q with
       | Iri p => Ok ([pos] ++ [60] ++ p ++ [62])
       | _ => Err EPredNotIri
       end.
(* the part that comes from the related node: canonical identifier, else temporary identifier,
   else first-degree hash *)
Definition related_id (st : state) (iss : issuer) (related : str) : option str :=
  match iss_get (st_canon st) related with
  | Some cid => Some (s_bn ++ cid)
  | None =>
      match iss_get iss related with
      | Some tid => Some (s_bn ++ tid)
      | None => bt_get (st_b2h st) related
      end
  end.

Section Pairs.
Variable H : str -> str.
(* the (related hash, related node) pairs pushed by one quad, in component order *)
Fixpoint pairs_comps (st : state) (ident : str) (iss : issuer) (q : quad) (cs : list (N * term))
  : res (list (str * str)) :=
  match cs with
  | [] => Ok []
  | (pos, c) :: cs' =>
      match bnode_id c with
      | Some b =>
          if str_eqb b ident then pairs_comps st ident iss q cs'
          else match hash_related H st b q iss pos with
               | Err e => Err e
               | Ok h =>
                   match pairs_comps st ident iss q cs' with
                   | Err e => Err e
                   | Ok l => Ok ((h, b) :: l)
                   end
               end
      | None => pairs_comps st ident iss q cs'
      end
  end.
Fixpoint pairs_quads (st : state) (ident : str) (iss : issuer) (qs : list quad)
  : res (list (str * str)) :=
  match qs with
  | [] => Ok []
  | q :: qs' =>
      match pairs_comps st ident iss q (comps q) with
      | Err e => Err e
      | Ok l =>
          match pairs_quads st ident iss qs' with
          | Err e => Err e
          | Ok l' => Ok (l ++ l')
          end
      end
  end.
End Pairs.

Definition push_all (l : list (str * str)) (hn : list (str * list str)) : list (str * list str) :=
  fold_left (fun m e => bt_push (fst e) (snd e) m) l hn.

(* two maps Hn with the same keys in the same order, the related-node list under each key being the
   same multiset *)
Definition hn_equiv (m m' : list (str * list str)) : Prop :=
  Forall2 (fun a b => fst a = fst b /\ Permutation (snd a) (snd b)) m m'.

(* the witness of the class: four siblings n1..n4, each related to its own x_i by the predicates p
   and q; the x_i carry the literals "1".."4".  [mp_witness mask]: bit i of mask tells which of
   the two link quads of n_i comes first *)
Definition mp_n (i : N) : term := Bnode [110; 48 + i].
Definition mp_x (i : N) : term := Bnode [120; 48 + i].
Definition mp_links (i : N) (q_first : bool) : list quad :=
  let a := (mp_n i, Iri [112], mp_x i, None) in
  let b := (mp_n i, Iri [113], mp_x i, None) in
  if q_first then [b; a] else [a; b].
Definition mp_fixed : list quad :=
  map (fun i => (mp_x i, Iri [114], LitDt [48 + i] xsd_string, None)) [1; 2; 3; 4].
Definition mp_witness (mask : N) : list quad :=
  flat_map (fun i => mp_links i (N.testbit mask (i - 1))) [1; 2; 3; 4] ++ mp_fixed.
