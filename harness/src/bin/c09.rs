//! C09: sophia_iri's validators (Iri::new, IriRef::new, is_absolute_iri_ref, is_relative_iri_ref,
//! Namespace::get) and resolver (Iri::as_base, BaseIri::resolve) against
//!   * the Coq model (C09/Model.v: the regenerated regexes run by a derivative matcher; RFC 3986 5.2), and
//!   * an independent ORACLE written here from the ABNF of RFC 3987 / RFC 3986 (a splitting
//!     recogniser, no regular expression) and from the text of RFC 3986 section 5.2.
//! `--probe <hex of utf-8>` prints every verdict for one string (used to replay `ka` counter-examples).
use sophia_api::ns::Namespace;
use sophia_iri::{Iri, IriRef, is_absolute_iri_ref, is_relative_iri_ref};
use std::panic::{AssertUnwindSafe, catch_unwind};
use verif_harness::*;

// =====================================================================================
// ORACLE 1: RFC 3987 recogniser (works on chars; splits at the delimiters the grammar forces)
// =====================================================================================
fn is_alpha(c: char) -> bool { c.is_ascii_alphabetic() }
fn is_digit(c: char) -> bool { c.is_ascii_digit() }
fn is_hex(c: char) -> bool { c.is_ascii_hexdigit() }
fn is_sub_delim(c: char) -> bool { "!$&'()*+,;=".contains(c) }
fn is_unreserved(c: char) -> bool { is_alpha(c) || is_digit(c) || "-._~".contains(c) }
const UCS: [(u32, u32); 17] = [(0xA0, 0xD7FF), (0xF900, 0xFDCF), (0xFDF0, 0xFFEF), (0x10000, 0x1FFFD), (0x20000, 0x2FFFD), (0x30000, 0x3FFFD), (0x40000, 0x4FFFD), (0x50000, 0x5FFFD), (0x60000, 0x6FFFD), (0x70000, 0x7FFFD), (0x80000, 0x8FFFD), (0x90000, 0x9FFFD), (0xA0000, 0xAFFFD), (0xB0000, 0xBFFFD), (0xC0000, 0xCFFFD), (0xD0000, 0xDFFFD), (0xE1000, 0xEFFFD)];
const PRIV: [(u32, u32); 3] = [(0xE000, 0xF8FF), (0xF0000, 0xFFFFD), (0x100000, 0x10FFFD)];
fn is_ucschar(c: char) -> bool { UCS.iter().any(|&(a, b)| a <= c as u32 && c as u32 <= b) }
fn is_iprivate(c: char) -> bool { PRIV.iter().any(|&(a, b)| a <= c as u32 && c as u32 <= b) }
fn is_iunreserved(c: char) -> bool { is_unreserved(c) || is_ucschar(c) }

/// *( <single chars accepted by `ok`> / pct-encoded )
fn chars_or_pct(s: &[char], ok: impl Fn(char) -> bool) -> bool {
    let mut i = 0;
    while i < s.len() {
        if s[i] == '%' {
            if i + 2 < s.len() && is_hex(s[i + 1]) && is_hex(s[i + 2]) { i += 3; } else { return false; }
        } else if ok(s[i]) { i += 1; } else { return false; }
    }
    true
}
fn is_ipchar_seq(s: &[char]) -> bool { chars_or_pct(s, |c| is_iunreserved(c) || is_sub_delim(c) || c == ':' || c == '@') }
fn is_scheme(s: &[char]) -> bool { !s.is_empty() && is_alpha(s[0]) && s[1..].iter().all(|&c| is_alpha(c) || is_digit(c) || "+-.".contains(c)) }
fn is_dec_octet(s: &[char]) -> bool {
    if s.is_empty() || s.len() > 3 || !s.iter().all(|&c| is_digit(c)) { return false; }
    if s.len() > 1 && s[0] == '0' { return false; }
    s.iter().collect::<String>().parse::<u32>().unwrap() <= 255
}
fn split_on(s: &[char], d: char) -> Vec<&[char]> { s.split(|&c| c == d).collect() }
fn is_ipv4(s: &[char]) -> bool { let p = split_on(s, '.'); p.len() == 4 && p.iter().all(|x| is_dec_octet(x)) }
fn is_h16(s: &[char]) -> bool { (1..=4).contains(&s.len()) && s.iter().all(|&c| is_hex(c)) }
/// number of 16-bit units of  h16 *( ":" h16 ) [ ":" IPv4address ]  (None if malformed; "" is 0 units)
fn units(s: &[char]) -> Option<usize> {
    if s.is_empty() { return Some(0); }
    let p = split_on(s, ':');
    let mut n = 0;
    for (i, x) in p.iter().enumerate() {
        if is_h16(x) { n += 1; } else if i == p.len() - 1 && is_ipv4(x) { n += 2; } else { return None; }
    }
    Some(n)
}
fn is_ipv6(s: &[char]) -> bool {
    let pos = (0..s.len().saturating_sub(1)).find(|&i| s[i] == ':' && s[i + 1] == ':');
    match pos {
        None => units(s) == Some(8),
        Some(i) => {
            let (l, r) = (&s[..i], &s[i + 2..]);
            // nothing but h16 groups before "::" (an IPv4 tail may only end the address)
            if !l.is_empty() && !split_on(l, ':').iter().all(|x| is_h16(x)) { return false; }
            match (units(l), units(r)) { (Some(a), Some(b)) => a + b <= 7, _ => false }
        }
    }
}
fn is_ipvfuture(s: &[char]) -> bool {
    if s.is_empty() || !(s[0] == 'v' || s[0] == 'V') { return false; }
    let Some(dot) = s.iter().position(|&c| c == '.') else { return false };
    let (ver, rest) = (&s[1..dot], &s[dot + 1..]);
    !ver.is_empty() && ver.iter().all(|&c| is_hex(c)) && !rest.is_empty() && rest.iter().all(|&c| is_unreserved(c) || is_sub_delim(c) || c == ':')
}
fn is_iauthority(a: &[char]) -> bool {
    // [ iuserinfo "@" ]: neither ihost nor port contains "@", iuserinfo does not either
    let (ui, hp) = match a.iter().position(|&c| c == '@') { Some(i) => (Some(&a[..i]), &a[i + 1..]), None => (None, a) };
    if let Some(ui) = ui { if !chars_or_pct(ui, |c| is_iunreserved(c) || is_sub_delim(c) || c == ':') { return false; } }
    let (host_ok, after): (bool, &[char]) = if hp.first() == Some(&'[') {
        match hp.iter().position(|&c| c == ']') {
            None => return false,
            Some(j) => (is_ipv6(&hp[1..j]) || is_ipvfuture(&hp[1..j]), &hp[j + 1..]),
        }
    } else {
        // IPv4address is a special case of ireg-name; neither contains ":"
        let j = hp.iter().position(|&c| c == ':').unwrap_or(hp.len());
        (chars_or_pct(&hp[..j], |c| is_iunreserved(c) || is_sub_delim(c)), &hp[j..])
    };
    host_ok && (after.is_empty() || (after[0] == ':' && after[1..].iter().all(|&c| is_digit(c))))
}
/// "//" iauthority ipath-abempty / ipath-absolute / (rootless | noscheme) / ipath-empty
fn is_hier_or_relative_part(h: &[char], noscheme: bool) -> bool {
    if h.len() >= 2 && h[0] == '/' && h[1] == '/' {
        let rest = &h[2..];
        let j = rest.iter().position(|&c| c == '/').unwrap_or(rest.len());
        return is_iauthority(&rest[..j]) && split_on(&rest[j..], '/').iter().all(|x| is_ipchar_seq(x));
    }
    let segs = split_on(h, '/');
    if !segs.iter().all(|x| is_ipchar_seq(x)) { return false; }
    if h.is_empty() { return true; }
    if h[0] == '/' { return true; }     // "/" [ isegment-nz *( "/" isegment ) ]  ("//..." was handled above)
    // first segment non-empty; without ":" for a relative reference
    !(noscheme && segs[0].contains(&':'))
}
fn split_qf(s: &[char]) -> (&[char], Option<&[char]>, Option<&[char]>) {
    let (s, f) = match s.iter().position(|&c| c == '#') { Some(i) => (&s[..i], Some(&s[i + 1..])), None => (s, None) };
    let (s, q) = match s.iter().position(|&c| c == '?') { Some(i) => (&s[..i], Some(&s[i + 1..])), None => (s, None) };
    (s, q, f)
}
fn qf_ok(q: Option<&[char]>, f: Option<&[char]>) -> bool {
    q.map_or(true, |q| chars_or_pct(q, |c| is_iunreserved(c) || is_sub_delim(c) || ":@/?".contains(c) || is_iprivate(c)))
        && f.map_or(true, |f| chars_or_pct(f, |c| is_iunreserved(c) || is_sub_delim(c) || ":@/?".contains(c)))
}
fn rfc_iri(s: &str) -> bool {
    let v: Vec<char> = s.chars().collect();
    let Some(colon) = v.iter().position(|&c| c == ':') else { return false };
    if !is_scheme(&v[..colon]) { return false; }
    let (h, q, f) = split_qf(&v[colon + 1..]);
    qf_ok(q, f) && is_hier_or_relative_part(h, false)
}
fn rfc_irelative_ref(s: &str) -> bool {
    let v: Vec<char> = s.chars().collect();
    let (h, q, f) = split_qf(&v);
    qf_ok(q, f) && is_hier_or_relative_part(h, true)
}

// =====================================================================================
// ORACLE 2: RFC 3986 section 5.2 (transform references), 5.2.3 (merge), 5.2.4 (remove_dot_segments), 5.3
// =====================================================================================
#[derive(Debug, Clone, PartialEq)]
struct Parts { scheme: Option<String>, authority: Option<String>, path: String, query: Option<String>, fragment: Option<String> }
/// Appendix B:  ^(([^:/?#]+):)?(//([^/?#]*))?([^?#]*)(\?([^#]*))?(#(.*))?
fn parse5(s: &str) -> Parts {
    let (s, fragment) = match s.find('#') { Some(i) => (&s[..i], Some(s[i + 1..].to_string())), None => (s, None) };
    let (s, query) = match s.find('?') { Some(i) => (&s[..i], Some(s[i + 1..].to_string())), None => (s, None) };
    let (scheme, s) = match s.find(|c| ":/?#".contains(c)) { Some(i) if i > 0 && s.as_bytes()[i] == b':' => (Some(s[..i].to_string()), &s[i + 1..]), _ => (None, s) };
    let (authority, s) = if let Some(r) = s.strip_prefix("//") { let j = r.find('/').unwrap_or(r.len()); (Some(r[..j].to_string()), &r[j..]) } else { (None, s) };
    Parts { scheme, authority, path: s.to_string(), query, fragment }
}
fn remove_dot_segments(path: &str) -> String {
    let mut inp = path.to_string();
    let mut out = String::new();
    while !inp.is_empty() {
        if inp.starts_with("../") { inp.drain(..3); }                                   // A
        else if inp.starts_with("./") { inp.drain(..2); }
        else if inp.starts_with("/./") { inp.drain(..2); }                               // B
        else if inp == "/." { inp = "/".into(); }
        else if inp.starts_with("/../") { inp.drain(..3); pop_last(&mut out); }          // C
        else if inp == "/.." { inp = "/".into(); pop_last(&mut out); }
        else if inp == "." || inp == ".." { inp.clear(); }                               // D
        else {                                                                           // E
            let start = if inp.starts_with('/') { 1 } else { 0 };
            let end = inp[start..].find('/').map(|i| i + start).unwrap_or(inp.len());
            out.push_str(&inp[..end]);
            inp.drain(..end);
        }
    }
    out
}
fn pop_last(out: &mut String) { match out.rfind('/') { Some(i) => out.truncate(i), None => out.clear() } }
fn merge(base: &Parts, rpath: &str) -> String {
    if base.authority.is_some() && base.path.is_empty() { format!("/{rpath}") }
    else { match base.path.rfind('/') { Some(i) => format!("{}{rpath}", &base.path[..=i]), None => rpath.to_string() } }
}
fn resolve52(base: &str, r: &str) -> String {
    let b = parse5(base);
    let r = parse5(r);
    let t = if r.scheme.is_some() {
        Parts { scheme: r.scheme, authority: r.authority, path: remove_dot_segments(&r.path), query: r.query, fragment: r.fragment }
    } else if r.authority.is_some() {
        Parts { scheme: b.scheme, authority: r.authority, path: remove_dot_segments(&r.path), query: r.query, fragment: r.fragment }
    } else if r.path.is_empty() {
        Parts { scheme: b.scheme, authority: b.authority, path: b.path, query: r.query.or(b.query), fragment: r.fragment }
    } else if r.path.starts_with('/') {
        Parts { scheme: b.scheme, authority: b.authority, path: remove_dot_segments(&r.path), query: r.query, fragment: r.fragment }
    } else {
        let m = merge(&b, &r.path);
        Parts { scheme: b.scheme, authority: b.authority, path: remove_dot_segments(&m), query: r.query, fragment: r.fragment }
    };
    let mut o = String::new();                                                           // 5.3
    if let Some(s) = t.scheme { o.push_str(&s); o.push(':'); }
    if let Some(a) = t.authority { o.push_str("//"); o.push_str(&a); }
    o.push_str(&t.path);
    if let Some(q) = t.query { o.push('?'); o.push_str(&q); }
    if let Some(f) = t.fragment { o.push('#'); o.push_str(&f); }
    o
}

// =====================================================================================
// generators
// =====================================================================================
fn ch(u: u32) -> char { char::from_u32(u).unwrap() }
fn boundary_chars() -> Vec<char> {
    let mut v = vec![];
    for &(a, b) in UCS.iter().chain(PRIV.iter()) {
        for u in [a.wrapping_sub(1), a, b, b + 1] { if let Some(c) = char::from_u32(u) { if !v.contains(&c) { v.push(c); } } }
    }
    v.push(ch(0x7F)); v.push(ch(0x9F)); v.push(ch(0xD7FF)); v.push(ch(0xE000)); v.push(ch(0x10FFFF)); v.push(ch(0xFDD0)); v.push(ch(0xFDEF));
    v
}
fn ipv6_text(nl: usize, nr: usize, v4: bool, dc: bool, upper: bool) -> String {
    let g = |i: usize| -> String { let pool = ["1", "ab", "0", "FFFF", "a1b2", "9", "c", "00d"]; let s = pool[i % pool.len()].to_string(); if upper { s.to_uppercase() } else { s } };
    let l: Vec<String> = (0..nl).map(g).collect();
    let mut r: Vec<String> = (0..nr).map(|i| g(i + 3)).collect();
    if v4 { r.push("1.2.3.4".into()); }
    if dc { format!("{}::{}", l.join(":"), r.join(":")) } else { let mut a = l; a.extend(r); a.join(":") }
}
/// the systematic part: every string here is checked in every run (when --n is large enough)
fn systematic() -> Vec<String> {
    let mut v: Vec<String> = vec![];
    // IP-literal: all shapes, valid and one-too-many
    for nl in 0..=8 { for nr in 0..=8 { for v4 in [false, true] {
        if nl + nr + if v4 { 2 } else { 0 } <= 9 { v.push(format!("http://[{}]/", ipv6_text(nl, nr, v4, true, (nl + nr) % 3 == 0))); }
    } } }
    for n in 5..=9 { v.push(format!("http://[{}]/", ipv6_text(n, 0, false, false, false))); v.push(format!("s://[{}]", ipv6_text(n, 0, true, false, true))); }
    for s in ["::", ":::", "1::2::3", ":1::2", "1::2:", "1:2:3:4:5:6:7:8:", ":1:2:3:4:5:6:7:8", "12345::", "::g", "::1.2.3", "::1.2.3.4.5", "1.2.3.4::", "::1.2.3.4:5", "1::1.2.3.4", "::ffff:1.2.3.4", "", "1", "::1%25eth0",
              "v1.x", "V1.x", "vF.a:b", "VfF0.-._~!$&'()*+,;=:", "v.x", "v1.", "v1", "vG.x", "v1.x/y", "v1.\u{e9}", "v1.[", "x1.y", "v1.%41"] {
        v.push(format!("http://[{s}]/")); v.push(format!("//u@[{s}]:8"));
    }
    // dec-octet boundaries, as ls32 of an IPv6 address (where they matter) and as host (always an ireg-name)
    for o in ["0", "9", "10", "99", "100", "199", "200", "249", "250", "255", "256", "260", "299", "300", "999", "00", "01", "001", "1000", ""] {
        v.push(format!("http://[::1.2.3.{o}]/")); v.push(format!("http://[::{o}.2.3.4]/")); v.push(format!("http://1.2.3.{o}/")); v.push(format!("//{o}.{o}.{o}.{o}"));
    }
    // ucschar / iprivate range ends +-1, in every component
    for c in boundary_chars() {
        for t in ["http://a/{}", "http://a/?{}", "http://a/#{}", "http://{}/", "http://{}@a/", "{}", "{}:x", "?{}", "#{}", "//{}", "a/{}", "s:{}"] { v.push(t.replace("{}", &c.to_string())); }
    }
    // ASCII: every character in every component
    for u in 0x20u32..0x7F { let c = ch(u);
        for t in ["s:{}", "s:/{}", "s://{}", "s://{}@h", "s://h:{}", "s:?{}", "s:#{}", "{}", "x{}:y", "/{}", "a/{}", "//h/{}", "s://[v1.{}]", "s:%{}0", "s:%0{}"] { v.push(t.replace("{}", &c.to_string())); }
    }
    for s in ["", "#", "?", "/", "//", "///", "////", "a:", ":", ":a", "1a:b", "a/b:c", "./a:b", "a:b", "%41", "%4", "%", "%zz", "%4g", "a b", "a\tb", "a\nb", "\n", "a\n",
              "s://a:b/", "s://a:80x/", "s://a:/", "s://a:", "s://a@b@c/", "s://a@/", "s://@", "s://:@:", "s://[::1]x/", "s://[::1]:80/", "s://[::1]:", "//[::1", "//[", "//]", "s://a[b]/", "s://[::1]@h/",
              "http://[1:2::3]/", "http://[:1::2:3:4:5:6]/", "http://[V1.x]/", "http://[v1.x]/", "s:/", "s://", "s:///", "s:////", "s:/a//b", "s:a//b", "s:a/b", "s:.", "s:..", "s:/..", "s://h/..", "s:?", "s:#", "s:?#", "s:#?", "s:##", "s:?a?b#c?d#",
              "S+-.9:", "9s:", "+s:", "s\u{e9}:a", "http://\u{e9}.ex/\u{e9}?\u{e9}#\u{e9}", "http://a/?\u{e000}", "http://a/\u{e000}", "http://a/#\u{e000}", "//\u{e000}", "\u{feff}", "s:\u{feff}",
              "http://a/b/c/d;p?q", "mailto:a@b", "urn:x:y", "file:///etc/passwd", "tel:+1-816-555-1212", "ldap://[2001:db8::7]/c=GB?objectClass?one", "http://a/%C3%A9", "http://a/%c3%a9"] {
        v.push(s.to_string());
    }
    v
}
const ALPHABET: &[char] = &[':', '/', '?', '#', '[', ']', '@', '%', '.', '-', 'v', 'V', '0', '1', '2', '5', '9', 'a', 'f', 'F', 'g', 'G', '+', '!', '~', '_', '\u{e9}', '\u{e000}', ' ', '^', '\u{fdd0}'];
fn gen_str(r: &mut Rng, pool: &[&str], lo: usize, hi: usize) -> String { let n = r.range(lo, hi); (0..n).map(|_| *r.pick(pool)).collect() }
const UNRES: &[&str] = &["a", "Z", "0", "9", "-", ".", "_", "~", "\u{e9}", "\u{a0}", "\u{d7ff}", "\u{f900}", "\u{10000}", "\u{efffd}", "g", "v"];
const SUBD: &[&str] = &["!", "$", "&", "'", "(", ")", "*", "+", ",", ";", "="];
const PCT: &[&str] = &["%41", "%c3%A9", "%2e", "%2F", "%00", "%fF"];
fn pchars(r: &mut Rng, extra: &[&str], lo: usize, hi: usize) -> String {
    let n = r.range(lo, hi);
    (0..n).map(|_| match r.below(10) { 0..=5 => *r.pick(UNRES), 6 => *r.pick(SUBD), 7 => *r.pick(PCT), _ => if extra.is_empty() { "a" } else { *r.pick(extra) } }).collect()
}
fn gen_host(r: &mut Rng) -> String {
    match r.below(8) {
        0 | 1 => { let v4 = r.chance(1, 3); let nr = r.below(if v4 { 6 } else { 8 }); let nl = r.below(8 - nr - if v4 { 2 } else { 0 } + 1).min(7); format!("[{}]", ipv6_text(nl, nr, v4, true, r.chance(1, 2))) }
        2 => format!("[{}]", ipv6_text(if r.chance(1, 2) { 8 } else { 6 }, 0, false, false, false).replacen("1:ab:0:FFFF:a1b2:9", "1:ab:0:FFFF:a1b2:9:1.2.3.4", if r.chance(1, 4) { 1 } else { 0 })),
        3 => format!("[{}{}.{}]", r.pick(&["v", "V"]), gen_str(r, &["1", "a", "F", "0"], 1, 3), pchars(r, &[":"], 1, 4).replace('%', "").replace(|c: char| !c.is_ascii(), "x")),
        4 => format!("{}.{}.{}.{}", r.pick(&["0", "9", "10", "99", "100", "199", "200", "249", "250", "255", "256"]), r.below(300), r.below(30), r.below(256)),
        _ => pchars(r, &[], 0, 5),
    }
}
fn gen_authority(r: &mut Rng) -> String {
    let mut a = String::new();
    if r.chance(1, 3) { a.push_str(&pchars(r, &[":"], 0, 4)); a.push('@'); }
    a.push_str(&gen_host(r));
    if r.chance(1, 3) { a.push(':'); a.push_str(&gen_str(r, &["0", "8", "443", "65536"], 0, 2)); }
    a
}
const DOTSEGS: &[&str] = &[".", "..", "", "a", "b", "c;p", "..a", "a..", "...", "%2e", "%2E%2e", "a:b", "@", "g"];
fn gen_segs(r: &mut Rng, lo: usize, hi: usize, dots: bool) -> Vec<String> {
    let n = r.range(lo, hi);
    (0..n).map(|_| if dots && r.chance(2, 3) { r.pick(DOTSEGS).to_string() } else { pchars(r, &[":", "@"], 0, 3) }).collect()
}
fn gen_qf(r: &mut Rng) -> String {
    let mut s = String::new();
    if r.chance(1, 3) { s.push('?'); s.push_str(&pchars(r, &[":", "@", "/", "?", "\u{e000}", "\u{f8ff}", "\u{10fffd}"], 0, 4)); }
    if r.chance(1, 3) { s.push('#'); s.push_str(&pchars(r, &[":", "@", "/", "?"], 0, 4)); }
    s
}
fn gen_scheme(r: &mut Rng) -> String { format!("{}{}", r.pick(&["s", "http", "A", "z", "urn"]), gen_str(r, &["a", "Z", "0", "+", "-", "."], 0, 2)) }
/// a member of IRI (absolute = true) or irelative-ref
fn gen_member(r: &mut Rng, absolute: bool, dots: bool) -> String {
    let mut s = String::new();
    if absolute { s.push_str(&gen_scheme(r)); s.push(':'); }
    match r.below(4) {
        0 | 1 => { s.push_str("//"); s.push_str(&gen_authority(r)); for g in gen_segs(r, 0, 4, dots) { s.push('/'); s.push_str(&g); } }
        2 => { s.push('/'); let g = gen_segs(r, 0, 4, dots); if !g.is_empty() { let first = if g[0].is_empty() { "x".to_string() } else { g[0].clone() }; s.push_str(&first); for x in &g[1..] { s.push('/'); s.push_str(x); } } }
        _ => { let g = gen_segs(r, 0, 4, dots); if !g.is_empty() { let mut first = if g[0].is_empty() { "y".to_string() } else { g[0].clone() }; if !absolute { first = first.replace(':', "") ; if first.is_empty() { first = "n".into(); } } s.push_str(&first); for x in &g[1..] { s.push('/'); s.push_str(x); } } }
    }
    s.push_str(&gen_qf(r));
    s
}
fn mutate(r: &mut Rng, s: &str) -> String {
    let mut v: Vec<char> = s.chars().collect();
    let c = *r.pick(ALPHABET);
    match r.below(3) {
        0 if !v.is_empty() => { let i = r.below(v.len()); v.remove(i); }
        1 if !v.is_empty() => { let i = r.below(v.len()); v[i] = c; }
        _ => { let i = r.below(v.len() + 1); v.insert(i, c); }
    }
    v.into_iter().collect()
}

// =====================================================================================
fn quiet<T>(f: impl FnOnce() -> T) -> Result<T, String> {
    catch_unwind(AssertUnwindSafe(f)).map_err(|e| e.downcast_ref::<String>().cloned().or_else(|| e.downcast_ref::<&str>().map(|s| s.to_string())).unwrap_or_else(|| "panic".into()))
}
struct Verdict { abs: bool, rel: bool, iri: bool, iref: bool, o_iri: bool, o_rel: bool }
fn verdicts(s: &str) -> Verdict {
    Verdict { abs: is_absolute_iri_ref(s), rel: is_relative_iri_ref(s), iri: Iri::new(s).is_ok(), iref: IriRef::new(s).is_ok(), o_iri: rfc_iri(s), o_rel: rfc_irelative_ref(s) }
}
fn show(s: &str) -> String { format!("{:?}", s) }

fn probe(hexs: &str) {
    let bytes: Vec<u8> = (0..hexs.len() / 2).map(|i| u8::from_str_radix(&hexs[2 * i..2 * i + 2], 16).unwrap()).collect();
    let s = String::from_utf8(bytes).expect("utf-8");
    let v = verdicts(&s);
    println!("string {}  code points {}", show(&s), coq_str(&s));
    println!("  sophia: is_absolute_iri_ref={} is_relative_iri_ref={} Iri::new.is_ok={} IriRef::new.is_ok={}", v.abs, v.rel, v.iri, v.iref);
    println!("  RFC 3987 recogniser (oracle): IRI={} irelative-ref={}", v.o_iri, v.o_rel);
    println!("  oxiri: Iri::parse.is_ok={} IriRef::parse.is_ok={}", sophia_iri::resolve::BaseIri::new(s.as_str()).is_ok(), sophia_iri::resolve::BaseIriRef::new(s.as_str()).is_ok());
    if v.iri { println!("  Iri::as_base: {:?}", quiet(|| Iri::new(s.as_str()).unwrap().as_base().to_string())); }
    if v.iref { println!("  IriRef::as_base: {:?}", quiet(|| IriRef::new(s.as_str()).unwrap().as_base().to_string())); }
    println!("  verdict: {}", if v.abs == v.o_iri && v.rel == v.o_rel { "agreement" } else { "DISAGREEMENT between sophia_iri and RFC 3987" });
}

fn main() {
    let a = parse_args();
    std::panic::set_hook(Box::new(|_| {}));
    if let Some(i) = a.rest.iter().position(|x| x == "--probe") { probe(&a.rest[i + 1]); return; }
    let mut sum = Summary::default();
    sum.rule = "case = one string (systematic list first: all IPv6 shapes with 0-8 groups around '::', IPvFuture incl. 'V', dec-octet boundaries, every ucschar/iprivate range end +-1 and every ASCII character in every component; then generated members of IRI / irelative-ref, their single-character mutants, random strings over 31 delimiter-heavy characters) checked for validation, as_base and Namespace::get, \
plus (for 2 cases out of 3) a (base, reference) pair of generated members with dot segments checked for resolution; non-trivial = contains an IP-literal, a non-ASCII or percent-encoded character, a userinfo/port, an empty or dot segment, or is rejected by someone; distinct = distinct (string, base, reference)".into();
    let sys = systematic();
    let base = Rng::new(a.seed);
    let mut cases = vec![];
    let mut seen = std::collections::HashSet::new();
    let range: Vec<usize> = match a.only { Some(i) => vec![i], None => (0..a.n).collect() };
    let verbose = a.only.is_some();
    const CAP: u64 = 400;
    let mut total_failures: u64 = 0;
    for idx in range {
        let mut r = base.fork(idx as u64);
        // ---------- the string ----------
        let (kind, s): (&str, String) = if idx < sys.len() { ("systematic", sys[idx].clone()) } else {
            match r.below(10) {
                0..=2 => ("member-iri", gen_member(&mut r, true, false)),
                3 | 4 => ("member-relative", gen_member(&mut r, false, false)),
                5 | 6 => { let abs = r.chance(1, 2); let m = gen_member(&mut r, abs, false); ("mutant", mutate(&mut r, &m)) }
                7 => { let m = r.pick(&sys).clone(); ("mutant-of-systematic", mutate(&mut r, &m)) }
                _ => { let n = r.range(0, 9); ("random", (0..n).map(|_| *r.pick(ALPHABET)).collect()) }
            }
        };
        sum.bump(&format!("kind:{kind}"));
        let v = verdicts(&s);
        let mut fails: Vec<String> = vec![];
        if v.abs != v.o_iri { fails.push(format!("is_absolute_iri_ref({}) = {} but the RFC 3987 rule IRI {} it", show(&s), v.abs, if v.o_iri { "accepts" } else { "rejects" })); }
        if v.rel != v.o_rel { fails.push(format!("is_relative_iri_ref({}) = {} but the RFC 3987 rule irelative-ref {} it", show(&s), v.rel, if v.o_rel { "accepts" } else { "rejects" })); }
        if v.iri != v.o_iri && v.abs == v.o_iri { fails.push(format!("Iri::new({}).is_ok() = {} but RFC 3987 IRI says {}", show(&s), v.iri, v.o_iri)); }
        if v.iref != (v.o_iri || v.o_rel) && v.abs == v.o_iri && v.rel == v.o_rel { fails.push(format!("IriRef::new({}).is_ok() = {} but RFC 3987 IRI-reference says {}", show(&s), v.iref, v.o_iri || v.o_rel)); }
        if v.abs && v.rel { fails.push(format!("{} is classified both absolute and relative", show(&s))); }
        // accepted values can be used as a base
        if v.iri {
            match quiet(|| { let i = Iri::new(s.as_str()).unwrap(); let b = i.as_base(); let t = Iri::new(s.clone()).unwrap().to_base(); (b.to_string(), t.to_string()) }) {
                Ok((b, t)) => { if b != s || t != s { fails.push(format!("Iri::as_base/to_base of {} changed the text to {} / {}", show(&s), show(&b), show(&t))); } }
                Err(p) => fails.push(format!("Iri::new({}) is accepted but as_base()/to_base() panics: {p}", show(&s))),
            }
        }
        if v.iref {
            if let Err(p) = quiet(|| { let i = IriRef::new(s.as_str()).unwrap(); let _ = i.as_base(); let _ = IriRef::new(s.clone()).unwrap().to_base(); }) {
                fails.push(format!("IriRef::new({}) is accepted but as_base()/to_base() panics: {p}", show(&s)));
            }
        }
        // Namespace::get validates ns + suffix with the same validator
        let cut = { let n = s.chars().count(); r.below(n + 1) };
        let (ns, suf): (String, String) = (s.chars().take(cut).collect(), s.chars().skip(cut).collect());
        let ns_ok = Namespace::new(ns.as_str()).is_ok();
        let get_ok = ns_ok && Namespace::new(ns.as_str()).unwrap().get(&suf).is_ok();
        let ns_oracle = rfc_iri(&ns) || rfc_irelative_ref(&ns);
        if ns_ok == ns_oracle && get_ok != (ns_ok && (v.o_iri || v.o_rel)) && v.iref == (v.o_iri || v.o_rel) {
            fails.push(format!("Namespace::new({}).get({}).is_ok() = {} but the concatenation is {} by RFC 3987", show(&ns), show(&suf), get_ok, if v.o_iri || v.o_rel { "valid" } else { "invalid" }));
        }
        let mut body = format!("val_ok {} {} {} {} {} {} {} {} {} {}", coq_str(&s), coq_bool(v.abs), coq_bool(v.rel), coq_bool(v.iri), coq_bool(v.iref), coq_bool(v.o_iri), coq_bool(v.o_rel), cut, coq_bool(ns_ok), coq_bool(get_ok));
        let mut text = format!("{kind} {}", show(&s));
        let mut nontrivial = s.contains('[') || s.contains('%') || !s.is_ascii() || s.contains('@') || s.contains("//") || s.contains("/.") || !(v.abs || v.rel);
        // ---------- a (base, reference) pair ----------
        if idx % 3 != 0 {
            let b = if r.chance(1, 6) { r.pick(&["s:/a", "s:a", "s:", "s://h", "s://h/", "http://a/b/c/d;p?q", "s:/a/b", "s:a/b", "s://h?q", "s:/.."]).to_string() } else { gen_member(&mut r, true, true) };
            let rf = if r.chance(1, 4) { r.pick(&["", ".", "..", "./", "../", "../..", "../../..", "/.//x", "/./", "/..", "//h/..", "//h/./x", "g:h", "g:/a/../b", "g:a/./b", "?y", "#s", "./g:h", "..//x", ".//x", "x/../../../y", "/", "//", "///x", "a/./b/../c", "%2e%2e/x", ".a", "..a/b", "http:g", ";x", "g;x=1/../y"]).to_string() } else { let abs = r.chance(1, 5); gen_member(&mut r, abs, true) };
            let (vb, vr) = (verdicts(&b), verdicts(&rf));
            text.push_str(&format!(" | base {} ref {}", show(&b), show(&rf)));
            if vb.iri && vr.iref {
                sum.bump("pairs-resolved");
                let expected = resolve52(&b, &rf);
                let got = quiet(|| { let bi = Iri::new(b.as_str()).unwrap(); let base = bi.as_base(); let out = base.resolve(IriRef::new(rf.as_str()).unwrap()); out.as_str().to_string() });
                let got2 = quiet(|| Iri::new(b.as_str()).unwrap().resolve(IriRef::new(rf.as_str()).unwrap()).as_str().to_string());
                match &got {
                    Ok(g) => {
                        if *g != expected {
                            let (pb, pr) = (parse5(&b), parse5(&rf));
                            let dotty = |p: &str| p.split('/').any(|x| x == "." || x == "..");
                            let tag = if pr.scheme.is_some() || pr.authority.is_some() { "dot segments are kept in a reference that has a scheme or an authority" }
                                else if !pr.path.starts_with('/') && !pr.path.is_empty() && dotty(&pb.path) { "dot segments of the base path are kept" }
                                else if pb.authority.is_none() { "'..' above the root of a base without authority" }
                                else { "other" };
                            fails.push(format!("[resolve differs from RFC 3986 5.2: {tag}] resolving {} against {} gives {} but RFC 3986 5.2 gives {}", show(&rf), show(&b), show(g), show(&expected)));
                            sum.bump(&format!("resolve:differs-from-5.2:{tag}"));
                        }
                        if !rfc_iri(g) { fails.push(format!("[resolve result is not an IRI] resolving {} against {} gives {} which is not an RFC 3987 IRI", show(&rf), show(&b), show(g))); }
                        else if !Iri::new(g.as_str()).is_ok() && vb.o_iri && (vr.o_iri || vr.o_rel) { fails.push(format!("[resolve result is rejected] resolving {} against {} gives {} which Iri::new rejects", show(&rf), show(&b), show(g))); }
                        if got2.as_ref().ok() != Some(g) { fails.push(format!("Iri::resolve and BaseIri::resolve differ on base {} ref {}: {:?} vs {}", show(&b), show(&rf), got2, show(g))); }
                    }
                    Err(p) => { fails.push(format!("[resolve panics] resolving the accepted reference {} against the accepted base {} panics ({p}); RFC 3986 5.2 gives {}", show(&rf), show(&b), show(&expected))); sum.bump("resolve:panic"); }
                }
                body.push_str(&format!(" && res_ok {} {} {}", coq_str(&b), coq_str(&rf), coq_opt(got.as_ref().ok().map(|g| coq_str(g)))));
                if verbose { println!("  resolve: got {:?}, RFC 3986 5.2 oracle {}", got, show(&expected)); }
                nontrivial = nontrivial || rf.contains('.') || b.contains("/.");
            } else { sum.bump("pairs-not-both-accepted"); }
        }
        if verbose {
            println!("CASE {idx}: {text}");
            println!("  sophia: abs={} rel={} Iri::new={} IriRef::new={} | oracle: IRI={} irelative-ref={} | Namespace({}).get({}) = {}", v.abs, v.rel, v.iri, v.iref, v.o_iri, v.o_rel, show(&ns), show(&suf), get_ok);
            for f in &fails { println!("  ORACLE FAILURE: {f}"); }
            println!("  coq: {body}");
        }
        sum.bump(match (v.o_iri, v.o_rel) { (true, _) => "rfc:IRI", (_, true) => "rfc:irelative-ref", _ => "rfc:invalid" });
        // every failure is counted; at most CAP per category are listed in the summary (the first ones)
        for f in &fails {
            let key = format!("oracle-failure:{}", f.split(|c| c == '(' || c == ']').next().unwrap_or("").trim_start_matches('['));
            sum.bump(&key);
            total_failures += 1;
            if sum.dist.iter().find(|e| e.0 == key).map_or(0, |e| e.1) <= CAP { sum.oracle_failures.push((idx.to_string(), f.clone())); }
        }
        if !fails.is_empty() { sum.bump("cases-with-oracle-failure"); }
        if seen.insert(text.clone()) && nontrivial { sum.distinct_nontrivial += 1; }
        if sum.samples.len() < 6 && nontrivial && idx >= sys.len() { sum.samples.push(format!("case {idx}: {text} => abs={} rel={}", v.abs, v.rel)); }
        sum.evaluations += 1;
        cases.push((idx, body));
    }
    if a.only.is_none() {
        let header = "From Sophia.Common Require Import Prelude.\nFrom Sophia.C09 Require Import Regex Rfc3987 Resolve Model.\n";
        sum.shards = write_shards(&a.out, header, &cases, a.shards);
        sum.extra.push(("coq_cases".into(), cases.len().to_string()));
        sum.extra.push(("systematic_strings".into(), sys.len().to_string()));
        sum.extra.push(("oracle_failures_total".into(), total_failures.to_string()));
        std::fs::write(format!("{}/summary.json", a.out), sum.to_json()).unwrap();
    }
    println!("c09: {} cases ({} systematic available), {} distinct non-trivial, {} oracle failures ({} listed)", sum.evaluations, sys.len(), sum.distinct_nontrivial, total_failures, sum.oracle_failures.len());
}
