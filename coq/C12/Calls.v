(* C12/Calls.v -- the serializer object around the engine (jsonld/src/serializer.rs): the error channel of
   `convert_quads`, and several `serialize_quads` calls on one serializer.  Definitions only.

   - `JsonLdSerializer::convert_quads` builds a NEW `Engine` for every call: nothing is kept from one call to
     the next except what the target accumulates.
   - `Engine::into_json` fails (JsonLdError::InvalidJsonLiteral, through `?` in `convert_rdf_object`) when a
     literal that is rendered has datatype rdf:JSON and a lexical form that is not JSON; nothing is written then.
     Every literal object of an accepted quad is rendered (in its node, or in the `@list` that replaces a
     suppressed cell), so the call fails exactly when some accepted quad has such an object.
   - `W: io::Write` targets (`Vec<u8>`, the stringifier) receive the text of every successful call, one after
     the other (`write_all`); the `Jsonifier` target is overwritten by every successful call. *)
From Sophia.C12 Require Import Model.

Section Calls.
Variable info : N -> tinfo.
Variable o : opts.
Variable bad : N -> bool.     (* rdf:JSON literals whose lexical form is not a JSON text *)

Definition bad_quad (q : quad) : bool := is_jsonld info q && is_lit info (qo q) && bad (qo q).
Definition serialise_result (d : list quad) : option (list jtop) :=
  if existsb bad_quad d then None else Some (serialise info o d).

(* the results of the successive calls on one serializer *)
Definition calls (ds : list (list quad)) : list (option (list jtop)) := map serialise_result ds.
(* what a writer target holds afterwards: the documents of the successful calls, in order *)
Definition appended (rs : list (option (list jtop))) : list (list jtop) := flat_map (@opt_list (list jtop)) rs.
(* what the Jsonifier target holds afterwards: the document of the last successful call (Null before) *)
Definition replaced (rs : list (option (list jtop))) : option (list jtop) :=
  fold_left (fun acc r => match r with Some doc => Some doc | None => acc end) rs None.
End Calls.

(* ---------- harness-facing checkers ---------- *)
Fixpoint docs_eqb (a b : list (list jtop)) : bool :=
  match a, b with
  | [], [] => true
  | x :: a', y :: b' => doc_eqb x y && docs_eqb a' b'
  | _, _ => false
  end.
Definition bad_of (l : list N) (x : N) : bool := existsb (N.eqb x) l.
(* every observation (the documents a writer target received, in order) is the model's *)
Definition calls_ok (t : table) (o : opts) (bad : list N) (ds : list (list quad)) (obs : list (list (list jtop))) : bool :=
  let m := appended (calls (info_of t) o (bad_of bad) ds) in forallb (docs_eqb m) obs.
Definition jsonifier_ok (t : table) (o : opts) (bad : list N) (ds : list (list quad)) (obs : option (list jtop)) : bool :=
  match replaced (calls (info_of t) o (bad_of bad) ds), obs with
  | None, None => true
  | Some m, Some x => doc_eqb m x
  | _, _ => false
  end.
