(* C04/Proofs.v -- theorems about the model of the Turtle/TriG pretty-printer (Model.v).
   Part A: bare literals and prefixed names are tokens of the right production of the Turtle grammar
           (consequences of the `ka` inclusions of Incl.v);
   Part B: get_checked_prefixed_pair splits the IRI at its longest acceptable namespace;
   Part C: after build_labelled, the predecessor relation restricted to unlabelled blank nodes is
           well-founded (every blank node cycle contains a labelled node);
   Part D: list_item accepts exactly the well-formed cells, and every entry of `lists` is a genuine chain;
   Part E: the recorded defects of the pre-fix code. *)
From Coq Require Import Permutation.
From Sophia.Common Require Import Prelude.
From Sophia.C04 Require Import Regex Grammar Model PreFix.
From Sophia.C04 Require Incl.

(* ===================================================================================== *)
(* Part A: literals and local names                                                      *)
(* ===================================================================================== *)
(* A literal written bare is a token of the production the Turtle grammar associates with its datatype,
   and of no other numeric production: it is read back with the same lexical form and datatype. *)
Theorem bare_literal_sound dt lex : bare_literal dt lex = true ->
  (dt = xsd_integer /\ matchb INTEGER lex = true /\ matchb DECIMAL lex = false /\ matchb DOUBLE lex = false) \/
  (dt = xsd_decimal /\ matchb DECIMAL lex = true /\ matchb INTEGER lex = false /\ matchb DOUBLE lex = false) \/
  (dt = xsd_double /\ matchb DOUBLE lex = true /\ matchb INTEGER lex = false /\ matchb DECIMAL lex = false) \/
  (dt = xsd_boolean /\ matchb BOOLEAN lex = true).
Proof.
  unfold bare_literal, bare_with. intro H.
  destruct (Incl.numeric_disjoint lex) as [DI [DD DE]].
  repeat (apply orb_true_iff in H; destruct H as [H|H]); apply andb_true_iff in H; destruct H as [E M];
    apply str_eqb_eq in E.
  - left. apply Incl.integer_re_incl in M. destruct (DI M). auto.
  - right; left. apply Incl.decimal_re_incl in M. destruct (DD M). auto.
  - right; right; left. apply Incl.double_re_incl in M. destruct (DE M). auto.
  - right; right; right. apply Incl.boolean_re_incl in M. auto.
Qed.

(* ===================================================================================== *)
(* Part B: get_checked_prefixed_pair                                                     *)
(* ===================================================================================== *)
Lemma strip_prefix_spec n : forall s suf, strip_prefix n s = Some suf <-> s = n ++ suf.
Proof.
  induction n as [|x n IH]; intros s suf; simpl.
  - split; [intros [= ->]; reflexivity | intros ->; reflexivity].
  - destruct s as [|y s]; [split; discriminate|].
    destruct (N.eqb_spec x y) as [->|Hn].
    + rewrite IH. split; [intros ->; reflexivity | intros [= ->]; reflexivity].
    + split; [discriminate | intros [= E _]; congruence].
Qed.

Lemma slen_le a b : slen a <= slen b <-> (length a <= length b)%nat.
Proof. unfold slen. lia. Qed.

Definition valid_split (check : str -> bool) (iri n suf : str) : Prop := n ++ suf = iri /\ check suf = true.

Lemma gcpp_go_spec check iri : forall pm matched found,
  forall r, r = gcpp_go check iri pm matched found ->
  (r = found /\ forall p' n' suf', In (p', n') pm -> valid_split check iri n' suf' -> slen n' <= matched) \/
  (exists p n suf, r = Some (p, suf) /\ In (p, n) pm /\ valid_split check iri n suf /\ matched < slen n /\
     forall p' n' suf', In (p', n') pm -> valid_split check iri n' suf' -> slen n' <= slen n).
Proof.
  induction pm as [|[p n] pm IH]; intros matched found r Hr; simpl in Hr.
  - left. split; [exact Hr|]. intros ? ? ? [].
  - assert (Hskip : (forall suf', valid_split check iri n suf' -> slen n <= matched) ->
      forall r, r = gcpp_go check iri pm matched found ->
      (r = found /\ forall p' n' suf', (p, n) = (p', n') \/ In (p', n') pm -> valid_split check iri n' suf' -> slen n' <= matched) \/
      (exists p0 n0 suf, r = Some (p0, suf) /\ ((p, n) = (p0, n0) \/ In (p0, n0) pm) /\ valid_split check iri n0 suf /\ matched < slen n0 /\
         forall p' n' suf', (p, n) = (p', n') \/ In (p', n') pm -> valid_split check iri n' suf' -> slen n' <= slen n0)).
    { intros Hhead r0 Hr0. destruct (IH matched found r0 Hr0) as [[E B]|[p0 [n0 [suf [E [I [V [L B]]]]]]]].
      - left. split; [exact E|]. intros p' n' suf' [[= <- <-]|I] V; [eapply Hhead; eauto | eapply B; eauto].
      - right. exists p0, n0, suf. split; [exact E|]. split; [right; exact I|]. split; [exact V|]. split; [exact L|].
        intros p' n' suf' [[= <- <-]|I'] V'; [specialize (Hhead _ V'); lia | eapply B; eauto]. }
    destruct (strip_prefix n iri) as [suffix|] eqn:S.
    + apply strip_prefix_spec in S.
      destruct ((matched <? slen n) && check suffix) eqn:C.
      * apply andb_true_iff in C. destruct C as [C1 C2]. apply N.ltb_lt in C1.
        destruct (IH (slen n) (Some (p, suffix)) r Hr) as [[E B]|[p0 [n0 [suf [E [I [V [L B]]]]]]]].
        -- right. exists p, n, suffix. split; [exact E|]. split; [left; reflexivity|]. split; [split; auto|]. split; [exact C1|].
           intros p' n' suf' [[= <- <-]|I] V; [lia | eapply B; eauto].
        -- right. exists p0, n0, suf. split; [exact E|]. split; [right; exact I|]. split; [exact V|]. split; [lia|].
           intros p' n' suf' [[= <- <-]|I'] V'; [lia | eapply B; eauto].
      * apply Hskip; [|exact Hr]. intros suf' [V1 V2].
        assert (suf' = suffix) by (rewrite S in V1; apply app_inv_head in V1; exact V1). subst suf'.
        rewrite V2, andb_true_r in C. apply N.ltb_ge in C. exact C.
    + apply Hskip; [|exact Hr]. intros suf' [V1 V2]. symmetry in V1. apply strip_prefix_spec in V1. congruence.
Qed.

(* the pair returned names a namespace of the map that is a prefix of the IRI, the suffix passes the check,
   and no other acceptable namespace is longer *)
Theorem gcpp_sound check pm iri p suf : get_checked_prefixed_pair check pm iri = Some (p, suf) ->
  exists n, In (p, n) pm /\ n ++ suf = iri /\ check suf = true /\
    forall p' n' suf', In (p', n') pm -> n' ++ suf' = iri -> check suf' = true -> (length n' <= length n)%nat.
Proof.
  unfold get_checked_prefixed_pair. intro H.
  destruct (gcpp_go_spec check iri pm 0 None _ eq_refl) as [[E _]|[p0 [n0 [suf0 [E [I [[V1 V2] [_ B]]]]]]]].
  - congruence.
  - rewrite H in E. injection E as -> ->. exists n0. repeat split; auto.
    intros p' n' suf' I' E1 E2. apply slen_le. eapply B; [exact I' | exact (conj E1 E2)].
Qed.
(* nothing is returned only if no non-empty namespace is acceptable *)
Theorem gcpp_complete check pm iri : get_checked_prefixed_pair check pm iri = None ->
  forall p' n' suf', In (p', n') pm -> n' ++ suf' = iri -> check suf' = true -> n' = [].
Proof.
  unfold get_checked_prefixed_pair. intros H p' n' suf' I E1 E2.
  destruct (gcpp_go_spec check iri pm 0 None _ eq_refl) as [[_ B]|[p0 [n0 [suf0 [E _]]]]]; [|congruence].
  specialize (B p' n' suf' I (conj E1 E2)). unfold slen in B. destruct n'; [reflexivity|simpl in B; lia].
Qed.

(* write_iri: a prefixed name `p:local` is written only if namespace(p) ++ local = iri and local is a PN_LOCAL of
   the Turtle grammar; and, as an IRI contains no backslash, local is in the escape-free production, so that the
   reader's unescaping leaves it unchanged *)
Theorem write_iri_pname_sound pm iri p loc : write_iri_pname pm iri = Some (p, loc) ->
  exists n, In (p, n) pm /\ n ++ loc = iri /\ matchb PN_LOCAL loc = true /\
    (existsb (N.eqb c_bslash) iri = false -> matchb PN_LOCAL_noesc loc = true).
Proof.
  intro H. apply gcpp_sound in H. destruct H as [n [I [E [M _]]]].
  exists n. repeat split; auto.
  - apply Incl.pn_local_re_incl. exact M.
  - intro B. apply Incl.pn_local_re_no_unescape; [exact M|].
    rewrite <- E, existsb_app in B. apply orb_false_iff in B. tauto.
Qed.

(* ===================================================================================== *)
(* Part C: cycle detection                                                               *)
(* ===================================================================================== *)
Lemma pm_get_put m k v k' : pm_get (pm_put m k v) k' = if N.eqb k' k then Some v else pm_get m k'.
Proof.
  induction m as [|[k0 v0] m IH]; simpl.
  - reflexivity.
  - destruct (k <? k0) eqn:L; simpl; [reflexivity|].
    destruct (N.eqb_spec k k0) as [->|Hn]; simpl.
    + destruct (N.eqb k' k0); reflexivity.
    + rewrite IH. destruct (N.eqb_spec k' k0) as [->|Hn'].
      * destruct (N.eqb_spec k0 k); [congruence|reflexivity].
      * reflexivity.
Qed.

Lemma pm_get_keys m k p : pm_get m k = Some p -> In k (keys m).
Proof.
  induction m as [|[k0 v0] m IH]; simpl; [discriminate|].
  destruct (N.eqb_spec k k0) as [->|Hn]; [left; reflexivity | right; auto].
Qed.
Lemma keys_pm_get m k : In k (keys m) -> exists p, pm_get m k = Some p.
Proof.
  induction m as [|[k0 v0] m IH]; simpl; [intros []|].
  intros [->|H]; [rewrite N.eqb_refl; eauto|].
  destruct (N.eqb k k0); eauto.
Qed.

(* a node is RESOLVED when following predecessors from it stops (at a labelled node, at a node without
   predecessor, or outside the blank nodes) *)
Inductive resolved (m : pmap) : N -> Prop :=
| res_bad n p : pm_get m n = Some p -> bad p = true -> resolved m n
| res_root n p : pm_get m n = Some p -> predecessor p = None -> resolved m n
| res_out n p t : pm_get m n = Some p -> predecessor p = Some t -> pm_get m t = None -> resolved m n
| res_step n p t : pm_get m n = Some p -> predecessor p = Some t -> resolved m t -> resolved m n.

(* what the detection may change: marks only *)
Definition ext (m m' : pmap) : Prop := forall k,
  match pm_get m k, pm_get m' k with
  | Some p, Some p' => predecessor p' = predecessor p /\ (bad p = true -> bad p' = true) /\ (visited p <> 0 -> visited p' <> 0)
  | None, None => True
  | _, _ => False
  end.
Lemma ext_refl m : ext m m.
Proof. intro k. destruct (pm_get m k); auto. Qed.
Lemma ext_trans a b c : ext a b -> ext b c -> ext a c.
Proof.
  intros H1 H2 k. specialize (H1 k). specialize (H2 k).
  destruct (pm_get a k), (pm_get b k), (pm_get c k); try tauto.
  destruct H1 as [A1 [A2 A3]], H2 as [B1 [B2 B3]]. repeat split; [congruence | auto | auto].
Qed.
Lemma ext_put m t p p' : pm_get m t = Some p -> predecessor p' = predecessor p ->
  (bad p = true -> bad p' = true) -> (visited p <> 0 -> visited p' <> 0) -> ext m (pm_put m t p').
Proof.
  intros G A B C k. rewrite pm_get_put. destruct (N.eqb_spec k t) as [->|Hn].
  - rewrite G. auto.
  - destruct (pm_get m k); auto.
Qed.
Lemma ext_some m m' k p : ext m m' -> pm_get m k = Some p ->
  exists p', pm_get m' k = Some p' /\ predecessor p' = predecessor p /\ (bad p = true -> bad p' = true) /\ (visited p <> 0 -> visited p' <> 0).
Proof. intros H G. specialize (H k). rewrite G in H. destruct (pm_get m' k); [eauto|tauto]. Qed.
Lemma ext_none m m' k : ext m m' -> pm_get m k = None -> pm_get m' k = None.
Proof. intros H G. specialize (H k). rewrite G in H. destruct (pm_get m' k); [tauto|reflexivity]. Qed.
Lemma ext_some_inv m m' k p' : ext m m' -> pm_get m' k = Some p' -> exists p, pm_get m k = Some p.
Proof. intros H G. specialize (H k). rewrite G in H. destruct (pm_get m k); [eauto|tauto]. Qed.

Lemma resolved_ext m m' n : ext m m' -> resolved m n -> resolved m' n.
Proof.
  intros E R. induction R as [n p G B|n p G P|n p t G P O|n p t G P R IH];
    destruct (ext_some _ _ _ _ E G) as [p' [G' [P' [B' _]]]].
  - eapply res_bad; [exact G' | auto].
  - eapply res_root; [exact G' | congruence].
  - eapply res_out; [exact G' | rewrite P'; exact P | eapply ext_none; eauto].
  - eapply res_step; [exact G' | rewrite P'; exact P | exact IH].
Qed.

(* the nodes stamped by the current walk form a chain leading to [cur] *)
Inductive leads (m : pmap) (stamp : N) (cur : option N) : N -> Prop :=
| leads_last n p : pm_get m n = Some p -> visited p = stamp -> predecessor p = cur -> leads m stamp cur n
| leads_step n p t : pm_get m n = Some p -> visited p = stamp -> predecessor p = Some t -> leads m stamp cur t ->
                     leads m stamp cur n.

Definition others_resolved (m : pmap) (stamp : N) : Prop :=
  forall n p, pm_get m n = Some p -> visited p <> 0 -> visited p <> stamp -> resolved m n.
Definition pending_lead (m : pmap) (stamp : N) (cur : option N) : Prop :=
  forall n p, pm_get m n = Some p -> visited p = stamp -> leads m stamp cur n.
Definition all_resolved (m : pmap) : Prop :=
  forall n p, pm_get m n = Some p -> visited p <> 0 -> resolved m n.
Definition vis_le (m : pmap) (b : N) : Prop := forall n p, pm_get m n = Some p -> visited p <= b.

Definition unvisited (l : list N) (m : pmap) : nat :=
  length (filter (fun k => match pm_get m k with Some p => N.eqb (visited p) 0 | None => false end) l).

Lemma filter_length_le {A} (f : A -> bool) l : (length (filter f l) <= length l)%nat.
Proof. induction l as [|x l IH]; simpl; [lia|]. destruct (f x); simpl; lia. Qed.
Lemma filter_length_mono {A} (f1 f2 : A -> bool) l :
  (forall x, In x l -> f2 x = true -> f1 x = true) -> (length (filter f2 l) <= length (filter f1 l))%nat.
Proof.
  induction l as [|x l IH]; intro H; simpl; [lia|].
  assert (IH' := IH (fun y Hy => H y (or_intror Hy))).
  destruct (f2 x) eqn:E2.
  - rewrite (H x (or_introl eq_refl) E2). simpl. lia.
  - destruct (f1 x); simpl; lia.
Qed.
Lemma filter_length_lt {A} (f1 f2 : A -> bool) l t :
  (forall x, In x l -> f2 x = true -> f1 x = true) -> In t l -> f1 t = true -> f2 t = false ->
  (length (filter f2 l) < length (filter f1 l))%nat.
Proof.
  induction l as [|x l IH]; intros H I T1 T2; [destruct I|]. simpl.
  assert (Hl : forall y, In y l -> f2 y = true -> f1 y = true) by (intros y Hy; apply H; right; exact Hy).
  destruct I as [->|I].
  - rewrite T1, T2. simpl. pose proof (filter_length_mono f1 f2 l Hl). lia.
  - specialize (IH Hl I T1 T2). destruct (f2 x) eqn:E2.
    + rewrite (H x (or_introl eq_refl) E2). simpl. lia.
    + destruct (f1 x); simpl; lia.
Qed.

(* when the walk stops at a resolved node (or at no node), every pending node is resolved *)
Lemma leads_resolved m stamp cur :
  (match cur with None => True | Some t => pm_get m t = None \/ resolved m t end) ->
  forall n, leads m stamp cur n -> resolved m n.
Proof.
  intros Hc n L. induction L as [n p G V P|n p t G V P L IH].
  - destruct cur as [t|].
    + destruct Hc as [Hc|Hc]; [eapply res_out; eauto | eapply res_step; eauto].
    + eapply res_root; eauto.
  - eapply res_step; eauto.
Qed.

Lemma leads_ext_visited m stamp t p n :
  pm_get m t = Some p -> visited p <> stamp ->
  leads m stamp (Some t) n -> leads (pm_put m t (set_visited p stamp)) stamp (predecessor p) n.
Proof.
  intros G V L.
  assert (Lt : leads (pm_put m t (set_visited p stamp)) stamp (predecessor p) t).
  { eapply leads_last; [rewrite pm_get_put, N.eqb_refl; reflexivity | reflexivity | reflexivity]. }
  induction L as [n q Gn Vn Pn|n q u Gn Vn Pn L IH].
  - assert (n <> t) by (intro; subst; rewrite G in Gn; injection Gn as <-; congruence).
    eapply leads_step; [rewrite pm_get_put; destruct (N.eqb_spec n t); [congruence|exact Gn] | exact Vn | exact Pn | exact Lt].
  - assert (n <> t) by (intro; subst; rewrite G in Gn; injection Gn as <-; congruence).
    eapply leads_step; [rewrite pm_get_put; destruct (N.eqb_spec n t); [congruence|exact Gn] | exact Vn | exact Pn | exact IH].
Qed.

Lemma walk_spec stamp l : stamp <> 0 -> forall fuel m cur,
  (forall k p, pm_get m k = Some p -> In k l) ->
  (unvisited l m < fuel)%nat ->
  others_resolved m stamp -> pending_lead m stamp cur ->
  let m' := walk fuel stamp m cur in
  all_resolved m' /\ ext m m' /\ (vis_le m stamp -> vis_le m' stamp).
Proof.
  intro Hs. induction fuel as [|fuel IH]; intros m cur Dom Fu Ho Hp; [lia|].
  (* the three ways of stopping without a change *)
  assert (Stop : (match cur with None => True | Some t => pm_get m t = None \/ resolved m t end) ->
                 all_resolved m /\ ext m m /\ (vis_le m stamp -> vis_le m stamp)).
  { intro Hc. split; [|split; [apply ext_refl | auto]].
    intros n p G V. destruct (N.eq_dec (visited p) stamp) as [E|E].
    - eapply leads_resolved; [exact Hc | eapply Hp; eauto].
    - eapply Ho; eauto. }
  simpl. destruct cur as [t|]; [|apply Stop; exact I].
  destruct (pm_get m t) as [p|] eqn:G; [|apply Stop; left; reflexivity].
  destruct (bad p) eqn:B; [apply Stop; right; eapply res_bad; eauto|].
  destruct (N.eqb_spec (visited p) stamp) as [V|V].
  - (* back on the current walk: a cycle, t becomes labelled *)
    set (m' := pm_put m t (set_bad p)).
    assert (E : ext m m') by (apply (ext_put m t p); auto).
    assert (Rt : resolved m' t).
    { eapply res_bad; [unfold m'; rewrite pm_get_put, N.eqb_refl; reflexivity | reflexivity]. }
    split; [|split; [exact E|]].
    + intros n q Gn Vn. destruct (ext_some_inv _ _ _ _ E Gn) as [q0 Gn0].
      destruct (N.eq_dec (visited q0) stamp) as [E0|E0].
      * assert (L : leads m stamp (Some t) n) by (eapply Hp; eauto).
        clear - L E Rt. induction L as [n q G V P|n q u G V P L IH].
        -- destruct (ext_some _ _ _ _ E G) as [q' [G' [P' _]]]. eapply res_step; [exact G' | rewrite P'; exact P | exact Rt].
        -- destruct (ext_some _ _ _ _ E G) as [q' [G' [P' _]]]. eapply res_step; [exact G' | rewrite P'; exact P | exact IH].
      * destruct (N.eq_dec (visited q0) 0) as [Z|Z].
        -- (* visited unchanged by set_bad *)
           exfalso. unfold m' in Gn. rewrite pm_get_put in Gn. destruct (N.eqb_spec n t) as [->|Hn].
           ++ rewrite G in Gn0. injection Gn0 as <-. congruence.
           ++ rewrite Gn0 in Gn. injection Gn as <-. congruence.
        -- eapply resolved_ext; [exact E | eapply Ho; eauto].
    + intros Hv n q Gn. unfold m' in Gn. rewrite pm_get_put in Gn. destruct (N.eqb_spec n t) as [->|Hn].
      * injection Gn as <-. simpl. eapply Hv; eauto.
      * eapply Hv; eauto.
  - destruct (N.eqb_spec (visited p) 0) as [Z|Z]; simpl.
    + (* a fresh node: stamp it and go on *)
      set (m1 := pm_put m t (set_visited p stamp)).
      assert (E : ext m m1) by (apply (ext_put m t p); simpl; auto; intros; congruence).
      assert (Dom1 : forall k q, pm_get m1 k = Some q -> In k l).
      { intros k q Gk. destruct (ext_some_inv _ _ _ _ E Gk) as [q0 Gk0]. eapply Dom; eauto. }
      assert (Fu1 : (unvisited l m1 < fuel)%nat).
      { assert (unvisited l m1 < unvisited l m)%nat; [|lia]. unfold unvisited.
        apply filter_length_lt with (t := t).
        - intros x _. unfold m1. rewrite pm_get_put. destruct (N.eqb_spec x t) as [->|Hn]; [|auto].
          simpl. intro H. apply N.eqb_eq in H. congruence.
        - eapply Dom; eauto.
        - rewrite G. apply N.eqb_eq. exact Z.
        - unfold m1. rewrite pm_get_put, N.eqb_refl. simpl. apply N.eqb_neq. exact Hs. }
      assert (Ho1 : others_resolved m1 stamp).
      { intros n q Gn Vn Vs. unfold m1 in Gn. rewrite pm_get_put in Gn. destruct (N.eqb_spec n t) as [->|Hn].
        - injection Gn as <-. simpl in Vs. congruence.
        - eapply resolved_ext; [exact E | eapply Ho; eauto]. }
      assert (Hp1 : pending_lead m1 stamp (predecessor p)).
      { intros n q Gn Vn. unfold m1 in Gn. rewrite pm_get_put in Gn. destruct (N.eqb_spec n t) as [->|Hn].
        - eapply leads_last; [unfold m1; rewrite pm_get_put, N.eqb_refl; reflexivity | reflexivity | reflexivity].
        - apply leads_ext_visited; [exact G | exact V | eapply Hp; eauto]. }
      destruct (IH m1 (predecessor p) Dom1 Fu1 Ho1 Hp1) as [A [E' Vl]].
      split; [exact A | split; [eapply ext_trans; eauto|]].
      intro Hv. apply Vl. intros n q Gn. unfold m1 in Gn. rewrite pm_get_put in Gn.
      destruct (N.eqb_spec n t) as [->|Hn]; [injection Gn as <-; simpl; lia | eapply Hv; eauto].
    + (* visited by an earlier walk *)
      apply Stop. right. eapply Ho; eauto.
Qed.

(* outer loop invariant: marks are bounded by the number of walks done, every visited node is resolved *)
Definition outer_inv (m : pmap) (i : N) : Prop := vis_le m i /\ all_resolved m.

Lemma detect_step_spec m i key : outer_inv m i ->
  let m' := detect_step m (i, key) in
  outer_inv m' (i + 1) /\ ext m m' /\
  (forall p', pm_get m' key = Some p' -> bad p' = true \/ visited p' <> 0).
Proof.
  intros [Hv Ha]. unfold detect_step. simpl fst. simpl snd.
  assert (Keep : outer_inv m (i + 1)).
  { split; [|exact Ha]. intros n p G. specialize (Hv n p G). lia. }
  destruct (pm_get m key) as [p|] eqn:G.
  2:{ split; [exact Keep | split; [apply ext_refl|]]. intros p' G'. congruence. }
  destruct (bad p || negb (N.eqb (visited p) 0)) eqn:C.
  { split; [exact Keep | split; [apply ext_refl|]]. intros p' G'. rewrite G in G'. injection G' as <-.
    apply orb_true_iff in C. destruct C as [C|C]; [left; exact C | right].
    apply negb_true_iff, N.eqb_neq in C. exact C. }
  apply orb_false_iff in C. destruct C as [B Z]. apply negb_false_iff, N.eqb_eq in Z.
  set (stamp := i + 1). set (m1 := pm_put m key (set_visited p stamp)).
  assert (Hs : stamp <> 0) by (unfold stamp; lia).
  assert (E : ext m m1) by (apply (ext_put m key p); simpl; auto; intros; congruence).
  assert (W := walk_spec stamp (keys m) Hs (S (length m)) m1 (predecessor p)).
  destruct W as [A [E' Vl]].
  - intros k q Gk. destruct (ext_some_inv _ _ _ _ E Gk) as [q0 Gk0]. eapply pm_get_keys; eauto.
  - unfold unvisited. pose proof (filter_length_le (fun k => match pm_get m1 k with Some p0 => N.eqb (visited p0) 0 | None => false end) (keys m)).
    unfold keys in *. rewrite map_length in H. lia.
  - intros n q Gn Vn Vs. unfold m1 in Gn. rewrite pm_get_put in Gn. destruct (N.eqb_spec n key) as [->|Hn].
    + injection Gn as <-. simpl in Vs. congruence.
    + eapply resolved_ext; [exact E | eapply Ha; eauto].
  - intros n q Gn Vn. unfold m1 in Gn. rewrite pm_get_put in Gn. destruct (N.eqb_spec n key) as [->|Hn].
    + eapply leads_last; [unfold m1; rewrite pm_get_put, N.eqb_refl; reflexivity | reflexivity | reflexivity].
    + exfalso. specialize (Hv n q Gn). unfold stamp in Vn. lia.
  - split; [split|split].
    + apply Vl. intros n q Gn. unfold m1 in Gn. rewrite pm_get_put in Gn. destruct (N.eqb_spec n key) as [->|Hn].
      * injection Gn as <-. simpl. unfold stamp. lia.
      * specialize (Hv n q Gn). unfold stamp. lia.
    + exact A.
    + eapply ext_trans; eauto.
    + intros p' G'. right.
      assert (G1 : pm_get m1 key = Some (set_visited p stamp)) by (unfold m1; rewrite pm_get_put, N.eqb_refl; reflexivity).
      destruct (ext_some _ _ _ _ E' G1) as [p'' [G'' [_ [_ V'']]]]. rewrite G' in G''. injection G'' as <-.
      apply V''. simpl. exact Hs.
Qed.

Lemma detect_fold_spec : forall ks m i, outer_inv m i ->
  let m' := fold_left detect_step (enumerate_from i ks) m in
  (exists j, outer_inv m' j) /\ ext m m' /\
  (forall k p', In k ks -> pm_get m' k = Some p' -> bad p' = true \/ visited p' <> 0).
Proof.
  induction ks as [|k ks IH]; intros m i Inv; simpl.
  - split; [eauto | split; [apply ext_refl|]]. intros ? ? [].
  - destruct (detect_step_spec m i k Inv) as [Inv1 [E1 K1]].
    destruct (IH _ _ Inv1) as [Inv2 [E2 K2]].
    split; [exact Inv2 | split; [eapply ext_trans; eauto|]].
    intros k' p' [<-|I] G'; [|eapply K2; eauto].
    destruct (ext_some_inv _ _ _ _ E2 G') as [p1 G1].
    destruct (ext_some _ _ _ _ E2 G1) as [p2 [G2 [_ [B2 V2]]]]. rewrite G' in G2. injection G2 as <-.
    destruct (K1 p1 G1); auto.
Qed.

(* the profiles built by the first loop have no mark yet *)
Lemma visit_unvisited_put m k v : (forall n p, pm_get m n = Some p -> visited p = 0) -> visited v = 0 ->
  forall n p, pm_get (pm_put m k v) n = Some p -> visited p = 0.
Proof. intros H Hv n p. rewrite pm_get_put. destruct (N.eqb n k); [intros [= <-]; exact Hv | apply H]. Qed.

Lemma profiles_unvisited ks quads : forall n p, pm_get (profiles ks quads) n = Some p -> visited p = 0.
Proof.
  unfold profiles.
  assert (Gen : forall qs m, (forall n p, pm_get m n = Some p -> visited p = 0) ->
                forall n p, pm_get (fold_left (visit_quad ks) qs m) n = Some p -> visited p = 0).
  { induction qs as [|q qs IH]; intros m Hm; simpl; [exact Hm|]. apply IH.
    unfold visit_quad. generalize (spog q). intro its. revert m Hm.
    induction its as [|it its IHi]; intros m Hm; simpl; [exact Hm|]. apply IHi.
    unfold visit_term. destruct (kind_of ks (snd it)); try exact Hm.
    - unfold visit_bnode. destruct (pm_get m (snd it)) as [p0|] eqn:G.
      + apply visit_unvisited_put; [exact Hm|]. specialize (Hm _ _ G).
        destruct (bad p0); [exact Hm|]. unfold update_positions, add_named_graph.
        destruct (N.eqb (fst it) 0); [exact Hm|]. destruct (N.eqb (fst it) 2); [|exact Hm].
        simpl. destruct (predecessor p0); exact Hm.
      + apply visit_unvisited_put; [exact Hm | reflexivity].
    - generalize (filter (is_bnode ks) (atoms (S (length ks)) ks (snd it))). intro l. revert m Hm.
      induction l as [|a l IHl]; intros m Hm; simpl; [exact Hm|]. apply IHl.
      unfold visit_quoted_atom. destruct (pm_get m a) as [p0|] eqn:G.
      + apply visit_unvisited_put; [exact Hm | exact (Hm _ _ G)].
      + apply visit_unvisited_put; [exact Hm | reflexivity]. }
  apply Gen. intros n p. discriminate.
Qed.

(* after the detection, every blank node is resolved *)
Theorem detect_cycles_resolved m : (forall n p, pm_get m n = Some p -> visited p = 0) ->
  forall n p, pm_get (detect_cycles m) n = Some p -> resolved (detect_cycles m) n.
Proof.
  intros H0 n p G. unfold detect_cycles in *.
  assert (Inv0 : outer_inv m 0).
  { split; [intros k q Gk; rewrite (H0 _ _ Gk); lia | intros k q Gk V; rewrite (H0 _ _ Gk) in V; congruence]. }
  destruct (detect_fold_spec (keys m) m 0 Inv0) as [[j [_ A]] [E K]].
  destruct (ext_some_inv _ _ _ _ E G) as [p0 G0].
  destruct (K n p (pm_get_keys _ _ _ G0) G) as [B|V].
  - eapply res_bad; eauto.
  - eapply A; eauto.
Qed.

(* the UNLABELLED PREDECESSOR relation: m is the predecessor of n, both are blank nodes that are not labelled *)
Definition upred (m : pmap) (n t : N) : Prop :=
  exists p q, pm_get m n = Some p /\ bad p = false /\ predecessor p = Some t /\ pm_get m t = Some q /\ bad q = false.

Lemma resolved_acc m n : resolved m n -> Acc (fun t n => upred m n t) n.
Proof.
  induction 1 as [n p G B|n p G P|n p t G P O|n p t G P R IH]; constructor; intros u [p' [q [G' [B' [P' [Gq Bq]]]]]];
    rewrite G in G'; injection G' as <-; congruence.
Qed.

(* MAIN THEOREM of part C: well-foundedness = every cycle among blank nodes contains a labelled node, so the
   recursive writer, which only descends into unlabelled nodes, terminates *)
Theorem unlabelled_pred_wf ks quads :
  well_founded (fun t n => upred (detect_cycles (profiles ks quads)) n t).
Proof.
  intro n. destruct (pm_get (detect_cycles (profiles ks quads)) n) as [p|] eqn:G.
  - apply resolved_acc. eapply detect_cycles_resolved; [apply profiles_unvisited | exact G].
  - constructor. intros u [p' [q [G' _]]]. congruence.
Qed.

(* the same without Acc: no cycle of unlabelled nodes *)
Inductive upath (m : pmap) : N -> N -> Prop :=
| upath_one n t : upred m n t -> upath m n t
| upath_more n t u : upred m n t -> upath m t u -> upath m n u.
Theorem no_unlabelled_cycle ks quads n : ~ upath (detect_cycles (profiles ks quads)) n n.
Proof.
  set (m := detect_cycles (profiles ks quads)).
  assert (W : forall n, Acc (fun t n => upred m n t) n) by apply unlabelled_pred_wf.
  induction (W n) as [n _ IH]. intro P.
  assert (Gen : forall a b, upath m a b -> forall c, upath m b c -> upath m a c).
  { induction 1 as [a b U|a b d U P' IH']; intros c Pc; [eapply upath_more; eauto | eapply upath_more; [exact U | apply IH'; exact Pc]]. }
  inversion P as [a t U|a t u U P']; subst.
  - apply (IH n U). exact P.
  - apply (IH t U). apply (Gen _ _ P'). apply upath_one. exact U.
Qed.

(* the labelled set is the set of bad profiles *)
Lemma labelled_of_spec m n : In n (labelled_of m) <-> exists p, In (n, p) m /\ bad p = true.
Proof.
  unfold labelled_of. rewrite in_map_iff. split.
  - intros [[k p] [<- H]]. apply filter_In in H. exists p. exact H.
  - intros [p [I B]]. exists (n, p). split; [reflexivity | apply filter_In; auto].
Qed.

(* ===================================================================================== *)
(* Part D: lists                                                                         *)
(* ===================================================================================== *)
Lemma g_eqb_eq a b : g_eqb a b = true <-> a = b.
Proof.
  destruct a as [x|], b as [y|]; simpl; try (split; congruence).
  rewrite N.eqb_eq. split; congruence.
Qed.
Lemma skey_eqb_eq a b : skey_eqb a b = true <-> a = b.
Proof.
  destruct a as [g s], b as [g' s']. unfold skey_eqb. simpl. rewrite andb_true_iff, g_eqb_eq, N.eqb_eq.
  split; [intros [-> ->]; reflexivity | intros [= -> ->]; auto].
Qed.
Lemma skey_eqb_refl a : skey_eqb a a = true.
Proof. apply skey_eqb_eq. reflexivity. Qed.

Lemma st_get_remove m k k' : st_get (st_remove m k) k' = if skey_eqb k' k then None else st_get m k'.
Proof.
  induction m as [|[k0 v0] m IH]; simpl.
  - destruct (skey_eqb k' k); reflexivity.
  - destruct (skey_eqb k k0) eqn:E0; simpl.
    + apply skey_eqb_eq in E0. subst k0. rewrite IH. destruct (skey_eqb k' k); reflexivity.
    + rewrite IH. destruct (skey_eqb k' k0) eqn:E1; [|reflexivity].
      apply skey_eqb_eq in E1. subst k0.
      destruct (skey_eqb k' k) eqn:E2; [|reflexivity].
      apply skey_eqb_eq in E2. subst k'. rewrite skey_eqb_refl in E0. discriminate.
Qed.
Lemma st_get_remove_some m k k' x : st_get (st_remove m k) k' = Some x -> st_get m k' = Some x.
Proof. rewrite st_get_remove. destruct (skey_eqb k' k); [discriminate|auto]. Qed.

Lemma nm_get_remove m k k' : nm_get (nm_remove m k) k' = if N.eqb k' k then None else nm_get m k'.
Proof.
  induction m as [|[k0 v0] m IH]; simpl.
  - destruct (N.eqb k' k); reflexivity.
  - destruct (N.eqb_spec k k0) as [->|Hn]; simpl.
    + rewrite IH. destruct (N.eqb k' k0); reflexivity.
    + rewrite IH. destruct (N.eqb_spec k' k0) as [->|Hn']; [|reflexivity].
      destruct (N.eqb_spec k0 k); [congruence|reflexivity].
Qed.
Lemma nm_get_toggle m k v k' x : nm_get (nm_toggle m k v) k' = Some x ->
  (k' = k /\ x = v) \/ nm_get m k' = Some x.
Proof.
  unfold nm_toggle. destruct (nm_get m k) eqn:G.
  - rewrite nm_get_remove. destruct (N.eqb k' k); [discriminate|auto].
  - simpl. destruct (N.eqb_spec k' k) as [->|Hn]; [intros [= <-]; auto | auto].
Qed.

(* --- list_item accepts exactly the cells with one rdf:first and at most one rdf:rest --- *)
Section ListItem.
  Variables (first rest : N) (quads : list quad).

  Definition is_cell (s v r : N) : Prop :=
    exists qf qr, (subject_quads quads s = [qf; qr] \/ subject_quads quads s = [qr; qf]) /\
      q_p qf = first /\ q_o qf = v /\ q_p qr = rest /\ q_o qr = r.

  Lemma list_item_shape s v : list_item first rest quads s = Some v ->
    exists qf, q_p qf = first /\ q_o qf = v /\
      ((subject_quads quads s = [qf] /\ q_p qf <> rest) \/
       (exists qr, q_p qr = rest /\ q_p qf <> rest /\ subject_quads quads s = [qf; qr]) \/
       (exists qr, q_p qr = rest /\ subject_quads quads s = [qr; qf])).
  Proof.
    unfold list_item. generalize (subject_quads quads s). intros qs H.
    destruct qs as [|q1 qs]; simpl in H; [discriminate|].
    destruct (N.eqb_spec rest (q_p q1)) as [R1|R1]; simpl in H.
    - (* q1 is the rest *)
      destruct qs as [|q2 qs]; simpl in H; [discriminate|].
      rewrite andb_false_r in H.
      destruct (N.eqb_spec first (q_p q2)) as [F2|F2]; simpl in H; [|discriminate].
      destruct qs as [|q3 qs]; simpl in H.
      + injection H as <-. exists q2. split; [auto|]. split; [reflexivity|]. right; right. exists q1. auto.
      + rewrite !andb_false_r in H. discriminate.
    - destruct (N.eqb_spec first (q_p q1)) as [F1|F1]; simpl in H; [|discriminate].
      destruct qs as [|q2 qs]; simpl in H.
      + injection H as <-. exists q1. split; [auto|]. split; [reflexivity|]. left. split; [reflexivity | congruence].
      + destruct (N.eqb_spec rest (q_p q2)) as [R2|R2]; simpl in H.
        * destruct qs as [|q3 qs]; simpl in H.
          -- injection H as <-. exists q1. split; [auto|]. split; [reflexivity|]. right; left. exists q2.
             split; [auto|]. split; [congruence | reflexivity].
          -- rewrite !andb_false_r in H. discriminate.
        * rewrite andb_false_r in H. discriminate.
  Qed.

  Lemma subject_quads_In q s : In q (subject_quads quads s) <-> In q quads /\ q_s q = s.
  Proof. unfold subject_quads. rewrite filter_In, N.eqb_eq. tauto. Qed.

  (* a node accepted by list_item that has an rdf:rest arc to r is a genuine cell: its only arcs are one
     rdf:first (to the item) and that rdf:rest *)
  Lemma list_item_cell g s v r : first <> rest ->
    list_item first rest quads s = Some v -> In (g, s, rest, r) quads -> is_cell s v r.
  Proof.
    intros Hfr H I.
    assert (Iq : In (g, s, rest, r) (subject_quads quads s)) by (apply subject_quads_In; auto).
    destruct (list_item_shape s v H) as [qf [Pf [Of [[E Nr]|[[qr [Pr [Nr E]]]|[qr [Pr E]]]]]]]; rewrite E in Iq.
    - destruct Iq as [Q|[]]. subst qf. exfalso. apply Nr. reflexivity.
    - destruct Iq as [Q|[Q|[]]]; [subst qf; exfalso; apply Nr; reflexivity|]. subst qr.
      exists qf, (g, s, rest, r). auto.
    - destruct Iq as [Q|[Q|[]]].
      + subst qr. exists qf, (g, s, rest, r). auto.
      + subst qf. exfalso. apply Hfr. symmetry. exact Pf.
  Qed.
End ListItem.

(* --- every entry of `lists` is a chain of genuine cells, each of them an inlinable blank node --- *)
Section Chains.
  Variables (ks : list tk) (first rest nil : N) (labelled : list N) (quads : list quad).
  Hypothesis first_rest : first <> rest.
  Let st0 := build_subject_types ks first rest labelled quads.
  Let item := list_item first rest quads.

  (* the subject type SubTree: a blank node, not labelled, object of exactly one quad of its graph *)
  Definition inlinable (s : N) : Prop :=
    exists g, kind_of ks s = TB /\ memN s labelled = false /\ count_as_object quads g s = 1%nat.

  Lemma st0_subtree g s : st_get st0 (g, s) = Some SubTree -> inlinable s.
  Proof.
    unfold st0, build_subject_types. generalize (dedup_adj (map (fun q => (q_g q, q_s q)) quads)). intro l.
    induction l as [|k l IH]; simpl; [discriminate|].
    destruct (skey_eqb (g, s) k) eqn:E; [|exact IH].
    apply skey_eqb_eq in E. subst k. simpl. intros [= H]. unfold subject_type in H.
    destruct (kind_of ks s) eqn:K; try discriminate.
    - destruct (negb (memN s labelled) && Nat.eqb (count_as_object quads g s) 1) eqn:C; [|discriminate].
      apply andb_true_iff in C. destruct C as [C1 C2]. apply negb_true_iff in C1. apply Nat.eqb_eq in C2.
      exists g. auto.
    - destruct (negb (N.eqb first p) && negb (N.eqb rest p) && contains quads g s0 p o); discriminate.
  Qed.

  Inductive chain : N -> list N -> Prop :=
  | chain_one s v : is_cell first rest quads s v nil -> inlinable s -> chain s [v]
  | chain_cons s v s' vs : is_cell first rest quads s v s' -> inlinable s -> chain s' vs -> chain s (v :: vs).

  Definition scan_inv (st : lstate) : Prop :=
    (forall o s, nm_get (l_preds st) o = Some s -> exists g, In (g, s, rest, o) quads /\ st_get st0 (g, s) = Some SubTree) /\
    (forall g s v, In ((g, s), v) (l_seeds st) -> item s = Some v /\ In (g, s, rest, nil) quads /\ st_get st0 (g, s) = Some SubTree) /\
    (forall k x, st_get (l_st st) k = Some x -> st_get st0 k = Some x).

  Lemma scan_step_inv st q : In q quads -> scan_inv st -> scan_inv (lists_scan_step item ks rest nil st q).
  Proof.
    intros Iq [HP [HS HT]]. unfold lists_scan_step.
    destruct (is_bnode ks (q_s q) && N.eqb rest (q_p q)) eqn:C1; simpl; [|exact (conj HP (conj HS HT))].
    apply andb_true_iff in C1. destruct C1 as [_ C1]. apply N.eqb_eq in C1.
    destruct (st_get (l_st st) (q_g q, q_s q)) as [x|] eqn:G; simpl; [|exact (conj HP (conj HS HT))].
    destruct x; simpl; try exact (conj HP (conj HS HT)).
    assert (G0 := HT _ _ G).
    assert (Eq : q = (q_g q, q_s q, rest, q_o q)) by (rewrite C1; destruct q as [[[? ?] ?] ?]; reflexivity).
    destruct (N.eqb_spec nil (q_o q)) as [Nl|Nl].
    - destruct (item (q_s q)) as [v|] eqn:It; [|exact (conj HP (conj HS HT))].
      split; [exact HP|]. split.
      + intros g s v' I. simpl in I. apply in_app_or in I. destruct I as [I|[[= <- <- <-]|[]]]; [apply HS; exact I|].
        split; [exact It|]. split; [|exact G0]. rewrite Nl. rewrite <- Eq. exact Iq.
      + intros k x. simpl. intro H. apply st_get_remove_some in H. auto.
    - destruct (is_bnode ks (q_o q)); [|exact (conj HP (conj HS HT))].
      split; [|split; [exact HS | exact HT]].
      intros o s H. simpl in H. apply nm_get_toggle in H. destruct H as [[-> ->]|H]; [|apply HP; exact H].
      exists (q_g q). split; [rewrite <- Eq; exact Iq | exact G0].
  Qed.

  Lemma scan_inv_fold : forall qs st, (forall q, In q qs -> In q quads) -> scan_inv st ->
    scan_inv (fold_left (lists_scan_step item ks rest nil) qs st).
  Proof.
    induction qs as [|q qs IH]; intros st Sub Inv; simpl; [exact Inv|].
    apply IH; [intros; apply Sub; right; assumption|]. apply scan_step_inv; [apply Sub; left; reflexivity | exact Inv].
  Qed.

  Lemma climb_chain preds :
    (forall o s, nm_get preds o = Some s -> exists g, In (g, s, rest, o) quads /\ st_get st0 (g, s) = Some SubTree) ->
    forall fuel bn items removed, chain bn items ->
    chain (fst (fst (climb item fuel preds bn items removed))) (snd (fst (climb item fuel preds bn items removed))).
  Proof.
    intros HP. induction fuel as [|fuel IH]; intros bn items removed C; simpl; [exact C|].
    destruct (nm_get preds bn) as [pred|] eqn:G; [|exact C].
    destruct (item pred) as [v|] eqn:It; [|exact C].
    apply IH. destruct (HP _ _ G) as [g [I S]].
    apply chain_cons with (s' := bn); [eapply list_item_cell; eauto | eapply st0_subtree; eauto | exact C].
  Qed.

  Lemma lm_put_In m k v h its : In (h, its) (lm_put m k v) -> (h, its) = (k, v) \/ In (h, its) m.
  Proof.
    induction m as [|[k0 v0] m IH]; simpl.
    - intros [H|[]]; auto.
    - destruct (k <? k0); [simpl; intros [H|H]; auto|].
      destruct (N.eqb k k0); simpl; [intros [H|H]; auto|]. intros [H|H]; [auto|]. destruct (IH H); auto.
  Qed.

  (* MAIN THEOREM of part D *)
  Theorem lists_are_chains head items :
    In (head, items) (fst (build_lists first rest nil ks quads st0)) -> chain head items.
  Proof.
    unfold build_lists, build_lists_with. fold item.
    set (sc := fold_left (lists_scan_step item ks rest nil) quads {| l_preds := []; l_seeds := []; l_st := st0 |}).
    assert (Inv : scan_inv sc).
    { apply scan_inv_fold; [auto|]. split; [intros o s; discriminate|]. split; [intros g s v []|auto]. }
    destruct Inv as [HP [HS _]].
    generalize (S (length quads)). intro fuel.
    assert (Gen : forall seeds acc, (forall g s v, In ((g, s), v) seeds -> In ((g, s), v) (l_seeds sc)) ->
              (forall h its, In (h, its) (fst acc) -> chain h its) ->
              forall h its, In (h, its) (fst (fold_left (fun (acc : lmap * stmap) (seed : skey * N) =>
                 let g := fst (fst seed) in
                 let r := climb item fuel (l_preds sc) (snd (fst seed)) [snd seed] [] in
                 let head := fst (fst r) in
                 (lm_put (fst acc) head (snd (fst r)),
                  fold_left (fun st c => st_remove st (g, c)) (snd r) (snd acc))) seeds acc)) -> chain h its).
    { induction seeds as [|[[g s] v] seeds IH]; intros acc Sub Hacc h its; cbn [fold_left]; [apply Hacc|].
      apply IH; [intros; apply Sub; right; assumption|].
      cbv zeta. cbn [fst snd]. intros h' its' I. apply lm_put_In in I. destruct I as [[= -> ->]|I]; [|apply Hacc; exact I].
      apply climb_chain; [exact HP|].
      destruct (HS g s v (Sub g s v (or_introl eq_refl))) as [It [Iq S]].
      apply chain_one; [eapply list_item_cell; eauto | eapply st0_subtree; eauto]. }
    apply Gen; [auto | intros h its []].
  Qed.
End Chains.

(* ===================================================================================== *)
(* Part C': the cycle theorem at the level of the dataset                                *)
(* ===================================================================================== *)
(* the maps are strictly sorted by key, so that membership and lookup agree *)
Fixpoint ksorted (m : pmap) : Prop :=
  match m with
  | [] => True
  | (k, _) :: m' => (forall k' v', In (k', v') m' -> k < k') /\ ksorted m'
  end.
Lemma pm_put_In m k v k' v' : In (k', v') (pm_put m k v) -> (k', v') = (k, v) \/ In (k', v') m.
Proof.
  induction m as [|[k0 v0] m IH]; simpl.
  - intros [H|[]]; auto.
  - destruct (k <? k0); [simpl; intros [H|H]; auto|].
    destruct (N.eqb k k0); simpl; [intros [H|H]; auto|]. intros [H|H]; [auto|]. destruct (IH H); auto.
Qed.
Lemma ksorted_put m k v : ksorted m -> ksorted (pm_put m k v).
Proof.
  induction m as [|[k0 v0] m IH]; simpl; [intros _; split; [intros ? ? []|exact I]|]. intros [B S].
  destruct (k <? k0) eqn:L.
  - apply N.ltb_lt in L. simpl. split; [|auto].
    intros k' v' [[= <- <-]|I]; [exact L | specialize (B _ _ I); lia].
  - apply N.ltb_ge in L. destruct (N.eqb_spec k k0) as [->|Hn]; simpl; [auto|].
    split; [|auto]. intros k' v' I. apply pm_put_In in I. destruct I as [[= -> ->]|I]; [lia | eauto].
Qed.
Lemma ksorted_In_get m k v : ksorted m -> In (k, v) m -> pm_get m k = Some v.
Proof.
  induction m as [|[k0 v0] m IH]; simpl; [intros _ []|]. intros [B S] [[= -> ->]|I].
  - rewrite N.eqb_refl. reflexivity.
  - specialize (B _ _ I). destruct (N.eqb_spec k k0); [lia | auto].
Qed.
Lemma pm_get_In m k v : pm_get m k = Some v -> In (k, v) m.
Proof.
  induction m as [|[k0 v0] m IH]; simpl; [discriminate|].
  destruct (N.eqb_spec k k0) as [->|Hn]; [intros [= ->]; auto | auto].
Qed.

Lemma fold_ksorted {A} (f : pmap -> A -> pmap) : (forall m a, ksorted m -> ksorted (f m a)) ->
  forall l m, ksorted m -> ksorted (fold_left f l m).
Proof. intros H l. induction l as [|a l IH]; intros m S; simpl; auto. Qed.

Lemma visit_term_ksorted ks m i t q : ksorted m -> ksorted (visit_term ks m i t q).
Proof.
  intro S. unfold visit_term. destruct (kind_of ks t); auto.
  - unfold visit_bnode. destruct (pm_get m t); apply ksorted_put; exact S.
  - apply fold_ksorted; [|exact S]. intros m' a S'. unfold visit_quoted_atom.
    destruct (pm_get m' a); apply ksorted_put; exact S'.
Qed.
Lemma profiles_ksorted ks quads : ksorted (profiles ks quads).
Proof.
  unfold profiles. apply fold_ksorted; [|exact I]. intros m q S. unfold visit_quad.
  apply fold_ksorted; [|exact S]. intros m' it S'. apply visit_term_ksorted. exact S'.
Qed.
Lemma walk_ksorted stamp : forall fuel m cur, ksorted m -> ksorted (walk fuel stamp m cur).
Proof.
  induction fuel as [|fuel IH]; intros m cur S; simpl; [exact S|].
  destruct cur as [t|]; [|exact S]. destruct (pm_get m t) as [p|]; [|exact S].
  destruct (bad p); [exact S|]. destruct (N.eqb (visited p) stamp); [apply ksorted_put; exact S|].
  destruct (negb (N.eqb (visited p) 0)); [exact S|]. apply IH. apply ksorted_put. exact S.
Qed.
Lemma detect_cycles_ksorted m : ksorted m -> ksorted (detect_cycles m).
Proof.
  unfold detect_cycles. apply fold_ksorted. intros m' ik S. unfold detect_step.
  destruct (pm_get m' (snd ik)) as [p|]; [|exact S].
  destruct (bad p || negb (N.eqb (visited p) 0)); [exact S|]. apply walk_ksorted. apply ksorted_put. exact S.
Qed.

(* the labelled blank nodes are exactly those whose final profile is bad *)
Theorem build_labelled_spec ks quads n :
  In n (build_labelled ks quads) <-> exists p, pm_get (detect_cycles (profiles ks quads)) n = Some p /\ bad p = true.
Proof.
  unfold build_labelled. rewrite labelled_of_spec.
  assert (S := detect_cycles_ksorted _ (profiles_ksorted ks quads)).
  split; intros [p [H B]]; exists p; (split; [|exact B]).
  - apply ksorted_In_get; assumption.
  - apply pm_get_In; assumption.
Qed.

(* what the first loop may change in a profile that exists already *)
Definition ext1 (m m' : pmap) : Prop := forall k p, pm_get m k = Some p ->
  exists p', pm_get m' k = Some p' /\ (bad p = true -> bad p' = true) /\
             (forall s, predecessor p = Some s -> predecessor p' = Some s).
Lemma ext1_refl m : ext1 m m.
Proof. intros k p G. eauto. Qed.
Lemma ext1_trans a b c : ext1 a b -> ext1 b c -> ext1 a c.
Proof.
  intros H1 H2 k p G. destruct (H1 k p G) as [p1 [G1 [B1 P1]]]. destruct (H2 k p1 G1) as [p2 [G2 [B2 P2]]].
  exists p2. auto.
Qed.
Lemma ext1_put_new m k v : pm_get m k = None -> ext1 m (pm_put m k v).
Proof.
  intros G k' p G'. exists p. rewrite pm_get_put. destruct (N.eqb_spec k' k) as [->|]; [congruence|auto].
Qed.
Lemma ext1_put_upd m k p v : pm_get m k = Some p -> (bad p = true -> bad v = true) ->
  (forall s, predecessor p = Some s -> predecessor v = Some s) -> ext1 m (pm_put m k v).
Proof.
  intros G B P k' p' G'. rewrite pm_get_put. destruct (N.eqb_spec k' k) as [->|].
  - rewrite G in G'. injection G' as <-. eauto.
  - eauto.
Qed.
Lemma fold_ext1 {A} (f : pmap -> A -> pmap) : (forall m a, ext1 m (f m a)) -> forall l m, ext1 m (fold_left f l m).
Proof.
  intros H l. induction l as [|a l IH]; intro m; simpl; [apply ext1_refl|].
  eapply ext1_trans; [apply H | apply IH].
Qed.

Lemma update_positions_mono p g i s :
  let v := update_positions (add_named_graph p g) i s in
  (bad p = true -> bad v = true) /\ (forall s0, predecessor p = Some s0 -> predecessor v = Some s0).
Proof.
  unfold update_positions, add_named_graph. simpl.
  destruct (N.eqb i 0); simpl; [split; [intro B; rewrite B; destruct (1 <? _)%nat; reflexivity | auto]|].
  destruct (N.eqb i 2); simpl.
  - destruct (predecessor p) eqn:P; simpl; [split; [reflexivity | auto]|].
    split; [intro B; rewrite B; destruct (1 <? _)%nat; reflexivity | discriminate].
  - split; [reflexivity | auto].
Qed.

Lemma visit_bnode_ext1 m i t q : ext1 m (visit_bnode m i t q).
Proof.
  unfold visit_bnode. destruct (pm_get m t) as [p|] eqn:G; [|apply ext1_put_new; exact G].
  destruct (bad p) eqn:B; [apply (ext1_put_upd m t p); auto|].
  destruct (update_positions_mono p (q_g q) i (q_s q)) as [H1 H2].
  apply (ext1_put_upd m t p); auto.
Qed.
Lemma visit_term_ext1 ks m i t q : ext1 m (visit_term ks m i t q).
Proof.
  unfold visit_term. destruct (kind_of ks t); try apply ext1_refl; [apply visit_bnode_ext1|].
  apply fold_ext1. intros m' a. unfold visit_quoted_atom. destruct (pm_get m' a) as [p0|] eqn:G.
  - apply (ext1_put_upd m' a p0); auto.
  - apply ext1_put_new; exact G.
Qed.

(* after the component at position i has been visited, a blank node has a profile; the object (i = 2) is
   labelled unless its recorded predecessor is the subject of the quad *)
Lemma visit_bnode_has m i t q :
  exists p, pm_get (visit_bnode m i t q) t = Some p /\
            (i = 2 -> bad p = true \/ predecessor p = Some (q_s q)).
Proof.
  unfold visit_bnode. destruct (pm_get m t) as [p|] eqn:G; rewrite pm_get_put, N.eqb_refl; eexists; (split; [reflexivity|]).
  - intros ->. destruct (bad p) eqn:B; [left; exact B|].
    unfold update_positions. simpl. destruct (predecessor p) eqn:P; simpl; [left; reflexivity|].
    right. reflexivity.
  - intros ->. right. reflexivity.
Qed.

Definition quad_inv (ks : list tk) (m : pmap) (q : quad) : Prop :=
  (kind_of ks (q_s q) = TB -> exists p, pm_get m (q_s q) = Some p) /\
  (kind_of ks (q_o q) = TB -> exists p, pm_get m (q_o q) = Some p /\ (bad p = true \/ predecessor p = Some (q_s q))).
Lemma quad_inv_ext1 ks m m' q : ext1 m m' -> quad_inv ks m q -> quad_inv ks m' q.
Proof.
  intros E [H1 H2]. split; intro K.
  - destruct (H1 K) as [p G]. destruct (E _ _ G) as [p' [G' _]]. eauto.
  - destruct (H2 K) as [p [G D]]. destruct (E _ _ G) as [p' [G' [B' P']]]. exists p'. split; [exact G'|].
    destruct D; auto.
Qed.
Lemma visit_quad_inv ks m q : quad_inv ks (visit_quad ks m q) q /\ ext1 m (visit_quad ks m q).
Proof.
  unfold visit_quad, spog. rewrite fold_left_app. cbn [fold_left fst snd].
  set (m1 := visit_term ks m 0 (q_s q) q). set (m2 := visit_term ks m1 1 (q_p q) q).
  set (m3 := visit_term ks m2 2 (q_o q) q).
  assert (E1 : ext1 m m1) by apply visit_term_ext1.
  assert (E2 : ext1 m1 m2) by apply visit_term_ext1.
  assert (E3 : ext1 m2 m3) by apply visit_term_ext1.
  assert (E4 : ext1 m3 (fold_left (fun m0 it => visit_term ks m0 (fst it) (snd it) q)
                                  match q_g q with Some g => [(3, g)] | None => [] end m3)).
  { apply fold_ext1. intros. apply visit_term_ext1. }
  split; [|eapply ext1_trans; [exact E1|eapply ext1_trans; [exact E2|eapply ext1_trans; [exact E3|exact E4]]]].
  apply (quad_inv_ext1 ks m3); [exact E4|]. split; intro K.
  - assert (H : exists p, pm_get m1 (q_s q) = Some p).
    { unfold m1, visit_term. rewrite K. destruct (visit_bnode_has m 0 (q_s q) q) as [p [G _]]. eauto. }
    destruct H as [p G]. destruct (E2 _ _ G) as [p2 [G2 _]]. destruct (E3 _ _ G2) as [p3 [G3 _]]. eauto.
  - unfold m3, visit_term. rewrite K. destruct (visit_bnode_has m2 2 (q_o q) q) as [p [G D]]. eauto.
Qed.
Lemma profiles_quad_inv ks quads q : In q quads -> quad_inv ks (profiles ks quads) q.
Proof.
  unfold profiles.
  assert (Gen : forall qs m, (In q qs \/ quad_inv ks m q) -> quad_inv ks (fold_left (visit_quad ks) qs m) q).
  { induction qs as [|q0 qs IH]; intros m H; simpl.
    - destruct H as [[]|H]; exact H.
    - apply IH. destruct H as [[->|I]|H]; [right; apply visit_quad_inv | left; exact I |].
      right. eapply quad_inv_ext1; [apply visit_quad_inv | exact H]. }
  intro I. apply Gen. left. exact I.
Qed.
Lemma ext_detect_cycles m : (forall n p, pm_get m n = Some p -> visited p = 0) -> ext m (detect_cycles m).
Proof.
  intro H0. unfold detect_cycles.
  assert (Inv0 : outer_inv m 0).
  { split; [intros k q Gk; rewrite (H0 _ _ Gk); lia | intros k q Gk V; rewrite (H0 _ _ Gk) in V; congruence]. }
  destruct (detect_fold_spec (keys m) m 0 Inv0) as [_ [E _]]. exact E.
Qed.

(* the writer DESCENDS from s into n when it writes n inline, as `[ ... ]` or `( ... )`, while writing a statement
   of s: n is an unlabelled blank node, object of a statement whose subject s is an unlabelled blank node too *)
Definition unlabelled (ks : list tk) (quads : list quad) (n : N) : Prop :=
  kind_of ks n = TB /\ ~ In n (build_labelled ks quads).
Definition descends (ks : list tk) (quads : list quad) (s n : N) : Prop :=
  unlabelled ks quads s /\ unlabelled ks quads n /\ exists g p, In (g, s, p, n) quads.

Lemma descends_upred ks quads s n : descends ks quads s n -> upred (detect_cycles (profiles ks quads)) n s.
Proof.
  intros [[Ks Ls] [[Kn Ln] [g [p I]]]].
  destruct (profiles_quad_inv ks quads _ I) as [Hs Ho]. unfold q_s, q_o in Hs, Ho. cbn [fst snd] in Hs, Ho.
  assert (E := ext_detect_cycles _ (profiles_unvisited ks quads)).
  destruct (Hs Ks) as [ps Gs]. destruct (Ho Kn) as [pn [Gn D]].
  destruct (ext_some _ _ _ _ E Gs) as [ps' [Gs' _]]. destruct (ext_some _ _ _ _ E Gn) as [pn' [Gn' [Pn' [Bn' _]]]].
  assert (Bs : bad ps' = false).
  { destruct (bad ps') eqn:B; [|reflexivity]. exfalso. apply Ls. apply build_labelled_spec. eauto. }
  assert (Bn : bad pn' = false).
  { destruct (bad pn') eqn:B; [|reflexivity]. exfalso. apply Ln. apply build_labelled_spec. eauto. }
  exists pn', ps'. repeat split; auto.
  destruct D as [D|D]; [rewrite (Bn' D) in Bn; discriminate | congruence].
Qed.

Inductive dpath (ks : list tk) (quads : list quad) : N -> N -> Prop :=
| dpath_one s n : descends ks quads s n -> dpath ks quads s n
| dpath_more s n u : descends ks quads s n -> dpath ks quads n u -> dpath ks quads s u.

Lemma upath_trans m a b c : upath m a b -> upath m b c -> upath m a c.
Proof.
  induction 1 as [a b U|a b d U P IH]; intro Pc; [eapply upath_more; eauto | eapply upath_more; [exact U | apply IH; exact Pc]].
Qed.

(* MAIN THEOREM of part C at the level of the dataset: no cycle of statements runs through unlabelled blank nodes
   only, i.e. every blank node cycle contains a labelled node *)
Theorem every_cycle_has_a_labelled_node ks quads n : ~ dpath ks quads n n.
Proof.
  assert (Rev : forall a b, dpath ks quads a b -> upath (detect_cycles (profiles ks quads)) b a).
  { induction 1 as [s t D|s t u D P IH].
    - apply upath_one. apply descends_upred. exact D.
    - eapply upath_trans; [exact IH|]. apply upath_one. apply descends_upred. exact D. }
  intro P. apply Rev in P. exact (no_unlabelled_cycle ks quads n P).
Qed.

(* ===================================================================================== *)
(* Part F: accounting -- the statements made by the writer                               *)
(* ===================================================================================== *)
(* FULL STATEMENT (not proved in general; checked on every generated case through [plan_ok], see below):
   for a duplicate-free dataset in GSPO order over strict RDF-star terms, the writer terminates and the
   statements it makes with the plan are exactly the quads of the dataset, each once. *)
Definition gspo_grouped (quads : list quad) : Prop :=
  forall a q b q' c, quads = a ++ q :: b ++ q' :: c -> q_g q = q_g q' -> q_s q = q_s q' ->
                     forall x, In x b -> q_g x = q_g q /\ q_s x = q_s q.
Definition accounting_statement : Prop :=
  forall ks first rest nil type_ quads,
    NoDup quads -> gspo_grouped quads ->
    NoDup [first; rest; nil; type_] ->
    (forall q, In q quads -> kind_of ks (q_p q) = TI) ->
    let w := emitted ks first rest nil type_ quads (make_plan ks first rest nil quads) in
    w_ok w = true /\ Permutation (w_out w) quads.

(* PARTIAL: the boolean accounting check evaluated by [plan_ok] on every generated case is sound *)
Lemma quad_eqb_eq a b : quad_eqb a b = true <-> a = b.
Proof.
  destruct a as [[[g s] p] o], b as [[[g' s'] p'] o']. unfold quad_eqb, q_g, q_s, q_p, q_o. simpl.
  rewrite !andb_true_iff, g_eqb_eq, !N.eqb_eq. split; [intros [[[-> ->] ->] ->]; reflexivity | intros [= -> -> -> ->]; auto].
Qed.
Lemma count_quad_In q l : (0 < count_quad q l)%nat -> In q l.
Proof.
  unfold count_quad. induction l as [|x l IH]; simpl; [lia|].
  destruct (quad_eqb q x) eqn:E; [apply quad_eqb_eq in E; auto | auto].
Qed.
Theorem exactly_once_sound quads out : NoDup quads -> exactly_once quads out = true -> Permutation quads out.
Proof.
  intros ND H. unfold exactly_once in H. apply andb_true_iff in H. destruct H as [L C].
  apply Nat.eqb_eq in L. rewrite forallb_forall in C.
  apply NoDup_Permutation_bis; [exact ND | lia |].
  intros q I. apply count_quad_In. specialize (C q I). apply Nat.eqb_eq in C. lia.
Qed.
Theorem accounting_checked_partial ks first rest nil type_ quads labels colls plists :
  NoDup quads -> plan_ok ks first rest nil type_ quads labels colls plists = true ->
  let w := emitted ks first rest nil type_ quads (make_plan ks first rest nil quads) in
  w_ok w = true /\ Permutation quads (w_out w).
Proof.
  intros ND H. unfold plan_ok in H. repeat (apply andb_true_iff in H; destruct H as [H ?]).
  split; [assumption | apply exactly_once_sound; assumption].
Qed.

(* ===================================================================================== *)
(* Part E: the defects of the pre-fix code, on record                                    *)
(* ===================================================================================== *)
Definition s_12 : str := [49; 50].               (* "12" *)
Definition s_1x5 : str := [49; 120; 53].         (* "1x5" *)
Definition s_55me5 : str := [53; 53; 45; 101; 53].   (* "55-e5", the word printed by `ka` *)

(* rows 1 and 2: the unescaped dot *)
Example prefix_decimal_refuted :
  (matchb PreFix.decimal_re s_12 = true /\ matchb DECIMAL s_12 = false /\ matchb INTEGER s_12 = true) /\
  (matchb PreFix.decimal_re s_1x5 = true /\ matchb DECIMAL s_1x5 = false /\ matchb INTEGER s_1x5 = false /\ matchb DOUBLE s_1x5 = false) /\
  bare_with PreFix.integer_re PreFix.decimal_re PreFix.double_re PreFix.boolean_re xsd_decimal s_12 = true /\
  bare_literal xsd_decimal s_12 = false /\ bare_literal xsd_decimal s_1x5 = false.
Proof. vm_compute. repeat split; reflexivity. Qed.
Example prefix_double_refuted :
  matchb PreFix.double_re s_55me5 = true /\ matchb DOUBLE s_55me5 = false /\ bare_literal xsd_double s_55me5 = false.
Proof. vm_compute. repeat split; reflexivity. Qed.

(* row 3: _:b p _:c. _:c p _:d. _:d p _:b. _:b q _:a.   terms in Term::cmp order:
   0 _:a  1 _:b  2 _:c  3 _:d  4 ex:p  5 ex:q  6 rdf:first  7 rdf:nil  8 rdf:rest  9 rdf:type *)
Definition w3_ks : list tk := [TB; TB; TB; TB; TI; TI; TI; TI; TI; TI].
Definition w3_quads : list quad := [(None, 1, 4, 2); (None, 1, 5, 0); (None, 2, 4, 3); (None, 3, 4, 1)].
Example cycle_detection_old_refuted :
  (* pre-fix: nobody is labelled although b -> c -> d -> b is a cycle; the writer makes no statement at all *)
  build_labelled_old w3_ks w3_quads = [] /\
  w_out (emitted w3_ks 6 8 7 9 w3_quads (make_plan_old w3_ks 6 8 7 w3_quads)) = [] /\
  (* repaired: b is labelled and the four quads are stated once each *)
  build_labelled w3_ks w3_quads = [1] /\
  exactly_once w3_quads (w_out (emitted w3_ks 6 8 7 9 w3_quads (make_plan w3_ks 6 8 7 w3_quads))) = true.
Proof. vm_compute. repeat split; reflexivity. Qed.

(* row 4: ex:s ex:p _:l.  _:l first 1; rest nil; rest _:m.  _:m first 2; rest nil.
   0 _:l  1 _:m  2 ex:p  3 ex:s  4 rdf:first  5 rdf:nil  6 rdf:rest  7 rdf:type  8 "1"  9 "2" *)
Definition w4_ks : list tk := [TB; TB; TI; TI; TI; TI; TI; TI; TL; TL].
Definition w4_quads : list quad :=
  [(None, 0, 4, 8); (None, 0, 6, 1); (None, 0, 6, 5); (None, 1, 4, 9); (None, 1, 6, 5); (None, 3, 2, 0)].
Example list_item_old_refuted :
  (* pre-fix: the cell with two rdf:rest is accepted, the plan holds the list (1 2) for it and the writer loses
     the statement _:l rdf:rest rdf:nil *)
  list_item_old 4 6 w4_quads 0 = Some 8 /\
  pl_lists (make_plan_old w4_ks 4 6 5 w4_quads) = [(0, [8; 9])] /\
  exactly_once w4_quads (w_out (emitted w4_ks 4 6 5 7 w4_quads (make_plan_old w4_ks 4 6 5 w4_quads))) = false /\
  (* repaired: the cell is refused, only (2) is a list, every quad is stated once *)
  list_item 4 6 w4_quads 0 = None /\
  pl_lists (make_plan w4_ks 4 6 5 w4_quads) = [(1, [9])] /\
  exactly_once w4_quads (w_out (emitted w4_ks 4 6 5 7 w4_quads (make_plan w4_ks 4 6 5 w4_quads))) = true.
Proof. vm_compute. repeat split; reflexivity. Qed.
