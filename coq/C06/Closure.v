(* C06/Closure.v -- step 5.2.1 of RDFC-1.0 section 4.4 ("if a canonical identifier has already
   been issued for n, continue with the next n") is unobservable, part 2: steps 4 and 5 of the
   canonicalization algorithm, the theorem [step_5_2_1_unobservable] and its corollary
   [impl_ok_is_rdfc10].  Stdlib only, no assumptions. *)
From Sophia.C06 Require Import Model Limits Agree1 Agree2 Agree Closure1.
From Sophia.C05 Require Import Reader NqProofs FirstDegree Bijection Heap.
From Coq Require Import Permutation.

(* ====================================================================================== *)
(* the order of step 5.3                                                                    *)
(* ====================================================================================== *)
Definition hp_leb (a b : str * sp_issuer) : bool := str_leb (fst a) (fst b).
Lemma hp_leb_total x y : hp_leb x y = false -> hp_leb y x = true.
Proof. apply str_leb_total. Qed.
Lemma hp_leb_trans x y z : hp_leb x y = true -> hp_leb y z = true -> hp_leb x z = true.
Proof. apply str_leb_trans. Qed.

(* step 5.3.1 for one result *)
Definition issue_all (c : sp_issuer) (e : str * sp_issuer) : sp_issuer :=
  fold_left sp_issue_ (map fst (si_issued (snd e))) c.

Lemma sp_step5_3_eq canon L : sp_step5_3 canon L = fold_left issue_all (sort_by hp_leb L) canon.
Proof. reflexivity. Qed.

Lemma issue_all_has c e x :
  sp_has (issue_all c e) x = true <-> sp_has c x = true \/ sp_has (snd e) x = true.
Proof.
  unfold issue_all. rewrite fold_issue_has, orb_true_iff, existsb_eqb_In, <- sp_has_In. tauto.
Qed.

Lemma fold_issue_all_has : forall L c x,
  sp_has (fold_left issue_all L c) x = true
  <-> sp_has c x = true \/ exists e, In e L /\ sp_has (snd e) x = true.
Proof.
  induction L as [|e L IH]; intros c x; cbn [fold_left].
  - split; [left; assumption|]. intros [Hc|(e & [] & _)]. exact Hc.
  - rewrite IH, issue_all_has. split.
    + intros [[Hc|He]|(e' & He' & Hx)].
      * left; exact Hc.
      * right. exists e. split; [left; reflexivity|exact He].
      * right. exists e'. split; [right; exact He'|exact Hx].
    + intros [Hc|(e' & [<-|He'] & Hx)].
      * left; left; exact Hc.
      * left; right; exact Hx.
      * right. exists e'. split; assumption.
Qed.

Lemma sp_step5_3_has canon L x :
  sp_has (sp_step5_3 canon L) x = true
  <-> sp_has canon x = true \/ exists e, In e L /\ sp_has (snd e) x = true.
Proof.
  rewrite sp_step5_3_eq, fold_issue_all_has. split; intros [Hc|(e & He & Hx)]; auto; right; exists e.
  - split; [apply (sort_by_In_iff hp_leb L e); exact He|exact Hx].
  - split; [apply (sort_by_In_iff hp_leb L e); exact He|exact Hx].
Qed.

(* a result whose issuer only holds labels that already have a canonical identifier *)
Definition noop (canon : sp_issuer) (e : str * sp_issuer) : bool :=
  forallb (sp_has canon) (map fst (si_issued (snd e))).

Lemma fold_filter_noop canon : forall L c, sub canon c ->
  fold_left issue_all (filter (fun e => negb (noop canon e)) L) c = fold_left issue_all L c.
Proof.
  induction L as [|e L IH]; intros c Hc; cbn [filter fold_left]; [reflexivity|].
  destruct (noop canon e) eqn:En; cbn [negb].
  - assert (E : issue_all c e = c).
    { unfold issue_all. apply fold_issue_noop. intros x Hx. apply Hc.
      unfold noop in En. rewrite forallb_forall in En. apply En. exact Hx. }
    rewrite E. apply IH. exact Hc.
  - cbn [fold_left]. apply IH. intros x Hx. apply issue_all_has. left. apply Hc. exact Hx.
Qed.

(* (E), the stable sort: dropping the no-op results does not change step 5.3 *)
Lemma sp_step5_3_filter canon L :
  sp_step5_3 canon (filter (fun e => negb (noop canon e)) L) = sp_step5_3 canon L.
Proof.
  rewrite !sp_step5_3_eq.
  rewrite <- (filter_sort_by hp_leb hp_leb_total hp_leb_trans).
  apply fold_filter_noop. apply sub_refl.
Qed.

(* ====================================================================================== *)
(* step 5                                                                                   *)
(* ====================================================================================== *)
Section Step5.
Variable H : str -> str.
Variable perms : list str -> list (list str).
Variable d : list quad.
Hypothesis perms_sub : forall l p, In p (perms l) -> forall x, In x p -> In x l.
Hypothesis perms_sup : forall l p, In p (perms l) -> forall x, In x l -> In x p.
Hypothesis perms_ne : forall l, perms l = [] -> l = [].

(* (C) every label of [R] has all its related blank nodes either canonical or in [R] *)
Definition closed (canon R : sp_issuer) : Prop := forall y, sp_has R y = true -> cl d canon R y.

Definition temporary (n : str) : sp_issuer := sp_issue_ (mkIss [98] 0 []) n.
Lemma temporary_labels n : map fst (si_issued (temporary n)) = [n].
Proof. reflexivity. Qed.
Lemma temporary_has n y : sp_has (temporary n) y = str_eqb n y.
Proof. unfold temporary. rewrite sp_has_issue_. reflexivity. Qed.

Lemma top_closed fuel canon n h R :
  sp_n_degree H perms d fuel canon n (temporary n) = SpOk (h, R) ->
  closed canon R /\ sp_has R n = true.
Proof.
  intros E. apply (n_degree_spec H perms d canon perms_sup perms_ne) in E as (A & B & C).
  split.
  - intros y Hy. destruct (sp_has (temporary n) y) eqn:Ht.
    + rewrite temporary_has in Ht. apply str_eqb_eq in Ht. subst y. exact B.
    + apply C; assumption.
  - apply A. rewrite temporary_has. apply str_eqb_refl.
Qed.

(* (D) the invariant of step 5, over the labels [S] of the identifier lists still to process *)
Definition inv (canon : sp_issuer) (S : list str) : Prop :=
  forall y, In y S -> sp_has canon y = true ->
  forall x, In x (related d y) -> sp_has canon x = true.

(* step 5.2 with and without step 5.2.1 *)
Lemma step5_2_rel fuel canon : forall ids Lf,
  inv canon ids ->
  sp_step5_2 H perms false d fuel canon ids = SpOk Lf ->
  sp_step5_2 H perms true d fuel canon ids = SpOk (filter (fun e => negb (noop canon e)) Lf)
  /\ Forall (fun e => closed canon (snd e)) Lf.
Proof.
  induction ids as [|n ids IH]; intros Lf Hinv E; cbn [sp_step5_2 andb] in E |- *.
  - injection E as <-. split; [reflexivity|constructor].
  - fold (temporary n) in E |- *.
    destruct (sp_n_degree H perms d fuel canon n (temporary n)) as [[h R]| |] eqn:En; try discriminate.
    destruct (sp_step5_2 H perms false d fuel canon ids) as [l| |] eqn:El; try discriminate.
    injection E as <-.
    destruct (IH l) as [IHt IHc]; [intros y Hy; apply Hinv; right; exact Hy|reflexivity|].
    destruct (top_closed _ _ _ _ _ En) as [Hcl HRn].
    split; [|constructor; assumption].
    cbn [filter]. destruct (sp_has canon n) eqn:Hn.
    + (* n already has a canonical identifier: its result is a no-op *)
      assert (ER : R = temporary n).
      { eapply (n_degree_canon H perms d canon perms_sub); [|exact En].
        apply Hinv; [left; reflexivity|exact Hn]. }
      subst R. unfold noop at 1. cbn [snd]. rewrite temporary_labels. cbn [forallb].
      rewrite Hn. cbn [andb negb]. exact IHt.
    + rewrite IHt.
      assert (Eno : noop canon (h, R) = false).
      { destruct (noop canon (h, R)) eqn:Eno; [|reflexivity]. exfalso.
        unfold noop in Eno. rewrite forallb_forall in Eno. cbn [snd] in Eno.
        rewrite (Eno n) in Hn; [discriminate|]. apply sp_has_In. exact HRn. }
      rewrite Eno. reflexivity.
Qed.

Theorem step5_unobservable fuel : forall h2b canon c,
  inv canon (flat_map snd h2b) ->
  sp_step5 H perms false d fuel canon h2b = SpOk c ->
  sp_step5 H perms true d fuel canon h2b = SpOk c.
Proof.
  induction h2b as [|[k ids] r IH]; intros canon c Hinv E; cbn [sp_step5] in E |- *; [exact E|].
  cbn [flat_map snd] in Hinv.
  destruct (sp_step5_2 H perms false d fuel canon ids) as [Lf| |] eqn:E2; try discriminate.
  destruct (step5_2_rel fuel canon ids Lf) as [Et Hcl];
    [intros y Hy; apply Hinv; apply in_or_app; left; exact Hy|exact E2|].
  rewrite Et, sp_step5_3_filter. apply IH; [|exact E].
  rewrite Forall_forall in Hcl.
  intros y Hy Hc x Hx. apply sp_step5_3_has. apply sp_step5_3_has in Hc as [Hc|(e & He & Hy')].
  - left. apply (Hinv y); [apply in_or_app; right; exact Hy|exact Hc|exact Hx].
  - destruct (sp_has canon x) eqn:Hcx; [left; reflexivity|].
    right. exists e. split; [exact He|]. apply (Hcl e He y Hy' x Hx Hcx).
Qed.
End Step5.

(* ====================================================================================== *)
(* step 4: the labels that keep an identifier list have no canonical identifier yet         *)
(* ====================================================================================== *)
Lemma step4_spec : forall h2b c m c', sp_step4 h2b c = (m, c') ->
  (forall y, sp_has c' y = true -> sp_has c y = true \/ exists h, In (h, [y]) h2b)
  /\ (forall h ids, In (h, ids) m -> In (h, ids) h2b /\ forall y, ids <> [y]).
Proof.
  induction h2b as [|[h ids] r IH]; intros c m c' E; cbn [sp_step4] in E.
  - injection E as <- <-. split; [auto|intros h ids []].
  - destruct ids as [|a [|b ids']].
    + destruct (sp_step4 r c) as [m0 c0] eqn:E0. injection E as <- <-.
      destruct (IH _ _ _ E0) as [A B]. split.
      * intros y Hy. destruct (A y Hy) as [Hc|(h' & Hin)]; [left; exact Hc|].
        right. exists h'. right; exact Hin.
      * intros h' ids' [Eq|Hin].
        -- injection Eq as <- <-. split; [left; reflexivity|discriminate].
        -- destruct (B _ _ Hin) as [B1 B2]. split; [right; exact B1|exact B2].
    + destruct (IH _ _ _ E) as [A B]. split.
      * intros y Hy. destruct (A y Hy) as [Hc|(h' & Hin)].
        -- rewrite sp_has_issue_ in Hc. apply orb_true_iff in Hc as [Hc|Hc]; [left; exact Hc|].
           apply str_eqb_eq in Hc. subst y. right. exists h. left; reflexivity.
        -- right. exists h'. right; exact Hin.
      * intros h' ids' Hin. destruct (B _ _ Hin) as [B1 B2]. split; [right; exact B1|exact B2].
    + destruct (sp_step4 r c) as [m0 c0] eqn:E0. injection E as <- <-.
      destruct (IH _ _ _ E0) as [A B]. split.
      * intros y Hy. destruct (A y Hy) as [Hc|(h' & Hin)]; [left; exact Hc|].
        right. exists h'. right; exact Hin.
      * intros h' ids'' [Eq|Hin].
        -- injection Eq as <- <-. split; [left; reflexivity|discriminate].
        -- destruct (B _ _ Hin) as [B1 B2]. split; [right; exact B1|exact B2].
Qed.

Lemma step4_fresh (f : str -> str) (nodes : list str) m canon :
  sp_step4 (sp_group (map (fun n => (f n, n)) nodes)) (mkIss s_c14n 0 []) = (m, canon) ->
  forall y, In y (flat_map snd m) -> sp_has canon y = false.
Proof.
  intros E y Hy. destruct (step4_spec _ _ _ _ E) as [A B].
  apply in_flat_map in Hy as ([h ids] & Hin & Hy). cbn [snd] in Hy.
  destruct (B _ _ Hin) as [Hg Hns].
  destruct (sp_has canon y) eqn:Hc; [exfalso|reflexivity].
  destruct (A y Hc) as [Hc0|(h' & Hin')]; [discriminate|].
  assert (Ek : forall k l, In (k, l) (sp_group (map (fun n => (f n, n)) nodes)) -> In y l -> k = f y).
  { intros k l Hkl Hyl. pose proof (sp_group_vals _ _ _ _ Hkl Hyl) as He.
    apply in_map_iff in He as (n & En & _). injection En as <- <-. reflexivity. }
  pose proof (Ek _ _ Hg Hy) as E1. pose proof (Ek _ _ Hin' (or_introl eq_refl)) as E2.
  apply sp_group_in in Hg. apply sp_group_in in Hin'. subst h h'.
  apply (Hns y). rewrite Hg, <- Hin'. reflexivity.
Qed.

(* ====================================================================================== *)
(* the theorems                                                                             *)
(* ====================================================================================== *)
Theorem step_5_2_1_unobservable : forall H perms node_order d fuel r,
  (forall l p, In p (perms l) -> forall x, In x p -> In x l) ->
  (forall l p, In p (perms l) -> forall x, In x l -> In x p) ->
  (forall l, perms l = [] -> l = []) ->
  spec_model H perms node_order false d fuel = SpOk r ->
  spec_model H perms node_order true d fuel = SpOk r.
Proof.
  intros H perms node_order d fuel r P1 P2 P3. unfold spec_model.
  destruct (negb (forallb sp_supported d)); [intros E; exact E|]. cbv zeta.
  destruct (sp_step4 _ _) as [m canon] eqn:E4.
  destruct (sp_step5 H perms false d fuel canon m) as [c| |] eqn:E5; try discriminate.
  rewrite (step5_unobservable H perms d P1 P2 P3 fuel m canon c); [intros E; exact E| |exact E5].
  intros y Hy Hc. rewrite (step4_fresh _ _ _ _ E4 y Hy) in Hc. discriminate.
Qed.

Lemma heap_perms_sub : forall (l p : list str), In p (heap_perms l) -> forall x, In x p -> In x l.
Proof.
  intros l p Hp x Hx. eapply Permutation_in; [apply Permutation_sym, heap_perms_sound; exact Hp|exact Hx].
Qed.
Lemma heap_perms_sup : forall (l p : list str), In p (heap_perms l) -> forall x, In x l -> In x p.
Proof.
  intros l p Hp x Hx. eapply Permutation_in; [apply heap_perms_sound; exact Hp|exact Hx].
Qed.
Lemma heap_perms_ne : forall (l : list str), heap_perms l = [] -> l = [].
Proof.
  intros [|a l] E; [reflexivity|]. destruct (heap_perms_cons (a :: l)) as (p & ps & E'); [discriminate|].
  rewrite E in E'. discriminate.
Qed.

Corollary impl_ok_is_rdfc10 : forall H fuel d bytes issued,
  Forall wf_quad d ->
  normalize_with H (mkVar true true) fuel None None d = Ok (bytes, issued) ->
  spec_model H heap_perms label_order true d fuel = SpOk (bytes, issued).
Proof.
  intros H fuel d bytes issued Hwf E.
  apply step_5_2_1_unobservable;
    [apply heap_perms_sub|apply heap_perms_sup|apply heap_perms_ne|].
  apply impl_ok_is_spec; assumption.
Qed.

