(* Common/Prelude.v -- strings as lists of code points, their order, small list utilities.
   Stdlib only.  No axioms. *)
From Coq Require Export List NArith ZArith Bool Lia.
Export ListNotations.
Open Scope N_scope.

Definition str := list N.

(* ---- equality ---- *)
Fixpoint str_eqb (a b : str) : bool :=
  match a, b with
  | [], [] => true
  | x :: a', y :: b' => N.eqb x y && str_eqb a' b'
  | _, _ => false
  end.

Lemma str_eqb_spec a b : reflect (a = b) (str_eqb a b).
Proof.
  revert b; induction a as [|x a IH]; intros [|y b]; simpl; try (constructor; congruence).
  destruct (N.eqb_spec x y) as [->|Hn]; simpl.
  - destruct (IH b) as [->|Hn]; constructor; congruence.
  - constructor; congruence.
Qed.

Lemma str_eqb_eq a b : str_eqb a b = true <-> a = b.
Proof. destruct (str_eqb_spec a b); split; congruence. Qed.

Lemma str_eqb_refl a : str_eqb a a = true.
Proof. apply str_eqb_eq; reflexivity. Qed.

(* ---- lexicographic order (Rust's `str: Ord`; UTF-8 preserves code point order) ---- *)
Fixpoint str_cmp (a b : str) : comparison :=
  match a, b with
  | [], [] => Eq
  | [], _ :: _ => Lt
  | _ :: _, [] => Gt
  | x :: a', y :: b' =>
      match N.compare x y with
      | Eq => str_cmp a' b'
      | c => c
      end
  end.

Lemma str_cmp_eq a b : str_cmp a b = Eq <-> a = b.
Proof.
  revert b; induction a as [|x a IH]; intros [|y b]; simpl; try (split; congruence).
  destruct (N.compare_spec x y) as [->|H|H].
  - rewrite IH; split; congruence.
  - split; [discriminate|]; intros E; injection E; lia.
  - split; [discriminate|]; intros E; injection E; lia.
Qed.

Lemma str_cmp_refl a : str_cmp a a = Eq.
Proof. apply str_cmp_eq; reflexivity. Qed.

Lemma str_cmp_antisym a b : str_cmp b a = CompOpp (str_cmp a b).
Proof.
  revert b; induction a as [|x a IH]; intros [|y b]; simpl; try reflexivity.
  rewrite (N.compare_antisym x y).
  destruct (N.compare x y); simpl; auto.
Qed.

Lemma str_cmp_lt_trans a b d : str_cmp a b = Lt -> str_cmp b d = Lt -> str_cmp a d = Lt.
Proof.
  revert b d; induction a as [|x a IH]; intros [|y b] [|z d]; simpl; try congruence.
  destruct (N.compare_spec x y) as [E1|E1|E1]; try discriminate;
  destruct (N.compare_spec y z) as [E2|E2|E2]; try discriminate; intros H1 H2.
  - subst. rewrite N.compare_refl. eapply IH; eauto.
  - subst. apply N.compare_lt_iff in E2. rewrite E2. reflexivity.
  - subst. apply N.compare_lt_iff in E1. rewrite E1. reflexivity.
  - assert (H : x < z) by lia. apply N.compare_lt_iff in H. rewrite H. reflexivity.
Qed.

Lemma str_cmp_trans c a b d : str_cmp a b = c -> str_cmp b d = c -> str_cmp a d = c.
Proof.
  destruct c; intros H1 H2.
  - apply str_cmp_eq in H1, H2. subst. apply str_cmp_refl.
  - eapply str_cmp_lt_trans; eauto.
  - rewrite str_cmp_antisym. rewrite (str_cmp_lt_trans d b a); [reflexivity| |].
    + rewrite str_cmp_antisym, H2; reflexivity.
    + rewrite str_cmp_antisym, H1; reflexivity.
Qed.

(* ---- comparison combinators (Ordering::then_with) ---- *)
Definition then_cmp (c : comparison) (d : comparison) : comparison :=
  match c with Eq => d | _ => c end.

Lemma then_cmp_opp c d : CompOpp (then_cmp c d) = then_cmp (CompOpp c) (CompOpp d).
Proof. destruct c; reflexivity. Qed.

(* ---- ASCII case folding (u8::to_ascii_lowercase on each byte; non-ASCII untouched) ---- *)
Definition lower1 (c : N) : N := if (65 <=? c) && (c <=? 90) then c + 32 else c.
Definition lower (s : str) : str := map lower1 s.

Lemma lower1_idem c : lower1 (lower1 c) = lower1 c.
Proof.
  unfold lower1.
  destruct ((65 <=? c) && (c <=? 90)) eqn:E; [|rewrite E; reflexivity].
  apply andb_true_iff in E as [E1 E2]. apply N.leb_le in E1, E2.
  destruct (65 <=? c + 32) eqn:F1; destruct (c + 32 <=? 90) eqn:F2; simpl; try reflexivity.
  apply N.leb_le in F2. lia.
Qed.

Lemma lower_idem s : lower (lower s) = lower s.
Proof. unfold lower. rewrite map_map. apply map_ext. intros; apply lower1_idem. Qed.

(* eq_ignore_ascii_case *)
Definition str_eqb_ci (a b : str) : bool := str_eqb (lower a) (lower b).

(* ---- misc ---- *)
Definition opt_eqb {A} (eqb : A -> A -> bool) (a b : option A) : bool :=
  match a, b with
  | None, None => true
  | Some x, Some y => eqb x y
  | _, _ => false
  end.

Fixpoint list_eqb {A} (eqb : A -> A -> bool) (a b : list A) : bool :=
  match a, b with
  | [], [] => true
  | x :: a', y :: b' => eqb x y && list_eqb eqb a' b'
  | _, _ => false
  end.

Lemma list_eqb_spec {A} (eqb : A -> A -> bool) :
  (forall x y, eqb x y = true <-> x = y) ->
  forall a b, list_eqb eqb a b = true <-> a = b.
Proof.
  intros H a; induction a as [|x a IH]; intros [|y b]; simpl; try (split; congruence).
  rewrite andb_true_iff, H, IH. split; [intros [-> ->]; reflexivity | intros E; injection E; auto].
Qed.

(* indices of the [false] entries of a boolean list: used by correspondence files *)
Fixpoint failing_from (i : N) (l : list bool) : list N :=
  match l with
  | [] => []
  | b :: l' => if b then failing_from (i + 1) l' else i :: failing_from (i + 1) l'
  end.
Definition failing (l : list bool) : list N := failing_from 0 l.
