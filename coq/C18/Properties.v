(* C18/Properties.v -- pinned statements of property C18:
   RDF/XML serialisation round-trips every graph it accepts; indentation never matters.

   WHO IS WHO.  sophia's own code: convert (rio/src/serializer.rs convert_triple), collect /
   serialize / indent_opt (rio_format_triples, xml/src/serializer.rs serialize_triples and its
   indentation switch), unconvert (the parser-side adapter rio/src/model.rs + xml/src/parser.rs),
   and -- [guard = true] -- the repair proposed in build/proposed/C18.diff (node_out, check_pred,
   expressible, guard_format).  Third-party code modelled by transcription / specification:
   escape (quick-xml 0.36.2 escape.rs), wr / flatten (quick-xml writer.rs), split_iri, fmt_*
   (rio_xml 0.8.6 formatter.rs), and the two readers: strict = false is rio_xml's parser over
   quick-xml (unesc, no normalisation, whitespace-only text dropped), strict = true is XML 1.0
   (Char, 2.11, 3.3.3, references) + Namespaces + RDF/XML for the vocabulary the formatter uses. *)
From Sophia.C18 Require Import Model Proofs Paths PathsProofs Iris IrisProofs Refuse RefuseProofs.

(* ---- (1) escaping and its inverse (quick-xml / XML 1.0) ---- *)
Check (rio_unescape_escape : forall s : str, rio_unescape (escape s) = Some s).
Check (unesc_escape_app : forall strict lit s rest,
  unesc strict lit None (escape s ++ rest) = option_map (app (lit_map lit s)) (unesc strict lit None rest)).
Check (unescape_norm_escape_text : forall s : str,
  has 13 s = false -> unesc true idN None (norm_eol (escape_text s)) = Some s).
Check (xml_text_roundtrip : forall s : str, text_safe s = true -> xml_read_text (escape_text s) = Some s).
Check (xml_attr_roundtrip : forall s : str, attr_safe s = true -> xml_read_attr (escape_attr s) = Some s).
Check (rio_text_escape : forall s : str, rio_text_lit (escape_text s) = Some (if ws_only s then [] else s)).
Check (rio_text_roundtrip : forall s : str, rio_text_ok s = true -> rio_text_lit (escape_text s) = Some s).
Check (escape_no_markup : forall s : str, forallb no_markup (escape s) = true).

(* ---- (2) the namespace split (rio_xml split_iri) ---- *)
Check (split_concat : forall iri : str, fst (split_iri iri) ++ snd (split_iri iri) = iri).
Check (split_local : forall iri : str, snd (split_iri iri) = [] \/ is_ncname (snd (split_iri iri)) = true).
Check (split_complete : forall iri : str, existsb brk iri = true -> snd (split_iri iri) = [] ->
  forall a b, iri = a ++ b -> is_ncname b = false).

(* ---- (3) sophia's convert_triple ---- *)
Check (convert_representable : forall t, representable t = true ->
  exists n p o, convert t = CRio (SNode n) p (OObj o) /\ unconvert (n, p, o) = t).
Check (convert_skips : forall t, flat3 t = true -> representable t = false -> convert t = CSkip).

(* ---- (4) indentation (quick-xml Writer; sophia's switch) ---- *)
Check (run_wr : forall strict n evs st slb lvl, shaped evs = true ->
  (slb = true -> safe st = true \/ exists t r, evs = EText t :: r) ->
  run strict st (wr (Some n) slb lvl evs) = run strict st evs).
Check (indent_invisible : forall strict n ts,
  read strict (wr (Some n) false 0 (fmt_doc ts)) = read strict (fmt_doc ts)).
Check (literals_indent : forall strict n ts,
  literals strict (wr (Some n) false 0 (fmt_doc ts)) = literals strict (fmt_doc ts)).
Check (unpad_wr : forall ind evs slb lvl, unpad (wr ind slb lvl evs) = unpad evs).
Check (pads_wr : forall n evs slb lvl prev, no_pad evs = true -> (prev = true -> slb = false) ->
  pads_between_tags prev (wr (Some n) slb lvl evs) = true).
Check (indentation_never_matters : forall guard strict k g,
  model_parse guard strict k g = model_parse guard strict 0 g).
Check (indentation_same_outcome : forall guard k g,
  match serialize guard k g, serialize guard 0 g with
  | SerOk _, SerOk _ | SerErrSubj, SerErrSubj | SerErrObj, SerErrObj | SerErrInput, SerErrInput => True
  | _, _ => False
  end).

(* ---- (5) the round trip ---- *)
Check (events_roundtrip : forall strict ts,
  forallb (triple_ok strict) ts = true -> read strict (fmt_doc ts) = Some (map norm_t ts)).
Check (document_roundtrip : forall strict k ts,
  forallb (triple_ok strict) ts = true -> read strict (doc_events k ts) = Some (map norm_t ts)).
Check (sophia_roundtrip : forall strict k g,
  forallb flat3 g = true -> graph_ok strict g = true ->
  serialize false k g = SerOk (flatten (doc_events k (rts g)))
  /\ model_parse false strict k g = Some (expected_parse false g)).
Check (norm_term3_eq : forall t, triple3_eqb (norm_term3 false t) t = true).

(* ---- (6) the repair ---- *)
Check (node_out_ncname : forall b : str, label_ok b = true -> is_ncname (node_out true b) = true).
Check (node_out_injective : forall a b : str, node_out true a = node_out true b -> a = b).
Check (guarded_rejects : forall k g,
  forallb flat3 g = true -> forallb expressible (rts g) = false -> serialize true k g = SerErrInput).
Check (guarded_roundtrip : forall strict k g,
  forallb flat3 g = true -> forallb expressible (rts g) = true ->
  forallb (triple_valid strict) (rts g) = true ->
  serialize true k g = SerOk (flatten (doc_events k (map (ren_t true) (rts g))))
  /\ model_parse true strict k g = Some (expected_parse true g)).

(* ---- (7) every public way of driving the serializer (C18/Paths.v) ---- *)
(* serialize_graph is a PROVIDED trait method: whatever an implementation does there must equal this *)
Check (serialize_graph_spec : forall guard k listing,
  serialize_via EGraph guard k listing = serialize_via ETriples guard k listing).
Check (listing_seq : forall g fed, listing_ok CSeq g fed = true -> fed = g).
Check (listing_members : forall c g fed, listing_ok c g fed = true -> forall t, mem3 t fed = mem3 t g).
Check (listing_representable : forall c g fed, listing_ok c g fed = true ->
  forall t, mem3 t (filter representable fed) = mem3 t (filter representable g)).
Check (container_roundtrip : forall c e strict k g fed,
  listing_ok c g fed = true ->
  forallb flat3 fed = true -> forallb expressible (rts fed) = true ->
  forallb (triple_valid strict) (rts fed) = true ->
  serialize_via e true k fed = SerOk (flatten (doc_events k (map (ren_t true) (rts fed))))
  /\ model_parse true strict k fed = Some (expected_parse true fed)
  /\ forall t, mem3 t (filter representable fed) = mem3 t (filter representable g)).
Check (entries_agree : forall c guard k g fed o,
  path_ok c guard k g fed o = true ->
  ser_ok guard k fed o = true /\ serialize_via EGraph guard k fed = serialize_via ETriples guard k fed
  /\ forall t, mem3 t fed = mem3 t g).
Check (ser_calls_app : forall guard k gs buf,
  ser_calls guard k buf gs = (buf ++ fst (ser_calls guard k [] gs), snd (ser_calls guard k [] gs))).
Check (ser_calls_concat : forall guard k gs buf t,
  concat_docs (docs_of guard k gs) = Some t -> ser_calls guard k buf gs = (buf ++ t, None)).
Check (ser_calls_error : forall guard k gs buf,
  concat_docs (docs_of guard k gs) = None -> exists b e, ser_calls guard k buf gs = (b, Some e)).
Check (calls_roundtrip : forall strict k gs,
  forallb (in_class strict) gs = true ->
  exists t, ser_calls true k [] gs = (t, None) /\ concat_docs (docs_of true k gs) = Some t
  /\ forall g, In g gs ->
       serialize true k g = SerOk (flatten (doc_events k (map (ren_t true) (rts g))))
       /\ model_parse true strict k g = Some (expected_parse true g)).
Check (utf8_len_app : forall a b, utf8_len (a ++ b) = utf8_len a + utf8_len b).
Check (utf8_len_length : forall s, N.of_nat (length s) <= utf8_len s).
Check (ser_limited_mono : forall guard k g n m, n <= m -> ser_limited guard k g n = true -> ser_limited guard k g m = true).
Check (ser_limited_exact : forall guard k g d, serialize guard k g = SerOk d ->
  ser_limited guard k g (utf8_len d) = true /\ forall n, n < utf8_len d -> ser_limited guard k g n = false).
Check (ser_limited_error : forall guard k g n, (forall d, serialize guard k g <> SerOk d) -> ser_limited guard k g n = false).
Check ex_container. Check ex_calls. Check ex_calls_error. Check ex_graph_digit_label. Check ex_limited.

(* ---- (8) IRIs of every RFC 3986 / 3987 shape, in every position (C18/Iris.v) ---- *)
(* what makes a text an IRI is its scheme: ALPHA *( ALPHA / DIGIT / "+" / "-" / "." ) ":" and nothing else *)
Check (scheme_of_complete : forall s rest, scheme_ok s = true -> scheme_of (s ++ 58 :: rest) = Some (s, rest)).
Check (scheme_of_sound : forall i s rest, scheme_of i = Some (s, rest) -> i = s ++ 58 :: rest /\ scheme_ok s = true).
Check (has_scheme_prefix : forall s rest, scheme_ok s = true -> has_scheme (s ++ 58 :: rest) = true).
Check (has_scheme_inv : forall i, has_scheme i = true -> exists s rest, i = s ++ 58 :: rest /\ scheme_ok s = true).
(* sophia's convert_triple does not look inside IRIs: nothing is dropped on account of a scheme, an authority, ... *)
Check (convert_any_iri : forall a p b : str,
  convert (Iri a, Iri p, Iri b) = CRio (SNode (RIri a)) p (OObj (ONode (RIri b)))).
Check (convert_any_datatype : forall a p v d : str,
  convert (Iri a, Iri p, LitDt v d) = CRio (SNode (RIri a)) p (OObj (if str_eqb xsd_string d then OSimple v else OTyped v d))).
Check (collect_keeps_every_triple : forall g,
  forallb representable g = true -> snd (collect false g) = None /\ map unconvert (rts g) = g).
(* Rio's reader: IRIs come back character for character, with or without a base *)
Check (ox_resolve_iri : forall base i, has_scheme i = true -> ox_resolve base i = Some i).
Check (parse_iris_roundtrip : forall f P k g,
  (forall i, P i = true -> f i = Some i) ->
  forallb flat3 g = true -> forallb expressible (rts g) = true ->
  forallb (triple_valid false) (rts g) = true -> forallb (t_pos P) (rts g) = true ->
  serialize true k g = SerOk (flatten (doc_events k (map (ren_t true) (rts g))))
  /\ parse_iris f true k g = Some (expected_parse true g)).
Check (iris_roundtrip_nobase : forall k g,
  forallb flat3 g = true -> forallb expressible (rts g) = true ->
  forallb (triple_valid false) (rts g) = true -> forallb (t_pos rio_iri) (rts g) = true ->
  nobase_parse true k g = Some (expected_parse true g)).
Check (iris_roundtrip_any_base : forall k base g,
  forallb flat3 g = true -> forallb expressible (rts g) = true ->
  forallb (triple_valid false) (rts g) = true -> forallb (t_pos iri_any_base) (rts g) = true ->
  base_parse true k base g = Some (expected_parse true g)).
(* relative references (generalized input) are written as they are; without a base the document is rejected *)
Check (relative_needs_base : forall guard k g ts rs,
  collect guard g = (ts, None) -> read false (doc_events k ts) = Some rs ->
  forallb (t_pos rio_iri) rs = false -> nobase_parse guard k g = None).
Check (parse_iris_indentation : forall f guard k g, parse_iris f guard k g = parse_iris f guard 0 g).
Check shapes_are_iris. Check refs_are_relative. Check bad_are_rejected. Check rfc3986_examples.
Check shapes_graph_in_class. Check shapes_graph_roundtrip. Check relative_example. Check ex_checkers.

(* ---- non-vacuity and refutations outside the classes ---- *)
Check ex_graph_in_both_classes. Check ex_graph_roundtrip. Check ex_graph2_guarded. Check split_examples.
Check cr_text_refuted. Check crlf_text_refuted. Check tab_attr_refuted. Check ws_only_text_refuted.
Check illegal_char_refuted.
Check ws_only_literal_refuted. Check bnode_digit_refuted. Check rdf_li_refuted.
Check unsplittable_predicate_refuted. Check cr_literal_refuted. Check illegal_char_written.
Check quoted_subject_fails. Check quoted_object_fails. Check generalised_skipped.

(* ---- (9) what must be REFUSED, stated on the XML grammar (C18/Refuse.v); lexical check of the bytes ---- *)
(* a predicate can be a property element iff it is a non-empty namespace name followed by an NCName ... *)
Check (writable_spec : forall p : str,
  writable p = true <-> exists ns loc, p = ns ++ loc /\ ns <> [] /\ is_ncname loc = true).
(* ... which is what Rio's split finds, exactly, on every IRI (it has a ':') *)
Check (has_local_writable : forall p : str, has_local p = true -> writable p = true).
Check (writable_has_local : forall p : str, existsb brk p = true -> writable p = true -> has_local p = true).
Check (check_pred_grammar : forall p : str, has 58 p = true -> check_pred p = negb (unwritable_pred p)).
Check (must_refuse_format : forall t, must_refuse t = true ->
  exists n p o, convert t = CRio (SNode n) p (OObj o) /\ guard_format true (SNode n) p (OObj o) = FErr SerErrInput).
(* a graph holding a triple without QName / with a reserved name / with text outside Char is never answered with a
   document -- whatever its subject (renamed or not), whatever precedes or follows, whatever the indentation *)
Check (refuse_sound : forall g, existsb must_refuse g = true -> forall k d, serialize true k g <> SerOk d).
Check (refuse_input : forall g, forallb flat3 g = true -> existsb must_refuse g = true ->
  forall k, serialize true k g = SerErrInput).
Check (refuse_complete : forall k g, forallb flat3 g = true -> existsb must_refuse g = false ->
  forallb (fun t => match t with (_, Iri p, _) => has 58 p | _ => true end) g = true ->
  exists d, serialize true k g = SerOk d).
Check (ser_ok_refuse_ok : forall guard k g o, ser_ok guard k g o = true -> refuse_ok guard g o = true).
Check (ncname_qname : forall l : str, is_ncname l = true -> is_qname l = true).
Check (expressible_names : forall t, expressible t = true ->
  forall cur, forallb event_names_ok (fmt_triple cur t) = true).
Check (tags_ok_text : forall s : str, has 60 s = false -> tags_ok s = true).
Check not_qnames. Check wf_ok_examples. Check must_refuse_examples.

Print Assumptions rio_unescape_escape.
Print Assumptions unesc_escape_app.
Print Assumptions unescape_norm_escape_text.
Print Assumptions xml_text_roundtrip.
Print Assumptions xml_attr_roundtrip.
Print Assumptions rio_text_escape.
Print Assumptions escape_no_markup.
Print Assumptions split_concat.
Print Assumptions split_local.
Print Assumptions split_complete.
Print Assumptions convert_representable.
Print Assumptions convert_skips.
Print Assumptions run_wr.
Print Assumptions indent_invisible.
Print Assumptions literals_indent.
Print Assumptions unpad_wr.
Print Assumptions pads_wr.
Print Assumptions indentation_never_matters.
Print Assumptions indentation_same_outcome.
Print Assumptions events_roundtrip.
Print Assumptions document_roundtrip.
Print Assumptions sophia_roundtrip.
Print Assumptions norm_term3_eq.
Print Assumptions node_out_ncname.
Print Assumptions node_out_injective.
Print Assumptions guarded_rejects.
Print Assumptions guarded_roundtrip.
Print Assumptions ws_only_literal_refuted.
Print Assumptions bnode_digit_refuted.
Print Assumptions rdf_li_refuted.
Print Assumptions unsplittable_predicate_refuted.
Print Assumptions cr_literal_refuted.
Print Assumptions illegal_char_written.
Print Assumptions serialize_graph_spec.
Print Assumptions listing_seq.
Print Assumptions listing_members.
Print Assumptions listing_representable.
Print Assumptions container_roundtrip.
Print Assumptions entries_agree.
Print Assumptions ser_calls_app.
Print Assumptions ser_calls_concat.
Print Assumptions ser_calls_error.
Print Assumptions calls_roundtrip.
Print Assumptions utf8_len_app.
Print Assumptions utf8_len_length.
Print Assumptions ser_limited_mono.
Print Assumptions ser_limited_exact.
Print Assumptions ser_limited_error.
Print Assumptions ex_graph_digit_label.
Print Assumptions scheme_of_complete.
Print Assumptions scheme_of_sound.
Print Assumptions has_scheme_prefix.
Print Assumptions has_scheme_inv.
Print Assumptions convert_any_iri.
Print Assumptions convert_any_datatype.
Print Assumptions collect_keeps_every_triple.
Print Assumptions ox_resolve_iri.
Print Assumptions parse_iris_roundtrip.
Print Assumptions iris_roundtrip_nobase.
Print Assumptions iris_roundtrip_any_base.
Print Assumptions relative_needs_base.
Print Assumptions parse_iris_indentation.
Print Assumptions shapes_are_iris.
Print Assumptions refs_are_relative.
Print Assumptions rfc3986_examples.
Print Assumptions shapes_graph_in_class.
Print Assumptions shapes_graph_roundtrip.
Print Assumptions relative_example.
Print Assumptions writable_spec.
Print Assumptions has_local_writable.
Print Assumptions writable_has_local.
Print Assumptions check_pred_grammar.
Print Assumptions must_refuse_format.
Print Assumptions refuse_sound.
Print Assumptions refuse_input.
Print Assumptions refuse_complete.
Print Assumptions ser_ok_refuse_ok.
Print Assumptions ncname_qname.
Print Assumptions expressible_names.
Print Assumptions tags_ok_text.
Print Assumptions not_qnames.
Print Assumptions wf_ok_examples.
Print Assumptions must_refuse_examples.
