(* C05/Properties.v -- pinned statements of property C05 (canonical N-Quads as an isomorphism
   invariant).  H is an arbitrary hash function everywhere; fuel bounds the recursion of the model
   (out-of-fuel is the error value EFuel, excluded by every "= Ok" hypothesis). *)
From Sophia.C05 Require Import Proofs.
From Sophia.C05 Require Import Related RelatedProofs.
From Sophia.C05 Require Import Alias AliasProofs.
From Coq Require Import Permutation Factorial.

(* (1) the identifier map returned by relabel_with / used by normalize_with is a bijection from
   the blank node labels of the input onto c14n0 .. c14n(n-1), identifiers are issued in order,
   and applying it to the input gives exactly the returned quads / the serialised document *)
Check (idmap_bijection : forall H v fuel df pl d bytes issued,
  normalize_with H v fuel df pl d = Ok (bytes, issued) ->
  NoDup (map fst issued)
  /\ (forall b, In b (map fst issued) <-> In b (bnodes d))
  /\ map snd issued = map c14n_id (seq 0 (length issued))
  /\ NoDup (map snd issued)
  /\ relabel_with H v fuel df pl d = Ok (map (rename_q (id_of issued)) d, issued)
  /\ bytes = serialize (map (rename_q (id_of issued)) d)).
Check (dec_inj : forall a b : N, dec a = dec b -> a = b).

(* (2) the canonical N-Quads writer is re-readable: un-escaping inverts the escaping of nq on all
   strings; a reader inverts nq on terms, lines and whole documents *)
Check (unesc_esc : forall s : str, unesc (esc s) = s).
Check (esc_inj : forall a b, esc a = esc b -> a = b).
Check (read_term_nq : forall t rest, wf_term t -> read_term (nq t ++ rest) = Some (t, rest)).
Check (read_doc_serialize : forall qs, Forall wf_quad qs ->
  read_doc (length (concat (map nq_line qs))) (concat (map nq_line qs)) = Some qs).
Check (doc_inj : forall a b, Forall wf_quad a -> Forall wf_quad b ->
  concat (map nq_line a) = concat (map nq_line b) -> a = b).

(* (3) completeness: equal canonical documents only for isomorphic inputs (both inputs are mapped
   by their bijective identifier maps onto the same set of quads) *)
Check (equal_bytes_implies_isomorphic : forall H v fuel df pl d1 d2 bytes i1 i2,
  Forall wf_quad d1 -> Forall wf_quad d2 ->
  normalize_with H v fuel df pl d1 = Ok (bytes, i1) ->
  normalize_with H v fuel df pl d2 = Ok (bytes, i2) ->
  Permutation (map (rename_q (id_of i1)) d1) (map (rename_q (id_of i2)) d2)).

(* (4) sorting the quads term by term (cmp_c14n_terms) = sorting the serialised lines *)
Check (quad_cmp_lines : forall q1 q2, wf_quad q1 -> wf_quad q2 ->
  quad_cmp q1 q2 = str_cmp (nq_line q1) (nq_line q2)).
Check (serialize_sorts_lines : forall qs, Forall wf_quad qs ->
  serialize qs = concat (sort_by str_leb (map nq_line qs))).

(* (5) Heap's algorithm (_permutations.rs) visits every permutation exactly once *)
Check (heap_perms_sound : forall (A : Type) (l p : list A), In p (heap_perms l) -> Permutation l p).
Check (heap_perms_complete : forall (A : Type) (l p : list A),
  l <> [] -> Permutation l p -> In p (heap_perms l)).
Check (heap_perms_nodup : forall (A : Type) (l : list A), NoDup l -> NoDup (heap_perms l)).
Check (heap_perms_length : forall (A : Type) (l : list A),
  l <> [] -> length (heap_perms l) = fact (length l)).
Check (heap_perms_map : forall (A B : Type) (f : A -> B) (l : list A),
  heap_perms (map f l) = map (map f) (heap_perms l)).

(* (5') on a list with repeated elements (a blank node related to another one through several
   quads) the arrangements visited do not depend on the order in which the list is given *)
Check (heap_perms_start_independent : forall (A : Type) (l l' p : list A),
  Permutation l l' -> In p (heap_perms l) -> In p (heap_perms l')).
(* (4') the comparator of the final sort answers Equal only for identical quads / terms, so the
   document is a function of the set of relabelled quads, not of the order the dataset yields them *)
Check (quad_cmp_eq_inj : forall q1 q2, wf_quad q1 -> wf_quad q2 -> quad_cmp q1 q2 = Eq -> q1 = q2).
Check (cmp_c14n_eq_inj : forall a b, wf_term a -> wf_term b ->
  cmp_c14n (Some a) (Some b) = Eq -> a = b).
Check (same_lexical_form_other_datatype : forall l d1 d2,
  ~ In 62 d1 -> ~ In 62 d2 -> d1 <> d2 ->
  cmp_c14n (Some (LitDt l d1)) (Some (LitDt l d2)) <> Eq).
Check (serialize_order_independent : forall qs qs',
  Forall wf_quad qs -> Permutation qs qs' -> serialize qs = serialize qs').
(* (7) the other ways in and out: entry points with the default limits, a dataset whose iterator
   fails, a writer that takes a limited number of bytes *)
Check (normalize_default_is_with : forall H fuel d,
  normalize_default H fuel d = normalize_with H (mkVar true true) fuel (Some 1000) (Some 6) d).
Check (normalize_default_relabel : forall H fuel d,
  normalize_default H fuel d
  = match relabel_default H fuel d with
    | Ok (qs, issued) => Ok (serialize qs, issued)
    | Err e => Err e
    end).
Check (impl2_ok_split : forall repaired tbl d c b i c' b' i',
  impl2_ok repaired tbl d c b i c' b' i'
  = impl_ok repaired tbl 1000 6 d c b i && impl_ok true tbl 1000 6 d c' b' i').
Check (run_ok_split : forall repaired tbl df pl d c b i dflt bud,
  run_ok repaired tbl df pl d c b i dflt bud
  = impl_ok repaired tbl df pl d c b i
    && match dflt with
       | None => true
       | Some (c', b', i') => impl_ok true tbl 1000 6 d c' b' i'
       end
    && match bud with
       | None => true
       | Some (budget, wcode, written) => budget_ok repaired tbl df pl d budget wcode written
       end).
Check (collect_src_all : forall d, collect_src (map Some d) = Some d).
Check (collect_src_inv : forall items d, collect_src items = Some d -> items = map Some d).
Check (normalize_src_all : forall H v fuel df pl d,
  normalize_src H v fuel df pl (map Some d) = Some (normalize_with H v fuel df pl d)).
Check (normalize_src_fails : forall H v fuel df pl items,
  In None items -> normalize_src H v fuel df pl items = None).
Check (budget_write_seq_spec : forall budget bufs acc, (length acc <= budget)%nat ->
  budget_write_seq budget acc bufs
  = (firstn budget (acc ++ concat bufs), (length (acc ++ concat bufs) <=? budget)%nat)).
Check (normalize_budget_spec : forall H v fuel df pl budget d bytes issued,
  normalize_with H v fuel df pl d = Ok (bytes, issued) ->
  normalize_budget H v fuel df pl budget d
  = (firstn budget bytes, if (length bytes <=? budget)%nat then WOk else WIo)).
Check (normalize_budget_err : forall H v fuel df pl budget d e,
  normalize_with H v fuel df pl d = Err e ->
  normalize_budget H v fuel df pl budget d = ([], WErr e)).

(* (6a) what step 2 computes (the repaired code: each quad once per blank node it mentions; the
   code before the repair: once per occurrence) *)
Check (b2q_spec : forall d m b, step2 true d [] = Ok m ->
  keys_sorted m /\
  bt_get m b = (if existsb (mentions b) d then Some (filter (mentions b) d) else None)).
Check (b2q_spec_prefix : forall d m b, step2 false d [] = Ok m ->
  bt_get m b = (if existsb (mentions b) d
                then Some (flat_map (fun q => repeat q (occ b q)) d) else None)).
(* (6b) first-degree hashes do not depend on labels or quad order *)
Check (h1d_invariant : forall (H : str -> str) (pi : str -> str) (b : str) (qs qs' : list quad),
  (forall x, In x (bnodes qs) -> pi x = pi b -> x = b) ->
  Permutation qs' (map (rename_q pi) qs) ->
  h1d H (pi b) qs' = h1d H b qs).
Check (first_degree_invariant : forall H pi d1 d2 b,
  (forall x y, In x (bnodes d1) -> In y (bnodes d1) -> pi x = pi y -> x = y) ->
  Permutation d2 (map (rename_q pi) d1) ->
  supported d1 = true ->
  In b (bnodes d1) ->
  first_degree H true d2 (pi b) = first_degree H true d1 b
  /\ exists h, first_degree H true d1 b = Some h).
(* (6c) full invariance (labels, quad order) when no two blank nodes share a first-degree hash *)
Check (invariance_distinct_first_degree : forall H fuel df pl pi d1 d2 b1 i1 b2 i2,
  Forall wf_quad d1 -> Forall wf_quad d2 ->
  inj_on pi (bnodes d1) ->
  Permutation d2 (map (rename_q pi) d1) ->
  distinct_first_degree H d1 ->
  impl_model H fuel df pl d1 = Ok (b1, i1) ->
  impl_model H fuel df pl d2 = Ok (b2, i2) ->
  b1 = b2).
(* (6c') invariance under ANY relabelling (same quad order), for every hash function, provided no
   hash path list of step 5 contains two results with the same hash (top_ties = false): the run
   on the renamed dataset succeeds with the same quads and the identifier map composed with pi *)
Check (relabel_with_rename : forall H v fuel df pl pi d qs i1,
  v_once v = true -> supported d = true -> inj_on pi (bnodes d) ->
  top_ties H v fuel df pl d = false ->
  relabel_with H v fuel df pl d = Ok (qs, i1) ->
  relabel_with H v fuel df pl (map (rename_q pi) d) = Ok (qs, rn pi i1)).
Check (invariance_under_relabelling : forall H fuel df pl pi d b1 i1,
  Forall wf_quad d -> Forall wf_quad (map (rename_q pi) d) ->
  inj_on pi (bnodes d) ->
  top_ties H (mkVar true true) fuel df pl d = false ->
  impl_model H fuel df pl d = Ok (b1, i1) ->
  exists i2, impl_model H fuel df pl (map (rename_q pi) d) = Ok (b1, i2)).
Check (w28_has_a_top_tie : top_ties toyH (mkVar true true) 20 (Some 1000) (Some 6) w28 = true).
Check (no_top_ties_nonvacuous :
  top_ties toyH (mkVar true true) 20 (Some 1000) (Some 6) path4 = false).
(* (6d) unrestricted invariance is FALSE, for RDFC-1.0 itself (DESIGN.md section 4 row 28); the
   statement with the explicit no-ties hypothesis is kept as a definition, not proved *)
Check (invariance_refuted_for_three_blank_quads : ~ invariance_statement).
Check (invariance_no_ties_statement : Prop).
Check (w28_has_a_tie : run_ties toyH (mkVar true true) 20 (Some 1000) (Some 6) w28 = Some true).
Check (no_ties_nonvacuous : no_ties toyH 20 (Some 1000) (Some 6) path4).
(* the tie-reporting copy of the algorithm computes the same result *)
Check (hnd_t_erase : forall H fuel st ident iss depth,
  erase3 (hnd_t H fuel st ident iss depth) = hnd H fuel st ident iss depth).
Check (step5_t_erase : forall H fuel h2b st tie,
  (match step5_t H fuel st h2b tie with Ok (c, _) => Ok c | Err e => Err e end)
  = step5 H fuel st h2b).
Check (run_ties_defined : forall H v fuel df pl d r,
  relabel_with H v fuel df pl d = Ok r -> exists t, run_ties H v fuel df pl d = Some t).

(* (8) a blank node related to ONE other node through several quads (different predicates, graph
   names, directions).  The related hash is H (quad part ++ node part); the quad part tells the
   position and, unless the position is g, the predicate, so that with a collision-free H the hash
   computed for one quad cannot stand for a quad with another predicate or another position; the
   graph name (and at position g the predicate) plays no part *)
Check (hash_related_factor : forall H st related q iss pos,
  hash_related H st related q iss pos
  = match related_pre q pos with
    | Err e => Err e
    | Ok pre =>
        match related_id st iss related with
        | Some x => Ok (H (pre ++ x))
        | None => Err ENoId
        end
    end).
Check (related_pre_inj : forall q1 q2 pos1 pos2 a,
  related_pre q1 pos1 = Ok a -> related_pre q2 pos2 = Ok a ->
  pos1 = pos2 /\ (pos1 <> pos_g -> q_pred q1 = q_pred q2)).
Check (hash_related_separates_predicates :
  forall H st related iss pos s1 p1 o1 g1 s2 p2 o2 g2 h1 h2,
  (forall a b, H a = H b -> a = b) ->
  pos <> pos_g -> p1 <> p2 ->
  hash_related H st related (s1, Iri p1, o1, g1) iss pos = Ok h1 ->
  hash_related H st related (s2, Iri p2, o2, g2) iss pos = Ok h2 ->
  h1 <> h2).
Check (hash_related_separates_positions : forall H st related iss pos1 pos2 q1 q2 h1 h2,
  (forall a b, H a = H b -> a = b) ->
  pos1 <> pos2 ->
  hash_related H st related q1 iss pos1 = Ok h1 ->
  hash_related H st related q2 iss pos2 = Ok h2 ->
  h1 <> h2).
Check (hash_related_ignores_graph : forall H st related iss pos s p o g g',
  hash_related H st related (s, p, o, g) iss pos = hash_related H st related (s, p, o, g') iss pos).
Check (hash_related_at_g_ignores_predicate : forall H st related iss q q',
  hash_related H st related q iss pos_g = hash_related H st related q' iss pos_g).
(* (8') step 3 of Hash N-Degree Quads pushes the (related hash, related node) pairs of the quads one
   after the other, and the map Hn it builds does not depend on the order in which the dataset
   yields the quads of the node: same related hashes, same multiset of related nodes under each
   (with (5'): the same arrangements are then visited) *)
Check (hn_quads_pairs : forall H st ident iss qs hn,
  hn_quads H st ident iss qs hn
  = match pairs_quads H st ident iss qs with
    | Ok l => Ok (push_all l hn)
    | Err e => Err e
    end).
Check (push_all_perm : forall l l', Permutation l l' ->
  forall m, hn_equiv (push_all l m) (push_all l' m)).
Check (hn_quads_order_independent : forall H st ident iss qs qs' hn,
  Permutation qs qs' ->
  hn_quads H st ident iss qs [] = Ok hn ->
  exists hn', hn_quads H st ident iss qs' [] = Ok hn' /\ hn_equiv hn hn').
Check (hn_equiv_keys : forall m m', hn_equiv m m' -> map fst m = map fst m').
Check (hn_equiv_lists : forall m m' k l l', hn_equiv m m' -> NoDup (map fst m) ->
  In (k, l) m -> In (k, l') m' -> Permutation l l').
(* the witness of the class (n_i p x_i . n_i q x_i . x_i r "i", i = 1..4): the siblings share their
   first-degree hash, and all 16 choices of which link quad comes first give one result *)
Check (mp_witness_siblings :
  first_degree mpH true (mp_witness 0) [110; 49] = first_degree mpH true (mp_witness 0) [110; 52]
  /\ first_degree mpH true (mp_witness 0) [110; 49] <> None
  /\ first_degree mpH true (mp_witness 0) [120; 49] <> first_degree mpH true (mp_witness 0) [120; 52]).
Check (mp_witness_all_orders :
  forallb (fun mask => res_eqb (mp_run mask) (mp_run 0)) [0;1;2;3;4;5;6;7;8;9;10;11;12;13;14;15] = true).

(* (9) blank node labels taken from the algorithm's own name spaces (Alias.v): input labelled
   c14n0 .. c14n(n-1) in any arrangement (a canonical document read back, then relabelled, edited,
   merged, or produced with another hash function), b0.., a / z.  The model does not look at the
   shape of the labels: a relabelling given as a table leaves the document and the identifier of
   every node unchanged (no top-level tie, as in (6c)); the canonical document read back gives
   itself, and so does the document read back under ANY rearrangement pi of its identifiers *)
Check (alias_invariant : forall H fuel df pl m d b1 i1,
  Forall wf_quad d -> Forall wf_quad (relabel_input m d) ->
  inj_on (lbl_apply m) (bnodes d) ->
  top_ties H (mkVar true true) fuel df pl d = false ->
  impl_model H fuel df pl d = Ok (b1, i1) ->
  exists i2, impl_model H fuel df pl (relabel_input m d) = Ok (b1, i2)).
Check (alias_idmap_invariant : forall H fuel df pl m d qs i1,
  Forall wf_quad d ->
  inj_on (lbl_apply m) (bnodes d) ->
  top_ties H (mkVar true true) fuel df pl d = false ->
  relabel_with H (mkVar true true) fuel df pl d = Ok (qs, i1) ->
  relabel_with H (mkVar true true) fuel df pl (relabel_input m d) = Ok (qs, rn (lbl_apply m) i1)).
Check (id_of_inj_on : forall (issued : issuer) (B : list str),
  NoDup (map snd issued) -> (forall b, In b B -> In b (map fst issued)) ->
  inj_on (id_of issued) B).
Check (reread_same_document : forall H fuel df pl d b1 i1,
  Forall wf_quad d ->
  top_ties H (mkVar true true) fuel df pl d = false ->
  impl_model H fuel df pl d = Ok (b1, i1) ->
  exists i2, impl_model H fuel df pl (map (rename_q (id_of i1)) d) = Ok (b1, i2)).
Check (reread_relabelled_same_document : forall H fuel df pl pi d b1 i1,
  Forall wf_quad d ->
  (forall b, ~ In 32 b -> ~ In 32 (pi b)) ->
  inj_on pi (map snd i1) ->
  top_ties H (mkVar true true) fuel df pl d = false ->
  impl_model H fuel df pl d = Ok (b1, i1) ->
  exists i2, impl_model H fuel df pl (map (rename_q pi) (map (rename_q (id_of i1)) d)) = Ok (b1, i2)).
(* the decidable side condition of the checker alias_ok is exact; its invariance clause follows
   from implementation = model (it never alarms on an implementation that agrees with the model)
   and pins the document of the relabelled dataset to the model's document of the original one *)
Check (injective_on_sound : forall f l, injective_on f l = true -> inj_on f l).
Check (injective_on_complete : forall f l, inj_on f l -> injective_on f l = true).
Check (alias_clause_follows : forall tbl df pl d m code2 bytes2 idmap2 b1 i1,
  Forall wf_quad d -> Forall wf_quad (relabel_input m d) ->
  injective_on (lbl_apply m) (bnodes d) = true ->
  top_ties (tbl_H tbl) (mkVar true true) (fuel_for d) (Some df) (Some pl) d = false ->
  normalize_with (tbl_H tbl) (mkVar true true) (fuel_for d) (Some df) (Some pl) d = Ok (b1, i1) ->
  impl_ok true tbl df pl (relabel_input m d) code2 bytes2 idmap2 = true ->
  (code2 =? 0) && str_eqb b1 bytes2 = true).
Check (alias_ok_bytes : forall tbl df pl d m shaped code2 bytes2 idmap2 b1 i1,
  injective_on (lbl_apply m) (bnodes d) = true ->
  top_ties (tbl_H tbl) (mkVar true true) (fuel_for d) (Some df) (Some pl) d = false ->
  normalize_with (tbl_H tbl) (mkVar true true) (fuel_for d) (Some df) (Some pl) d = Ok (b1, i1) ->
  alias_ok true tbl df pl d m shaped code2 bytes2 idmap2 = true ->
  code2 = 0 /\ bytes2 = b1).
(* non-vacuity: path4 under the labels c14n1, c14n0, c14n3, c14n2 (exactly c14n0..c14n3, not the
   canonical arrangement): same document, identifier map not the identity *)
Check (alias_w_shaped :
  canonical_shaped (relabel_input alias_w path4) = true
  /\ canonical_shaped path4 = false
  /\ injective_on (lbl_apply alias_w) (bnodes path4) = true).
Check (alias_w_same_document : exists b i1 i2,
  impl_model toyH 20 (Some 1000) (Some 6) path4 = Ok (b, i1)
  /\ impl_model toyH 20 (Some 1000) (Some 6) (relabel_input alias_w path4) = Ok (b, i2)
  /\ id_of i2 (c14n_id 1) = c14n_id 0 /\ id_of i2 (c14n_id 0) = c14n_id 3).

(* non-vacuity *)
Example heap_123 : heap_perms [1;2;3] = [[1;2;3];[2;1;3];[3;1;2];[1;3;2];[2;3;1];[3;2;1]].
Proof. reflexivity. Qed.
(* a related-node list with repeated elements: every arrangement is visited, whatever the start *)
Example heap_multiset : In [2;2;1;1] (heap_perms [1;2;2;1]) /\ In [1;1;2] (heap_perms [2;1;1])
  /\ length (heap_perms [1;2;2;1]) = 24%nat.
Proof. vm_compute. intuition. Qed.
(* same lexical form, other datatype: different lines, in code point order of the datatype *)
Example twins_example :
  quad_cmp (Bnode [120], Iri [112], LitDt [49] (xsd_string ++ [50]), None)
           (Bnode [120], Iri [112], LitDt [49] [116;97;103;58;100;116], None) = Lt.
Proof. reflexivity. Qed.
Example budget_example :
  budget_write_seq 5 [] [[1;2;3]; [4;5;6]; [7]] = ([1;2;3;4;5], false)
  /\ budget_write_seq 7 [] [[1;2;3]; [4;5;6]; [7]] = ([1;2;3;4;5;6;7], true)
  /\ collect_src [Some (Bnode [120], Iri [112], Bnode [120], None); None] = None.
Proof. repeat split; reflexivity. Qed.
Example esc_example : esc [34;92;10;13;9;8;12;127;0;31;233]
  = [92;34; 92;92; 92;110; 92;114; 92;116; 92;98; 92;102; 92;117;48;48;55;70;
     92;117;48;48;48;48; 92;117;48;48;49;70; 233].
Proof. reflexivity. Qed.

Print Assumptions idmap_bijection.
Print Assumptions dec_inj.
Print Assumptions unesc_esc.
Print Assumptions read_term_nq.
Print Assumptions read_doc_serialize.
Print Assumptions doc_inj.
Print Assumptions equal_bytes_implies_isomorphic.
Print Assumptions quad_cmp_lines.
Print Assumptions serialize_sorts_lines.
Print Assumptions heap_perms_sound.
Print Assumptions heap_perms_complete.
Print Assumptions heap_perms_nodup.
Print Assumptions heap_perms_length.
Print Assumptions heap_perms_map.
Print Assumptions heap_perms_start_independent.
Print Assumptions quad_cmp_eq_inj.
Print Assumptions cmp_c14n_eq_inj.
Print Assumptions same_lexical_form_other_datatype.
Print Assumptions serialize_order_independent.
Print Assumptions normalize_default_is_with.
Print Assumptions normalize_default_relabel.
Print Assumptions impl2_ok_split.
Print Assumptions run_ok_split.
Print Assumptions collect_src_all.
Print Assumptions collect_src_inv.
Print Assumptions normalize_src_all.
Print Assumptions normalize_src_fails.
Print Assumptions budget_write_seq_spec.
Print Assumptions normalize_budget_spec.
Print Assumptions normalize_budget_err.
Print Assumptions b2q_spec.
Print Assumptions b2q_spec_prefix.
Print Assumptions h1d_invariant.
Print Assumptions first_degree_invariant.
Print Assumptions invariance_distinct_first_degree.
Print Assumptions relabel_with_rename.
Print Assumptions invariance_under_relabelling.
Print Assumptions invariance_refuted_for_three_blank_quads.
Print Assumptions no_ties_nonvacuous.
Print Assumptions hnd_t_erase.
Print Assumptions step5_t_erase.
Print Assumptions run_ties_defined.
Print Assumptions hash_related_factor.
Print Assumptions related_pre_inj.
Print Assumptions hash_related_separates_predicates.
Print Assumptions hash_related_separates_positions.
Print Assumptions hash_related_ignores_graph.
Print Assumptions hash_related_at_g_ignores_predicate.
Print Assumptions hn_quads_pairs.
Print Assumptions push_all_perm.
Print Assumptions hn_quads_order_independent.
Print Assumptions hn_equiv_keys.
Print Assumptions hn_equiv_lists.
Print Assumptions mp_witness_all_orders.
Print Assumptions alias_invariant.
Print Assumptions alias_idmap_invariant.
Print Assumptions id_of_inj_on.
Print Assumptions reread_same_document.
Print Assumptions reread_relabelled_same_document.
Print Assumptions injective_on_sound.
Print Assumptions injective_on_complete.
Print Assumptions alias_clause_follows.
Print Assumptions alias_ok_bytes.
Print Assumptions alias_w_shaped.
Print Assumptions alias_w_same_document.
