(* C15/Direct.v -- adapter chains whose closures are FnMut WITH A STATE, reached by direct
   method calls on the concrete adapter values.

   Model.v takes the closures of filter_* / map_* / filter_map_* to be pure functions of the item.
   The signatures say FnMut: a closure may count, remember what it has seen, or rely on what the
   previous stage guarantees.  Here the state of a closure is the most general one: the list of
   the items it has been called with so far (its LOG); a counter is the length of the log, a
   seen-set is its content.  The adapters are transcribed in continuation style exactly as in
   Model.v (filter.rs, map.rs, filter_map.rs, convert.rs): an adapter wraps the consumer closure
   handed to the inner source; the closure of the adapter is called (and its log grows) before
   the wrapped consumer runs.  The drivers (try_for_some_item, try_for_each_item) are the ones of
   Model.v, used with the wrapped consumer.  Definitions only. *)
From Sophia.C15 Require Import Model.

Section H.
Variable St : Type.

Inductive hadapter :=
| HFilter (p : list item -> item -> bool)               (* filter_items / filter_triples / filter_quads *)
| HMap (m : list item -> item -> item)                  (* map_items / map_triples / map_quads / to_quads / to_triples *)
| HFilterMap (m : list item -> item -> option item).    (* filter_map_items ... *)

(* the state threaded through a run: one log per adapter (head = closest to the source), and the
   state of the consumer *)
Definition hstate := (list (list item) * St)%type.

(* FilterSource:    |i| { if p(&i) { f(i)?; } Ok(()) }
   MapSource:       |i| f(map(i))
   FilterMapSource: |i| { if let Some(o) = filter_map(i) { f(o)?; } Ok(()) }          *)
Fixpoint hwrap (chain : list hadapter) (f : sink St) (i : item) (s : hstate) : hstate * option err :=
  match chain with
  | [] => let '(st', oe) := f i (snd s) in ((fst s, st'), oe)
  | a :: c =>
      let log := hd [] (fst s) in
      let rest := tl (fst s) in
      let inner y := let '((rest', st'), oe) := hwrap c f y (rest, snd s) in
                     (((log ++ [i]) :: rest', st'), oe) in
      let skip := (((log ++ [i]) :: rest, snd s), None) in
      match a with
      | HFilter p => if p log i then inner i else skip
      | HMap m => inner (m log i)
      | HFilterMap m => match m log i with Some o => inner o | None => skip end
      end
  end.
End H.
Arguments hwrap {St} chain f i s.

(* ---------- specification: stage after stage, item after item ---------- *)
(* what the closure of one adapter answers *)
Definition hstep (a : hadapter) (log : list item) (x : item) : option item :=
  match a with
  | HFilter p => if p log x then Some x else None
  | HMap m => Some (m log x)
  | HFilterMap m => m log x
  end.
(* one item offered to the chain: every stage it reaches logs it; it stops at the first stage
   that drops it *)
Fixpoint hthrough (chain : list hadapter) (logs : list (list item)) (x : item)
  : list (list item) * option item :=
  match chain with
  | [] => (logs, Some x)
  | a :: c =>
      let log := hd [] logs in
      match hstep a log x with
      | None => ((log ++ [x]) :: tl logs, None)
      | Some y => let '(rest', o) := hthrough c (tl logs) y in ((log ++ [x]) :: rest', o)
      end
  end.
(* a list of items offered one after the other: final logs, and what came out, in order *)
Fixpoint hrun (chain : list hadapter) (logs : list (list item)) (xs : list item)
  : list (list item) * list item :=
  match xs with
  | [] => (logs, [])
  | x :: r =>
      let '(l1, o) := hthrough chain logs x in
      let '(l2, ys) := hrun chain l1 r in
      (l2, match o with Some y => y :: ys | None => ys end)
  end.
Definition empties {A} (c : list A) : list (list item) := map (fun _ => []) c.

(* MapSource / FilterMapSource turned into an iterator and drained to the end (the buffering of
   Model.iter_next loses and reorders nothing: Proofs.drain_all): every step is run, the error of a
   step is yielded after the items of the step, and the next step is pulled all the same *)
Fixpoint hdrain (src : source) (chain : list hadapter) (logs : list (list item))
  : list (list item) * list (item + err) :=
  match src with
  | [] => (logs, [])
  | (items, oe) :: rest =>
      let '(l1, ys) := hrun chain logs items in
      let '(l2, out) := hdrain rest chain l1 in
      (l2, map inl ys ++ match oe with Some e => inr e :: out | None => out end)
  end.

(* ---------- harness-facing: stages as data ---------- *)
(* an item is a number 1000 * g + n: g = 0 is the default graph, n stands for the triple.
   A triple source carries numbers below 1000. *)
Inductive flav := FlT | FlQ.
Definition gname (x : item) : N := x / 1000.
Definition tpart (x : item) : N := x mod 1000.
Definition norm (t : flav) (x : item) : item := match t with FlT => tpart x | FlQ => x end.
Definition calls (log : list item) : N := N.of_nat (length log).

Inductive pbeh :=
| PEven | PLt (k : N) | PNamed | PDefault | PAll | PNothing
| PFirstN (k : N)          (* a counter: the first k items offered *)
| PAlternate               (* every other item offered *)
| PDedup                   (* a seen-set over the triple part *)
| PDedupG                  (* a seen-set over the whole item *)
| PPartialGLt (k : N)      (* meant for named graphs only: answers true on the default graph *)
| PPartialHalfLt (k : N).  (* meant for even numbers only: answers true on odd ones *)
Definition pfun (b : pbeh) (log : list item) (x : item) : bool :=
  match b with
  | PEven => N.even (tpart x)
  | PLt k => tpart x <? k
  | PNamed => negb (gname x =? 0)
  | PDefault => gname x =? 0
  | PAll => true
  | PNothing => false
  | PFirstN k => calls log <? k
  | PAlternate => N.even (calls log)
  | PDedup => negb (existsb (fun y => tpart y =? tpart x) log)
  | PDedupG => negb (existsb (N.eqb x) log)
  | PPartialGLt k => if gname x =? 0 then true else gname x <? k
  | PPartialHalfLt k => if N.even (tpart x) then tpart x / 2 <? k else true
  end.
Inductive mbeh := MId | MSucc | MSetGraph (k : N) | MDropGraph | MAddCalls.
Definition mfun (b : mbeh) (log : list item) (x : item) : item :=
  match b with
  | MId => x
  | MSucc => x + 1
  | MSetGraph k => 1000 * k + tpart x
  | MDropGraph => tpart x
  | MAddCalls => x + calls log
  end.
Inductive xbeh := XHalfEven | XNamedToDefault | XLtSucc (k : N) | XFirstNSucc (k : N) | XDedupSucc.
Definition xfun (b : xbeh) (log : list item) (x : item) : option item :=
  match b with
  | XHalfEven => if N.even (tpart x) then Some (1000 * gname x + tpart x / 2) else None
  | XNamedToDefault => if gname x =? 0 then None else Some (tpart x)
  | XLtSucc k => if tpart x <? k then Some (x + 1) else None
  | XFirstNSucc k => if calls log <? k then Some (x + 1) else None
  | XDedupSucc => if existsb (fun y => tpart y =? tpart x) log then None else Some (x + 1)
  end.

Inductive sdesc :=
| SToQuads                              (* convert.rs, ToQuads:   (t.to_spo(), None) *)
| SToTriples                            (* convert.rs, ToTriples: q.to_spog().0 *)
| SFilter (b : pbeh)
| SMap (b : mbeh) (t : flav)            (* the closure builds a triple (FlT) or a quad (FlQ) *)
| SFilterMap (b : xbeh) (t : flav).
Definition h_to_quads : hadapter := HMap (fun _ x => x).
Definition h_to_triples : hadapter := HMap (fun _ x => tpart x).
Definition hadapter_of (d : sdesc) : hadapter :=
  match d with
  | SToQuads => h_to_quads
  | SToTriples => h_to_triples
  | SFilter b => HFilter (pfun b)
  | SMap b t => HMap (fun log x => norm t (mfun b log x))
  | SFilterMap b t => HFilterMap (fun log x => option_map (norm t) (xfun b log x))
  end.

(* one run with the recording consumer of Model.v:
   (consumed trace, outcome, number of source steps pulled, the log of every stage) *)
Definition run_direct (src : source) (chain : list sdesc) (fault : option (nat * err))
  : list item * out_kind * N * list (list item) :=
  let '(rest, (logs, tr), o) :=
    try_for_each (hstate (list item)) src []
      (hwrap (map hadapter_of chain) (rec_sink fault)) (empties chain, []) in
  (tr, kind_of_outcome o, N.of_nat (length src - length rest), logs).

(* to_quads / to_triples take no closure: the harness has nothing to log for them *)
Fixpoint logs_match (chain : list sdesc) (model observed : list (list item)) : bool :=
  match chain, model, observed with
  | [], [], [] => true
  | d :: c, m :: ms, o :: os =>
      (match d with SToQuads | SToTriples => true | _ => str_eqb m o end) && logs_match c ms os
  | _, _, _ => false
  end.
Definition direct_ok src chain fault (trace : list item) (o : out_kind) (pulled : N)
  (logs : list (list item)) : bool :=
  let '(t, k, p, l) := run_direct src chain fault in
  str_eqb t trace && out_kind_eqb k o && N.eqb p pulled && logs_match chain l logs.
(* a collector that failed returns the error only *)
Definition direct_hidden_ok src chain (o : out_kind) (pulled : N) (logs : list (list item)) : bool :=
  let '(_, k, p, l) := run_direct src chain None in
  out_kind_eqb k o && N.eqb p pulled && logs_match chain l logs.
Definition direct_drain_ok (src : source) (chain : list sdesc) (observed : list (item + err))
  (logs : list (list item)) : bool :=
  let '(l, out) := hdrain src (map hadapter_of chain) (empties chain) in
  list_eqb res_eqb out observed && logs_match chain l logs.
