(* C13/NumProofs.v -- SparqlNumber: integer arithmetic is exact and never overflows. *)
From Sophia.Common Require Import Prelude.
From Sophia.C13 Require Import NumModel.
Local Open Scope Z_scope.

Section NumProofs.
Variable F : floatlib.
Notation num := (num F).

Lemma checked_some z v : checked z = Some v -> v = z /\ in_isize v = true.
Proof. unfold checked. destruct (in_isize z) eqn:E; [|discriminate]. intros H; injection H as <-. auto. Qed.

(* every function is total: there is no plain isize operation left that could overflow;
   the NativeInt results hold an isize (no wrap-around) *)
Theorem neg_exact n z : int_val F n = Some z ->
  exists m, neg F n = Some m /\ int_val F m = Some (- z) /\ num_wf F m.
Proof.
  destruct n; simpl; try discriminate; intros H; injection H as <-.
  - destruct (checked (- z0)) as [v|] eqn:E.
    + apply checked_some in E as [-> E]. eexists; split; [reflexivity|]. simpl. auto.
    + eexists; split; [reflexivity|]. simpl. auto.
  - eexists; split; [reflexivity|]. simpl. auto.
Qed.
Theorem abs_exact n z : num_wf F n -> int_val F n = Some z ->
  int_val F (abs F n) = Some (Z.abs z) /\ num_wf F (abs F n).
Proof.
  destruct n; simpl; try discriminate; intros W H; injection H as <-.
  - destruct (checked (Z.abs z0)) as [v|] eqn:E.
    + apply checked_some in E as [-> E]. simpl. auto.
    + simpl. split; [|exact I]. f_equal. unfold checked, in_isize, isize_min, isize_max in *.
      destruct ((- 2 ^ 63 <=? Z.abs z0) && (Z.abs z0 <=? 2 ^ 63 - 1)) eqn:B; [discriminate|].
      apply andb_true_iff in W as [W1 W2]. apply Z.leb_le in W1, W2.
      apply andb_false_iff in B. destruct B as [B|B]; apply Z.leb_gt in B; lia.
  - simpl. auto.
Qed.
Theorem neg_total n : exists m, neg F n = Some m.
Proof. destruct n; simpl; eauto. Qed.

Theorem add_exact a b x y : int_val F a = Some x -> int_val F b = Some y ->
  exists m, add F a b = Some m /\ int_val F m = Some (x + y) /\ num_wf F m.
Proof.
  destruct a, b; simpl; try discriminate; intros H1 H2; injection H1 as <-; injection H2 as <-;
    try (eexists; split; [reflexivity|]; simpl; auto; fail).
  unfold add. simpl. destruct (checked (z + z0)) as [v|] eqn:E; simpl.
  - apply checked_some in E as [-> E]. eexists; split; [reflexivity|]. simpl. auto.
  - eexists; split; [reflexivity|]. simpl. auto.
Qed.
Theorem sub_exact a b x y : int_val F a = Some x -> int_val F b = Some y ->
  exists m, sub F a b = Some m /\ int_val F m = Some (x - y) /\ num_wf F m.
Proof.
  destruct a, b; simpl; try discriminate; intros H1 H2; injection H1 as <-; injection H2 as <-;
    try (eexists; split; [reflexivity|]; simpl; auto; fail).
  unfold sub. simpl. destruct (checked (z - z0)) as [v|] eqn:E; simpl.
  - apply checked_some in E as [-> E]. eexists; split; [reflexivity|]. simpl. auto.
  - eexists; split; [reflexivity|]. simpl. auto.
Qed.
Theorem mul_exact a b x y : int_val F a = Some x -> int_val F b = Some y ->
  exists m, mul F a b = Some m /\ int_val F m = Some (x * y) /\ num_wf F m.
Proof.
  destruct a, b; simpl; try discriminate; intros H1 H2; injection H1 as <-; injection H2 as <-;
    try (eexists; split; [reflexivity|]; simpl; auto; fail).
  unfold mul. simpl. destruct (checked (z * z0)) as [v|] eqn:E; simpl.
  - apply checked_some in E as [-> E]. eexists; split; [reflexivity|]. simpl. auto.
  - eexists; split; [reflexivity|]. simpl. auto.
Qed.
(* integer division yields a decimal, or an error (None) for a zero divisor; it never panics *)
Theorem div_int a b x y : int_val F a = Some x -> int_val F b = Some y ->
  div F a b = if y =? 0 then None else Some (Decimal F (dec_div F (dec_of_Z F x) (dec_of_Z F y))).
Proof.
  destruct a, b; simpl; try discriminate; intros H1 H2; injection H1 as <-; injection H2 as <-;
    reflexivity.
Qed.
Theorem cmp_int a b x y : int_val F a = Some x -> int_val F b = Some y ->
  num_cmp F a b = Some (x ?= y).
Proof.
  destruct a, b; simpl; try discriminate; intros H1 H2; injection H1 as <-; injection H2 as <-;
    reflexivity.
Qed.

(* where the old code did not panic and was right, the fix changes nothing *)
Theorem neg0_agrees n r : neg0 F n = Val r -> r = neg F n.
Proof.
  destruct n; simpl; try (intros H; injection H as <-; reflexivity).
  unfold plain_neg, checked. destruct (in_isize (- z)); [|discriminate].
  intros H; injection H as <-. reflexivity.
Qed.
Theorem abs0_agrees_native z r : abs0 F (NativeInt F z) = Val r -> r = abs F (NativeInt F z).
Proof.
  simpl. unfold plain_abs, checked. destruct (in_isize (Z.abs z)); [|discriminate].
  intros H; injection H as <-. reflexivity.
Qed.

(* DESIGN section 4 rows 22 and 23 on the code before the fixes *)
Example neg0_refuted : neg0 F (NativeInt F isize_min) = Panic.
Proof. reflexivity. Qed.
Example abs0_min_refuted : abs0 F (NativeInt F isize_min) = Panic.
Proof. reflexivity. Qed.
Example abs0_big_refuted :
  abs0 F (BigInt F (-99999999999999999999)) = Val (BigInt F (-99999999999999999999)).
Proof. reflexivity. Qed.
(* ... and after *)
Example neg_min : neg F (NativeInt F isize_min) = Some (BigInt F 9223372036854775808).
Proof. reflexivity. Qed.
Example abs_min : abs F (NativeInt F isize_min) = BigInt F 9223372036854775808.
Proof. reflexivity. Qed.
Example abs_big : abs F (BigInt F (-99999999999999999999)) = BigInt F 99999999999999999999.
Proof. reflexivity. Qed.
End NumProofs.
