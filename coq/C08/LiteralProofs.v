(* C08/LiteralProofs.v -- the literal accessors are total, a language tag implies rdf:langString, and the converse
   fails on literals explicitly typed rdf:langString. *)
From Sophia.Common Require Import Prelude Term.
From Sophia.C08 Require Import Literal.

Theorem language_implies_langString : forall l t, lit_language l = Some t -> lit_datatype l = rdf_langString.
Proof. intros [v|v tag|v dt] t H; try discriminate. reflexivity. Qed.

Theorem langString_without_language : exists l, lit_datatype l = rdf_langString /\ lit_language l = None.
Proof. exists (LTyped [99; 104; 97; 116] rdf_langString). split; reflexivity. Qed.

Theorem typed_datatype_verbatim : forall v dt,
  lit_datatype (LTyped v dt) = dt /\ lit_language (LTyped v dt) = None /\ lit_lexical (LTyped v dt) = v.
Proof. intros v dt. repeat split. Qed.

Theorem simple_is_typed_string : forall v,
  lit_datatype (LSimple v) = lit_datatype (LTyped v xsd_string)
  /\ lit_language (LSimple v) = lit_language (LTyped v xsd_string).
Proof. intros v. split; reflexivity. Qed.

Theorem xsd_string_not_langString : xsd_string <> rdf_langString.
Proof. intros H. apply str_eqb_eq in H. vm_compute in H. discriminate. Qed.

Theorem view_ok_all : forall l, view_ok (lit_datatype l) (lit_language l) = true.
Proof. intros [v|v tag|v dt]; cbn [lit_datatype lit_language view_ok]; first [apply str_eqb_refl | reflexivity]. Qed.

Theorem view_ok_jl : forall t, view_ok (jl_datatype t) (jl_language t) = true.
Proof. intros [dt|tag]; cbn [jl_datatype jl_language view_ok]; first [apply str_eqb_refl | reflexivity]. Qed.

Theorem jl_langString_without_language : exists t, jl_datatype t = rdf_langString /\ jl_language t = None.
Proof. exists (TAny rdf_langString). split; reflexivity. Qed.

Lemma opt_str_eqb_eq (a b : option str) : opt_eqb str_eqb a b = true <-> a = b.
Proof.
  destruct a as [x|], b as [y|]; cbn [opt_eqb]; try (split; congruence).
  rewrite str_eqb_eq. split; congruence.
Qed.

Theorem lit_ok_iff : forall l lex dt lang,
  lit_ok l lex dt lang = true <-> lex = Some (lit_lexical l) /\ dt = Some (lit_datatype l) /\ lang = lit_language l.
Proof.
  intros l lex dt lang. unfold lit_ok. rewrite !andb_true_iff, !opt_str_eqb_eq. tauto.
Qed.

Theorem lit_ok_needs_datatype : forall l lex lang, lit_ok l lex None lang = false.
Proof.
  intros l lex lang. unfold lit_ok. cbn [opt_eqb]. rewrite andb_false_r. reflexivity.
Qed.

Example literal_examples :
  lit_ok (LTyped [99; 104; 97; 116] rdf_langString) (Some [99; 104; 97; 116]) (Some rdf_langString) None = true
  /\ lit_ok (LTyped [] []) (Some []) (Some []) None = true
  /\ lit_ok (LLang [120] [101; 110]) (Some [120]) (Some rdf_langString) (Some [101; 110]) = true
  /\ lit_ok (LTyped [120] rdf_langString) (Some [120]) None None = false
  /\ lit_ok (LSimple [120]) (Some [120]) (Some xsd_string) None = true
  /\ lit_ok (LTyped [120] rdf_langString) (Some [120]) (Some rdf_langString) (Some []) = false.
Proof. repeat split; vm_compute; reflexivity. Qed.
