(* C07/Properties.v -- pinned statements of property C07. *)
From Sophia.C02 Require Import Model.
From Sophia.C07 Require Import Model Keys Isort Proofs LoopModel LoopProofs EntryModel EntryProofs TwinModel TwinProofs.
From Coq Require Import Permutation.

(* no false negative, for every hash function, renaming (injective on the blank nodes present,
   acting inside quoted triples and on graph names) and statement order; None = the refinement
   loop did not finish within the fuel (the real loop is unbounded) *)
Check (iso_no_false_negative : forall (Hv : vquad -> N) (pi : str -> str) (d1 d2 : list quad) fuel,
  Forall wfq d1 ->
  Permutation d2 (map (rename_q pi) d1) ->
  inj_on pi (flat_map bnodes_q d1) ->
  isomorphic Hv iso_eqb iso_cmp fuel d1 d2 <> Some false).
(* symmetric in its arguments *)
Check (iso_symmetric : forall Hv fuel d1 d2,
  isomorphic Hv iso_eqb iso_cmp fuel d1 d2 = isomorphic Hv iso_eqb iso_cmp fuel d2 d1).
(* true only if sizes, blank node counts and blanked statements agree *)
Check (iso_true_implies : forall Hv fuel d1 d2,
  Forall wfq d1 -> Forall wfq d2 ->
  isomorphic Hv iso_eqb iso_cmp fuel d1 d2 = Some true ->
  length d1 = length d2
  /\ length (bn_of d1) = length (bn_of d2)
  /\ Permutation (map key d1) (map key d2)).
(* what "blanked out" means: the key ignores exactly the blank node labels *)
Check (key_rename : forall pi q, key (rename_q pi q) = key q).
Check (quad_eqb_key : forall a b, wfq a -> wfq b -> (quad_eqb iso_eqb a b = true <-> key a = key b)).
Check (quad_cmp_key : forall a b, wfq a -> wfq b -> quad_cmp iso_cmp a b = str_cmp (key a) (key b)).
(* sorting is canonical: the model's use of insertion sort for sort_unstable loses nothing *)
Check (gsort_perm_eq : forall A leb,
  (forall x y, leb x y = false -> leb y x = true) ->
  (forall x y, leb x y = true -> leb y x = true -> x = y) ->
  (forall x y z, leb x y = true -> leb y z = true -> leb x z = true) ->
  forall l l' : list A, Permutation l l' -> gsort A leb l = gsort A leb l').

Print Assumptions iso_no_false_negative.
Print Assumptions iso_symmetric.
Print Assumptions iso_true_implies.
Print Assumptions key_rename.
Print Assumptions quad_eqb_key.
Print Assumptions quad_cmp_key.
Print Assumptions gsort_perm_eq.
Print Assumptions prefix_false_negative.
Print Assumptions nonvacuous.

(* ================= termination of the refinement loop ================= *)
(* (a) if the number of colour classes never decreases along the run (2 * #blank nodes rounds
   from the initial colouring: [loop_mono], a decidable condition on Hv and ONE dataset), the
   loop stops: the model answers Some for every fuel >= 2 * #blank nodes + 1 *)
Check (refine_terminates : forall Hv d1 d2 bn1 bn2 c1 c2 fuel,
  mono_run Hv d1 bn1 (length bn1 + length bn2) c1 = true ->
  mono_run Hv d2 bn2 (length bn1 + length bn2) c2 = true ->
  (S (length bn1 + length bn2) <= fuel)%nat ->
  refine Hv fuel d1 d2 bn1 bn2 c1 c2 0 0 <> None).
Check (iso_terminates : forall Hv d1 d2 fuel,
  loop_mono Hv d1 = true -> loop_mono Hv d2 = true -> (enough_fuel d1 <= fuel)%nat ->
  isomorphic Hv iso_eqb iso_cmp fuel d1 d2 <> None).
Check (iso_decides : forall Hv d1 d2 fuel,
  loop_mono Hv d1 = true -> loop_mono Hv d2 = true -> (enough_fuel d1 <= fuel)%nat ->
  exists b, isomorphic Hv iso_eqb iso_cmp fuel d1 d2 = Some b).
(* "no collision merges classes" (the partition after a round refines the one before) implies it *)
Check (no_merge_mono : forall Hv d bn c, no_merge_b Hv d bn (round Hv d bn c) = true ->
  (nclasses (round Hv d bn c) <= nclasses (round Hv d bn (round Hv d bn c)))%nat).
Check (no_merge_b_spec : forall Hv d bn c, no_merge_b Hv d bn c = true ->
  forall b b', In b bn -> In b' bn ->
  new_colour Hv d c b = new_colour Hv d c b' -> look c b = look c b').
Check (loop_no_merge_mono : forall Hv d, loop_no_merge Hv d = true -> loop_mono Hv d = true).
(* eqcl.len() is the number of distinct digests, at most the number of blank nodes *)
Check (nclasses_nodup : forall c, nclasses c = length (nodup N.eq_dec (map snd c))).
Check (nclasses_le_length : forall c, (nclasses c <= length c)%nat).
(* the fuel is immaterial once the loop stops *)
Check (iso_fuel_stable : forall Hv teq tcmp f f' d1 d2 b,
  isomorphic Hv teq tcmp f d1 d2 = Some b -> (f <= f')%nat -> isomorphic Hv teq tcmp f' d1 d2 = Some b).
(* (b) for an arbitrary hash function the loop need NOT stop *)
Check (termination_refuted_for_adversarial_hash :
  exists (Hv : vquad -> N) (d : list quad),
    Forall wfq d /\ forall fuel, isomorphic Hv iso_eqb iso_cmp fuel d d = None).
Check (refine_never_stops_for_adversarial_hash :
  exists (Hv : vquad -> N) (d : list quad) (bn : list str),
    forall fuel, refine Hv fuel d d bn bn (init_colouring d bn) (init_colouring d bn) 0 0 = None).
(* ... not even for a hash function that is injective on every view hashed for the dataset: the
   digests are XOR-combined, and XORs of distinct values collide *)
Check (termination_refuted_for_view_injective_hash :
  exists (Hv : vquad -> N) (d : list quad),
    Forall wfq d
    /\ (forall c c' b b' q q',
          In b (bn_of d) -> In q d -> has_bnode b q = true ->
          In b' (bn_of d) -> In q' d -> has_bnode b' q' = true ->
          Hv (view_q c b q) = Hv (view_q c' b' q') -> view_q c b q = view_q c' b' q')
    /\ forall fuel, isomorphic Hv iso_eqb iso_cmp fuel d d = None).
(* (c) the condition is invariant under renaming/reordering, hence needed on one side only:
   a renamed and reordered copy is answered Some true *)
Check (loop_mono_rename : forall Hv pi d1 d2,
  Permutation d2 (map (rename_q pi) d1) -> inj_on pi (flat_map bnodes_q d1) ->
  loop_mono Hv d2 = loop_mono Hv d1).
Check (iso_true_on_copies : forall (Hv : vquad -> N) (pi : str -> str) (d1 d2 : list quad) fuel,
  Forall wfq d1 ->
  Permutation d2 (map (rename_q pi) d1) ->
  inj_on pi (flat_map bnodes_q d1) ->
  loop_mono Hv d1 = true ->
  (enough_fuel d1 <= fuel)%nat ->
  isomorphic Hv iso_eqb iso_cmp fuel d1 d2 = Some true).
(* datasets without blank nodes satisfy the condition for every hash function *)
Check (loop_mono_ground : forall Hv d, bn_of (sort_q iso_cmp d) = [] -> loop_mono Hv d = true).

(* ================= entry points ================= *)
(* complete description of isomorphic_datasets on fallible datasets (all inputs) *)
Check (@iso_datasets_res_spec : forall Hv teq tcmp fuel (E1 E2 : Type)
  (d1 : list (res quad E1)) (d2 : list (res quad E2)),
  iso_datasets_res Hv teq tcmp fuel d1 d2 =
  match first_error d1 with
  | Some e => RErr (SourceError e)
  | None => match first_error d2 with
            | Some e => RErr (SinkError e)
            | None => ROk (isomorphic Hv teq tcmp fuel (oks d1) (oks d2))
            end
  end).
Check (@iso_res_source_error : forall Hv teq tcmp fuel (E1 E2 : Type) (l : list quad) (e : E1) r (d2 : list (res quad E2)),
  iso_datasets_res Hv teq tcmp fuel (map ROk l ++ RErr e :: r) d2 = RErr (SourceError e)
  /\ iso_datasets_pulls (map ROk l ++ RErr e :: r) d2 = (S (length l), O)).
Check (@iso_res_sink_error : forall Hv teq tcmp fuel (E1 E2 : Type) (l1 l2 : list quad) (e : E2) r,
  iso_datasets_res Hv teq tcmp fuel (map (@ROk quad E1) l1) (map ROk l2 ++ RErr e :: r) = RErr (SinkError e)
  /\ iso_datasets_pulls (map (@ROk quad E1) l1) (map ROk l2 ++ RErr e :: r) = (length l1, S (length l2))).
Check (@iso_res_pure : forall Hv teq tcmp fuel (E1 E2 : Type) (l1 l2 : list quad),
  iso_datasets_res Hv teq tcmp fuel (map (@ROk quad E1) l1) (map (@ROk quad E2) l2)
  = ROk (isomorphic Hv teq tcmp fuel l1 l2)
  /\ iso_datasets_pulls (map (@ROk quad E1) l1) (map (@ROk quad E2) l2) = (length l1, length l2)).
Check (@res_split : forall (A E : Type) (d : list (res A E)),
  (exists l, d = map (@ROk A E) l) \/ (exists l e r, d = map (@ROk A E) l ++ RErr e :: r)).
(* isomorphic_graphs = isomorphic_datasets on (s, p, o, default graph) *)
Check (@iso_graphs_as_datasets : forall Hv teq tcmp fuel (E1 E2 : Type) (t1 t2 : list trip),
  iso_graphs_res Hv teq tcmp fuel (map (@ROk trip E1) t1) (map (@ROk trip E2) t2)
  = iso_datasets_res Hv teq tcmp fuel (map (@ROk quad E1) (map into_quad t1)) (map (@ROk quad E2) (map into_quad t2))).
Check (@iso_graphs_eq_datasets_on_default_graph : forall Hv teq tcmp fuel (E1 E2 : Type) (d1 d2 : list quad),
  Forall (fun q => qg q = None) d1 -> Forall (fun q => qg q = None) d2 ->
  iso_graphs_res Hv teq tcmp fuel (map (@ROk trip E1) (map triple_of d1)) (map (@ROk trip E2) (map triple_of d2))
  = iso_datasets_res Hv teq tcmp fuel (map (@ROk quad E1) d1) (map (@ROk quad E2) d2)).
Check (@iso_graphs_source_error : forall Hv teq tcmp fuel (E1 E2 : Type) (t : list trip) (e : E1) r (g2 : list (res trip E2)),
  iso_graphs_res Hv teq tcmp fuel (map ROk t ++ RErr e :: r) g2 = RErr (SourceError e)
  /\ iso_graphs_pulls (map ROk t ++ RErr e :: r) g2 = (S (length t), O)).
Check (@iso_graphs_sink_error : forall Hv teq tcmp fuel (E1 E2 : Type) (t1 t2 : list trip) (e : E2) r,
  iso_graphs_res Hv teq tcmp fuel (map (@ROk trip E1) t1) (map ROk t2 ++ RErr e :: r) = RErr (SinkError e)
  /\ iso_graphs_pulls (map (@ROk trip E1) t1) (map ROk t2 ++ RErr e :: r) = (length t1, S (length t2))).
(* the theorems at the entry points *)
Check (@entry_no_false_negative : forall Hv (E1 E2 : Type) pi (d1 d2 : list quad) fuel,
  Forall wfq d1 -> Permutation d2 (map (rename_q pi) d1) -> inj_on pi (flat_map bnodes_q d1) ->
  exists r, iso_datasets_res Hv iso_eqb iso_cmp fuel (map (@ROk quad E1) d1) (map (@ROk quad E2) d2) = ROk r
            /\ r <> Some false).
Check (@entry_true_on_copies : forall Hv (E1 E2 : Type) pi (d1 d2 : list quad) fuel,
  Forall wfq d1 -> Permutation d2 (map (rename_q pi) d1) -> inj_on pi (flat_map bnodes_q d1) ->
  loop_mono Hv d1 = true -> (enough_fuel d1 <= fuel)%nat ->
  iso_datasets_res Hv iso_eqb iso_cmp fuel (map (@ROk quad E1) d1) (map (@ROk quad E2) d2) = ROk (Some true)).
Check (@graph_no_false_negative : forall Hv (E1 E2 : Type) pi (t1 t2 : list trip) fuel,
  Forall wf_trip t1 -> Permutation t2 (map (rename_trip pi) t1) -> inj_on pi (flat_map bnodes_trip t1) ->
  exists r, iso_graphs_res Hv iso_eqb iso_cmp fuel (map (@ROk trip E1) t1) (map (@ROk trip E2) t2) = ROk r
            /\ r <> Some false).
Check (@graph_true_on_copies : forall Hv (E1 E2 : Type) pi (t1 t2 : list trip) fuel,
  Forall wf_trip t1 -> Permutation t2 (map (rename_trip pi) t1) -> inj_on pi (flat_map bnodes_trip t1) ->
  loop_mono Hv (map into_quad t1) = true -> (enough_fuel (map into_quad t1) <= fuel)%nat ->
  iso_graphs_res Hv iso_eqb iso_cmp fuel (map (@ROk trip E1) t1) (map (@ROk trip E2) t2) = ROk (Some true)).
Check (@graph_symmetric : forall Hv fuel (E1 E2 : Type) (t1 t2 : list trip),
  iso_graphs_res Hv iso_eqb iso_cmp fuel (map (@ROk trip E1) t1) (map (@ROk trip E2) t2)
  = ROk (isomorphic Hv iso_eqb iso_cmp fuel (map into_quad t2) (map into_quad t1))).

(* non-vacuity: the termination condition holds on a two-cycle with a blank graph name (FNV
   stand-in and a toy hash injective on the views that occur) and fails for the adversarial hash *)
Check (no_merge_satisfiable : loop_no_merge Hfnv ex_cycle = true).
Check (no_merge_satisfiable_toy : loop_no_merge Htoy ex_cycle = true
  /\ isomorphic Htoy iso_eqb iso_cmp (enough_fuel ex_cycle) ex_cycle ex_cycle = Some true).
Check (adv_not_mono : loop_mono Hadv adv_d = false).

Print Assumptions refine_terminates.
Print Assumptions iso_terminates.
Print Assumptions iso_decides.
Print Assumptions no_merge_mono.
Print Assumptions no_merge_b_spec.
Print Assumptions loop_no_merge_mono.
Print Assumptions nclasses_nodup.
Print Assumptions nclasses_le_length.
Print Assumptions iso_fuel_stable.
Print Assumptions termination_refuted_for_adversarial_hash.
Print Assumptions refine_never_stops_for_adversarial_hash.
Print Assumptions termination_refuted_for_view_injective_hash.
Print Assumptions loop_mono_rename.
Print Assumptions iso_true_on_copies.
Print Assumptions loop_mono_ground.
Print Assumptions iso_datasets_res_spec.
Print Assumptions iso_res_source_error.
Print Assumptions iso_res_sink_error.
Print Assumptions iso_res_pure.
Print Assumptions res_split.
Print Assumptions iso_graphs_as_datasets.
Print Assumptions iso_graphs_eq_datasets_on_default_graph.
Print Assumptions iso_graphs_source_error.
Print Assumptions iso_graphs_sink_error.
Print Assumptions entry_no_false_negative.
Print Assumptions entry_true_on_copies.
Print Assumptions graph_no_false_negative.
Print Assumptions graph_true_on_copies.
Print Assumptions graph_symmetric.
Print Assumptions no_merge_satisfiable.
Print Assumptions no_merge_satisfiable_toy.
Print Assumptions adv_not_mono.
Print Assumptions both_fail.
Print Assumptions graph_copy.

(* ================= twins: the order used for sorting is exactly as fine as the pairwise equality ================= *)
Check (iso_order_as_fine_as_equality : forall a b, wf a -> wf b -> (iso_cmp a b = Eq <-> iso_eqb a b = true)).
Check (quad_order_as_fine_as_equality : forall a b, wfq a -> wfq b ->
  (quad_cmp iso_cmp a b = Eq <-> quad_eqb iso_eqb a b = true)).
(* no ground atom is ignored by either relation *)
Check (iso_cmp_ground : forall a b, bnodes_t a = [] -> bnodes_t b = [] -> iso_cmp a b = term_cmp a b).
Check (iso_eqb_ground : forall a b, bnodes_t a = [] -> bnodes_t b = [] -> iso_eqb a b = term_eqb a b).
Check (ground_terms_distinguished : forall a b, wf a -> wf b -> bnodes_t a = [] -> bnodes_t b = [] ->
  term_eqb a b = false -> iso_cmp a b <> Eq /\ iso_eqb a b = false).
Check (iso_cmp_language_tag : forall l t1 t2, iso_cmp (LitLang l t1) (LitLang l t2) = str_cmp (lower t1) (lower t2)).
Check (language_tags_distinguished : forall l t1 t2, iso_cmp (LitLang l t1) (LitLang l t2) = Eq <-> lower t1 = lower t2).
Check (iso_cmp_lexical_tagged : forall l1 l2 t, iso_cmp (LitLang l1 t) (LitLang l2 t) = str_cmp l1 l2).
Check (iso_cmp_datatype : forall l d1 d2, iso_cmp (LitDt l d1) (LitDt l d2) = str_cmp d1 d2).
Check (iso_cmp_lexical : forall l1 l2 d, iso_cmp (LitDt l1 d) (LitDt l2 d) = str_cmp l1 l2).
Check (iso_cmp_tagged_vs_typed : forall l t d, d <> rdf_langString ->
  iso_cmp (LitLang l t) (LitDt l d) = str_cmp rdf_langString d /\ iso_cmp (LitLang l t) (LitDt l d) <> Eq).
Check (iso_cmp_iri : forall a b, iso_cmp (Iri a) (Iri b) = str_cmp a b).
Check (iso_cmp_variable : forall a b, iso_cmp (Var a) (Var b) = str_cmp a b).
Check (iso_cmp_bnode : forall a b, iso_cmp (Bnode a) (Bnode b) = Eq).
(* one position of a statement (subject / predicate / object / graph name, any depth inside quoted triples, or the
   presence of the graph name): two statements equal up to blank node labels everywhere else are ordered by what
   stands at that position, and are order-equal iff they are blank-blind equal *)
Check (put_t_cmp : forall path t1 t2 x y, wf t1 -> wf t2 -> iso_eqb t1 t2 = true -> valid_t path t1 = true ->
  iso_cmp (put_t path x t1) (put_t path y t2) = iso_cmp x y).
Check (put_q_cmp : forall pos path q1 q2 x y, wfq q1 -> wfq q2 ->
  quad_eqb iso_eqb q1 q2 = true -> valid_q pos path x q1 = true -> valid_q pos path y q2 = true ->
  quad_cmp iso_cmp (put_q pos path x q1) (put_q pos path y q2) = atom_cmp x y).
Check (put_q_eqb : forall pos path q1 q2 x y, wfq q1 -> wfq q2 -> wf_opt x -> wf_opt y ->
  quad_eqb iso_eqb q1 q2 = true -> valid_q pos path x q1 = true -> valid_q pos path y q2 = true ->
  (quad_cmp iso_cmp (put_q pos path x q1) (put_q pos path y q2) = Eq <-> atom_eqb x y = true)).
Check (twins_order_iff_equality : forall pos path q1 q2 x y, wfq q1 -> wfq q2 -> wf_opt x -> wf_opt y ->
  quad_eqb iso_eqb q1 q2 = true -> valid_q pos path x q1 = true -> valid_q pos path y q2 = true ->
  (quad_eqb iso_eqb (put_q pos path x q1) (put_q pos path y q2) = true <-> atom_eqb x y = true)).
Check (twin_pair_ok_holds : forall pos path t1 t2 x1 x2, wfq t1 -> wfq t2 -> wf_opt x1 -> wf_opt x2 ->
  quad_eqb iso_eqb t1 t2 = true -> valid_q pos path x1 t1 = true -> valid_q pos path x2 t2 = true ->
  atom_eqb x1 x2 = false ->
  twin_pair_ok pos path (t1, x1) (t2, x2) = true).
(* the sorted sequences of blanked statements of a copy are EQUAL whatever the enumeration orders, so the pairwise
   comparison after sorting succeeds *)
Check (sorted_keys_order_independent : forall pi d1 d2,
  Forall wfq d1 -> Permutation d2 (map (rename_q pi) d1) ->
  map key (sort_q iso_cmp d1) = map key (sort_q iso_cmp d2)).
Check (precheck_passes_on_copies : forall pi d1 d2,
  Forall wfq d1 -> Permutation d2 (map (rename_q pi) d1) ->
  all2 (quad_eqb iso_eqb) (sort_q iso_cmp d1) (sort_q iso_cmp d2) = true).
(* the class of defects: ANY order coarser than the equality answers false on {x, y} against {y, x}; ANY equality
   coarser than the order answers true on {x} against {y} *)
Check (coarser_order_false_negative : forall Hv (tcmp : term -> term -> comparison) s p x y fuel,
  tcmp s s = Eq -> tcmp p p = Eq -> tcmp x y = Eq -> tcmp y x = Eq -> iso_eqb x y = false ->
  isomorphic Hv iso_eqb tcmp fuel [stmt s p x; stmt s p y] [stmt s p y; stmt s p x] = Some false
  /\ Permutation [stmt s p y; stmt s p x] [stmt s p x; stmt s p y]).
Check (coarser_order_false_negative_q : forall Hv (tcmp : term -> term -> comparison) a b fuel,
  quad_cmp tcmp a b = Eq -> quad_cmp tcmp b a = Eq -> quad_eqb iso_eqb a b = false ->
  isomorphic Hv iso_eqb tcmp fuel [a; b] [b; a] = Some false).
Check (coarser_equality_false_positive : forall Hv (teq : term -> term -> bool) s p x y fuel,
  teq s s = true -> teq p p = true -> teq x y = true ->
  bnodes_t s = [] -> bnodes_t p = [] -> bnodes_t x = [] -> bnodes_t y = [] ->
  isomorphic Hv teq iso_cmp (S fuel) [stmt s p x] [stmt s p y] = Some true).
Check (notag_order_false_negative : forall Hv fuel,
  isomorphic Hv iso_eqb iso_cmp_notag fuel
    [stmt (Bnode [120]) (Iri [112]) (chat [102;114]); stmt (Bnode [120]) (Iri [112]) (chat [101;110])]
    [stmt (Bnode [121]) (Iri [112]) (chat [101;110]); stmt (Bnode [121]) (Iri [112]) (chat [102;114])] = Some false).
Check (real_order_accepts :
  iso_run
    [stmt (Bnode [120]) (Iri [112]) (chat [102;114]); stmt (Bnode [120]) (Iri [112]) (chat [101;110])]
    [stmt (Bnode [121]) (Iri [112]) (chat [101;110]); stmt (Bnode [121]) (Iri [112]) (chat [102;114])] = Some true).
Check (notag_equality_false_positive : forall Hv fuel,
  isomorphic Hv iso_eqb_notag iso_cmp (S fuel)
    [stmt (Iri [115]) (Iri [112]) (chat [102;114])] [stmt (Iri [115]) (Iri [112]) (chat [101;110])] = Some true).
Check (real_equality_rejects : forall Hv fuel,
  isomorphic Hv iso_eqb iso_cmp fuel
    [stmt (Iri [115]) (Iri [112]) (chat [102;114])] [stmt (Iri [115]) (Iri [112]) (chat [101;110])] = Some false).
(* every relative order of a twin group: perms enumerates exactly the permutations, and none of them is answered false *)
Check (@perms_sound : forall (A : Type) (l l' : list A), In l' (perms l) -> Permutation l l').
Check (@perms_complete : forall (A : Type) (l l' : list A), Permutation l l' -> In l' (perms l)).
Check (all_orders_never_false : forall Hv pi d1 front group back g fuel,
  Forall wfq d1 -> Permutation (front ++ group ++ back) (map (rename_q pi) d1) ->
  inj_on pi (flat_map bnodes_q d1) -> In g (perms group) ->
  isomorphic Hv iso_eqb iso_cmp fuel d1 (front ++ g ++ back) <> Some false).
(* language tags in another case mix: the answer only depends on the lower-cased tags, and a renamed, reordered,
   re-cased copy is never answered false *)
Check (iso_canon_r : forall Hv fuel d1 d2,
  isomorphic Hv iso_eqb iso_cmp fuel d1 (map canon_q d2) = isomorphic Hv iso_eqb iso_cmp fuel d1 d2).
Check (iso_canon_l : forall Hv fuel d1 d2,
  isomorphic Hv iso_eqb iso_cmp fuel (map canon_q d1) d2 = isomorphic Hv iso_eqb iso_cmp fuel d1 d2).
Check (iso_no_false_negative_recased : forall (Hv : vquad -> N) (pi : str -> str) (d1 d2 : list quad) fuel,
  Forall wfq d1 ->
  Permutation (map canon_q d2) (map canon_q (map (rename_q pi) d1)) ->
  inj_on pi (flat_map bnodes_q d1) ->
  isomorphic Hv iso_eqb iso_cmp fuel d1 d2 <> Some false).
(* non-vacuity: a twin pair inside a quoted triple in the graph name, with per-twin blank nodes, passes twin_ok; the
   same statements with equal atoms do not *)
Example twin_ok_example :
  let t b := mkQ (Bnode b) (Iri [112]) (Iri [111]) (Some (Triple (Iri [97]) (Iri [112]) (Iri [104]))) in
  let d := [put_q 3 [2] (Some (chat [102;114])) (t [120]); put_q 3 [2] (Some (chat [101;110])) (t [121])] in
  twin_ok 3 [2] [(t [120], Some (chat [102;114])); (t [121], Some (chat [101;110]))] d = true
  /\ twin_ok 3 [2] [(t [120], Some (chat [69;78])); (t [121], Some (chat [101;110]))] d = false
  /\ twin_ok 3 [] [(t [120], None); (t [121], Some (Iri [103]))] [put_q 3 [] None (t [120]); put_q 3 [] (Some (Iri [103])) (t [121])] = true
  /\ all_orders_ok d [] (rev d) [] true = true.
Proof. vm_compute. repeat split. Qed.

Print Assumptions iso_order_as_fine_as_equality.
Print Assumptions quad_order_as_fine_as_equality.
Print Assumptions iso_cmp_ground.
Print Assumptions iso_eqb_ground.
Print Assumptions ground_terms_distinguished.
Print Assumptions iso_cmp_language_tag.
Print Assumptions language_tags_distinguished.
Print Assumptions iso_cmp_lexical_tagged.
Print Assumptions iso_cmp_datatype.
Print Assumptions iso_cmp_lexical.
Print Assumptions iso_cmp_tagged_vs_typed.
Print Assumptions iso_cmp_iri.
Print Assumptions iso_cmp_variable.
Print Assumptions iso_cmp_bnode.
Print Assumptions put_t_cmp.
Print Assumptions put_q_cmp.
Print Assumptions put_q_eqb.
Print Assumptions twins_order_iff_equality.
Print Assumptions twin_pair_ok_holds.
Print Assumptions sorted_keys_order_independent.
Print Assumptions precheck_passes_on_copies.
Print Assumptions coarser_order_false_negative.
Print Assumptions coarser_order_false_negative_q.
Print Assumptions coarser_equality_false_positive.
Print Assumptions notag_order_false_negative.
Print Assumptions real_order_accepts.
Print Assumptions notag_equality_false_positive.
Print Assumptions real_equality_rejects.
Print Assumptions perms_sound.
Print Assumptions perms_complete.
Print Assumptions all_orders_never_false.
Print Assumptions iso_canon_r.
Print Assumptions iso_canon_l.
Print Assumptions iso_no_false_negative_recased.
Print Assumptions recased_copy.
Print Assumptions twin_ok_example.
