//! C17: Relativizer::relativize against the resolve-back oracle (BaseIri::resolve) and against the
//! Coq model (C17/Model.v: relativize, the oxiri resolver model, RFC 3986 section 5.2).
//! Round 4: next to the random stream there is a DIRECTED stream of IRIs that are EQUIVALENT to the base (or to an
//! IRI relativizable against it) under some normalisation but not identical to it (letter case of scheme / host,
//! percent-encoding case, encoded unreserved characters, default port, empty path vs "/", dot segments, Unicode
//! normal form, empty query/fragment, ...) applied at every component; the property demands the EXACT IRI back.
//! Every entry point is exercised: Relativizer over seven container types, built from BaseIri::new / Iri::to_base /
//! Iri::as_base / BaseIriRef::to_base_iri, cloned, reused for several IRIs, base(); parents up to 255; the typed and
//! the &str routes of BaseIri / BaseIriRef / Iri / IriRef resolve and resolve_into for resolving back.
//! Round 8: a DEEP stream: bases whose path has P-1 .. P+12 inner slashes for a limit P taken at the small values, the
//! powers of two and the ends of the i8 / u8 ranges (.., 127, 128, 254, 255), in every shape (authority / rooted /
//! rootless, trailing slash, query and fragment containing slashes, empty and multi-byte segments), against IRIs that
//! leave the base's path exactly at, one above and one below the highest directory reachable with P steps (and at the
//! top, at the bottom), asked at the limits P-1, P, P+1, 0, 254, 255: the reference must resolve back or be absent.
use sophia_iri::{Iri, IriRef, relativize::Relativizer, resolve::{BaseIri, BaseIriRef}};
use std::borrow::{Borrow, Cow};
use std::ops::Deref;
use std::panic::{AssertUnwindSafe, catch_unwind};
use verif_harness::*;

/// hand-written pairs placed at the first case indices: the known witnesses and one pair per branch
const FIXED: &[(&str, &str)] = &[
    ("http://a/b/c", "http://a/b/x:y"),      // first segment containing ':'
    ("http://a/b/c", "http://a/b//d"),       // empty segment right after the common prefix
    ("http://a/b/c", "http://a/b/../c"),     // dot segments in the IRI
    ("s:a/b", "s:a/c:d"),                    // rootless base
    ("http://a/b", "http://a/bcd"),          // base is a strict prefix of the IRI
    ("http://a/b?q", "http://a/b?qr"),
    ("http://a/b#f", "http://a/bc"),
    ("http://a/b?q", "http://a/b"),          // base has a query, the IRI has none
    ("http://a/b?q", "http://a/b#f"),
    ("s://h", "s://hh"),                     // authority is a strict prefix
    ("s://h?q", "s://hh"),
    ("s:/a", "s://x"),                       // authority only on one side
    ("s:a", "s:?q"),
    ("s:a", "s:/x"),
    ("http://a", "http://a/x"),
    ("http://\u{e9}?q", "http://\u{e9}/x"),  // slicing inside a character
    ("http://a/\u{e9}", "http://a/\u{e8}"),  // common prefix ends inside a character
    ("http://a/\u{e9}/x", "http://a/\u{e8}/x"),
    ("s:a/b", "s:x"),
    ("s:/a/b", "s:/x"),
    ("http://a/b/c/d?q#f?f", "http://a/b/c/d?q#f?f"),
    ("http://a/b/c/d?q#f?f", "http://a/b/c/d?q"),
    ("http://a/b/c/d?q#f?f", "http://a/b/c/d?Q0#F0"),
    ("http://a/b/c/d?q#f?f", "http://a/b/c/"),
    ("http://a/b/c/d?q#f?f", "http://a/b/P1"),
    ("http://a/b/c/d?q#f?f", "http://a/P2?Q3#F3"),
    ("http://a/b/c/d?q#f?f", "http://a/"),
    ("x-ample:bb/c/d", "x-ample:bb/P1"),
    ("x-ample:bb/c/d", "x-ample:P2"),
    ("http://a/b/../c/d", "http://a/b/../c/x"),
    ("http://a/b/../d", "http://a/b/x"),
    ("http://a/b/..?q", "http://a/b/.."),
    ("http://a?q", "http://a"),
    ("s:?q", "s:"),
    ("http://a/b/c", "http://a/b/c/d"),
    ("http://a/b/c/", "http://a/b/c"),
    ("http://a//b", "http://a/c"),
    ("http://a/b?x/y", "http://a/b?x/z"),
    ("http://a/b#x/y", "http://a/b#x/z?w"),
    ("http://a/b/c", "http://a/b/.x/..y"),
    ("http://a/b/c", "http://a/b/x/./y"),
    ("http://a/b/c", "http://a/b/x/.."),
    ("http://a/b/c", "https://a/b/c"),
    ("http://a/b/c", "http://ab/b/c"),
    // round 4: equivalent under some normalisation, not identical (the exact IRI must come back, or nothing)
    ("http://example.org/a/b", "HTTP://example.org/a/c"),     // scheme letter case
    ("http://example.org/a/b", "Http://example.org/a/b"),
    ("http://example.org/a/b", "hTTp://example.org/a/b#f"),
    ("http://example.org/a/b?q", "HTTP://example.org/a/b?r"),
    ("HTTP://example.org/a/b", "http://example.org/x"),
    ("urn:isbn:123", "URN:isbn:456"),
    ("x-ample:a/b/c", "X-Ample:a/d"),
    ("http://example.org/a/b", "http://EXAMPLE.org/a/c"),     // host letter case
    ("http://Example.org/a/b", "http://example.org/a/b#f"),
    ("http://example.org/a/b", "http://example.org:80/a/c"),  // default port
    ("http://example.org:80/a/b", "http://example.org/a/c"),
    ("http://example.org:/a/b", "http://example.org/a/c"),
    ("http://h/%2fa/b", "http://h/%2Fa/c"),                   // percent-encoding case
    ("http://h/a%2fb/c", "http://h/a%2Fb/c"),
    ("http://h/a/b?k=%2f", "http://h/a/b?k=%2F"),
    ("http://h/%7Euser/b", "http://h/~user/c"),               // encoded unreserved characters
    ("http://h/a/b", "http://h/%61/c"),
    ("http://h/a/b", "http://h/a/%62"),
    ("http://h", "http://h/"),                                // empty path vs "/"
    ("http://h/", "http://h"),
    ("http://h?q", "http://h/?q"),
    ("http://h/?q", "http://h?q"),
    ("http://h/a/b", "http://h/a/b/."),                       // dot segments
    ("http://h/a/b", "http://h/a/b/c/.."),
    ("http://h/a/b/", "http://h/a/b/."),
    ("http://h/a/b/.", "http://h/a/b/"),
    ("http://h/a/./b", "http://h/a/b"),
    ("http://h/a/b?q", "http://h/a/b?Q"),                     // letter case elsewhere
    ("http://h/a/b#f", "http://h/a/b#F"),
    ("http://h/a/b", "http://h/A/b"),
    ("http://h/caf\u{e9}/b", "http://h/cafe\u{301}/b"),       // Unicode normal form
    ("http://h/cafe\u{301}/b", "http://h/caf\u{e9}/b"),
    ("file:/a/b", "file:///a/b"),                             // no authority vs empty authority
    ("file:///a/b", "file:/a/c"),
    ("http://u@h/a", "http://U@h/a"),
    ("http://h/a/b", "http://h/a/b?"),                        // empty query / fragment
    ("http://h/a/b?", "http://h/a/b"),
    ("http://h/a/b", "http://h/a/b#"),
    ("http://h/a/b#", "http://h/a/b"),
];

/// round 8: more hand-written pairs (placed after the directed stream): a base with an authority and an empty path
/// against IRIs whose authority merely starts with the base's, and the same without authority
const FIXED2: &[(&str, &str)] = &[
    ("http://example.org", "http://example.org:8080/x"),
    ("http://example.org", "http://example.org.uk/a/b"),
    ("http://example.org", "http://example.orga/b"),
    ("http://example.org?q", "http://example.org:8080/x?q"),
    ("http://example.org#f", "http://example.org.uk"),
    ("http://example.org?q#f", "http://example.org@h/x"),
    ("s://h", "s://h:80"),
    ("s://u@h", "s://u@h2/x"),
    ("http://[::1]", "http://[::1]:80/x"),
    ("s://", "s://h/x"),
    ("s://?q", "s://h"),
    ("x-ample:", "x-ample:a/b"),
    ("x-ample:", "x-ample:/a/b"),
    ("x-ample:?q", "x-ample:a"),
    ("x-ample:#f", "x-ample:a:b"),
    ("urn:x-local:doc", "urn:x-local:doc2"),
];
/// bases a Relativizer may have stood for before it is re-targeted to the base of the case (every shape)
const PREV_BASES: &[&str] = &["urn:x-local:doc", "http://example.org", "x-ample:a/b/c", "http://h?q#f", "x-ample:", "http://example.org/a/b/c/d/e/f?q#f", "s:/a//b/", "http://\u{e9}/\u{e9}/x#f", "s://h/", "s:?q"];

const SCHEMES: &[&str] = &["http", "s", "x-ample", "urn"];
const AUTHS: &[&str] = &["a", "a", "h:80", "u@h", "\u{e9}", "\u{65e5}\u{672c}", "", "[::1]", "Example.org", "example.org:80", "h:", "u@H.x:8080", "[::a]", "%41b.c", "a"];
const SEGS: &[&str] = &[
    "a", "b", "c", "d", "a", "b", "bc", "x:y", "c:d", ":", "", "", ".", "..", "\u{e9}", "\u{e8}", "\u{e9}e", "\u{65e5}\u{672c}", "\u{65e5}\u{6708}",
    "b.c", "..x", ".x", "...", "%2e", "a@b", "a;p=1", "\u{1F600}", "\u{1F601}", "1", "x+y",
    "%2F", "%2f", "%7Euser", "~user", "%61", "A", "caf\u{e9}", "cafe\u{301}", "a%2fb",
];
const QUERIES: &[&str] = &["q", "q/r?s", "", "\u{e9}", "q=1&r=../x", "q", "k=%2f", "K=v"];
const FRAGS: &[&str] = &["f", "f/g?h", "", "\u{e8}", "f", "%2F", "Frag"];

#[derive(Clone)]
struct Parts { scheme: String, auth: Option<String>, rooted: bool, segs: Vec<String>, query: Option<String>, frag: Option<String> }
impl Parts {
    fn text(&self) -> String {
        let mut s = format!("{}:", self.scheme);
        if let Some(a) = &self.auth { s.push_str("//"); s.push_str(a); }
        if self.rooted && !self.segs.is_empty() { s.push('/'); }
        s.push_str(&self.segs.join("/"));
        if let Some(q) = &self.query { s.push('?'); s.push_str(q); }
        if let Some(f) = &self.frag { s.push('#'); s.push_str(f); }
        s
    }
}
fn gen_parts(r: &mut Rng) -> Parts {
    let scheme = r.pick(SCHEMES).to_string();
    let auth = if r.chance(2, 3) { Some(r.pick(AUTHS).to_string()) } else { None };
    let nseg = if r.chance(1, 8) { 0 } else if r.chance(1, 10) { r.range(6, 12) } else { r.range(1, 5) };
    let segs: Vec<String> = (0..nseg).map(|_| r.pick(SEGS).to_string()).collect();
    let rooted = auth.is_some() || r.chance(1, 2);
    let query = if r.chance(1, 3) { Some(r.pick(QUERIES).to_string()) } else { None };
    let frag = if r.chance(1, 3) { Some(r.pick(FRAGS).to_string()) } else { None };
    Parts { scheme, auth, rooted, segs, query, frag }
}
/// an IRI related to the base: same scheme/authority, the first k segments kept, then others
fn gen_related(r: &mut Rng, b: &Parts) -> Parts {
    let keep = r.below(b.segs.len() + 1);
    let mut segs: Vec<String> = b.segs[..keep].to_vec();
    let extra = r.below(4);
    for _ in 0..extra { segs.push(r.pick(SEGS).to_string()); }
    let mode = r.below(10);
    let (mut query, mut frag) = (b.query.clone(), b.frag.clone());
    if mode < 6 {
        query = if r.chance(1, 3) { Some(r.pick(QUERIES).to_string()) } else { None };
        frag = if r.chance(1, 3) { Some(r.pick(FRAGS).to_string()) } else { None };
    }
    if mode == 6 { segs = b.segs.clone(); query = None; }
    if mode == 7 { segs = b.segs.clone(); frag = Some(r.pick(FRAGS).to_string()); }
    if mode == 8 { segs = b.segs.clone(); query = Some(format!("{}x", b.query.clone().unwrap_or_default())); }
    let mut p = Parts { scheme: b.scheme.clone(), auth: b.auth.clone(), rooted: b.rooted, segs, query, frag };
    if r.chance(1, 12) { p.auth = if p.auth.is_some() { None } else { Some(r.pick(AUTHS).to_string()) }; p.rooted = true; }
    if r.chance(1, 12) && p.auth.is_none() { p.rooted = !p.rooted; }
    if r.chance(1, 15) { if let Some(a) = &mut p.auth { a.push('x'); } }
    p
}
// ---------- round 4: IRIs equivalent to another one under some normalisation, but not identical ----------
fn parse_parts(t: &str) -> Parts {
    let (scheme, rest) = t.split_once(':').expect("directed base without scheme");
    let (rest, frag) = match rest.split_once('#') { Some((a, f)) => (a, Some(f.to_string())), None => (rest, None) };
    let (rest, query) = match rest.split_once('?') { Some((a, q)) => (a, Some(q.to_string())), None => (rest, None) };
    let (auth, path) = match rest.strip_prefix("//") { Some(x) => { let k = x.find('/').unwrap_or(x.len()); (Some(x[..k].to_string()), &x[k..]) } None => (None, rest) };
    let rooted = auth.is_some() || path.starts_with('/');
    let segs: Vec<String> = if path.is_empty() { vec![] } else { path.strip_prefix('/').unwrap_or(path).split('/').map(String::from).collect() };
    let p = Parts { scheme: scheme.to_string(), auth, rooted, segs, query, frag };
    assert_eq!(p.text(), t, "parse_parts/text round trip");
    p
}
/// byte range of the host inside an authority (after the userinfo, before the port)
fn host_range(a: &str) -> (usize, usize) {
    let st = a.rfind('@').map(|k| k + 1).unwrap_or(0);
    let en = if a[st..].starts_with('[') { a[st..].find(']').map(|k| st + k + 1).unwrap_or(a.len()) } else { a[st..].find(':').map(|k| st + k).unwrap_or(a.len()) };
    (st, en)
}
fn toggle(c: char) -> char { if c.is_ascii_lowercase() { c.to_ascii_uppercase() } else { c.to_ascii_lowercase() } }
/// toggle the case of a random non-empty subset of the ASCII letters at the given char positions
fn toggle_some(r: &mut Rng, s: &str, positions: &[usize]) -> String {
    if positions.is_empty() { return s.to_string() }
    let forced = positions[r.below(positions.len())];
    let all = r.chance(1, 3);
    s.chars().enumerate().map(|(k, c)| if positions.contains(&k) && (k == forced || all || r.chance(1, 3)) { toggle(c) } else { c }).collect()
}
fn is_unreserved(c: char) -> bool { c.is_ascii_alphanumeric() || "-._~".contains(c) }
/// char positions of the '%' of every well-formed escape
fn escapes(s: &str) -> Vec<usize> {
    let v: Vec<char> = s.chars().collect();
    (0..v.len()).filter(|&k| v[k] == '%' && k + 2 < v.len() && v[k + 1].is_ascii_hexdigit() && v[k + 2].is_ascii_hexdigit()).collect()
}
fn in_escape(esc: &[usize], k: usize) -> bool { esc.iter().any(|&e| k > e && k <= e + 2) }
fn comps(p: &mut Parts, with_auth: bool) -> Vec<&mut String> {
    let Parts { auth, segs, query, frag, .. } = p;
    let mut v: Vec<&mut String> = vec![];
    if with_auth { if let Some(a) = auth.as_mut() { v.push(a) } }
    v.extend(segs.iter_mut());
    if let Some(q) = query.as_mut() { v.push(q) }
    if let Some(f) = frag.as_mut() { v.push(f) }
    v
}
/// apply `f` to one random component among those where it yields a different text
fn on_component(r: &mut Rng, p: &mut Parts, with_auth: bool, f: &mut dyn FnMut(&mut Rng, &str) -> Option<String>) -> bool {
    let mut cs = comps(p, with_auth);
    let start = r.below(cs.len().max(1));
    for d in 0..cs.len() {
        let k = (start + d) % cs.len();
        if let Some(t) = f(r, cs[k].as_str()) { if t != *cs[k] { *cs[k] = t; return true; } }
    }
    false
}
const KINDS: &[&str] = &[
    "scheme-upper", "scheme-mixed-case", "host-case", "pct-hex-case", "pct-encode-unreserved", "pct-decode-unreserved", "default-port",
    "empty-path-vs-slash", "dot-segments", "trailing-slash", "unicode-form", "empty-query-fragment", "letter-case-elsewhere", "userinfo-or-empty-authority",
];
/// the IRI `p` rewritten into an equivalent (or nearly equivalent) but textually different one; None when the
/// rewriting does not apply to `p`
fn variant(r: &mut Rng, p: &Parts, kind: usize) -> Option<Parts> {
    let mut q = p.clone();
    let done = match kind {
        0 => { q.scheme = if p.scheme.chars().any(|c| c.is_ascii_lowercase()) { p.scheme.to_ascii_uppercase() } else { p.scheme.to_ascii_lowercase() }; true }
        1 => { let pos: Vec<usize> = p.scheme.chars().enumerate().filter(|(_, c)| c.is_ascii_alphabetic()).map(|(k, _)| k).collect(); q.scheme = toggle_some(r, &p.scheme, &pos); true }
        2 => match &p.auth { Some(a) => {
                let (st, en) = host_range(a);
                let pos: Vec<usize> = a.char_indices().enumerate().filter(|(_, (bk, c))| *bk >= st && *bk < en && c.is_ascii_alphabetic()).map(|(k, _)| k).collect();
                if pos.is_empty() { false } else { q.auth = Some(toggle_some(r, a, &pos)); true }
            } None => false },
        3 => on_component(r, &mut q, true, &mut |r, s| {
                let esc = escapes(s);
                let pos: Vec<usize> = s.chars().enumerate().filter(|(k, c)| in_escape(&esc, *k) && c.is_ascii_alphabetic()).map(|(k, _)| k).collect();
                if pos.is_empty() { None } else { Some(toggle_some(r, s, &pos)) }
            }),
        4 => on_component(r, &mut q, p.auth.as_deref().map_or(false, |a| !a.contains([':', '[', '@'])), &mut |r, s| {
                let esc = escapes(s);
                let pos: Vec<usize> = s.chars().enumerate().filter(|(k, c)| is_unreserved(*c) && !in_escape(&esc, *k)).map(|(k, _)| k).collect();
                if pos.is_empty() { return None }
                let at = pos[r.below(pos.len())];
                let lower = r.chance(1, 2);
                Some(s.chars().enumerate().map(|(k, c)| if k == at { if lower { format!("%{:02x}", c as u32) } else { format!("%{:02X}", c as u32) } } else { c.to_string() }).collect())
            }),
        5 => on_component(r, &mut q, true, &mut |r, s| {
                let v: Vec<char> = s.chars().collect();
                let esc: Vec<usize> = escapes(s).into_iter().filter(|&e| { let x = u8::from_str_radix(&v[e + 1..e + 3].iter().collect::<String>(), 16).unwrap(); is_unreserved(x as char) && x < 128 }).collect();
                if esc.is_empty() { return None }
                let at = esc[r.below(esc.len())];
                let x = u8::from_str_radix(&v[at + 1..at + 3].iter().collect::<String>(), 16).unwrap() as char;
                Some(v[..at].iter().collect::<String>() + &x.to_string() + &v[at + 3..].iter().collect::<String>())
            }),
        6 => match &p.auth { Some(a) if !a.is_empty() => {
                let (_, en) = host_range(a);
                q.auth = Some(if en < a.len() {
                    let port = &a[en + 1..];
                    match r.below(3) { 0 => a[..en].to_string(), 1 if !port.is_empty() => format!("{}:", &a[..en]), _ => format!("{}:0{}", &a[..en], port) }
                } else { format!("{a}{}", r.pick(&[":80", ":443", ":"])) });
                true
            } _ => false },
        7 => if p.segs.is_empty() { q.segs = vec![String::new()]; q.rooted = true; true }
             else if p.segs.len() == 1 && p.segs[0].is_empty() && p.rooted { q.segs.clear(); q.rooted = p.auth.is_some(); true } else { false },
        8 => {
            if q.segs.is_empty() { q.rooted = q.rooted || r.chance(1, 2); }
            let at = r.below(q.segs.len() + 1);
            match r.below(6) {
                0 => q.segs.push(".".into()),
                1 => { q.segs.push("x".into()); q.segs.push("..".into()); }
                2 => q.segs.insert(at, ".".into()),
                3 => { q.segs.insert(at, "..".into()); q.segs.insert(at, "y".into()); }
                4 => { q.segs.push(".".into()); q.segs.push(String::new()); }
                _ => { let last = q.segs.pop().unwrap_or_default(); q.segs.push(".".into()); q.segs.push(last); }
            }
            true
        }
        9 => { if q.segs.len() > 1 && q.segs.last().map_or(false, |x| x.is_empty()) { q.segs.pop(); } else { if q.segs.is_empty() { q.rooted = true; q.segs.push(String::new()); } q.segs.push(String::new()); } true }
        10 => on_component(r, &mut q, true, &mut |r, s| {
                const FORMS: &[(&str, &str)] = &[("\u{e9}", "e\u{301}"), ("\u{e8}", "e\u{300}"), ("\u{e9}", "\u{c9}"), ("\u{e8}", "\u{c8}")];
                let start = r.below(FORMS.len());
                for d in 0..FORMS.len() {
                    let (a, b) = FORMS[(start + d) % FORMS.len()];
                    if s.contains(b) { return Some(s.replacen(b, a, 1)) }
                    if s.contains(a) { return Some(s.replacen(a, b, 1)) }
                }
                None
            }),
        11 => { if r.chance(1, 2) { q.query = match &p.query { None => Some(String::new()), Some(x) if x.is_empty() => None, Some(x) => Some(x.clone()) }; }
                if q.query == p.query { q.frag = match &p.frag { None => Some(String::new()), Some(x) if x.is_empty() => None, Some(x) => Some(x.clone()) }; }
                if q.frag == p.frag && q.query == p.query { q.query = match &p.query { None => Some(String::new()), Some(x) if x.is_empty() => None, Some(x) => Some(x.clone()) }; }
                true }
        12 => on_component(r, &mut q, false, &mut |r, s| {
                let pos: Vec<usize> = s.chars().enumerate().filter(|(_, c)| c.is_ascii_alphabetic()).map(|(k, _)| k).collect();
                if pos.is_empty() { None } else { let at = pos[r.below(pos.len())]; Some(toggle_some(r, s, &[at])) }
            }),
        _ => match &p.auth {
            None if p.rooted || p.segs.is_empty() => { q.auth = Some(String::new()); q.rooted = true; true }
            None => false,
            Some(a) if a.is_empty() => { q.auth = None; q.rooted = true; true }
            Some(a) => { q.auth = Some(match a.rfind('@') { Some(k) if r.chance(1, 2) => a[k + 1..].to_string(), Some(k) => toggle_some(r, a, &(0..a[..k].chars().count()).collect::<Vec<_>>()), None => format!("@{a}") }); true }
        },
    };
    if done && q.text() != p.text() { Some(q) } else { None }
}
/// some applicable rewriting (starting from a random kind); the kind applied is returned too
fn variant_any(r: &mut Rng, p: &Parts) -> (Parts, usize) {
    let start = r.below(KINDS.len());
    for d in 0..KINDS.len() { let k = (start + d) % KINDS.len(); if let Some(q) = variant(r, p, k) { return (q, k) } }
    unreachable!("the scheme case can always be changed")
}

/// bases of the directed stream: every rewriting kind x every relation below is applied to each of them
const D_BASES: &[&str] = &[
    "http://example.org/a/b", "HTTP://Example.ORG:80/a/b?q#f", "http://example.org/a/b/c/d?q=1#f", "urn:isbn:123", "x-ample:a/b/c",
    "http://u@h:8080/%7Euser/%2fx/b?k=%2F#%2f", "s://h", "s://h/", "http://h/a/./b/../c", "https://\u{e9}.example/caf\u{e9}/x", "file:///etc/hosts", "http://[::a]/x/y", "http://h.example/a%2Fb/%7e\u{e9}/c?x=%3d",
];
const D_MODES: &[&str] = &["same", "sibling", "fragment", "query", "up"];
/// an IRI relativizable against `b` (same IRI, other last segment, other fragment, other query, sibling of the parent)
fn directed_related(b: &Parts, mode: usize) -> Parts {
    let mut p = b.clone();
    match mode {
        0 => {}
        1 => { p.segs.pop(); p.segs.push("zz".into()); p.query = None; p.frag = None; }
        2 => { p.frag = Some("F9".into()); }
        3 => { p.query = Some("Q9".into()); p.frag = None; }
        _ => { if p.segs.len() >= 2 { p.segs.pop(); p.segs.pop(); p.segs.push("up".into()); } else { p.segs.push("child".into()); } p.query = None; p.frag = None; }
    }
    if p.auth.is_some() { p.rooted = true; }
    p
}

// ---------- round 8: deep bases around the limit of parent steps ----------
/// the limits around which the depth of the base is chosen (small values, powers of two +-1, the ends of u8)
const DEEP_PS: &[usize] = &[0, 1, 2, 3, 5, 8, 16, 64, 127, 128, 254, 255];
/// number of inner slashes of the base's path (those a reference may climb over) minus the limit
const DEEP_DELTAS: &[isize] = &[-1, 0, 1, 2, 3, 12];
/// how many leading segments the IRI shares with the base, relative to `delta` = the smallest number that is within reach
const DEEP_KEEPS: &[&str] = &["top", "reach-2", "reach-1", "reach", "reach+1", "sibling", "child"];
const DEEP_TAILS: &[&str] = &["doc", "dir/doc?q#f", "next-segment-exactly", "directory-itself", "next-segment-extended", "directory?query", "directory#fragment"];
fn n_deep() -> usize { DEEP_PS.len() * DEEP_DELTAS.len() * DEEP_KEEPS.len() }
/// (base, IRI, limit P, description)
fn gen_deep(r: &mut Rng, d: usize) -> (Parts, Parts, usize, String) {
    let (pi, di, ki) = (d / (DEEP_DELTAS.len() * DEEP_KEEPS.len()), (d / DEEP_KEEPS.len()) % DEEP_DELTAS.len(), d % DEEP_KEEPS.len());
    let p = DEEP_PS[pi];
    let inner = (p as isize + DEEP_DELTAS[di]).max(0) as usize;
    let m = inner + 1; // segments (rooted: "/s1/../sm" has m slashes, the first is not inner; rootless: m-1 slashes, all inner)
    let scheme = r.pick(&["http", "s", "x-ample"]).to_string();
    let auth = if r.chance(2, 3) { Some(r.pick(&["a", "h:80", "\u{e9}", "", "u@h"]).to_string()) } else { None };
    let rooted = auth.is_some() || r.chance(1, 2);
    let odd = r.chance(1, 2); // only one base in two has unusual segments
    let mut segs: Vec<String> = (0..m).map(|_| {
        if odd && r.chance(1, 12) { r.pick(&["bc", "\u{e9}", "x:y", "%2e", "..x", "\u{65e5}", "b"]).to_string() }
        else if odd && r.chance(1, 60) { String::new() }
        else { r.pick(&["a", "b", "c", "d", "e"]).to_string() }
    }).collect();
    if !rooted && segs[0].is_empty() { segs[0] = "a".into(); }
    if !rooted && segs[0].contains(':') { segs[0] = "a".into(); }
    if r.chance(1, 4) { *segs.last_mut().unwrap() = String::new(); } // base ending in '/'
    if m == 1 && segs[0].is_empty() && !rooted { segs[0] = "a".into(); }
    let query = if r.chance(1, 3) { Some(r.pick(&["q", "q/r/s?t", "a/../b"]).to_string()) } else { None };
    let frag = if r.chance(1, 4) { Some(r.pick(&["f", "f/g/h"]).to_string()) } else { None };
    let b = Parts { scheme, auth, rooted, segs, query, frag };
    // the IRI shares `k` leading segments; it is within reach of P steps iff k >= inner - P
    let reach = inner.saturating_sub(p) as isize;
    let k = match ki { 0 => 0, 1 => reach - 2, 2 => reach - 1, 3 => reach, 4 => reach + 1, 5 => m as isize - 1, _ => m as isize }.clamp(0, m as isize) as usize;
    let mut segs: Vec<String> = b.segs[..k].to_vec();
    let (mut query, mut frag) = (None, None);
    let ti = r.below(DEEP_TAILS.len());
    let next = b.segs.get(k).cloned().unwrap_or_default();
    match ti {
        0 => segs.push("zz".into()),
        1 => { segs.push("zz".into()); segs.push("yy".into()); query = Some("q/r".to_string()); frag = Some("f/g".to_string()); }
        2 => segs.push(if k < m { next } else { "zz".into() }),
        3 => segs.push(String::new()),
        4 => segs.push(format!("{next}x")),
        5 => { segs.push(String::new()); query = Some("q".to_string()); }
        _ => { segs.push(String::new()); frag = Some("f".to_string()); }
    }
    if !b.rooted && segs[0].is_empty() { segs[0] = "zz".into(); }
    let i = Parts { scheme: b.scheme.clone(), auth: b.auth.clone(), rooted: b.rooted, segs, query, frag };
    (b, i, p, format!(" [deep: limit {p} / {inner} inner slashes / shares {k} segments ({}) / tail {}]", DEEP_KEEPS[ki], DEEP_TAILS[ti]))
}

const REFS: &[&str] = &[
    "", "#f", "?q", "?q#f", "x", "x/y", "./x", "../x", "../../x", "../../../x", "../../../../x", "./", "../", ".", "..", "/x", "/x/../y", "/../x", "/./x", "/", "//h/x", "//h/x/../y", "//h",
    "x:y", "./x:y", "s:x/../y", "http://h/./x", "x/./y", "x/../y", "x/..", "x/.", "x//y", "x/../../y", "..x", ".x/", "x?q/../r", "x#f/../g", "\u{e9}/../\u{e8}", "a/b/c/../../../../d", ".../x", "x/...", "./..", "../.", "./../x", "x/./", "/.", "/..", "?", "#",
    "g;x=1/./y", "g;x=1/../y", "../g", "../..", "../../", "../../g", "./g/.", "g/./h", "g/../h",
];

fn lead_parents(r: &str) -> usize { let mut k = 0; let mut s = r; while let Some(t) = s.strip_prefix("../") { k += 1; s = t; } k }

/// the other three entry points of resolution (BaseIri::resolve_into, BaseIriRef::resolve, BaseIriRef::resolve_into)
/// must give what BaseIri::resolve gives; returns a description of the first difference
fn resolve_entry_points_agree(b: &str, rf: &str, expected: &Result<String, ()>) -> Option<String> {
    let base = BaseIri::new(b.to_string()).ok()?;
    let mut buf = String::from("stale content ");
    buf.clear();
    let r1: Result<String, ()> = base.resolve_into(rf, &mut buf).map(|x| x.as_str().to_string()).map_err(|_| ());
    if &r1 != expected { return Some(format!("BaseIri::resolve_into gives {r1:?} where BaseIri::resolve gives {expected:?}")); }
    let bref = BaseIriRef::new(b.to_string()).ok()?;
    let r2: Result<String, ()> = bref.resolve(rf).map(|x| x.as_str().to_string()).map_err(|_| ());
    if &r2 != expected { return Some(format!("BaseIriRef::resolve gives {r2:?} where BaseIri::resolve gives {expected:?}")); }
    let mut buf2 = String::new();
    let r3: Result<String, ()> = bref.resolve_into(rf, &mut buf2).map(|x| x.as_str().to_string()).map_err(|_| ());
    if &r3 != expected { return Some(format!("BaseIriRef::resolve_into gives {r3:?} where BaseIri::resolve gives {expected:?}")); }
    // ---- round 4: the same through the other constructions of a base and the other container types (&str routes)
    let more: Vec<(&str, Result<String, ()>)> = vec![
        ("BaseIri<&str>::resolve", base.as_ref().resolve(rf).map(|x| x.as_str().to_string()).map_err(|_| ())),
        ("BaseIri<Box<str>>::resolve", BaseIri::new(Box::<str>::from(b)).ok()?.resolve(rf).map(|x| x.as_str().to_string()).map_err(|_| ())),
        ("BaseIri<Arc<str>>::resolve", BaseIri::new(std::sync::Arc::<str>::from(b)).ok()?.resolve(rf).map(|x| x.as_str().to_string()).map_err(|_| ())),
        ("Iri::to_base().resolve", match Iri::new(b.to_string()) { Ok(w) => w.to_base().resolve(rf).map(|x| x.as_str().to_string()).map_err(|_| ()), Err(_) => expected.clone() }),
        ("Iri::as_base().resolve", match Iri::new(b) { Ok(w) => w.as_base().resolve(rf).map(|x| x.as_str().to_string()).map_err(|_| ()), Err(_) => expected.clone() }),
        ("BaseIriRef::to_base_iri().resolve", BaseIriRef::new(b.to_string()).ok()?.to_base_iri().resolve(rf).map(|x| x.as_str().to_string()).map_err(|_| ())),
        ("IriRef::to_base().resolve", match IriRef::new(b.to_string()) { Ok(w) => w.to_base().resolve(rf).map(|x| x.as_str().to_string()).map_err(|_| ()), Err(_) => expected.clone() }),
        ("IriRef::as_base().resolve_into", match IriRef::new(b) { Ok(w) => { let mut bf = String::new(); w.as_base().resolve_into(rf, &mut bf).map(|x| x.as_str().to_string()).map_err(|_| ()) } Err(_) => expected.clone() }),
        ("BaseIri::clone().resolve", base.clone().resolve(rf).map(|x| x.as_str().to_string()).map_err(|_| ())),
    ];
    for (name, got) in more { if &got != expected { return Some(format!("{name} gives {got:?} where BaseIri::resolve gives {expected:?}")); } }
    // ---- the typed routes (impl Resolvable for U: IsIriRef: output_abs / output_rel unwrap the result, so an error is a panic)
    if let Ok(tr) = IriRef::new(rf) {
        let typed: Vec<(&str, Result<String, ()>)> = vec![
            ("BaseIri::resolve(IriRef)", catch_unwind(AssertUnwindSafe(|| base.resolve(tr).as_str().to_string())).map_err(|_| ())),
            ("BaseIri::resolve_into(IriRef)", catch_unwind(AssertUnwindSafe(|| { let mut bf = String::new(); base.resolve_into(tr, &mut bf).as_str().to_string() })).map_err(|_| ())),
            ("BaseIriRef::resolve(IriRef)", catch_unwind(AssertUnwindSafe(|| bref.resolve(tr).as_str().to_string())).map_err(|_| ())),
            ("BaseIriRef::resolve_into(IriRef)", catch_unwind(AssertUnwindSafe(|| { let mut bf = String::new(); bref.resolve_into(tr, &mut bf).as_str().to_string() })).map_err(|_| ())),
            ("Iri::resolve(IriRef)", match Iri::new(b) { Ok(wb) => catch_unwind(AssertUnwindSafe(|| wb.resolve(tr).as_str().to_string())).map_err(|_| ()), Err(_) => expected.clone() }),
            ("IriRef::resolve(IriRef)", match IriRef::new(b) { Ok(wb) => catch_unwind(AssertUnwindSafe(|| wb.resolve(tr).as_str().to_string())).map_err(|_| ()), Err(_) => expected.clone() }),
            ("BaseIri::resolve(IriRef<Cow>)", catch_unwind(AssertUnwindSafe(|| { let c: IriRef<Cow<str>> = IriRef::new_unchecked(Cow::Owned(rf.to_string())); base.resolve(c.as_ref()).as_str().to_string() })).map_err(|_| ())),
            ("BaseIri::resolve(Iri) of an absolute reference", match Iri::new(rf) { Ok(ti) => catch_unwind(AssertUnwindSafe(|| base.resolve(ti).as_str().to_string())).map_err(|_| ()), Err(_) => expected.clone() }),
        ];
        for (name, got) in typed { if &got != expected { return Some(format!("{name} gives {got:?} (Err = panic) where BaseIri::resolve(&str) gives {expected:?}")); } }
    }
    None
}

/// Relativizer over the container type T, built from `base`: base(), relativize every IRI of `iris`, then the same
/// through a clone in the opposite order (a Relativizer is reused for many IRIs; nothing may depend on the history)
///
/// Round 8: VALUES WITH A HISTORY. A Relativizer built for each base of `prevs` (other shapes: no authority, empty
/// path, deep path, query, ...; other limits) is re-targeted in place with Clone::clone_from from the fresh one and
/// must then answer exactly like it; the fresh one's clone is re-targeted to the other base (must answer like a fresh
/// Relativizer for that base, whose answers are checked against the resolve-back oracle), then back again from a value
/// that itself has a history, then from itself.
fn run_rel<'x, T: Deref<Target = str> + Clone>(base: BaseIri<T>, n: u8, iris: &[&str], prevs: &[&'x str], mk: &dyn Fn(&'x str) -> Option<BaseIri<T>>) -> Result<(String, Vec<Option<String>>), String> {
    catch_unwind(AssertUnwindSafe(|| {
        let rel = Relativizer::new(base, n);
        let bt = rel.base().as_str().to_string();
        let one = |rl: &Relativizer<T>, i: &str| catch_unwind(AssertUnwindSafe(|| rl.relativize(Iri::new_unchecked(i)).map(|x| x.as_str().to_string()))).map_err(|_| ());
        let fwd: Vec<Result<Option<String>, ()>> = iris.iter().map(|i| one(&rel, i)).collect();
        let cl = rel.clone();
        let mut bwd: Vec<Result<Option<String>, ()>> = iris.iter().rev().map(|i| one(&cl, i)).collect();
        bwd.reverse();
        if fwd != bwd { return Err(format!("the clone of the Relativizer, asked in the opposite order, gives {bwd:?} where the original gives {fwd:?}")) }
        let again: Vec<Result<Option<String>, ()>> = iris.iter().map(|i| one(&rel, i)).collect();
        if fwd != again { return Err(format!("asking the same Relativizer again gives {again:?} after {fwd:?}")) }
        if cl.base().as_str() != bt { return Err("base() of the clone differs".to_string()) }
        if fwd.iter().any(|x| x.is_err()) { return Err(format!("relativize panicked: {fwd:?}")) }
        for (k, pb) in prevs.iter().enumerate() {
            let Some(pbase) = mk(pb) else { continue };
            let pn = [0u8, 255, n, 3][k % 4];
            let oracle_base = BaseIri::new(pb.to_string()).map_err(|_| format!("<{pb}> is no base"))?;
            let prev = Relativizer::new(pbase, pn);
            let prev_fwd: Vec<Result<Option<String>, ()>> = iris.iter().map(|i| one(&prev, i)).collect();
            for (i, x) in iris.iter().zip(&prev_fwd) {
                match x {
                    Err(_) => return Err(format!("relativize of <{i}> against <{pb}> (parents {pn}) panicked")),
                    Ok(Some(rf)) => {
                        let back = oracle_base.resolve(rf.as_str()).map(|y| y.as_str().to_string()).map_err(|_| ());
                        if back.as_deref() != Ok(*i) || lead_parents(rf) > pn as usize { return Err(format!("base <{pb}> iri <{i}> parents {pn}: relativize returned {rf:?}, which resolves to {back:?}")) }
                    }
                    Ok(None) => {}
                }
            }
            // a value that stood for another base, re-targeted in place
            let mut h = prev.clone();
            h.clone_from(&rel);
            let a: Vec<Result<Option<String>, ()>> = iris.iter().map(|i| one(&h, i)).collect();
            if a != fwd || h.base().as_str() != bt { return Err(format!("a Relativizer built for <{pb}> (parents {pn}), then re-targeted with clone_from(&fresh), has base <{}> and gives {a:?} where the fresh one gives {fwd:?}", h.base().as_str())) }
            // there ...
            let mut h2 = rel.clone();
            h2.clone_from(&prev);
            let mid: Vec<Result<Option<String>, ()>> = iris.iter().map(|i| one(&h2, i)).collect();
            if mid != prev_fwd || h2.base().as_str() != *pb { return Err(format!("a clone of the Relativizer, re-targeted with clone_from to one built for <{pb}> (parents {pn}), has base <{}> and gives {mid:?} where a fresh one for that base gives {prev_fwd:?}", h2.base().as_str())) }
            // ... and back again, from a value that has a history itself; then from itself
            h2.clone_from(&h);
            let back: Vec<Result<Option<String>, ()>> = iris.iter().map(|i| one(&h2, i)).collect();
            if back != fwd || h2.base().as_str() != bt { return Err(format!("a Relativizer re-targeted to <{pb}> (parents {pn}) and back with clone_from has base <{}> and gives {back:?} where the fresh one gives {fwd:?}", h2.base().as_str())) }
            let same = h2.clone();
            h2.clone_from(&same);
            let back2: Vec<Result<Option<String>, ()>> = iris.iter().map(|i| one(&h2, i)).collect();
            if back2 != fwd { return Err(format!("clone_from(&own clone) changes the answers: {back2:?} after {fwd:?}")) }
            // the sources are untouched
            let src: Vec<Result<Option<String>, ()>> = iris.iter().map(|i| one(&rel, i)).collect();
            let psrc: Vec<Result<Option<String>, ()>> = iris.iter().map(|i| one(&prev, i)).collect();
            if src != fwd || psrc != prev_fwd { return Err(format!("being the source of clone_from changed a Relativizer (other base <{pb}>)")) }
        }
        Ok((bt, fwd.into_iter().map(|x| x.unwrap()).collect()))
    })).unwrap_or_else(|_| Err("Relativizer::new / base() panicked".to_string()))
}
/// every construction of a Relativizer must behave like Relativizer<&str> built from BaseIri::as_ref
fn relativizer_entry_points_agree<'x>(b: &'x str, n: u8, iris: &[&str], prevs: &[&'x str], expected: &[Option<String>]) -> Option<String> {
    let exp: Result<(String, Vec<Option<String>>), String> = Ok((b.to_string(), expected.to_vec()));
    // `prevs` = the fixed shapes (rotated by the caller) followed by the IRI of the case: the c-th construction is given
    // the (3c)-th shape, and every third one the IRI as well
    let (pool, last) = prevs.split_at(prevs.len().saturating_sub(1));
    let pv: Vec<Vec<&'x str>> = (0..10).map(|c| { if pool.is_empty() { return vec![] } let mut v = vec![pool[(3 * c) % pool.len()]]; if c % 3 == 0 { v.push(last[0]); } v }).collect();
    let runs: Vec<(&str, Result<(String, Vec<Option<String>>), String>)> = vec![
        ("Relativizer<String>", run_rel(BaseIri::new(b.to_string()).ok()?, n, iris, &pv[0], &|s| BaseIri::new(s.to_string()).ok())),
        ("Relativizer<Box<str>>", run_rel(BaseIri::new(Box::<str>::from(b)).ok()?, n, iris, &pv[1], &|s| BaseIri::new(Box::<str>::from(s)).ok())),
        ("Relativizer<Rc<str>>", run_rel(BaseIri::new(std::rc::Rc::<str>::from(b)).ok()?, n, iris, &pv[2], &|s| BaseIri::new(std::rc::Rc::<str>::from(s)).ok())),
        ("Relativizer<Arc<str>>", run_rel(BaseIri::new(std::sync::Arc::<str>::from(b)).ok()?, n, iris, &pv[3], &|s| BaseIri::new(std::sync::Arc::<str>::from(s)).ok())),
        ("Relativizer<Cow<str>> (borrowed)", run_rel(BaseIri::new(Cow::Borrowed(b)).ok()?, n, iris, &pv[4], &|s| BaseIri::new(Cow::<str>::Owned(s.to_string())).ok())),
        ("Relativizer<Cow<str>> (owned)", run_rel(BaseIri::new(Cow::<str>::Owned(b.to_string())).ok()?, n, iris, &pv[5], &|s| BaseIri::new(Cow::Borrowed(s)).ok())),
        ("Relativizer<&str> from Iri::as_base", match Iri::new(b) { Ok(w) => run_rel(w.as_base(), n, iris, &pv[6], &|s| BaseIri::new(s).ok()), Err(_) => exp.clone() }),
        ("Relativizer<String> from Iri::to_base", match Iri::new(b.to_string()) { Ok(w) => run_rel(w.to_base(), n, iris, &pv[7], &|s| Iri::new(s.to_string()).ok().map(|x| x.to_base())), Err(_) => exp.clone() }),
        ("Relativizer<String> from BaseIriRef::to_base_iri", run_rel(BaseIriRef::new(b.to_string()).ok()?.to_base_iri(), n, iris, &pv[8], &|s| BaseIriRef::new(s.to_string()).ok().map(|x| x.to_base_iri()))),
        ("Relativizer<&str> from a cloned BaseIri", run_rel(BaseIri::new(b).ok()?.clone(), n, iris, &pv[9], &|s| BaseIri::new(s).ok())),
    ];
    for (name, got) in runs { if got != exp { return Some(format!("{name} gives {got:?} where Relativizer<&str> gives {exp:?}")); } }
    None
}

struct Verdict { code: u8, out: String, back_ok: bool, back: String }
impl Verdict {
    fn desc(&self, n: u8) -> String { format!("n={n}:{}", match self.code { 0 => "None".to_string(), 2 => "PANIC".to_string(), _ => format!("{:?}->{}", self.out, if self.back_ok { self.back.clone() } else { "ERR".into() }) }) }
    /// `itext` = the text of the IRI bound to the Coq variable `i`: a resolved text equal to it is printed as the variable
    fn coq(&self, b: &str, i: &str, itext: &str, n: u8) -> String { let lp = lead_parents(&self.out); format!("case_ok {b} {i} {n} {} {} {} {}", self.code, if lp >= 4 { format!("(ups {lp} {})", coq_bytes(self.out[3 * lp..].as_bytes())) } else { coq_bytes(self.out.as_bytes()) }, coq_bool(self.back_ok), if self.back_ok && self.back == itext { i.to_string() } else { coq_bytes(self.back.as_bytes()) }) }
}
/// ---- the property oracle ---- for one (base, IRI, parents) and the observed result of relativize
fn judge(sum: &mut Summary, key: String, base: &BaseIri<String>, b: &str, i: &str, n: u8, got: &Result<Option<String>, ()>) -> Verdict {
    let ib = BaseIri::new(i.to_string()).unwrap();
    let same_path = base.scheme() == ib.scheme() && base.authority() == ib.authority() && base.path() == ib.path();
    let same_upto_frag = same_path && base.query() == ib.query();
    let (code, out, back_ok, back): (u8, String, bool, String) = match got {
        Err(_) => (2, String::new(), false, String::new()),
        Ok(None) => (0, String::new(), false, String::new()),
        Ok(Some(rf)) => match base.resolve(rf.as_str()) {
            Ok(x) => (1, rf.clone(), true, x.as_str().to_string()),
            Err(_) => (1, rf.clone(), false, String::new()),
        },
    };
    let fail = |sum: &mut Summary, what: String| {
        sum.oracle_failures.push((key.clone(), format!("base <{b}> iri <{i}> parents {n}: {what}")));
    };
    if code == 1 {
        let exp: Result<String, ()> = if back_ok { Ok(back.clone()) } else { Err(()) };
        if let Ok(Some(d)) = catch_unwind(AssertUnwindSafe(|| resolve_entry_points_agree(b, &out, &exp))) { fail(sum, format!("relativize returned {out:?}; resolving it back: {d}")); }
    }
    match code {
        2 => fail(sum, "relativize panicked".into()),
        1 => {
            if !back_ok { fail(sum, format!("relativize returned {out:?}, which BaseIri::resolve rejects")); }
            else if back != i { fail(sum, format!("relativize returned {out:?}, which resolves to <{back}>, not to the IRI")); }
            if lead_parents(&out) > n as usize { fail(sum, format!("relativize returned {out:?} with more than {n} '../'")); }
            // the reference is not an absolute IRI nor a network-path reference (it really is relative to the base)
            if out.starts_with("//") || IriRef::new(out.as_str()).is_err() || Iri::new(out.as_str()).is_ok() { fail(sum, format!("relativize returned {out:?}, which is not a relative reference without authority")); }
        }
        _ => {
            if same_path {
                // "always relativised": a reference that is a proper suffix of the IRI (optionally after "./"),
                // not a network-path reference, resolves to the IRI, yet nothing was returned
                let mut cands: Vec<String> = vec![];
                for k in 1..=i.len() { if i.is_char_boundary(k) { cands.push(i[k..].to_string()); cands.push(format!("./{}", &i[k..])); } }
                cands.push(".".into());
                let witness = cands.iter().find(|c| !c.starts_with("//") && lead_parents(c) == 0 && matches!(base.resolve(c.as_str()), Ok(x) if x.as_str() == i));
                if same_upto_frag || witness.is_some() {
                    fail(sum, format!("IRI differs from the base in query/fragment only but relativize returned None{}", witness.map(|w| format!(" (e.g. {w:?} resolves to it)")).unwrap_or_default()));
                } else if let Some(w) = cands.iter().find(|c| c.starts_with("//") && matches!(base.resolve(c.as_str()), Ok(x) if x.as_str() == i)) {
                    // the property says "always relativised"; the only reference that resolves to the IRI is a
                    // network-path one, which relativize never produces: a (listed) finding, not a wrong answer
                    fail(sum, format!("no-query corner: IRI differs from the base only by dropping the query, relativize returned None although the network-path reference {w:?} resolves to it"));
                } else { sum.bump("same-path-but-no-reference-exists"); }
            }
        }
    }
    Verdict { code, out, back_ok, back }
}

fn main() {
    let a = parse_args();
    let mut sum = Summary::default();
    sum.rule = "case = one (base, IRI) pair x parents limit 0..4, 255 and one random limit in 5..254 (+ the base itself and the base with another fragment asked to the same Relativizer at limits 0 and 255; + 2 (base, reference) pairs for the resolver models); \
the first cases are hand-written witnesses; then a DIRECTED stream: 13 bases x 14 rewritings into an equivalent-but-not-identical text (scheme case, host case, percent-encoding case, encoded/decoded unreserved characters, default port, empty path vs '/', dot segments, trailing slash, Unicode form, empty query/fragment, letter case elsewhere, userinfo / empty authority) x 5 relations (same IRI, sibling, other fragment, other query, parent's sibling), the rewriting applied to the IRI or to the base; the others are generated: \
base = scheme x optional authority (ASCII, with port/userinfo, multi-byte, empty, IP literal, mixed case, escapes) x rooted/rootless/empty path of 0..5 (one in ten: 6..12) segments from a vocabulary with empty, dot, colon, escaped and multi-byte segments x optional query/fragment containing '/' and '?', one base in four rewritten as above; \
IRI = 45% derived from the base (same scheme/authority, a prefix of its segments, then other segments; or same path and other query/fragment; sometimes the authority dropped/added/extended), 15% a rewriting of the base, 25% a rewriting of a derived IRI, 15% independent; \
then a DEEP stream: 12 limits P (0, 1, 2, 3, 5, 8, 16, 64, 127, 128, 254, 255) x bases with P-1, P, P+1, P+2, P+3, P+12 inner slashes (with / without authority, rootless, trailing slash, query / fragment containing slashes, some empty, multi-byte, colon segments) x IRIs sharing 0, reach-2, reach-1, reach, reach+1, all but one, all segments (reach = the fewest shared segments that P steps allow) x 7 tails (document, deeper document with query and fragment, the next segment exactly, the directory itself, the next segment extended, directory + query, directory + fragment), asked at the limits P-1, P, P+1, 0, 254, 255 and one random; \
every Relativizer of every container type is also asked AFTER A HISTORY: a value built for another base (10 shapes without / with authority, empty / deep path, query, fragment; and the IRI of the case as a base; other limits) re-targeted with Clone::clone_from, a clone re-targeted there and back, from a value with a history, from its own clone -- each must answer like a fresh one (and the fresh one for the other base is checked by resolving back); one such history per case is also evaluated by the model (Deep.v: state of a history); \
non-trivial = IRI and base share scheme and authority text (so the path/query branches of relativize are exercised); distinct = distinct (base, IRI)".into();
    let base_rng = Rng::new(a.seed);
    // `ups k t` only abbreviates the observed text "../" x k followed by t in the case files
    let header = "From Sophia.C17 Require Import Model Deep.\nFixpoint ups (k : nat) (t : list N) : list N := match k with O => t | S k' => 46 :: 46 :: 47 :: ups k' t end.\n".to_string();
    let mut cases = vec![];
    let mut seen = std::collections::HashSet::new();
    let prev_hook = std::panic::take_hook();
    if std::env::var("C17_LOUD").is_err() { std::panic::set_hook(Box::new(|_| {})); }
    let range: Vec<usize> = match a.only { Some(i) => vec![i], None => (0..a.n).collect() };
    let n_directed = D_BASES.len() * KINDS.len() * D_MODES.len();
    // round 8: FIXED2 and the deep stream stand between the directed and the generated stream
    let n_deep = FIXED2.len() + n_deep();
    let deep_from = FIXED.len() + n_directed;
    for idx in range {
        // the generated stream keeps the forks it had before the deep stream was inserted in front of it
        let mut r = base_rng.fork(if idx >= deep_from + n_deep { (idx - n_deep) as u64 } else { idx as u64 });
        let mut origin = String::new();
        let mut deep_limit: Option<usize> = None;
        let (b, i) = if idx < FIXED.len() { (FIXED[idx].0.to_string(), FIXED[idx].1.to_string()) } else if idx < FIXED.len() + n_directed {
            // ---- directed stream ----
            let d = idx - FIXED.len();
            let (bi, kind, mode) = (d / (KINDS.len() * D_MODES.len()), (d / D_MODES.len()) % KINDS.len(), d % D_MODES.len());
            let bp = parse_parts(D_BASES[bi]);
            let rel = directed_related(&bp, mode);
            let swap = (bi + kind + mode) % 3 == 0;
            let Some(v) = variant(&mut r, if swap { &bp } else { &rel }, kind) else { sum.bump("directed:rewriting-not-applicable"); continue };
            sum.bump(&format!("directed:{}", KINDS[kind]));
            origin = format!(" [directed: {} / {}{}]", KINDS[kind], D_MODES[mode], if swap { " / base rewritten" } else { "" });
            if swap { (v.text(), rel.text()) } else { (bp.text(), v.text()) }
        } else if idx < deep_from + FIXED2.len() {
            (FIXED2[idx - deep_from].0.to_string(), FIXED2[idx - deep_from].1.to_string())
        } else if idx < deep_from + n_deep {
            // ---- deep stream ----
            let (bp, ip, p, what) = gen_deep(&mut r, idx - deep_from - FIXED2.len());
            origin = what;
            deep_limit = Some(p);
            sum.bump(&format!("deep:limit={p}"));
            (bp.text(), ip.text())
        } else {
            let mut bp = gen_parts(&mut r);
            if r.chance(1, 4) { let (v, k) = variant_any(&mut r, &bp); bp = v; sum.bump(&format!("base-rewritten:{}", KINDS[k])); }
            let sel = r.below(20);
            let mut ip = if sel < 9 { gen_related(&mut r, &bp) } else if sel < 12 { bp.clone() } else if sel < 17 { gen_related(&mut r, &bp) } else { gen_parts(&mut r) };
            if (9..17).contains(&sel) {
                let twice = r.chance(1, 3);
                for _ in 0..(if twice { 2 } else { 1 }) { let (v, k) = variant_any(&mut r, &ip); ip = v; sum.bump(&format!("iri-rewritten:{}", KINDS[k])); origin.push_str(&format!(" [{}]", KINDS[k])); }
            }
            (bp.text(), ip.text())
        };
        let Ok(base) = BaseIri::new(b.clone()) else { sum.bump("skipped:invalid-base"); continue };
        let Ok(iri) = Iri::new(i.clone()) else { sum.bump("skipped:invalid-iri"); continue };
        if BaseIri::new(i.clone()).is_err() { sum.bump("skipped:invalid-iri"); continue }
        let ib = BaseIri::new(i.clone()).unwrap();
        let same_path = base.scheme() == ib.scheme() && base.authority() == ib.authority() && base.path() == ib.path();
        let shares_auth = base.scheme() == ib.scheme() && base.authority() == ib.authority();
        let equivalent_root = !shares_auth && base.scheme().eq_ignore_ascii_case(ib.scheme()) && base.authority().map(|x| x.to_ascii_lowercase()) == ib.authority().map(|x| x.to_ascii_lowercase());
        let mut body = vec![];
        let mut descs = vec![];
        let cb = "b".to_string();
        let ci = "i".to_string();
        // the components BaseIri reports for the base (Relativizer::new reads scheme, authority and path); Borrow / Deref impls
        {
            let bref = BaseIriRef::new(b.as_str()).unwrap();
            let s1: &str = base.borrow();
            let s2: &str = bref.borrow();
            if s1 != b || s2 != b || base.as_str() != b || bref.as_str() != b { sum.oracle_failures.push((format!("{idx}/components"), format!("base <{b}>: Borrow<str> / as_str of BaseIri or BaseIriRef differ from the text"))); }
            if !bref.is_absolute() || bref.scheme() != Some(base.scheme()) || bref.authority() != base.authority() || bref.path() != base.path() || bref.query() != base.query() || bref.fragment() != base.fragment() {
                sum.oracle_failures.push((format!("{idx}/components"), format!("base <{b}>: the components reported by BaseIriRef differ from those reported by BaseIri")));
            }
            let mut rec = format!("{}:", base.scheme());
            if let Some(x) = base.authority() { rec.push_str("//"); rec.push_str(x); }
            rec.push_str(base.path());
            if let Some(x) = base.query() { rec.push('?'); rec.push_str(x); }
            if let Some(x) = base.fragment() { rec.push('#'); rec.push_str(x); }
            if rec != b { sum.oracle_failures.push((format!("{idx}/components"), format!("base <{b}>: scheme/authority/path/query/fragment recompose to <{rec}>"))); }
            let o = |x: Option<&str>| coq_opt(x.map(|y| coq_bytes(y.as_bytes())));
            body.push(format!("components_ok b {} {} {} {} {}", coq_bytes(base.scheme().as_bytes()), o(base.authority()), coq_bytes(base.path().as_bytes()), o(base.query()), o(base.fragment())));
        }
        // secondary IRIs asked to the same Relativizer: the base itself, and the base with another fragment
        let b_frag = format!("{}#zz", b.split('#').next().unwrap());
        let extra_n = r.range(5, 254) as u8;
        let mut ns: Vec<u8> = vec![0u8, 1, 2, 3, 4, 255, extra_n];
        if let Some(p) = deep_limit {
            // the limits next to the depth of the base, and the ends of the range
            ns = vec![];
            for n in [p as isize - 1, p as isize, p as isize + 1, 0, 254, 255, extra_n as isize] { if (0..=255).contains(&n) && !ns.contains(&(n as u8)) { ns.push(n as u8); } }
        }
        for n in ns {
            let iris: [&str; 3] = [i.as_str(), b.as_str(), b_frag.as_str()];
            let got: Vec<Result<Option<String>, ()>> = match catch_unwind(AssertUnwindSafe(|| Relativizer::new(base.as_ref(), n))) {
                Ok(rel) => iris.iter().map(|x| catch_unwind(AssertUnwindSafe(|| rel.relativize(Iri::new_unchecked(*x)).map(|y| y.as_str().to_string()))).map_err(|_| ())).collect(),
                Err(_) => vec![Err(()), Err(()), Err(())],
            };
            let _ = &iri;
            let v = judge(&mut sum, format!("{idx}/n={n}"), &base, &b, &i, n, &got[0]);
            let (code, out) = (v.code, v.out.clone());
            // every other construction / container type of the Relativizer
            if got.iter().all(|x| x.is_ok()) {
                let exp: Vec<Option<String>> = got.iter().map(|x| x.clone().unwrap()).collect();
                // the bases a value stood for before: fixed shapes, and the IRI of the case itself
                // (each construction takes one of the fixed shapes, rotating with the case, the limit and the construction)
                let mut prevs: Vec<&str> = PREV_BASES.to_vec();
                prevs.rotate_left((idx + n as usize) % PREV_BASES.len());
                prevs.push(i.as_str());
                // histories at the ends of the range and at the random limit (deep stream: at the limit the depth was chosen for, and at 255)
                if !deep_limit.map_or(n == 0 || n == 255 || n == extra_n, |p| n as usize == p || n == 255) { prevs.clear(); }
                if let Some(d) = relativizer_entry_points_agree(&b, n, &iris, &prevs, &exp) { sum.oracle_failures.push((format!("{idx}/n={n}/entry"), format!("base <{b}> iris {iris:?} parents {n}: {d}"))); }
            }
            // equivalent but not identical scheme/authority: any reference would resolve to another text
            if equivalent_root && code == 1 { sum.bump("equivalent-root:some(!)"); } else if equivalent_root { sum.bump("equivalent-root:none"); }
            if let Some(p) = deep_limit {
                let lp = lead_parents(&out);
                sum.bump(&format!("deep:n={}:{}", if (n as usize) < p { "below-limit" } else if n as usize == p { "limit" } else { "above-limit" }, ["none", "some", "panic"][code as usize]));
                if code == 1 && lp == n as usize && lp > 0 { sum.bump(&format!("deep:reference-uses-all-the-steps:{}", if lp >= 253 { "253..255" } else if lp >= 64 { "64..252" } else if lp > 4 { "5..63" } else { "1..4" })); }
            }
            else { sum.bump(&format!("n={}:{}", if n == extra_n && n > 4 && n != 255 { "5..254".to_string() } else { n.to_string() }, ["none", "some", "panic"][code as usize])); }
            if code == 1 {
                sum.bump(if out.starts_with("../") { "ref:../" } else if out.starts_with("./") { "ref:./" } else if out.starts_with('/') { "ref:/abs" } else if out.starts_with('?') { "ref:?query" } else if out.is_empty() || out.starts_with('#') { "ref:#frag-or-empty" } else { "ref:path" });
                if lead_parents(&out) > 4 { sum.bump("ref:more-than-4-parents"); }
            }
            descs.push(v.desc(n));
            body.push(format!("{} && shares_root_ok b i {code} && reach_ok b i {n} {code}", v.coq(&cb, &ci, &i, n)));
            sum.evaluations += 1;
            // ---- a value with a history, against the property oracle and against the model (state of a history) ----
            if n == extra_n && deep_limit.is_none() {
                let pb = PREV_BASES[idx % PREV_BASES.len()];
                let pn = [0u8, 255, 2, n][(idx / PREV_BASES.len()) % 4];
                let long = idx % 2 == 1;
                let got_h: Result<Option<String>, ()> = catch_unwind(AssertUnwindSafe(|| {
                    let fresh = Relativizer::new(base.clone(), n);
                    let mut h = Relativizer::new(BaseIri::new(pb.to_string()).unwrap(), pn);
                    h.clone_from(&fresh);
                    if long { let mut g = fresh.clone(); g.clone_from(&Relativizer::new(BaseIri::new(pb.to_string()).unwrap(), pn)); g.clone_from(&h.clone()); h = g; }
                    h.relativize(Iri::new_unchecked(i.as_str())).map(|y| y.as_str().to_string())
                })).map_err(|_| ());
                // the same answer as the fresh one has been judged above; another answer is judged on its own
                let (hcode, hout) = if got_h == got[0] { (code, out.clone()) } else { let w = judge(&mut sum, format!("{idx}/n={n}/history"), &base, &b, &i, n, &got_h); (w.code, w.out) };
                if got_h != got[0] { sum.oracle_failures.push((format!("{idx}/n={n}/history"), format!("base <{b}> iri <{i}> parents {n}: a Relativizer<String> built for <{pb}> (parents {pn}) and re-targeted with clone_from{} gives {got_h:?} where a fresh one gives {:?}", if long { " (there and back, through clones)" } else { "" }, got[0]))); }
                let hn = format!("(HNew b {n})");
                let hp = format!("(HNew {} {pn})", coq_bytes(pb.as_bytes()));
                let h1 = format!("(HCloneFrom {hp} {hn})");
                let hist = if long { format!("(HCloneFrom (HCloneFrom (HClone {hn}) {hp}) (HClone {h1}))") } else { h1 };
                body.push(format!("history_ok {hist} i {hcode} {}", coq_bytes(hout.as_bytes())));
                sum.bump(&format!("history:{}:{}", if long { "clone,clone_from,clone_from(clone)" } else { "clone_from" }, ["none", "some", "panic"][hcode as usize]));
                sum.evaluations += 1;
            }
            // the base itself / the base with another fragment: always relativised (to "" / "#..." ), at every limit;
            // compared with the model at the limits 0 and 255
            for (k, other) in [(1usize, &b), (2usize, &b_frag)] {
                let w = judge(&mut sum, format!("{idx}/n={n}/{}", ["", "self", "fragment"][k]), &base, &b, other, n, &got[k]);
                sum.bump(&format!("{}:{}", ["", "self", "other-fragment"][k], ["none(!)", "some", "panic"][w.code as usize]));
                if n == 0 || n == 255 { body.push(w.coq(&cb, ["", "b", "bf"][k], other, n)); sum.evaluations += 1; }
            }
        }
        // ---- (base, reference) pairs: the resolver models against BaseIri::resolve ----
        for _ in 0..2 {
            let rf = if r.chance(1, 4) { let p = gen_parts(&mut r); let t = p.text(); if r.chance(1, 2) { t } else { t[p.scheme.len() + 1..].to_string() } } else { r.pick(REFS).to_string() };
            let res = base.resolve(rf.as_str());
            let (ok, out) = match &res { Ok(x) => (true, x.as_str().to_string()), Err(_) => (false, String::new()) };
            // the model does not validate code points: keep the error cases it models (leading ':' / "//" path) only
            if !ok && !rf.starts_with(':') && !format!("{:?}", res).contains("TwoSlashes") { sum.bump("resolve:other-error-skipped"); continue }
            {
                let exp: Result<String, ()> = if ok { Ok(out.clone()) } else { Err(()) };
                if let Ok(Some(d)) = catch_unwind(AssertUnwindSafe(|| resolve_entry_points_agree(&b, &rf, &exp))) { sum.oracle_failures.push((format!("{idx}/resolve"), format!("base <{b}> reference {rf:?}: the entry points of resolution disagree: {d}"))); }
            }
            sum.bump(if ok { "resolve:ok" } else { "resolve:error" });
            body.push(format!("resolve_ok b {} {} {}", coq_bytes(rf.as_bytes()), coq_bool(ok), coq_bytes(out.as_bytes())));
            body.push(format!("resolve_rfc_ok b {} {} {}", coq_bytes(rf.as_bytes()), coq_bool(ok), coq_bytes(out.as_bytes())));
            sum.evaluations += 1;
        }
        let text = format!("base=<{b}> iri=<{i}>{origin}");
        if a.only.is_some() { println!("CASE {idx}: {text} => {}", descs.join(" ")); }
        if shares_auth { sum.bump("shares-scheme-authority"); }
        if equivalent_root { sum.bump("scheme-authority-equal-up-to-case-only"); }
        if same_path { sum.bump("same-path"); }
        if !b.is_ascii() || !i.is_ascii() { sum.bump("non-ascii"); }
        if seen.insert(format!("base=<{b}> iri=<{i}>")) && shares_auth { sum.distinct_nontrivial += 1; }
        if sum.samples.len() < 6 && idx >= deep_from + n_deep && shares_auth { sum.samples.push(format!("case {idx}: {text} => {}", descs.join(" "))); }
        if deep_limit.is_some() { sum.bump(if shares_auth { "deep:cases" } else { "deep:cases-not-sharing-root(!)" }); }
        cases.push((idx, format!("let b := {} in let i := {} in let bf := {} in\n  {}", coq_bytes(b.as_bytes()), coq_bytes(i.as_bytes()), coq_bytes(b_frag.as_bytes()), body.join("\n  && "))));
    }
    std::panic::set_hook(prev_hook);
    if a.only.is_none() {
        sum.shards = write_shards(&a.out, &header, &cases, a.shards);
        sum.extra.push(("coq_cases".into(), cases.len().to_string()));
        std::fs::write(format!("{}/summary.json", a.out), sum.to_json()).unwrap();
    }
    println!("c17: {} evaluations, {} distinct non-trivial, {} oracle failures", sum.evaluations, sum.distinct_nontrivial, sum.oracle_failures.len());
}
