//! C06: sophia_c14n against RDFC-1.0: three-way comparison (implementation, Coq model of the
//! implementation, Coq transcription of the W3C algorithm: C06/Model.v) under every setting of
//! depth_factor / permutation_limit from a grid, exhaustive small graphs in the thorough tier.
//! Oracle (plain Rust): equality with an independent Rust transcription of the W3C text; errors
//! only for unsupported input or a limit that is actually exceeded.
#[path = "c05_common/mod.rs"]
mod c05_common;
fn main() {
    c05_common::run("C06");
}
