(* C04/TermRead.v -- a REFERENCE READER for one RDF term spelled in Turtle / TriG, written from the W3C grammar
   (RDF 1.1 Turtle section 6.5, RDF 1.1 TriG, and the RDF-star `<< >>` extension), NOT from sophia's writer
   or parser.  Definitions only; proofs are in TermProofs.v.

   Tokens.  The terminals of the grammar are regular expressions (Grammar.v, TermGrammar.v); the input is cut
   by the LONGEST-MATCH rule (Turtle 6.5: "the longest match is chosen"), implemented once, generically, on
   the derivative matcher of Regex.v ([longest]).  IRIREF, STRING_LITERAL_QUOTE (with ECHAR / UCHAR) and
   LANGTAG are self-delimiting or simple enough to be read by the recursive-descent readers already written
   from the N-Quads grammar for C03 (the three productions are the same in both grammars).

   Productions covered (p is the syntactic position, which decides the alternatives):
     subject    ::= iri | BlankNode | collection | quotedTriple          predicate ::= iri | 'a'
     object     ::= iri | BlankNode | collection | literal | quotedTriple
     graph name ::= iri | BlankNode                                        (TriG labelOrSubject)
     qtSubject  ::= iri | BlankNode | quotedTriple       qtObject ::= iri | BlankNode | literal | quotedTriple
     iri        ::= IRIREF | PNAME_LN | PNAME_NS          BlankNode ::= BLANK_NODE_LABEL
     literal    ::= STRING_LITERAL_QUOTE (LANGTAG | '^^' iri)? | INTEGER | DECIMAL | DOUBLE | 'true' | 'false'
     collection ::= '(' ')'                               quotedTriple ::= '<<' qtSubject verb qtObject '>>'
   White space and '#' comments may separate tokens.  NOT covered (the reader answers None): ANON and
   blankNodePropertyList `[ ... ]`, non-empty collections, the three other string forms, variables (not
   Turtle at all).  No @base: a relative IRI reference is returned as written. *)
From Sophia.Common Require Import Prelude Term.
From Sophia.C04 Require Import Regex Grammar TermGrammar.
From Sophia.C03 Require Model.

Notation rd_iri_body := Sophia.C03.Model.rd_iri_body.
Notation rd_str_body := Sophia.C03.Model.rd_str_body.
Notation rd_langtag := Sophia.C03.Model.rd_langtag.
Notation xsd_string := Sophia.C03.Model.xsd_string.

(* ---------- the longest-match rule ---------- *)
Definition is_emp {A} (r : rex A) : bool := match r with Emp => true | _ => false end.
(* [acc]: the characters consumed so far, last one first; [best]: the longest match seen so far.
   The scan stops when the derivative is the empty language. *)
Fixpoint lgo (r : rex cclass) (acc : str) (l : str) (best : option (str * str)) : option (str * str) :=
  let best' := if nullable r then Some (rev acc, l) else best in
  match l with
  | [] => best'
  | c :: l' => let d := deriv (inr c) r in if is_emp d then best' else lgo d (c :: acc) l' best'
  end.
(* the longest prefix of l that is a word of r, with the remaining input *)
Definition longest (r : rex cclass) (l : str) : option (str * str) := lgo r [] l None.

(* ---------- white space and comments ---------- *)
(* [161s] WS ::= #x20 | #x9 | #xD | #xA *)
Definition is_ws (c : N) : bool := (c =? 32) || (c =? 9) || (c =? 10) || (c =? 13).
(* cm = true: inside a '#' comment, which runs to the end of the line *)
Fixpoint skip_gen (cm : bool) (l : str) : str :=
  match l with
  | [] => []
  | c :: r =>
      if cm then (if (c =? 10) || (c =? 13) then skip_gen false r else skip_gen true r)
      else if is_ws c then skip_gen false r
      else if c =? 35 then skip_gen true r
      else l
  end.
Definition skip : str -> str := skip_gen false.

(* ---------- prefixed names ---------- *)
(* the prologue `PREFIX p: <ns>` lines in order: a later declaration of the same prefix replaces an earlier one *)
Fixpoint ns_lookup (pm : list (str * str)) (p : str) : option str :=
  match pm with
  | [] => None
  | (p', n) :: pm' =>
      match ns_lookup pm' p with
      | Some n' => Some n'
      | None => if str_eqb p' p then Some n else None
      end
  end.
(* the token at its first colon (a PN_PREFIX has no colon) *)
Fixpoint split_colon (tok : str) : str * str :=
  match tok with
  | [] => ([], [])
  | c :: r => if c =? c_colon then ([], r) else let (a, b) := split_colon r in (c :: a, b)
  end.
(* Turtle 6.3 / 7.3: in a local name `\x` stands for x; a `%hh` sequence is kept as it is *)
Fixpoint unesc_local (l : str) : str :=
  match l with
  | [] => []
  | c :: r =>
      if c =? c_bslash then match r with e :: r' => e :: unesc_local r' | [] => [] end
      else c :: unesc_local r
  end.
Definition read_pname (pm : list (str * str)) (l : str) : option (str * str) :=
  match longest PNAME l with
  | Some (tok, r) =>
      let (pre, loc) := split_colon tok in
      match ns_lookup pm pre with
      | Some ns => Some (ns ++ unesc_local loc, r)
      | None => None
      end
  | None => None
  end.

(* iri ::= IRIREF | PrefixedName *)
Definition read_iri (pm : list (str * str)) (l : str) : option (str * str) :=
  match l with
  | [] => None
  | c :: r =>
      if c =? 60 then
        match r with
        | [] => None
        | c2 :: _ => if c2 =? 60 then None else rd_iri_body r
        end
      else read_pname pm l
  end.

(* ---------- literals ---------- *)
(* Some (what follows pre) if s starts with pre *)
Fixpoint strip (pre s : str) : option str :=
  match pre, s with
  | [], _ => Some s
  | x :: pre', y :: s' => if N.eqb x y then strip pre' s' else None
  | _ :: _, [] => None
  end.

Definition xsd_pre : str :=   (* "http://www.w3.org/2001/XMLSchema#" *)
  [104;116;116;112;58;47;47;119;119;119;46;119;51;46;111;114;103;47;50;48;48;49;47;88;77;76;83;99;104;101;109;97;35].
Definition rd_xsd_integer : str := xsd_pre ++ [105;110;116;101;103;101;114].
Definition rd_xsd_decimal : str := xsd_pre ++ [100;101;99;105;109;97;108].
Definition rd_xsd_double : str := xsd_pre ++ [100;111;117;98;108;101].
Definition rd_xsd_boolean : str := xsd_pre ++ [98;111;111;108;101;97;110].
Definition rdf_pre : str :=   (* "http://www.w3.org/1999/02/22-rdf-syntax-ns#" *)
  [104;116;116;112;58;47;47;119;119;119;46;119;51;46;111;114;103;47;49;57;57;57;47;48;50;47;50;50;45;114;100;102;45;
   115;121;110;116;97;120;45;110;115;35].
Definition rdf_nil : str := rdf_pre ++ [110;105;108].
Definition rdf_type : str := rdf_pre ++ [116;121;112;101].
Definition kw_true : str := [116;114;117;101].
Definition kw_false : str := [102;97;108;115;101].

(* Turtle 2.5.2: the datatype of a numeric token is given by the production it matches (they are disjoint) *)
Definition numeric_datatype (tok : str) : str :=
  if matchb DOUBLE tok then rd_xsd_double else if matchb DECIMAL tok then rd_xsd_decimal else rd_xsd_integer.
Definition read_numeric (l : str) : option (term * str) :=
  match longest NUMERIC l with
  | Some (tok, r) => Some (LitDt tok (numeric_datatype tok), r)
  | None => None
  end.

(* RDFLiteral, after the opening double quote.  An empty string followed by one more double quote is the opening
   of STRING_LITERAL_LONG_QUOTE: not covered.  White space may precede the language tag or the datatype. *)
Definition read_rdf_literal (pm : list (str * str)) (l : str) : option (term * str) :=
  match rd_str_body l with
  | None => None
  | Some (lex, r) =>
      match lex, strip [34] r with
      | [], Some _ => None
      | _, _ =>
          match strip [64] (skip r) with
          | Some r1 =>
              match rd_langtag r1 with
              | Some (tag, r2) => Some (LitLang lex tag, r2)
              | None => None
              end
          | None =>
              match strip [94; 94] (skip r) with
              | Some r1 =>
                  match read_iri pm (skip r1) with
                  | Some (dt, r2) => Some (LitDt lex dt, r2)
                  | None => None
                  end
              | None => Some (LitDt lex xsd_string, r)
              end
          end
      end
  end.

(* ---------- positions ---------- *)
Inductive tpos := TSubj | TPred | TObj | TGraph | TQs | TQo.
Definition allows_lit (p : tpos) : bool := match p with TObj | TQo => true | _ => false end.
Definition allows_bnode (p : tpos) : bool := match p with TPred => false | _ => true end.
Definition allows_quoted (p : tpos) : bool := match p with TSubj | TObj | TQs | TQo => true | _ => false end.
Definition allows_coll (p : tpos) : bool := match p with TSubj | TObj => true | _ => false end.
Definition is_pred (p : tpos) : bool := match p with TPred => true | _ => false end.

Definition num_start (c : N) : bool := inr c cls_numstart.

(* the words of the grammar that are not names: 'true' 'false' (BooleanLiteral), 'a' (verb) *)
Definition read_keyword (p : tpos) (l : str) : option (term * str) :=
  match strip kw_true l with
  | Some r => if allows_lit p then Some (LitDt kw_true rd_xsd_boolean, r) else None
  | None =>
      match strip kw_false l with
      | Some r => if allows_lit p then Some (LitDt kw_false rd_xsd_boolean, r) else None
      | None =>
          match strip [97] l with
          | Some r => if is_pred p then Some (Iri rdf_type, r) else None
          | None => None
          end
      end
  end.

(* ---------- terms ---------- *)
(* fuel bounds the nesting of quoted triples *)
Fixpoint read_at (fuel : nat) (p : tpos) (pm : list (str * str)) (l : str) : option (term * str) :=
  match fuel with
  | O => None
  | S f =>
      match l with
      | [] => None
      | c :: r =>
          if c =? 60 then
            match r with
            | [] => None
            | c2 :: r2 =>
                if c2 =? 60 then
                  if allows_quoted p then
                    match read_at f TQs pm (skip r2) with
                    | None => None
                    | Some (s, l1) =>
                        match read_at f TPred pm (skip l1) with
                        | None => None
                        | Some (pr, l2) =>
                            match read_at f TQo pm (skip l2) with
                            | None => None
                            | Some (o, l3) =>
                                match strip [62; 62] (skip l3) with
                                | Some l4 => Some (Triple s pr o, l4)
                                | None => None
                                end
                            end
                        end
                    end
                  else None
                else
                  match rd_iri_body r with
                  | Some (i, l') => Some (Iri i, l')
                  | None => None
                  end
            end
          else if c =? 95 then
            match r with
            | [] => None
            | c1 :: r1 =>
                if (c1 =? 58) && allows_bnode p then
                  match longest BNODE_BODY r1 with
                  | Some (lab, l') => Some (Bnode lab, l')
                  | None => None
                  end
                else None
            end
          else if c =? 34 then
            if allows_lit p then read_rdf_literal pm r else None
          else if c =? 40 then
            if allows_coll p then
              match strip [41] (skip r) with
              | Some l' => Some (Iri rdf_nil, l')
              | None => None
              end
            else None
          else if num_start c then
            if allows_lit p then read_numeric l else None
          else
            match read_pname pm l with
            | Some (i, l') => Some (Iri i, l')
            | None => read_keyword p l
            end
      end
  end.

(* a term in object position, the most general one *)
Definition read_term (pm : list (str * str)) (l : str) : option (term * str) :=
  read_at (S (length l)) TObj pm l.

(* the same on bytes: strict UTF-8 decoding first (C03) *)
Definition read_term_bytes (pm : list (str * str)) (bytes : list N) : option (term * str) :=
  match Sophia.C03.Model.utf8_dec bytes with
  | Some cps => read_term pm cps
  | None => None
  end.
