(* C05/EntryProofs.v -- theorems about Entry.v (entry points with fixed limits, fallible source,
   writer with a byte budget) and two statements about the order in which a dataset yields its
   quads: the comparator of the final sort only ties on identical quads (so the document does not
   depend on that order once the relabelled quads are fixed), and the arrangements visited by
   Heap's algorithm do not depend on the initial order of a list with repeated elements. *)
From Sophia.C05 Require Export Entry Heap Reader NqProofs FirstDegree.
From Coq Require Import Permutation.

(* ---------- the entry points with fixed limits ---------- *)
Theorem normalize_default_is_with : forall H fuel d,
  normalize_default H fuel d
  = normalize_with H (mkVar true true) fuel (Some 1000) (Some 6) d.
Proof. reflexivity. Qed.

Theorem normalize_default_relabel : forall H fuel d,
  normalize_default H fuel d
  = match relabel_default H fuel d with
    | Ok (qs, issued) => Ok (serialize qs, issued)
    | Err e => Err e
    end.
Proof. reflexivity. Qed.

Theorem impl2_ok_split : forall repaired tbl d c b i c' b' i',
  impl2_ok repaired tbl d c b i c' b' i'
  = impl_ok repaired tbl 1000 6 d c b i && impl_ok true tbl 1000 6 d c' b' i'.
Proof. reflexivity. Qed.

(* ---------- the fallible source ---------- *)
Theorem collect_src_all : forall d, collect_src (map Some d) = Some d.
Proof. induction d as [|q d IH]; cbn [map collect_src]; [reflexivity|]. rewrite IH. reflexivity. Qed.

Theorem collect_src_inv : forall items d, collect_src items = Some d -> items = map Some d.
Proof.
  induction items as [|[q|] r IH]; cbn [collect_src]; intros d E.
  - injection E as <-. reflexivity.
  - destruct (collect_src r) as [l|]; [|discriminate]. injection E as <-.
    cbn [map]. f_equal. apply IH. reflexivity.
  - discriminate.
Qed.

Theorem collect_src_fails : forall items, In None items -> collect_src items = None.
Proof.
  intros items Hin. destruct (collect_src items) as [d|] eqn:E; [|reflexivity].
  apply collect_src_inv in E. subst items. apply in_map_iff in Hin as [q [Hq _]]. discriminate.
Qed.

(* a source that never fails is the plain run; a source that fails somewhere is an error whatever
   it yields otherwise *)
Theorem normalize_src_all : forall H v fuel df pl d,
  normalize_src H v fuel df pl (map Some d) = Some (normalize_with H v fuel df pl d).
Proof. intros. unfold normalize_src. rewrite collect_src_all. reflexivity. Qed.
Theorem normalize_src_fails : forall H v fuel df pl items,
  In None items -> normalize_src H v fuel df pl items = None.
Proof. intros. unfold normalize_src. rewrite collect_src_fails by assumption. reflexivity. Qed.

(* ---------- the writer with a byte budget ---------- *)
Lemma firstn_short {A} n (l : list A) : (length l <= n)%nat -> firstn n l = l.
Proof. apply firstn_all2. Qed.

Theorem budget_write_seq_spec : forall budget bufs acc, (length acc <= budget)%nat ->
  budget_write_seq budget acc bufs
  = (firstn budget (acc ++ concat bufs), (length (acc ++ concat bufs) <=? budget)%nat).
Proof.
  intros budget. induction bufs as [|b r IH]; intros acc Hacc; cbn [budget_write_seq concat].
  - rewrite app_nil_r, firstn_short by assumption.
    apply Nat.leb_le in Hacc. rewrite Hacc. reflexivity.
  - unfold budget_write_all.
    destruct (length b <=? budget - length acc)%nat eqn:Hb.
    + apply Nat.leb_le in Hb. rewrite (firstn_short _ b Hb).
      rewrite IH by (rewrite app_length; lia). rewrite <- app_assoc. reflexivity.
    + apply Nat.leb_gt in Hb. f_equal.
      * rewrite firstn_app, (firstn_short _ acc Hacc). f_equal.
        rewrite firstn_app. replace (budget - length acc - length b)%nat with 0%nat by lia.
        cbn [firstn]. rewrite app_nil_r. reflexivity.
      * symmetry. apply Nat.leb_gt. rewrite !app_length. lia.
Qed.

Lemma line_bufs_concat l : concat (flat_map line_bufs l) = concat (map nq_line l).
Proof.
  induction l as [|[[[s p] o] g] l IH]; [reflexivity|].
  cbn [flat_map map concat line_bufs app]. rewrite IH.
  unfold nq_body, nq_line. rewrite <- !app_assoc. reflexivity.
Qed.

(* what a writer that fails after [budget] bytes holds is the first [budget] bytes of the
   canonical document, and the run is an error exactly when the document does not fit *)
Theorem normalize_budget_spec : forall H v fuel df pl budget d bytes issued,
  normalize_with H v fuel df pl d = Ok (bytes, issued) ->
  normalize_budget H v fuel df pl budget d
  = (firstn budget bytes, if (length bytes <=? budget)%nat then WOk else WIo).
Proof.
  intros H v fuel df pl budget d bytes issued E. unfold normalize_with in E.
  unfold normalize_budget.
  destruct (relabel_with H v fuel df pl d) as [[qs i]|e]; [|discriminate].
  injection E as <- <-.
  rewrite budget_write_seq_spec by (cbn; lia). cbn [app].
  rewrite line_bufs_concat. unfold serialize. reflexivity.
Qed.
Theorem normalize_budget_err : forall H v fuel df pl budget d e,
  normalize_with H v fuel df pl d = Err e ->
  normalize_budget H v fuel df pl budget d = ([], WErr e).
Proof.
  intros H v fuel df pl budget d e E. unfold normalize_with in E. unfold normalize_budget.
  destruct (relabel_with H v fuel df pl d) as [[qs i]|e']; [discriminate|].
  injection E as <-. reflexivity.
Qed.

(* the combined checker is the conjunction of the separate ones *)
Theorem run_ok_split : forall repaired tbl df pl d c b i dflt bud,
  run_ok repaired tbl df pl d c b i dflt bud
  = impl_ok repaired tbl df pl d c b i
    && match dflt with
       | None => true
       | Some (c', b', i') => impl_ok true tbl 1000 6 d c' b' i'
       end
    && match bud with
       | None => true
       | Some (budget, wcode, written) => budget_ok repaired tbl df pl d budget wcode written
       end.
Proof.
  intros repaired tbl df pl d c b i dflt bud.
  unfold run_ok, impl_ok, budget_ok, normalize_budget, normalize_default, impl_model,
    normalize_with, default_df1000, default_plimit.
  f_equal. f_equal.
  destruct dflt as [[[c' b'] i']|]; [|reflexivity].
  destruct repaired; cbn [andb]; [|reflexivity].
  destruct (df =? 1000) eqn:E1; cbn [andb]; [|reflexivity].
  destruct (pl =? 6) eqn:E2; [|reflexivity].
  apply N.eqb_eq in E1, E2. subst. reflexivity.
Qed.

(* ---------- the final sort does not depend on the order of the quads ---------- *)
(* the comparator of normalize_with answers Equal only for identical quads *)
Theorem quad_cmp_eq_inj : forall q1 q2, wf_quad q1 -> wf_quad q2 ->
  quad_cmp q1 q2 = Eq -> q1 = q2.
Proof.
  intros q1 q2 W1 W2 E. rewrite quad_cmp_lines in E by assumption.
  apply str_cmp_eq in E. apply nq_line_inj; assumption.
Qed.
(* in particular two terms are told apart by cmp_c14n_terms as soon as they differ in any part:
   same lexical form under two datatypes, same text as IRI and as literal, ... *)
Theorem cmp_c14n_eq_inj : forall a b, wf_term a -> wf_term b ->
  cmp_c14n (Some a) (Some b) = Eq -> a = b.
Proof.
  intros a b Wa Wb E. unfold cmp_c14n, nq_opt in E. apply str_cmp_eq in E.
  apply nq_inj; assumption.
Qed.
Corollary same_lexical_form_other_datatype : forall l d1 d2,
  ~ In 62 d1 -> ~ In 62 d2 -> d1 <> d2 ->
  cmp_c14n (Some (LitDt l d1)) (Some (LitDt l d2)) <> Eq.
Proof.
  intros l d1 d2 W1 W2 Hd E. apply cmp_c14n_eq_inj in E; [|exact W1|exact W2].
  injection E as E. contradiction.
Qed.
(* the document is a function of the SET of relabelled quads *)
Theorem serialize_order_independent : forall qs qs',
  Forall wf_quad qs -> Permutation qs qs' -> serialize qs = serialize qs'.
Proof.
  intros qs qs' W P.
  assert (W' : Forall wf_quad qs').
  { apply Forall_forall. intros q Hq. eapply Forall_forall; [exact W|].
    eapply Permutation_in; [apply Permutation_sym; exact P|exact Hq]. }
  rewrite !serialize_sorts_lines by assumption. f_equal.
  apply sort_by_str_perm. apply Permutation_map. exact P.
Qed.

(* ---------- Heap's algorithm on lists with repeated elements ---------- *)
(* the set of arrangements handed to the closure does not depend on the order in which the list
   is given (in rdfc10.rs: the order in which the dataset yields the quads of a blank node) *)
Theorem heap_perms_start_independent : forall (A : Type) (l l' p : list A),
  Permutation l l' -> In p (heap_perms l) -> In p (heap_perms l').
Proof.
  intros A l l' p P Hin. destruct l' as [|x l'].
  - apply Permutation_sym, Permutation_nil in P. subst l. exact Hin.
  - apply heap_perms_complete; [discriminate|].
    eapply perm_trans; [apply Permutation_sym; exact P|].
    apply heap_perms_sound. exact Hin.
Qed.
