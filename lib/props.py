"""Per-property configuration of ./check (see DESIGN.md section 3)."""

COMMON_TRUSTED = [
    "Coq 8.16.1 kernel (coqc, full .vo build; vm_compute used only to evaluate the model on concrete cases; no native_compute)",
    "the hand-written Gallina model is tied to /repo by differential runs only (testing, not proof)",
    "Rust harness (generators, canonicalisation, property oracle), Python driver ./check",
    "rustc/cargo and the std collections used by the implementation",
]

PROPS = {}

PROPS["C11"] = dict(
    level="proof",
    runs=[dict(bin="c11")],
    quick=dict(n=1200, shards=16),
    thorough=dict(n=60000, shards=64, run_timeout=10800, coq_case_timeout=7200),
    trusted_base=[
        "model coq/C11/Model.v of api/src/graph/adapter.rs and api/src/dataset/adapter.rs (hand-written)",
        "the wrapped store is modelled as a duplicate-free list with set semantics (that it behaves so is property C01); Vec-backed stores as bags (remove deletes one copy or every copy, as the code does) and failing stores as error values",
        "terms are taken modulo Term::eq and interned to identifiers by the harness (lawfulness of Term::eq is property C02)",
    ],
    assumptions=["the underlying store is set-like (C01)", "Term::eq is an equivalence (C02)"],
)

import translate  # noqa: E402

PROPS["C02"] = dict(
    level="proof",
    translators=[translate.gen_consts],
    runs=[dict(bin="c02")],
    quick=dict(n=12, shards=16),
    thorough=dict(n=400, shards=64, run_timeout=10800, coq_case_timeout=7200),
    trusted_base=[
        "model coq/Common/Term.v of the default Term::eq/cmp/hash in api/src/term.rs and of LanguageTag's folded Eq/Ord/Hash (hand-written); TermKind discriminants re-generated from the source (gen/Consts.v)",
        "hash model assumes a 64-bit little-endian target (isize discriminant = 8 bytes)",
        "IsoTerm / C14nTerm / JSON-LD adapter terms are private to their crates and are exercised only through C05/C07/C12",
    ],
    assumptions=["terms are well-formed: an untagged literal is never typed rdf:langString (the Term contract); lemma wf_needed shows the order laws fail otherwise"],
)

PROPS["C15"] = dict(
    level="proof",
    runs=[dict(bin="c15")],
    quick=dict(n=4500, shards=16),
    thorough=dict(n=180000, shards=128, run_timeout=10800, coq_case_timeout=7200),
    trusted_base=[
        "model coq/C15/Model.v of api/src/source.rs, source/{filter,map,filter_map,convert}.rs and of insert_all/remove_all counting in api/src/{graph,dataset}.rs (hand-written, continuation style as the code); coq/C15/Generic.v is the same model for any item / error types (GenericProofs.generic_is_model_*: Model.v is its instance N)",
        "parser end: coq/C15/ParserSource.v transcribes the control flow of sophia_rio's StrictRio{Triple,Quad}Source::try_for_some_item and of rio_turtle 0.8.6 N{Triples,Quads}Parser::parse_step / parse_{triple,quad}_line / is_end / LookAheadByteReader::new (one line per step, synthetic first line, error position = current line, consume_line_end) by hand; the reading of the terms of ONE line is not transcribed from rio: it is the reference reader of coq/C03/Model.v (W3C grammar), and every theorem holds for an arbitrary line reader; agreement with rio on the generated documents is what the correspondence run checks",
        "serializer end: coq/C15/SerializerSink.v transcribes write_term / write_triple / quoted_string of turtle/src/serializer/nt.rs and the closures of serialize_triples / serialize_quads as the sequence of buffers passed to write_all, std::io::Write::write_all (without ErrorKind::Interrupted retries) and an io::Write probe driven by a policy (bytes accepted per call); SerializerProofs.stmt_chunks_concat ties the buffers to C03's byte-level writer",
        "the capacity-limited store is a consumer whose failure is a sink error value",
        "coq/C15/Bulk.v: the provided bulk methods (insert_all, remove_all, remove_matching, retain_matching, add_to_graph/add_to_dataset) on journaling set/bag stores reached directly and through adapters (GraphAsDataset, DatasetGraph, &mut), and serializers over writers failing in write and/or flush combined with a failing source (first-failure rule)",
    ],
    assumptions=["closures given to adapters are functions of the item and of their own call history (Direct.v models stateful closures by their call logs); Model.v's older theorems take them as pure functions of the item",
                 "documents are valid UTF-8 (the parser is fed from &str / String bytes); ErrorKind::Interrupted is not modelled for writers"],
)

PROPS["C19"] = dict(
    level="proof",
    translators=[translate.gen_consts],
    runs=[dict(bin="c19")],
    quick=dict(n=5000, shards=16),
    thorough=dict(n=150000, shards=128, run_timeout=10800, coq_case_timeout=7200),
    trusted_base=[
        "model coq/C19/Model.v of LocalLoader::get in resource/src/loader/_local.rs, of std::path::Path::components / PathBuf::join on Unix and of open+read on a symlink-free file system (hand-written); the negotiated extension list is re-generated from the source",
        "the operating system resolves a path made of a directory plus Normal components inside that directory (no symlinks inside the configured directories)",
    ],
    assumptions=["no symbolic links inside the configured directories", "Unix path syntax"],
)

PROPS["C07"] = dict(
    level="proof",
    runs=[dict(bin="c07")],
    quick=dict(n=1500, shards=16),
    thorough=dict(n=60000, shards=128, run_timeout=10800, coq_case_timeout=7200),
    trusted_base=[
        "model coq/C07/Model.v of isomorphism/src/{dataset,iso_term,hash}.rs (hand-written); the 64-bit hash is a parameter of every theorem (any function of what the code feeds to the hasher), so the theorems hold for SipHash and for the FNV stand-in used to RUN the model",
        "sort_unstable is modelled by insertion sort; theorem gsort_perm_eq shows the sorted key sequence is independent of the sorting algorithm",
        "termination of the refinement loop (the real loop is unbounded; the model uses fuel and answers None when exhausted): PROVED to stop within 2 * #blank nodes + 1 rounds under the decidable condition loop_mono (the number of colour classes never decreases along the run; implied by loop_no_merge = no collision of XOR-combined digests merges two classes), REFUTED for arbitrary hash functions (termination_refuted_for_adversarial_hash, and termination_refuted_for_view_injective_hash: even a hash injective on every view that occurs); for the real SipHash the condition is not proved, it is evaluated with the FNV stand-in on every 16th case (iso_tight_ok: model run with exactly the proved number of rounds)",
        "entry points: model coq/C07/EntryModel.v of isomorphic_datasets' error channel (prepare_dataset = collect::<Result<Vec,_>>, SourceError before SinkError) and of isomorphic_graphs (= isomorphic_datasets on GraphAsDataset, no pre-check of its own) (hand-written); fallible datasets/graphs are lists of results; the harness compares result, error side/code and the number of items pulled from each argument",
    ],
    assumptions=["terms are well-formed (C02's wf)", "Term::hash is a function of the Term::eq class (C02)", "collect::<Result<Vec<_>,_>>() stops polling the iterator at its first Err (observed by the harness: pull counts)"],
)

import extras  # noqa: E402

PROPS["C10"] = dict(
    level="proof",
    extra=[extras.c10_miri],
    runs=[dict(bin="c10")],
    quick=dict(n=400, shards=16),
    thorough=dict(n=8000, shards=128, run_timeout=10800, coq_case_timeout=7200, args=["--thorough-sizes"]),
    trusted_base=[
        "ownership model coq/C10/Model.v of inmem/src/index.rs with three designs under clone_mode: Owned = the current code after /repo 20c1ef6 (t2i keys and i2t entries each own their strings; Clone copies both), Rebuilt = the previous code (i2t entries pointed into the keys, Clone rebuilt them), Derived = the original derived Clone; Drop, moves, growth, bulk constructors, clone_from, mem::take/replace/swap and terms cloned OUT of a store (escaped_clone_safe; the old designs are refuted: derived_clone_refuted, term_clone_escapes_refuted) (hand-written)",
        "hook SimpleTermIndex::verif_audit / verif_term_index (cfg sophia_verif) reports, per index, whether i2t[i] holds the term of the key mapped to i (an owned copy with the same text, or a borrow of that very key); the harness compares it with the model's audit",
        "hook SimpleTermIndex::verif_strings (cfg sophia_verif) reports address, length and ownership of every string of the keys and of the index table; the harness checks after every step that every key and every table entry owns its strings, that these allocations are pairwise disjoint inside a store and between live stores (clones included), and that terms cloned out of a store own their text; it also calls get_term with indices that were never handed out (must panic)",
        "thorough tier additionally runs fixed clone/drop/insert scenarios under Miri (harness/src/bin/c10_miri.rs) as a correspondence aid",
        "NOT covered: undefined behaviour outside this ownership model (std collections, unwrap_unchecked in the iterators, allocator behaviour); the model says which memory is read, a sanitizer would be needed to observe the read itself",
    ],
    assumptions=["Box<str> contents do not move when the owning SimpleTerm value is moved or the hash table is rehashed", "MownStr::clone copies the pointer of a borrowed string and allocates for an owned one"],
)

PROPS["C03"] = dict(
    level="proof", runs=[dict(bin="c03")],
    quick=dict(n=2000, shards=16),
    thorough=dict(n=60000, shards=128, run_timeout=10800, coq_case_timeout=7200),
    trusted_base=[
        "model coq/C03/Model.v of quoted_string/write_term/write_triple (turtle/src/serializer/nt.rs) and of the statement/graph-name rule of nt.rs/nq.rs (hand-written, byte level; utf8 from Common/Term.v)",
        "the reference reader (strict UTF-8 decoder + recursive descent over code points) is hand-written from the W3C N-Quads grammar plus quotedTriple; it is cross-checked against sophia's Rio parser on hand-formatted documents with ECHAR/UCHAR escapes, comments, CRLF and malformed input",
        "sophia's parsers (Rio) are exercised by the oracle, not modelled",
    ],
    assumptions=["terms satisfy wf_quads: IRIREF-legal IRIs, BLANK_NODE_LABEL labels, LANGTAG tags, scalar-value lexical forms, no variables",
                 "the oracle compares language tags up to ASCII case (Rio lower-cases them)"],
)

PROPS["C20"] = dict(
    level="proof",
    translators=[translate.gen_consts],
    runs=[dict(bin="c20")],
    quick=dict(n=2700, shards=16),
    thorough=dict(n=30000, shards=128, run_timeout=10800, coq_case_timeout=7200),
    trusted_base=[
        "model coq/C20/Model.v of api/src/term/_native_literal.rs and of core's integer Display/FromStr, bool FromStr, the grammar accepted by f64::from_str and flt2dec::digits_to_dec_str (hand-written); datatype white-lists re-generated from the source and proved equal to the model's (whitelists_from_source)",
        "XSD 1.1 lexical spaces and integer facets transcribed as boolean recognisers/tables (integer recogniser proved equal to its explicit grammar; Rust's numeric float grammar proved equal to xsd:double's)",
        "finite doubles: format_shortest is a universally quantified Section parameter assumed only to return digit strings; exact value round-trip and the xsd:float (f32) rounding are checked by the Rust oracle, which trusts std's str::parse::<f64/f32> as correctly rounded",
        "isize/usize are 64 bits",
    ],
    assumptions=["64-bit target", "format_shortest returns ASCII digits (checked on every generated double)"],
)

PROPS["C14"] = dict(
    level="proof",
    runs=[dict(bin="c14")],
    quick=dict(n=3600, shards=16),
    thorough=dict(n=80000, shards=64, run_timeout=10800, coq_case_timeout=7200),
    trusted_base=[
        "round 8: coq/C14/Directed.v: expr_vars (the variables an ORDER BY criterion reads, BOUND's included) and the nanosecond timeline of dateTimes are hand-written from sparql/src/expression.rs and value/_xsd_date_time.rs; dateTime fractions beyond 9 digits are truncated by the parser and not generated",
        "model coq/C14/Model.v of order_by/cmp_bindings_with (exec.rs), sparql_cmp/sparql_order_by/order_by_class (expression.rs), SparqlValue::partial_cmp/order_by_class/order_by_cmp (value.rs), SparqlNumber coercing comparison and exact_cmp (_number.rs), XsdDateTime partial_cmp/timeline_cmp (hand-written); Term::cmp from Common/Term.v (C02)",
        "lexical form -> value (Rust integer/float parsers, BigDecimal, dateTime regex + chrono) is not modelled: each pool term is given to the model with the value the implementation parsed (Debug rendering of ResultTerm::value())",
        "slice::sort_unstable_by returns a sorted permutation when the comparator is a total preorder (std contract); the harness checks permutation + sortedness of every output",
        "independent oracle in c14.rs: SPARQL '<' from XSD lexical forms (exact decimal strings, promotion by Rust's correctly rounded str->f64/f32, XSD dateTime partial order); (x) a promotion never crosses a float (exact decimal arithmetic on digit strings, f64/f32::next_up/next_down)",
        "integer/decimal -> f64/f32 promotions (coerce_to_double / coerce_to_float): coq/C14/Rounding.v defines round-to-nearest-even into binary64/binary32 from scratch on Z/Q (no Flocq, no axiom) and RoundingProofs.v proves it monotone, the identity on the format, hence conv_ok; coq/C14/Engine.v models the engine's promotions as that function: `isize as f64/f32` is the IEEE-754 hardware conversion, str::parse::<f64/f32> (Rust's dec2flt, used for BigInt and Decimal since the fixes 9d45a4d / 20e135a) is correctly rounded -- both trusted and compared bit for bit with c64_round / c32_round on every conversion case (kinds v:*); BigInt::to_string / BigDecimal::as_bigint_and_exponent print the exact digits",
        "the library routines used before those fixes (num-bigint 0.4.8 BigUint::to_f64/to_f32, bigdecimal 0.4.10 BigDecimal::to_f64, num-traits to_f32 via f64, compiler-builtins __powidf2) are transcribed in Engine.v as c64_prefix / c32_prefix for the refutation witnesses only; the transcription was tied bit for bit to the pre-fix tree (400 conversions, 0 disagreements) and is no longer reachable through the engine",
        "a finite float is printed by the harness as (sign, integer significand < 2^53 / 2^24, exponent of the last place): in_format_b holds of every printed float (checked in every conversion case); the theorems ask in_format of the floats of the items",
    ],
    assumptions=[
        "floats carried by xsd:double / xsd:float items are numbers of binary64 / binary32 (item_fmt_ieee; true of every f64 / f32)",
        "terms are well-formed (C02) and a parsed value is only attached to a literal",
    ],
)

PROPS["C17"] = dict(
    level="proof", runs=[dict(bin="c17")],
    quick=dict(n=2720, shards=16),
    thorough=dict(n=20000, shards=64, run_timeout=10800, coq_case_timeout=7200),
    trusted_base=[
        "round 8: coq/C17/Deep.v: steps_needed (inner slashes of the base after the common prefix) and the clone / clone_from histories (hist, state, origin) are hand-written; Relativizer's Clone is the derived one (a hand-written Clone would have to be re-transcribed)",
        "model coq/C17/Model.v of iri/src/relativize.rs and of oxiri 0.2.11 IriParser (positions, resolution) behind sophia_iri::resolve::BaseIri, hand-written over UTF-8 bytes; RFC 3986 5.2 transcribed as resolve_rfc",
        "oxiri's character-level validation is not modelled (the harness feeds valid IRIs/references only)",
    ],
    assumptions=["inputs are valid IRIs (for no-panic: well-formed UTF-8, which &str guarantees)"],
)

PROPS["C01"] = dict(
    level="proof",
    runs=[dict(bin="c01")],
    quick=dict(n=1000, shards=16),
    thorough=dict(n=60000, shards=128, run_timeout=10800, coq_case_timeout=7200, args=["--u16-full"]),
    trusted_base=[
        "model coq/C01/Model.v of inmem/src/{index,graph,dataset}.rs, {graph,dataset}/_iter.rs, the inherited default methods of api/src/{graph,dataset}.rs and the std-collection stores of _foreign_impl.rs (hand-written, arm by arm)",
        "BTreeSet<[I;k]> is modelled as a strictly sorted duplicate-free list under the lexicographic order (std's B-tree, HashMap, HashSet are trusted); HashSet/BTreeSet stores are sets modulo Eq/Hash/Ord of terms (C02)",
        "terms are taken modulo Term::eq and interned to identifiers by the harness; a shipped matcher is represented by its constant() plus its exact extension over the 16-class pool (computed by calling the real matcher)",
        "u32 index width is exercised only far below exhaustion; the u16 boundary by one fixed scenario (thorough tier); exhaustion otherwise through harness-local SmallIdx<M> index types",
    ],
    assumptions=["matchers obey the TermMatcher/GraphNameMatcher contract: constant() = Some(c) only if matches(x) <=> x eq c (proved for arrays, Option, .gn() and the harness descriptions; hypothesis tm_wf/gm_wf otherwise)",
                 "matcher predicates are pure", "Term::eq/Hash are lawful (C02)"],
)

import regex2coq  # noqa: E402

PROPS["C09"] = dict(
    level="proof",
    translators=[regex2coq.gen_regex],
    extra=[regex2coq.ka_extra],
    coq_targets=["C09/Model", "C09/Properties"],
    coq_timeout=2400,
    runs=[dict(bin="c09")],
    quick=dict(n=7200, shards=16),
    thorough=dict(n=300000, shards=128, run_timeout=10800, coq_case_timeout=7200),
    trusted_base=[
        "lib/regex2coq.py: parser of the (?x) regex subset (flag i = Unicode simple case folding with the table of the regex-syntax release pinned by /repo/Cargo.lock; the atom table is refined where a class cuts an atom); IRI_REGEX_SRC and IRELATIVE_REF_REGEX_SRC are re-generated from iri/src/_regex.rs on every run (exercised by the correspondence run)",
        "Rfc3987.v and Resolve.v: hand transcriptions of RFC 3987 2.2 / RFC 3986 (Rfc3987.v cross-checked case by case against an independent Rust recogniser)",
        "Rust regex engine semantics (whole-string anchored match)",
        "RelationAlgebra's ka: a reflexive Coq-verified decision procedure, no axioms",
        "Gallina model of oxiri's resolver, tied by testing only; oxiri itself is third-party",
    ],
    assumptions=["strings are sequences of Unicode scalar values; the model over N also covers surrogates, as the 'other' atom"],
)

PROPS["C13"] = dict(
    level="proof", coq_targets=["C13/Properties", "C13/ExprProperties", "C13/FuncProperties"],
    runs=[dict(bin="c13"), dict(bin="c13e", quick=dict(n=3000, shards=16), thorough=dict(n=120000, shards=128))],
    quick=dict(n=700, shards=16),
    thorough=dict(n=40000, shards=128, run_timeout=10800, coq_case_timeout=7200),
    trusted_base=[
        "round 8: coq/C13/Fresh.v abstracts a call of BNODE() by a placeholder node and checks the labels the engine created with fresh_ok (pairwise distinct, disjoint from the dataset); only queries where BNODE is the whole BIND/SELECT expression go through it, the other created-node cases are judged by the Rust oracle alone; prepared-query reuse (a query run on another dataset first) is an oracle-only check",
        "model coq/C13/Model.v of sparql/src/{wrapper,exec,bgp,binding,matcher}.rs, matcher/_any_pattern.rs and NumModel.v of value/_number.rs (hand-written, after the fix: commits; pre-fix variants kept as select0/graph0/...)",
        "spargebra's parsing/translation is trusted: the algebra given to the model and the oracle is read back from the Debug rendering of the parsed query",
        "Dataset::quads_matching / graph_names contract (filter by matchers; inmem iteration order reproduced exactly for OFFSET/LIMIT cases); dataset iterator errors not modelled",
        "Term::eq modelled by structural equality after lower-casing language tags at the harness boundary",
        "algebra layer: the expression/function library (expression.rs, function.rs incl. EXISTS) is a parameter of every theorem of C13/Properties.v; coq/C13/Eval.v is a concrete transcription for the generated forms only",
        "expression layer (C13/ExprProperties.v): coq/C13/ExprImpl.v is a hand transcription of expression.rs (every arm of eval except Exists), value.rs, value/_number.rs, function.rs (STR/LANG/DATATYPE/is*), stash.rs after the fix: commits 4f9580e..7c1f2b1, with switches for the pre-fix variants that the harness probes on the engine under test",
        "ExprModel.v: SPARQL 1.1 section 17 + the XSD lexical mappings written from the Recommendations from memory (no network)",
        "floats are abstract in the theorems (parameters of xlib); the model is RUN with Coq.Floats.SpecFloat at (24,128)/(53,1024), a shortest-round-trip printer and a correctly rounded reader, tied to Rust only by the generated cases",
        "decimal division = bigdecimal 0.4 impl_division (100 digits), transcribed; BigDecimal + - * by value; xsd:dateTime reader for ordinary forms only (chrono not modelled)",
        "function layer (C13/FuncProperties.v): coq/C13/FuncModel.v is a hand transcription of function.rs call_function (all 52 arms: 34 implemented, 18 `todo()`), the EvalResult accessors as_string_lit / as_xsd_string / as_xsd_date_time, SparqlNumber::{abs,ceil,floor,round}, xpath_round and the FunctionCall arm of eval, after the fix: commits a02a275 (SUBSTR) and 5a72fb8 (CEIL/FLOOR/ROUND); the code as found is kept as sub_str0 / num_ceil0 / num_floor0 / num_round0 for the _refuted witnesses; coq/C13/FuncSpec.v is SPARQL 1.1 17.4.2-17.4.5 + XPath F&O + RFC 4647 3.3.1 written from memory",
        "function layer: the methods of str that function.rs calls (chars, find, contains, starts_with, ends_with, eq_ignore_ascii_case) are modelled by their documented contract over code points, `find` returning the BYTE offset; the byte slices function.rs itself takes (&s[a..b]) are modelled exactly (panic off a character boundary); UTF-8 encoding by Common/Term.v utf8",
        "function layer, abstract and shared by model and specification (record flib): Unicode's per-character case mappings (run with ASCII/Latin-1/Greek/Cyrillic/Deseret + special cases, the harness alphabet stays inside), f32/f64 ceil/floor/round (run on Coq.Floats.SpecFloat via exact integer arithmetic), IriRef::new (run with a forbidden-character/percent/first-segment check that is exact on the harness pool; the grammar is C09's), the civil fields of a dateTime (run with Hinnant's civil_from_days; chrono not modelled)",
        "function layer: feval_correct assumes that the Rust helper xpath_round (f64::round corrected on negative halves with copysign) computes fn:round on doubles and, through f64, on floats; NOT discharged for the run-time instance (it would need IEEE addition lemmas), checked there on 51 boundary samples (xpath_round_samples) and on every generated ROUND / SUBSTR case",
        "function layer: BNODE's fresh label and RAND's number are inputs of the model, read off the engine's answer; nested BNODE()/RAND() are only generated where the label / number cannot reach the result",
        "independent oracle in c13e.rs over i128 and native IEEE floats; it cannot tell on about 1 % of cases (i128 overflow, non-terminating decimal quotients, sameTerm/STR of a computed number)",
        "spargebra parsing trusted; expressions are generated fully parenthesised (spargebra 0.3.5 parses 2-3-4 as 2-(3-4))",
        "ORDER BY modelled as an arbitrary permutation (the order is C14)",
        "independent oracle in c13.rs: SPARQL 1.1 section 18 by nested loops plus a section 17 evaluator for the generated expression forms",
    ],
    assumptions=["the dataset is a set of quads (NoDup)", "64-bit isize", "sort_unstable_by returns a permutation",
                 "expression layer: strings have fewer than 2^63 characters; a ResultTerm's cached value equals the value re-read from its term; the three operator extensions of sophia (= on distinct language-tagged strings is false, order of language-tagged strings, a valueless literal compared with itself) are admissible extensions in the sense of SPARQL 17.3.1; xsd:dateTime comparisons follow XSD 3.2.7.4 (no implicit timezone)",
                 "function layer: SUBSTR's numeric arguments are promoted to xs:double (fn:substring's parameter type); queries have no BASE; TRIPLE follows RDF 1.2 (no triple term as subject); fn:upper-case / fn:lower-case are context-free per-character mappings (no Final_Sigma); sophia's dialect (fd_sophia: IRI accepts relative references, langMatches raises an error on an empty or ill-formed tag) is a known finding each, not an extension"],
)

PROPS["C12"] = dict(
    level="proof", runs=[dict(bin="c12")],
    quick=dict(n=3430, shards=16),
    thorough=dict(n=100000, shards=128, run_timeout=10800, coq_case_timeout=7200),
    trusted_base=[
        "model coq/C12/Model.v of jsonld/src/serializer/engine.rs (after the fix: commits), util_traits.rs filters and the three options (hand-written; hash maps as association lists, vector index = (graph,id) pair); fuel = number of nodes for mark/cells/convert: for cells/convert proved sufficient (cells_stable, L_le_nodes; the round-trip theorem is about the fuelled functions themselves), for mark argued (the Rust loop climbs distinct nodes), anchoring fuel proved irrelevant; coq/C12/Calls.v: the serializer object (one fresh engine per call, writer targets append, the jsonifier keeps the last document, InvalidJsonLiteral aborts the call)",
        "reference reader to_rdf (Coq) and reference_to_rdf (Rust oracle) hand-written from JSON-LD 1.1 API section 8 for expanded/flattened documents; lower-cased language in rdfDirection modes",
        "literal <-> value object conversion abstract in the structural model (value objects obtained from the implementation per literal); checked by the Rust oracle; only the i18n decision is modelled",
        "sophia's JsonLdParser (json-ld crate) exercised by the oracle, not modelled; isomorphic_datasets (C07) used as comparator",
    ],
    assumptions=[
        "identifiers 1..8 denote rdf:first/rest/nil/type/List/value/direction/language; IRIs never start with '_:'",
        "the general round trip (nested/shared/cyclic lists, compound literals, any number of graphs) is PROVED for the model against the model's reference reader (roundtrip_general, roundtrip_isomorphic, roundtrip_full; explicit renaming = witness); it is still evaluated per case as well (roundtrip_ok)",
        "use_native_types=true is lossy by specification (JSON-LD 1.1 API 8.5): the oracle compares up to the value of well-formed xsd:integer/double/boolean literals; the literal <-> value object conversion stays outside the Coq model",
    ],
)

import labels2coq  # noqa: E402

PROPS["C08"] = dict(
    level="proof",
    translators=[labels2coq.gen_labels],
    coq_targets=["C08/Model", "C08/Properties"],
    runs=[dict(bin="c08", profiles=["dev", "release"])],
    quick=dict(n=6000, shards=8),
    thorough=dict(n=400000, shards=16, run_timeout=10800),
    trusted_base=[
        "PARTIAL BY NATURE. Proved (no axioms), with the validator regexes BNODE_ID, VARNAME, LANG_TAG re-generated from api/src/term/*.rs on every run (lib/labels2coq.py): every blank node label and language tag that the Rio token rules (transcribed by hand in coq/C08/Tokens.v from rio_turtle's shared.rs) accept is accepted by the toolkit's validator; BNODE_ID equals Rio's label language and is included in the W3C BLANK_NODE_LABEL; VARNAME equals SPARQL's VARNAME -- by the Kleene-algebra decision procedure ka, transported to a verified derivative matcher over code points (infrastructure shared with C09)",
        "IRIs: the strict parsers validate with oxiri; that IRI validation equals RFC 3987 is C09; oxiri = RFC 3987 is correspondence only",
        "NOT proved, explored only: termination and panic-freedom of ~8000 lines of third-party parser code on every byte string; every parser (N-Triples, N-Quads, Turtle, TriG, generalized N-Quads/TriG, RDF/XML, JSON-LD without remote contexts) is run, in dev and release builds, on valid documents, single-edit mutants, dictionary splices, invalid UTF-8 and (in a subprocess on a 2 MiB thread) deeply nested inputs; every accessor of every yielded term is called and checked with the toolkit's own validators",
        "Rust regex engine semantics (whole-string anchored match), tied by evaluating the regenerated regexes on boundary strings inside Coq against BnodeId::new / VarName::new / LanguageTag::new",
    ],
    assumptions=["Rio's token acceptors are as transcribed in coq/C08/Tokens.v (third-party code, read by hand)"],
)

_C05_MODEL = [
    "model coq/C05/Model.v of c14n/src/{rdfc10,_permutations,_cnq,_c14n_term}.rs (hand-written); BTreeMaps as key-sorted association lists, BnodeIssuer as its issue-ordered pair list",
    "hash function = recorded table of SHA-256/384 (concatenated update arguments -> hex) handed to the model; a table miss yields a non-hex sentinel; every theorem is for an arbitrary hash function H",
    "sort_unstable modelled by insertion sort (exact for Strings; for hash path lists: what core does for len <= 20)",
    "depth_factor as thousandths (grid values exact in f32); strings as code points (UTF-8 order = code point order)",
    "oracle: sophia's N-Quads parser, isomorphic_datasets (C07), an independent Rust transcription of RDFC-1.0 with sophia's permutation order",
    "case files pack strings into Uint63 literals (Coq primitive ints, evaluation only)",
]
PROPS["C05"] = dict(
    level="proof", translators=[translate.gen_consts], runs=[dict(bin="c05")],
    quick=dict(n=1200, shards=32),
    thorough=dict(n=8000, shards=64, args=["--thorough"], run_timeout=10800, coq_case_timeout=7200),
    trusted_base=_C05_MODEL + ["round 8: coq/C05/Alias.v models relabellings of the input (any injective map on blank node labels, including labels of the form c14nN / bN) and re-reading of a canonical document; the label-shape predicate canonical_shaped is hand-written from the identifier issuer's format"],
    assumptions=["datasets well-formed (wf_quad: IRIs without '>', labels/tags without space, IRI predicates, graph names IRI or blank)",
                 "invariance proved under no-top-ties (relabelling) or distinct first-degree hashes (relabelling + order); unrestricted invariance refuted for RDFC-1.0 itself (known finding)"],
)
PROPS["C06"] = dict(
    level="proof", translators=[translate.gen_consts], runs=[dict(bin="c06")], coq_targets=["C06/Properties", "C06/Regen"],
    quick=dict(n=400, shards=16),
    thorough=dict(n=12000, shards=64, args=["--thorough"], run_timeout=10800, coq_case_timeout=7200),
    trusted_base=_C05_MODEL + ["coq/C06/Model.v: RDFC-1.0 sections 4.4-4.8 and canonical N-Quads transcribed from the Recommendation (from memory, no network), the orders it leaves open taken as Heap's order / label order / stable ties"],
    assumptions=["well-formed datasets; the specification's escape table does not include the XML-Char clause of RDF 1.2 N-Quads (U+FFFE/U+FFFF), which could not be checked offline"],
)

import regex_turtle2coq  # noqa: E402

PROPS["C04"] = dict(
    level="proof",
    translators=[regex_turtle2coq.gen_regex_turtle, translate.gen_consts],
    extra=[regex_turtle2coq.ka_extra],
    coq_targets=["C04/Model", "C04/Properties", "C04/RegenDepth"],
    runs=[dict(bin="c04")],
    quick=dict(n=2000, shards=16),
    thorough=dict(n=60000, shards=128, run_timeout=10800, coq_case_timeout=7200),
    trusted_base=[
        "model coq/C04/Model.v of the planning phase and statement emission of turtle/src/serializer/_pretty.rs and of get_checked_prefixed_pair (hand-written, terms interned by the harness modulo Term::eq in Term::cmp order)",
        "INTEGER, DECIMAL, DOUBLE, BOOLEAN, PN_LOCAL regular expressions re-generated from _pretty.rs on every run (lib/regex_turtle2coq.py); Turtle productions [19]-[21], PN_LOCAL etc. transcribed by hand (C04/Grammar.v)",
        "TEXT OF A TERM: coq/C04/TermText.v transcribes write_term / write_non_list_term / write_iri / write_plain_iri / write_literal of _pretty.rs on bytes (nt::quoted_string through its C03 model; Iri::new is a parameter of the model, instantiated in the correspondence run with C09's regenerated IRI regex); coq/C04/TermRead.v is a reference reader written by hand from the W3C Turtle grammar (tokens = the regular expressions of Grammar.v / TermGrammar.v cut by a generic longest-match function; IRIREF, STRING_LITERAL_QUOTE, LANGTAG by the recursive readers of C03); the term-level round trip is proved for all terms without variables, all prefix maps with valid distinct prefixes and all admissible continuations, and every term case of the run compares the real bytes of the term with the model and re-reads them with the reference reader inside Coq",
        "TEXT OF A DOCUMENT, for the datasets that need no abbreviation of blank nodes (every blank node subject/object labelled by the plan, no annotated quoted subject): coq/C04/DocText.v transcribes prettify / write_prefixes / write_all / next_graph / write_graph / write_tree / write_properties / write_objects / write_object / write_newline / indent / unindent of _pretty.rs as a state (output, indentation string) threaded through them, generic in the encoding (bytes / code points), terms by TermText.v; coq/C04/DocRead.v is a reference reader of DOCUMENTS written by hand from the W3C Turtle / TriG grammars (PREFIX, GRAPH blocks, predicateObjectList, objectList, `a`, white space and comments; key words need a following white space). The round trip read_doc (write_doc d) = the quads stated is proved for all such datasets, prefix maps and white-space indentations (piece by piece), on code points and on bytes, and the stated quads are proved to be a permutation of the store (one for one, graph names and subjects up to Term::eq) for a store in BTreeSet order. Every document case of the run compares the WHOLE real output byte for byte with the model (plan = Model.make_plan on the interned dataset, inside Coq), evaluates the hypotheses (store order included) and re-reads the real bytes with the reference reader",
        "the text layout around terms for datasets OUTSIDE that class (`[ ]` `( )` `{| |}`, blank nodes cut loose), Rio's streaming writer and sophia's Turtle/TriG parsers are exercised by the oracle, not modelled; for those datasets the tie to the writer is plan-level (labels, number of ( and [)",
        "accounting (every quad emitted exactly once) is a verified boolean check evaluated per generated case, not a universal theorem",
    ],
    assumptions=["strict RDF / RDF-star input, absolute IRIs (no backslash), distinct prefixes, indentation made of Turtle white space",
                 "term theorem: IRIs without the characters IRIREF excludes, labels = BLANK_NODE_LABEL, tags = LANGTAG of the Turtle grammar (sophia's LanguageTag also accepts a digit in the first subtag, e.g. a1: outside), no variables; the oracle of the term stream is applied to absolute IRIs and well-formed BCP47 tags only (Rio's parser needs a base for relative IRIs and refuses other tags)",
                 "rdf:first and rdf:rest are distinct terms",
                 "document theorem: `labelled` is a parameter of the text model (a boolean class hypothesis on it; the correspondence run computes it with the model of build_labelled); namespaces of the prefix map without the characters IRIREF excludes (they are `Iri`s); the exactness part needs the store in BTreeSet order and the Term contract (no untagged literal with datatype rdf:langString) on graph names and subjects; the stated quads spell a graph name / subject like the first quad of their group (equal to the others' modulo Term::eq, i.e. language tag case inside quoted subjects)"],
)

PROPS["C16"] = dict(
    level="proof",
    runs=[dict(bin="c16", profiles=["dev", "release"])],
    quick=dict(n=720, shards=8, args=["--big", "100000"]),
    thorough=dict(n=3600, shards=16, args=["--big", "1000000"], run_timeout=10800, coq_case_timeout=7200),
    trusted_base=[
        "frame-counting model coq/C16/Model.v (cost monad ret/bind/call: a Rust loop adds no frame, a self-call adds one) of the five matching iterators of sophia_inmem, nt::quoted_string, exec::graph/graph_rec with the FilterMap/Chain/Flatten iterators it builds, engine::mark_list_node/populate_list/convert_rdf_object, _pretty::find_subject, Term::constituents/atoms (hand-written; original recursive and repaired loop shapes side by side)",
        "the theorems count frames of the model: the optimiser (LLVM turns the iterators' and quoted_string's tail self-calls into jumps in release builds) and the size of a frame are outside them; they are observed by the oracle: subprocess of the harness on a 2 MiB thread in dev and release, addresses seen by caller-supplied callbacks (closure matchers, io::Write sink, probing Dataset), mincore(2) high-water mark of the fresh thread stack (Linux, 4 KiB pages)",
        "select(inner) and third-party iterators/parsers (Rio, json-syntax, BTreeSet) are opaque: their depth is a quantity of the theorems (dsel) or not modelled; find_subject is not reachable from the harness (tied by reading only)",
    ],
    assumptions=["stack oracle: Linux, glibc thread stacks mapped lazily",
                 "the pretty Turtle serializer takes quadratic time, so its operations are run at 300..1000 (quick) / 3000 dev, 10000 release (thorough) elements, not 10^6"],
)

PROPS["C18"] = dict(
    level="proof", runs=[dict(bin="c18")],
    quick=dict(n=760, shards=16),
    thorough=dict(n=20000, shards=128, run_timeout=10800, coq_case_timeout=7200),
    trusted_base=[
        "round 8: coq/C18/Refuse.v: writable / must_refuse transcribe check_predicate and the character check of the Checked wrapper; is_qname / wf_ok and the harness's lexical_findings are hand-written from the XML 1.0 productions Char, Name, QName (Namespaces in XML constraints on reserved namespace names are NOT checked)",
        "coq/C18/Model.v: hand transcription of convert_triple / serialize_triples (and the Checked wrapper of the fix) and of rio_xml 0.8.6 formatter.rs/parser.rs and quick-xml 0.36.2 escape.rs/writer.rs; documents compared byte for byte, both parses compared triple by triple",
        "strict reader written from XML 1.0 (2.2, 2.11, 3.3.3, 4.1), Namespaces in XML and the RDF/XML rules for the formatter's vocabulary; cross-checked against an independent Rust reference reader in c18.rs",
        "XML lexing (bytes to events) is not modelled; pads are proved never adjacent to text",
        "IRI handling of Rio's reader is modelled in coq/C18/Iris.v (RFC 3986 scheme rule, the RFC 3987 grammar of C09, a transcription of oxiri's resolver, reading with and without a base); BCP47 (oxilangtag) validation is not modelled",
        "the harness probes whether the repair is present and checks against the matching model variant",
    ],
    assumptions=["terms valid per sophia's BnodeId/IriRef/LanguageTag", "no DOCTYPE, so no custom entities"],
)
