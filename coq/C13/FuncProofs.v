(* C13/FuncProofs.v -- the built-in function calls: the implementation model (FuncModel.v) computes
   what the specification (FuncSpec.v) prescribes, for all arguments; the laws users rely on; the
   witnesses of the defects of the code as found. *)
From Coq Require Import String Ascii.
From Coq Require Import SpecFloat.
From Sophia.C13 Require Import ExprConcrete ExprProofs.
From Sophia.C13 Require Export FuncConcrete FuncSpec.

(* ------------------------------------------------------------------------------------ *)
(* 1. strings: byte offsets, occurrences                                                 *)
(* ------------------------------------------------------------------------------------ *)
Lemma ulen_pos ch : 1 <= ulen ch.
Proof. unfold ulen. destruct (ch <? 128); [lia|]. destruct (ch <? 2048); [lia|]. destruct (ch <? 65536); lia. Qed.
Lemma blen_app a b : blen (a ++ b) = blen a + blen b.
Proof. induction a as [|ch a IH]; cbn [blen app]; [reflexivity|]. rewrite IH. lia. Qed.
(* str::len is the number of bytes of the UTF-8 encoding *)
Lemma blen_utf8 s : blen s = N.of_nat (length (utf8 s)).
Proof.
  induction s as [|ch s IH]; [reflexivity|]. unfold utf8 in *. cbn [blen flat_map]. rewrite app_length, Nat2N.inj_add, <- IH.
  f_equal. unfold ulen, utf8_1. destruct (ch <? 128); [reflexivity|]. destruct (ch <? 2048); [reflexivity|].
  destruct (ch <? 65536); reflexivity.
Qed.
(* a byte offset that is the length of a prefix is a character boundary *)
Lemma bsplit_app a r : bsplit (a ++ r) (blen a) = Some (a, r).
Proof.
  induction a as [|ch a IH]; cbn [app blen].
  - destruct r; reflexivity.
  - cbn [bsplit]. pose proof (ulen_pos ch) as U.
    destruct (N.eqb_spec (ulen ch + blen a) 0) as [E|_]; [lia|].
    destruct (N.ltb_spec (ulen ch + blen a) (ulen ch)) as [E|_]; [lia|].
    replace (ulen ch + blen a - ulen ch) with (blen a) by lia. rewrite IH. reflexivity.
Qed.
Lemma bslice_mid a b d : bslice (a ++ b ++ d) (blen a) (blen a + blen b) = FVal b.
Proof.
  unfold bslice. destruct (N.ltb_spec (blen a + blen b) (blen a)) as [E|_]; [lia|].
  rewrite bsplit_app. replace (blen a + blen b - blen a) with (blen b) by lia. rewrite bsplit_app. reflexivity.
Qed.
Lemma bslice_prefix a d : bslice (a ++ d) 0 (blen a) = FVal a.
Proof. apply (bslice_mid [] a d). Qed.
Lemma bslice_suffix a d : bslice (a ++ d) (blen a) (blen (a ++ d)) = FVal d.
Proof. rewrite blen_app. rewrite <- (app_nil_r d) at 1. apply (bslice_mid a d []). Qed.

Lemma strip_pre_some p : forall s r, strip_pre p s = Some r -> s = p ++ r.
Proof.
  induction p as [|x p IH]; intros s r; cbn [strip_pre].
  - destruct s; intros H; injection H as <-; reflexivity.
  - destruct s as [|y s]; [discriminate|]. destruct (N.eqb_spec x y) as [->|]; [|discriminate].
    intros H. rewrite (IH _ _ H). reflexivity.
Qed.
Lemma strip_pre_app p r : strip_pre p (p ++ r) = Some r.
Proof. induction p as [|x p IH]; cbn [strip_pre app]; [destruct r; reflexivity|]. rewrite N.eqb_refl. exact IH. Qed.
Lemma strip_pre_iff p s : is_some (strip_pre p s) = true <-> exists r, s = p ++ r.
Proof.
  split.
  - destruct (strip_pre p s) as [r|] eqn:E; [|discriminate]. intros _. exists r. apply strip_pre_some, E.
  - intros [r ->]. rewrite strip_pre_app. reflexivity.
Qed.

(* the first occurrence: a decomposition of the string, and the leftmost one *)
Lemma split_at_first_sound x : forall s a b, split_at_first x s = Some (a, b) -> s = a ++ x ++ b.
Proof.
  induction s as [|ch s IH]; intros a b; cbn [split_at_first].
  - destruct (strip_pre x []) as [r|] eqn:E; [|discriminate]. intros H; injection H as <- <-. exact (strip_pre_some x _ _ E).
  - destruct (strip_pre x (ch :: s)) as [r|] eqn:E.
    + intros H; injection H as <- <-. exact (strip_pre_some x _ _ E).
    + destruct (split_at_first x s) as [[a' b']|] eqn:F; [|discriminate].
      intros H; injection H as <- <-. rewrite (IH _ _ eq_refl). reflexivity.
Qed.
Lemma split_at_first_leftmost x : forall s a b, split_at_first x s = Some (a, b) ->
  forall a' b', s = a' ++ x ++ b' -> (length a <= length a')%nat.
Proof.
  induction s as [|ch s IH]; intros a b; cbn [split_at_first].
  - destruct (strip_pre x []); [|discriminate]. intros H; injection H as <- <-. intros; cbn; lia.
  - destruct (strip_pre x (ch :: s)) as [r|] eqn:E.
    + intros H; injection H as <- <-. intros; cbn; lia.
    + destruct (split_at_first x s) as [[a1 b1]|] eqn:F; [|discriminate].
      intros H; injection H as <- <-. intros [|c2 a'] b' EQ.
      * cbn [app] in EQ. rewrite EQ, strip_pre_app in E. discriminate.
      * cbn [app] in EQ. injection EQ as -> EQ. cbn [length]. apply le_n_S. eapply IH; eauto.
Qed.
Lemma split_at_first_head x b : split_at_first x (x ++ b) = Some ([], b).
Proof. destruct (x ++ b) eqn:E; cbn [split_at_first]; rewrite <- E, strip_pre_app; reflexivity. Qed.
Lemma split_at_first_complete x : forall s a b, s = a ++ x ++ b -> split_at_first x s <> None.
Proof.
  intros s a; revert s; induction a as [|ch a IH]; intros s b ->.
  - cbn [app]. rewrite split_at_first_head. discriminate.
  - cbn [app split_at_first]. destruct (strip_pre x (ch :: a ++ x ++ b)); [discriminate|].
    specialize (IH _ b eq_refl). destruct (split_at_first x (a ++ x ++ b)) as [[? ?]|]; congruence.
Qed.
(* CONTAINS: the needle occurs *)
Lemma sp_contains_iff s x : sp_contains s x = true <-> exists a b, s = a ++ x ++ b.
Proof.
  unfold sp_contains. split.
  - destruct (split_at_first x s) as [[a b]|] eqn:E; [|discriminate]. intros _. exists a, b. eapply split_at_first_sound; eauto.
  - intros (a & b & E). pose proof (split_at_first_complete x s a b E). destruct (split_at_first x s); [reflexivity|congruence].
Qed.
(* str::find returns the byte offset of what split_at_first finds *)
Lemma rust_find_spec x : forall s,
  rust_find x s = match split_at_first x s with Some (a, _) => Some (blen a) | None => None end.
Proof.
  induction s as [|ch s IH]; cbn [rust_find split_at_first].
  - destruct (strip_pre x []); reflexivity.
  - destruct (strip_pre x (ch :: s)); [reflexivity|]. rewrite IH.
    destruct (split_at_first x s) as [[a b]|]; reflexivity.
Qed.
Lemma rust_contains_spec h n : rust_contains h n = sp_contains h n.
Proof. unfold rust_contains, sp_contains. rewrite rust_find_spec. destruct (split_at_first n h) as [[? ?]|]; reflexivity. Qed.
Lemma rust_starts_spec h n : rust_starts_with h n = sp_starts h n.
Proof. reflexivity. Qed.

(* STRENDS *)
Lemma sp_ends_iff : forall s x, sp_ends s x = true <-> exists p, s = p ++ x.
Proof.
  induction s as [|ch s IH]; intros x; cbn [sp_ends].
  - rewrite orb_false_r, str_eqb_eq. split; [intros <-; exists []; reflexivity|].
    intros [p E]. destruct p; [exact E|discriminate].
  - rewrite orb_true_iff, str_eqb_eq, IH. split.
    + intros [<-|[p ->]]; [exists []; reflexivity|exists (ch :: p); reflexivity].
    + intros [[|c p] E]; [left; exact E|]. right. injection E as -> E. eauto.
Qed.
Lemma rust_ends_spec h n : rust_ends_with h n = sp_ends h n.
Proof.
  apply eq_true_iff_eq. unfold rust_ends_with. rewrite strip_pre_iff, sp_ends_iff. split.
  - intros [r E]. exists (rev r). apply (f_equal (@rev N)) in E. rewrite rev_involutive, rev_app_distr, rev_involutive in E. exact E.
  - intros [p ->]. exists (rev p). apply rev_app_distr.
Qed.

(* STRBEFORE / STRAFTER: the byte slices are the parts the specification names *)
Lemma strbefore_spec X h ht n :
  strbefore X h ht n = FVal (match split_at_first n h with
                            | Some (a, _) => vstrl X a ht
                            | None => vstrl X [] None
                            end).
Proof.
  unfold strbefore. rewrite rust_find_spec. destruct (split_at_first n h) as [[a b]|] eqn:E.
  - rewrite (split_at_first_sound _ _ _ _ E), bslice_prefix. reflexivity.
  - unfold bslice. cbn. destruct h; reflexivity.
Qed.
Lemma strafter_spec X h ht n :
  strafter X h ht n = FVal (match split_at_first n h with
                           | Some (_, b) => vstrl X b ht
                           | None => vstrl X [] None
                           end).
Proof.
  unfold strafter. rewrite rust_find_spec. destruct (split_at_first n h) as [[a b]|] eqn:E; [|reflexivity].
  rewrite (split_at_first_sound _ _ _ _ E). rewrite <- blen_app, app_assoc, bslice_suffix. reflexivity.
Qed.

(* ENCODE_FOR_URI: percent-encoding the UTF-8 bytes one by one = encoding character by character *)
Lemma unreserved_spec b : unreserved b = sp_unreserved b.
Proof.
  unfold unreserved, sp_unreserved, is_alpha, is_digit.
  destruct ((65 <=? b) && (b <=? 90)), ((97 <=? b) && (b <=? 122)), ((48 <=? b) && (b <=? 57)),
    (b =? 45) eqn:?, (b =? 95) eqn:?, (b =? 46) eqn:?, (b =? 126) eqn:?; reflexivity.
Qed.
Lemma sp_unreserved_ascii ch : sp_unreserved ch = true -> ch <? 128 = true.
Proof.
  unfold sp_unreserved. intros H. apply N.ltb_lt.
  repeat (apply orb_true_iff in H as [H|H]); try (apply andb_true_iff in H as [_ H]; apply N.leb_le in H; lia);
  apply N.eqb_eq in H; lia.
Qed.
Lemma hex_spec v : hex_digit v = sp_hex v.
Proof. unfold hex_digit, sp_hex. destruct (N.ltb_spec v 10); [reflexivity|lia]. Qed.
Lemma encode_byte_pct b : sp_unreserved b = false -> encode_byte b = sp_pct b.
Proof. intros U. unfold encode_byte, sp_pct. rewrite unreserved_spec, U, !hex_spec. reflexivity. Qed.
Lemma encode_byte_high b : 128 <= b -> encode_byte b = sp_pct b.
Proof.
  intros H. apply encode_byte_pct. destruct (sp_unreserved b) eqn:U; [|reflexivity].
  apply sp_unreserved_ascii, N.ltb_lt in U. lia.
Qed.
Lemma encode_char ch :
  flat_map encode_byte (utf8_1 ch) = if sp_unreserved ch then [ch] else flat_map sp_pct (utf8_1 ch).
Proof.
  destruct (sp_unreserved ch) eqn:U.
  - unfold utf8_1. rewrite (sp_unreserved_ascii _ U). cbn [flat_map app]. unfold encode_byte. rewrite unreserved_spec, U. reflexivity.
  - unfold utf8_1. destruct (ch <? 128) eqn:A.
    + cbn [flat_map app]. rewrite (encode_byte_pct _ U). reflexivity.
    + assert (HI : forall a y, 128 <= a -> 128 <= a + y) by (intros; lia).
      destruct (ch <? 2048); [|destruct (ch <? 65536)]; cbn [flat_map];
        rewrite !encode_byte_high by (apply HI; lia); reflexivity.
Qed.
Lemma encode_spec s : flat_map encode_byte (utf8 s) = sp_encode s.
Proof.
  unfold utf8, sp_encode. induction s as [|ch s IH]; [reflexivity|].
  cbn [flat_map]. rewrite flat_map_app, IH, encode_char. reflexivity.
Qed.

(* ------------------------------------------------------------------------------------ *)
(* 2. numbers: CEIL, FLOOR, ROUND on decimals; ABS                                       *)
(* ------------------------------------------------------------------------------------ *)
Local Open Scope Z_scope.
Lemma pow10_pos n : 0 < pow10 n.
Proof. unfold pow10. apply Z.pow_pos_nonneg; lia. Qed.
(* what the three roundings ARE: the integers next to m / 10^s *)
Lemma sp_floor_char d : sp_floor d * pow10 (snd d) <= fst d < (sp_floor d + 1) * pow10 (snd d).
Proof.
  unfold sp_floor. pose proof (pow10_pos (snd d)) as P. pose proof (Z.div_mod (fst d) (pow10 (snd d))) as E.
  pose proof (Z.mod_pos_bound (fst d) (pow10 (snd d)) P). nia.
Qed.
Lemma sp_ceiling_char d : (sp_ceiling d - 1) * pow10 (snd d) < fst d <= sp_ceiling d * pow10 (snd d).
Proof.
  unfold sp_ceiling. pose proof (pow10_pos (snd d)) as P. pose proof (Z.div_mod (fst d) (pow10 (snd d))) as E.
  pose proof (Z.mod_pos_bound (fst d) (pow10 (snd d)) P).
  destruct (Z.eqb_spec (fst d / pow10 (snd d) * pow10 (snd d)) (fst d)); nia.
Qed.
(* fn:round: the closest integer, the upper one of two: x - 1/2 < r <= x + 1/2 *)
Lemma sp_round_char d :
  2 * fst d - pow10 (snd d) < 2 * sp_round d * pow10 (snd d) <= 2 * fst d + pow10 (snd d).
Proof.
  unfold sp_round. pose proof (pow10_pos (snd d)) as P. pose proof (Z.div_mod (fst d) (pow10 (snd d))) as E.
  pose proof (Z.mod_pos_bound (fst d) (pow10 (snd d)) P).
  destruct (Z.ltb_spec (2 * (fst d - fst d / pow10 (snd d) * pow10 (snd d))) (pow10 (snd d))); nia.
Qed.
(* ... and they are the only integers with these properties *)
Lemma floor_unique m p z : 0 < p -> z * p <= m < (z + 1) * p -> z = m / p.
Proof. intros P H. apply Z.div_unique with (r := m - z * p); lia. Qed.
Lemma sp_floor_unique d z : z * pow10 (snd d) <= fst d < (z + 1) * pow10 (snd d) -> z = sp_floor d.
Proof. apply floor_unique, pow10_pos. Qed.
Lemma sp_ceiling_unique d z : (z - 1) * pow10 (snd d) < fst d <= z * pow10 (snd d) -> z = sp_ceiling d.
Proof. intros H. pose proof (sp_ceiling_char d). pose proof (pow10_pos (snd d)). nia. Qed.
Lemma sp_round_unique d z :
  2 * fst d - pow10 (snd d) < 2 * z * pow10 (snd d) <= 2 * fst d + pow10 (snd d) -> z = sp_round d.
Proof. intros H. pose proof (sp_round_char d). pose proof (pow10_pos (snd d)). nia. Qed.

(* the code after 5a72fb8 *)
Lemma dfloor_spec d : dfloor d = sp_floor d.
Proof. reflexivity. Qed.
Lemma dceil_spec d : dceil d = sp_ceiling d.
Proof.
  apply sp_ceiling_unique. unfold dceil. pose proof (pow10_pos (snd d)) as P.
  pose proof (Z.div_mod (- fst d) (pow10 (snd d))). pose proof (Z.mod_pos_bound (- fst d) (pow10 (snd d)) P). nia.
Qed.
Lemma dfloor_dnorm_fuel fuel : forall m s, dfloor (dnorm_fuel fuel m s) = dfloor (m, s).
Proof.
  induction fuel as [|f IH]; intros m s; cbn [dnorm_fuel]; [reflexivity|].
  destruct (N.eqb_spec s 0); [reflexivity|]. destruct (m mod 10 =? 0); [|reflexivity].
  rewrite IH. unfold dfloor, pow10. cbn [fst snd].
  replace (Z.of_N s) with (1 + Z.of_N (s - 1)) by lia. rewrite Z.pow_add_r by lia.
  rewrite Z.div_div by (try apply Z.pow_pos_nonneg; lia). reflexivity.
Qed.
Lemma dfloor_dnorm d : dfloor (dnorm d) = dfloor d.
Proof.
  unfold dnorm. destruct (Z.eqb_spec (fst d) 0) as [E|_].
  - unfold dfloor. cbn [fst snd]. rewrite E. change (pow10 0) with 1. rewrite Z.div_0_l by (pose proof (pow10_pos (snd d)); lia). reflexivity.
  - destruct d as [m s]. apply dfloor_dnorm_fuel.
Qed.
(* (inner + 0.5).with_scale_round(0, Floor) is fn:round *)
Lemma dround_spec d : dfloor (dadd d dec_half) = sp_round d.
Proof.
  apply sp_round_unique. destruct d as [m s]. unfold dadd, dalign, dec_half. cbn [fst snd].
  rewrite dfloor_dnorm. unfold dfloor. cbn [fst snd].
  destruct (N.eqb_spec s 0) as [->|NZ].
  - change (N.max 0 1) with 1%N. change (pow10 (1 - 0)) with 10. change (pow10 (1 - 1)) with 1. change (pow10 1) with 10. change (pow10 0) with 1.
    pose proof (Z.div_mod (m * 10 + 5 * 1) 10). pose proof (Z.mod_pos_bound (m * 10 + 5 * 1) 10). lia.
  - replace (N.max s 1) with s by lia. replace (s - s)%N with 0%N by lia. change (pow10 0) with 1.
    assert (P : pow10 s = 10 * pow10 (s - 1)).
    { unfold pow10. replace (Z.of_N s) with (1 + Z.of_N (s - 1)) at 1 by lia. rewrite Z.pow_add_r by lia. reflexivity. }
    pose proof (pow10_pos (s - 1)) as Q. set (h := pow10 (s - 1)) in *. rewrite P.
    pose proof (Z.div_mod (m * 1 + 5 * h) (10 * h)). pose proof (Z.mod_pos_bound (m * 1 + 5 * h) (10 * h)). nia.
Qed.

(* ------------------------------------------------------------------------------------ *)
(* 3. arguments: what the accessors of EvalResult read is the class section 17.1 assigns  *)
(* ------------------------------------------------------------------------------------ *)
Local Open Scope N_scope.
Section Args.
Variable X : xlib.
Notation c := cfg_fixed.

Lemma try_from_term_string lex : try_from_term X c (LitDt lex xsd_string_iri) = Some (SStr lex None).
Proof. reflexivity. Qed.
Ltac kill_branches H :=
  repeat match type of H with
         | (if ?b then _ else _) = _ => destruct b eqn:?
         | option_map _ ?o = _ => destruct o; cbn [option_map] in H
         end; try discriminate H.
Lemma try_from_term_str_inv lex dt l t :
  try_from_term X c (LitDt lex dt) = Some (SStr l t) -> dt = xsd_string_iri /\ l = lex /\ t = None.
Proof.
  unfold try_from_term. destruct (strip_pre xsd_ns dt) as [n|] eqn:SP; [|discriminate]. intros H.
  kill_branches H. injection H as <- <-.
  match goal with E : eqs n "string" = true |- _ => apply eqs_true in E; subst n end.
  apply strip_pre_some in SP. subst dt. repeat split.
Qed.
(* as_string_lit / as_xsd_string go by the datatype IRI, as_value by the parsed value: same thing *)
Lemma as_string_lit_value a :
  as_string_lit X a = match as_value X c a with Some (SStr l t) => Some (l, t) | _ => None end.
Proof.
  destruct a as [t|v]; [|destruct v as [n|l t|b|d]; reflexivity].
  destruct t as [i|b|lex dt|lex tag|s p o|v]; try reflexivity.
  cbn [as_string_lit as_value]. destruct (str_eqb_spec dt xsd_string_iri) as [->|NE].
  - rewrite try_from_term_string. reflexivity.
  - destruct (try_from_term X c (LitDt lex dt)) as [[n|l t|b|d]|] eqn:E; try reflexivity.
    apply try_from_term_str_inv in E as (E & _). contradiction.
Qed.
Lemma as_xsd_string_value a :
  as_xsd_string X a = match as_value X c a with Some (SStr l None) => Some l | _ => None end.
Proof.
  destruct a as [t|v]; [|destruct v as [n|l [t|]|b|d]; reflexivity].
  destruct t as [i|b|lex dt|lex tag|s p o|v]; try reflexivity.
  cbn [as_xsd_string as_value]. destruct (str_eqb_spec dt xsd_string_iri) as [->|NE].
  - rewrite try_from_term_string. reflexivity.
  - destruct (try_from_term X c (LitDt lex dt)) as [[n|l [t|]|b|d]|] eqn:E; try reflexivity;
    apply try_from_term_str_inv in E as (E & _ & E2); try contradiction; discriminate.
Qed.

(* a computed language-tagged string behaves like the literal it denotes *)
Definition nz (a : cval X) : cval X :=
  match a with VVal (SStr l (Some tg)) => VTerm (LitLang l tg) | _ => a end.
Lemma nz_as_term a : as_term X c (nz a) = as_term X c a.
Proof. destruct a as [t|[n|l [t|]|b|d]]; reflexivity. Qed.
Lemma nz_as_value a : as_value X c (nz a) = as_value X c a.
Proof. destruct a as [t|[n|l [t|]|b|d]]; reflexivity. Qed.
Lemma nz_truthy a : c_truthy X c (nz a) = c_truthy X c a.
Proof. destruct a as [t|[n|l [t|]|b|d]]; reflexivity. Qed.
Lemma nz_eq a b : c_eq X c (nz a) (nz b) = c_eq X c a b.
Proof. unfold c_eq. rewrite !nz_as_value, !nz_as_term. reflexivity. Qed.
Lemma nz_compare p a b : c_compare X c p (nz a) (nz b) = c_compare X c p a b.
Proof. unfold c_compare, c_cmp, as_number. rewrite !nz_as_value, !nz_as_term. reflexivity. Qed.
Lemma nz_number a : as_number X c (nz a) = as_number X c a.
Proof. unfold as_number. rewrite nz_as_value. reflexivity. Qed.
Lemma nz_string_lit a : as_string_lit X (nz a) = as_string_lit X a.
Proof. destruct a as [t|[n|l [t|]|b|d]]; reflexivity. Qed.
Lemma nz_xsd_string a : as_xsd_string X (nz a) = as_xsd_string X a.
Proof. destruct a as [t|[n|l [t|]|b|d]]; reflexivity. Qed.
Lemma nz_date a : as_xsd_date_time X c (nz a) = as_xsd_date_time X c a.
Proof. unfold as_xsd_date_time. rewrite nz_as_value. reflexivity. Qed.
Lemma nz_fn1 f a : call_fn1 X c f (nz a) = call_fn1 X c f a.
Proof. destruct a as [t|[n|l [t|]|b|d]]; try reflexivity; destruct f; reflexivity. Qed.
Lemma nz_idem a : nz (nz a) = nz a.
Proof. destruct a as [t|[n|l [t|]|b|d]]; reflexivity. Qed.

(* every NativeInt holds an isize *)
Definition nwf (n : inum X) : Prop := match n with NativeInt _ z => in_isize z = true | _ => True end.
Definition cwf (a : cval X) : Prop := match a with VVal (SNum n) => nwf n | _ => True end.
Lemma checked_wf z v : checked z = Some v -> in_isize v = true.
Proof. unfold checked. destruct (in_isize z) eqn:E; [|discriminate]. intros H; injection H as <-. exact E. Qed.
Lemma num_of_int_wf z : nwf (num_of_int X z).
Proof. unfold num_of_int. destruct (in_isize z) eqn:E; [exact E|exact I]. Qed.
Lemma rust_prim_range sg lo hi s z : rust_prim sg lo hi s = Some z -> ((lo <=? z) && (z <=? hi))%Z = true.
Proof.
  unfold rust_prim. destruct (match s with [] => _ | _ => _ end) as [neg r]. destruct r; [discriminate|].
  destruct (digits_val 0 (n :: r)); [|discriminate].
  destruct ((lo <=? sgn neg z0)%Z && (sgn neg z0 <=? hi)%Z) eqn:E; [|discriminate]. intros H; injection H as <-. exact E.
Qed.
Lemma try_parse_integer_wf lex n : try_parse_integer X c lex = Some n -> nwf n.
Proof.
  unfold try_parse_integer. destruct (rust_prim true isize_min isize_max lex) as [z|] eqn:E.
  - intros H; injection H as <-. apply rust_prim_range in E. exact E.
  - destruct (fix_lex c && negb (int_syntax lex)); [discriminate|]. destruct (rust_bigint lex); [|discriminate].
    intros H; injection H as <-. exact I.
Qed.
Lemma check_some p o i : check X p o = Some i -> o = Some i.
Proof. unfold check. destruct o as [k|]; [|discriminate]. destruct (p (int_of X k)); congruence. Qed.
Lemma option_map_int_wf (o : option Z) i : option_map (num_of_int X) o = Some i -> nwf i.
Proof. destruct o; [|discriminate]. intros H; injection H as <-. apply num_of_int_wf. Qed.
Lemma try_from_term_wf t n : try_from_term X c t = Some (SNum n) -> nwf n.
Proof.
  destruct t as [i|b|lex dt|lex tag|s p o|v]; try discriminate. unfold try_from_term.
  destruct (strip_pre xsd_ns dt) as [nm|]; [|discriminate]. intros H.
  repeat match type of H with
         | (if ?b then _ else _) = _ => destruct b eqn:?
         end; try discriminate H;
  match type of H with option_map _ ?o = _ => destruct o as [k|] eqn:E; [|discriminate H] end;
  injection H as <-; try exact I;
  first [ eapply try_parse_integer_wf; eassumption
        | apply check_some in E; eapply try_parse_integer_wf; eassumption
        | eapply option_map_int_wf; eassumption
        | idtac ].
Qed.
Lemma as_number_wf a n : cwf a -> as_number X c a = Some n -> nwf n.
Proof.
  unfold as_number. destruct a as [t|[m|l tg|b|d]]; cbn [as_value cwf]; try discriminate.
  - intros _. destruct (try_from_term X c t) as [[m|l tg|b|d]|] eqn:E; try discriminate.
    intros H; injection H as <-. eapply try_from_term_wf, E.
  - intros W H; injection H as <-. exact W.
Qed.
Lemma arith_wf (op : inum X -> inum X -> option (inum X)) a b r :
  (op = add (FL X) \/ op = sub (FL X) \/ op = mul (FL X) \/ op = div (FL X)) -> op a b = Some r -> nwf r.
Proof.
  intros [ -> | [ -> | [ -> | -> ] ] ]; destruct a, b; cbn; unfold checked;
  repeat match goal with |- context [if ?g then _ else _] => destruct g eqn:? end; cbn [option_map];
  intros H; try discriminate H; injection H as <-; try exact I; assumption.
Qed.
Lemma neg_wf a r : neg (FL X) a = Some r -> nwf r.
Proof. destruct a; cbn; unfold checked; try (intros H; injection H as <-; exact I). destruct (in_isize (- z)) eqn:E; intros H; injection H as <-; [exact E|exact I]. Qed.
Lemma abs_wf a : nwf (abs (FL X) a).
Proof. destruct a; cbn; try exact I. unfold checked. destruct (in_isize (Z.abs z)) eqn:E; [exact E|exact I]. Qed.
End Args.

(* ------------------------------------------------------------------------------------ *)
(* 4. LANGMATCHES: the byte slices of lang_matches on well-formed tags = RFC 4647 basic filtering *)
(* ------------------------------------------------------------------------------------ *)
Definition ascii (s : str) : bool := forallb (fun ch => ch <? 128) s.
Lemma blen_ascii s : ascii s = true -> blen s = N.of_nat (length s).
Proof.
  induction s as [|ch s IH]; [reflexivity|]. cbn [ascii forallb blen length]. intros H. apply andb_true_iff in H as [A B].
  rewrite (IH B). unfold ulen. rewrite A. lia.
Qed.
Lemma ascii_firstn k s : ascii s = true -> ascii (firstn k s) = true.
Proof. revert s; induction k as [|k IH]; intros [|ch s]; cbn; auto. intros H. apply andb_true_iff in H as [A B]. rewrite A. cbn. auto. Qed.
Lemma bslice_ascii_prefix s k : ascii s = true -> (k <= length s)%nat ->
  bslice s 0 (N.of_nat k) = FVal (firstn k s).
Proof.
  intros A L. pose proof (blen_ascii (firstn k s) (ascii_firstn k s A)) as B. rewrite (firstn_length_le s L) in B.
  rewrite <- B. pose proof (firstn_skipn k s) as E. remember (firstn k s) as a. remember (skipn k s) as d.
  rewrite <- E. apply bslice_prefix.
Qed.
Lemma bslice_ascii_suffix s k : ascii s = true -> (k <= length s)%nat ->
  bslice s (N.of_nat k) (blen s) = FVal (skipn k s).
Proof.
  intros A L. pose proof (blen_ascii (firstn k s) (ascii_firstn k s A)) as B. rewrite (firstn_length_le s L) in B.
  rewrite <- B. pose proof (firstn_skipn k s) as E. remember (firstn k s) as a. remember (skipn k s) as d.
  rewrite <- E. apply bslice_suffix.
Qed.
(* a well-formed language tag is ASCII *)
Lemma dash_segments_head : forall s cur, exists tl rest, dash_segments cur s = (rev cur ++ tl) :: rest.
Proof.
  induction s as [|ch s IH]; intros cur; cbn [dash_segments].
  - exists [], []. rewrite app_nil_r. reflexivity.
  - destruct (is_minus ch).
    + exists [], (dash_segments [] s). rewrite app_nil_r. reflexivity.
    + destruct (IH (ch :: cur)) as (tl & rest & E). rewrite E. cbn [rev]. rewrite <- app_assoc. eauto.
Qed.
Lemma dash_segments_chars : forall s cur,
  (forall g, In g (dash_segments cur s) -> forallb is_alnum g = true) ->
  forallb (fun ch => is_alnum ch || is_minus ch) s = true.
Proof.
  induction s as [|ch s IH]; intros cur H; [reflexivity|]. cbn [forallb dash_segments] in *.
  destruct (is_minus ch) eqn:M.
  - rewrite orb_true_r. cbn [andb]. apply (IH []). intros g G. apply H. right. exact G.
  - rewrite orb_false_r. rewrite (IH (ch :: cur) H), andb_true_r.
    destruct (dash_segments_head s (ch :: cur)) as (tl & rest & E).
    rewrite E in H. specialize (H (rev (ch :: cur) ++ tl) (or_introl eq_refl)).
    rewrite forallb_app in H. apply andb_true_iff in H as [H _]. cbn [rev] in H. rewrite forallb_app in H.
    apply andb_true_iff in H as [_ H]. cbn in H. rewrite andb_true_r in H. exact H.
Qed.
Lemma alnum_ascii ch : is_alnum ch || is_minus ch = true -> ch <? 128 = true.
Proof.
  unfold is_alnum, is_alpha, is_digit, is_minus. intros H. apply N.ltb_lt.
  repeat (apply orb_true_iff in H as [H|H]); try (apply andb_true_iff in H as [_ H]; apply N.leb_le in H; lia).
  apply N.eqb_eq in H. lia.
Qed.
Lemma lang_tag_ascii s : lang_tag_ok s = true -> ascii s = true.
Proof.
  unfold lang_tag_ok. intros H. unfold ascii. eapply forallb_impl; [intros ch; apply alnum_ascii|].
  apply (dash_segments_chars s []). destruct (dash_segments [] s) as [|first rest]; [discriminate|].
  apply andb_true_iff in H as [H R]. apply andb_true_iff in H as [_ F].
  intros g [<-|G]; [exact F|]. rewrite forallb_forall in R. specialize (R _ G). apply andb_true_iff in R as [_ R]. exact R.
Qed.
Lemma lang_tag_nonempty s : lang_tag_ok s = true -> s <> [].
Proof. intros H ->. discriminate. Qed.

Lemma ci_strip_spec r : forall t,
  ci_strip r t = if (length r <=? length t)%nat && str_eqb_ci (firstn (length r) t) r
                 then Some (skipn (length r) t) else None.
Proof.
  induction r as [|x r IH]; intros t.
  - destruct t; reflexivity.
  - destruct t as [|y t]; [reflexivity|]. cbn [ci_strip length firstn skipn]. rewrite IH.
    change (S (length r) <=? S (length t))%nat with (length r <=? length t)%nat.
    unfold str_eqb_ci, lower. cbn [map str_eqb]. rewrite (N.eqb_sym (lower1 y)).
    destruct (lower1 x =? lower1 y); [|rewrite andb_false_r; reflexivity]. reflexivity.
Qed.
Lemma lang_matches_ok X tag range :
  lang_tag_ok tag = true -> (range = star \/ lang_tag_ok range = true) ->
  lang_matches X tag range = FVal (vbool X (sp_lang_matches tag range)).
Proof.
  intros T R. unfold lang_matches, sp_lang_matches. rewrite T. cbn [negb]. fold star.
  destruct (str_eqb_spec range star) as [->|NS].
  - destruct tag; [discriminate|reflexivity].
  - destruct R as [R|R]; [contradiction|]. rewrite R. cbn [negb].
    pose proof (lang_tag_ascii _ T) as AT. pose proof (lang_tag_ascii _ R) as AR.
    rewrite (blen_ascii _ AT), (blen_ascii _ AR), ci_strip_spec.
    destruct (Nat.leb_spec (length range) (length tag)) as [L|L].
    + replace (N.of_nat (length range) <=? N.of_nat (length tag)) with true by (symmetry; apply N.leb_le; lia).
      rewrite (bslice_ascii_prefix _ _ AT L). cbn [fbind andb].
      destruct (str_eqb_ci (firstn (length range) tag) range); [|reflexivity].
      rewrite <- (blen_ascii _ AT), (bslice_ascii_suffix _ _ AT L), (blen_ascii _ AT). cbn [fbind].
      destruct (N.eqb_spec (N.of_nat (length tag)) (N.of_nat (length range))) as [E|E].
      * rewrite skipn_all2 by lia. reflexivity.
      * destruct (skipn (length range) tag) as [|ch rest] eqn:S; [|reflexivity].
        exfalso. apply E. f_equal. pose proof (skipn_length (length range) tag) as SL. rewrite S in SL. cbn in SL. lia.
    + replace (N.of_nat (length range) <=? N.of_nat (length tag)) with false by (symmetry; apply N.leb_gt; lia).
      reflexivity.
Qed.

(* ------------------------------------------------------------------------------------ *)
(* 5. every call: implementation = specification                                         *)
(* ------------------------------------------------------------------------------------ *)
Section Corr.
Variable X : xlib.
Variable Y : flib X.
(* the float library: as in ExprProofs.v, and the Rust helper xpath_round (f64::round corrected on
   negative halves, with copysign) computes fn:round *)
Hypothesis H_flt : forall s, (if float_syntax s then f_rust X s else None) = f_lex X s.
Hypothesis H_dbl : forall s, (if float_syntax s then d_rust X s else None) = d_lex X s.
Hypothesis H_rnd_d : forall d, xpath_round X Y d = d_rnd Y RHalfUp d.
Hypothesis H_rnd_f : forall f, f_of_dbl X (xpath_round X Y (d_of_flt X f)) = f_rnd Y RHalfUp f.
Notation c := cfg_fixed.
Notation P := (P_sophia X c).
Notation D := sophia_dialect.
Notation FD := fd_sophia.
Notation nz := (nz X).
Notation cwf := (cwf X).
Notation den := (den X).

(* an EvalResult denotes a result of the specification (ExprProofs.rel, extended to computed
   language-tagged strings), and its native integers are isizes *)
Definition frel (a : cval X) (s : sres X) : Prop := rel X (nz a) s /\ cwf a.
Definition erel (r : fout (cval X)) (o : option (sres X)) : Prop :=
  match r, o with FVal a, Some s => frel a s | FErr, None => True | _, _ => False end.

Lemma rel_nz a s : rel X a s -> nz a = a.
Proof. intros []; reflexivity. Qed.
Lemma mk_frel a s : rel X a s -> cwf a -> frel a s.
Proof. intros R W. split; [rewrite (rel_nz _ _ R); exact R|exact W]. Qed.
Lemma frel_str lex tag : frel (vstrl X lex tag) (r_str X lex tag).
Proof. split; [|exact I]. destruct tag; constructor. Qed.
Lemma frel_bool b : frel (vbool X b) (SB b).
Proof. split; [constructor|exact I]. Qed.
Lemma frel_num n : nwf X n -> frel (vnum X n) (SN (den n)).
Proof. intros W. split; [constructor|exact W]. Qed.
Lemma frel_int z : frel (vint X z) (SN (XI z)).
Proof. unfold vint. rewrite <- (den_num_of_int X z). apply frel_num, num_of_int_wf. Qed.
Lemma frel_term t : frel (VTerm t) (ST t).
Proof. split; [constructor|exact I]. Qed.

Lemma fr_class a s : frel a s -> s_class X s = vclass X (as_value X c a) (as_term X c a).
Proof. intros [R _]. rewrite (rel_class X H_flt H_dbl _ _ R), nz_as_value, nz_as_term. reflexivity. Qed.
Lemma fr_term a s : frel a s -> s_term X P s = as_term X c a.
Proof. intros [R _]. rewrite <- (rel_as_term X _ _ R), nz_as_term. reflexivity. Qed.
Lemma vclass_none_cases t :
  match vclass X None t with KStr _ | KLang _ _ | KNum _ | KDT _ | KBool _ | KBadBool | KBadDT => False | _ => True end.
Proof. destruct t; cbn [vclass]; auto. destruct (strip_pre xsd_ns dt); [destruct (is_some (numtype_of s))|]; exact I. Qed.
Lemma fr_strlit a s : frel a s -> as_string_lit X a = s_strlit X s.
Proof.
  intros R. unfold s_strlit. rewrite (fr_class _ _ R), as_string_lit_value.
  destruct (as_value X c a) as [[n|l [tg|]|[b|]|[d|]]|]; try reflexivity.
  pose proof (vclass_none_cases (as_term X c a)). destruct (vclass X None (as_term X c a)); tauto.
Qed.
Lemma fr_simple a s : frel a s -> as_xsd_string X a = s_simple X s.
Proof.
  intros R. unfold s_simple. rewrite (fr_class _ _ R), as_xsd_string_value.
  destruct (as_value X c a) as [[n|l [tg|]|[b|]|[d|]]|]; try reflexivity.
  pose proof (vclass_none_cases (as_term X c a)). destruct (vclass X None (as_term X c a)); tauto.
Qed.
Lemma fr_date a s : frel a s -> as_xsd_date_time X c a = s_date X s.
Proof.
  intros R. unfold s_date, as_xsd_date_time. rewrite (fr_class _ _ R).
  destruct (as_value X c a) as [[n|l [tg|]|[b|]|[d|]]|]; try reflexivity.
  pose proof (vclass_none_cases (as_term X c a)). destruct (vclass X None (as_term X c a)); tauto.
Qed.
Lemma fr_num a s : frel a s -> s_num X s = option_map den (as_number X c a).
Proof. intros [R _]. rewrite (rel_num_of X H_flt H_dbl _ _ R), nz_number. reflexivity. Qed.
Lemma fr_num_wf a s n : frel a s -> as_number X c a = Some n -> nwf X n.
Proof. intros [_ W]. apply as_number_wf, W. Qed.
Lemma x2dbl_den n : x2dbl X (den n) = to_dbl (FL X) n.
Proof. destruct n; reflexivity. Qed.
Lemma fr_dbl a s : frel a s -> s_dbl X s = option_map (to_dbl (FL X)) (as_number X c a).
Proof. intros R. unfold s_dbl. rewrite (fr_num _ _ R). destruct (as_number X c a); [cbn; rewrite x2dbl_den|]; reflexivity. Qed.

Lemma one_arg args sargs : Forall2 frel args sargs -> length args = 1%nat ->
  exists a s, args = [a] /\ sargs = [s] /\ frel a s.
Proof. intros F L. destruct F as [|a s args sargs R F]; [discriminate|]. destruct F; [|discriminate]. eauto. Qed.
Lemma two_args args sargs : Forall2 frel args sargs -> length args = 2%nat ->
  exists a s b t, args = [a; b] /\ sargs = [s; t] /\ frel a s /\ frel b t.
Proof.
  intros F L. destruct F as [|a s args sargs R F]; [discriminate|]. destruct F as [|b t args sargs R2 F]; [discriminate|].
  destruct F; [|discriminate]. exists a, s, b, t. auto.
Qed.
Lemma three_args args sargs : Forall2 frel args sargs -> length args = 3%nat ->
  exists a s b t d u, args = [a; b; d] /\ sargs = [s; t; u] /\ frel a s /\ frel b t /\ frel d u.
Proof.
  intros F L. destruct F as [|a s args sargs R F]; [discriminate|]. destruct F as [|b t args sargs R2 F]; [discriminate|].
  destruct F as [|d u args sargs R3 F]; [discriminate|]. destruct F; [|discriminate]. exists a, s, b, t, d, u. auto 6.
Qed.

(* --- functions on RDF terms --- *)
Lemma call_fn1_cwf f a v : call_fn1 X c f a = Some v -> cwf v.
Proof.
  destruct f, a as [[]|[n|l [tg|]|[b|]|[d|]]]; cbn; intros H; try discriminate H; injection H as <-; exact I.
Qed.
Lemma fn1_correct f a s : frel a s -> erel (fopt (call_fn1 X c f a)) (s_fn1 X P f s).
Proof.
  intros [R W]. pose proof (rel_fn1 X H_flt H_dbl f _ _ R) as O. rewrite nz_fn1 in O.
  destruct (call_fn1 X c f a) as [v|] eqn:E, (s_fn1 X P f s); cbn [orel fopt erel] in *; try tauto.
  apply mk_frel; [exact O|]. eapply call_fn1_cwf, E.
Qed.
Lemma den_abs n : nwf X n -> den (abs (FL X) n) = x_abs X (den n).
Proof.
  destruct n; try reflexivity. cbn [nwf abs den x_abs]. intros W. unfold checked.
  destruct (in_isize (Z.abs z)) eqn:E; [reflexivity|]. cbn [den]. f_equal.
  unfold in_isize, isize_min, isize_max in *. lia.
Qed.
Lemma den_ceil n : den (num_ceil X Y n) = x_round X Y RCeil (den n).
Proof. destruct n; try reflexivity. cbn [num_ceil ExprProofs.den x_round]. rewrite dceil_spec. reflexivity. Qed.
Lemma den_floor n : den (num_floor X Y n) = x_round X Y RFloor (den n).
Proof. destruct n; reflexivity. Qed.
Lemma den_round n : den (num_round X Y n) = x_round X Y RHalfUp (den n).
Proof.
  destruct n; try reflexivity; cbn [num_round ExprProofs.den x_round];
    [rewrite dround_spec|rewrite H_rnd_f|rewrite H_rnd_d]; reflexivity.
Qed.
Lemma round_wf (g : inum X -> inum X) n : (g = num_ceil X Y \/ g = num_floor X Y \/ g = num_round X Y) -> nwf X n -> nwf X (g n).
Proof. intros [ -> | [ -> | -> ] ] W; destruct n; try exact I; exact W. Qed.
Lemma num1_correct args sargs (g : inum X -> inum X) (h : xnum X -> xnum X) :
  Forall2 frel args sargs -> length args = 1%nat ->
  (forall n, nwf X n -> den (g n) = h (den n) /\ nwf X (g n)) ->
  erel (num1 X c args (fun n => vnum X (g n))) (s_num1 X sargs h).
Proof.
  intros F L G. destruct (one_arg _ _ F L) as (a & s & -> & -> & R).
  unfold num1, s_num1, arg1, s1. rewrite (fr_num _ _ R).
  destruct (as_number X c a) as [n|] eqn:E; cbn [option_map erel]; [|exact I].
  destruct (G n (fr_num_wf _ _ _ R E)) as [<- W]. apply frel_num, W.
Qed.
Lemma date1_correct args sargs (g : dtv X -> cval X) (h : dtv X -> xnum X) :
  Forall2 frel args sargs -> length args = 1%nat ->
  (forall d, frel (g d) (SN (h d))) ->
  erel (date1 X c args g) (s_date1 X sargs h).
Proof.
  intros F L G. destruct (one_arg _ _ F L) as (a & s & -> & -> & R).
  unfold date1, s_date1, arg1, s1. rewrite (fr_date _ _ R).
  destruct (s_date X s); cbn [option_map erel]; [apply G|exact I].
Qed.
Lemma compat_spec t1 t2 : check_compatible t1 t2 = sp_compatible t1 t2.
Proof. destruct t1, t2; reflexivity. Qed.
Lemma compat2_correct args sargs (g : str -> option str -> str -> fout (cval X))
      (h : str -> option str -> str -> option (sres X)) :
  Forall2 frel args sargs -> length args = 2%nat ->
  (forall x xt n, erel (g x xt n) (h x xt n)) ->
  erel (compat2 X args g) (s_str2 X sargs h).
Proof.
  intros F L G. destruct (two_args _ _ F L) as (a & s & b & t & -> & -> & R1 & R2).
  unfold compat2, str2, s_str2, arg2, s2. rewrite (fr_strlit _ _ R1), (fr_strlit _ _ R2).
  destruct (s_strlit X s) as [[x xt]|]; [|exact I]. destruct (s_strlit X t) as [[n nt]|]; [|exact I].
  rewrite compat_spec. destruct (sp_compatible xt nt); [apply G|exact I].
Qed.
Lemma strlit1_correct args sargs (g : str -> option str -> cval X) (h : str * option str -> sres X) :
  Forall2 frel args sargs -> length args = 1%nat ->
  (forall l t, frel (g l t) (h (l, t))) ->
  erel (arg1 X args (fun a => match as_string_lit X a with Some (l, t) => FVal (g l t) | None => FErr end))
       (s1 X sargs (fun a => option_map h (s_strlit X a))).
Proof.
  intros F L G. destruct (one_arg _ _ F L) as (a & s & -> & -> & R). unfold arg1, s1.
  rewrite (fr_strlit _ _ R). destruct (s_strlit X s) as [[l t]|]; cbn [option_map erel]; [apply G|exact I].
Qed.

(* CONCAT *)
Lemma strlits_same args sargs : Forall2 frel args sargs -> map (as_string_lit X) args = map (s_strlit X) sargs.
Proof. induction 1 as [|a s args sargs R F IH]; [reflexivity|]. cbn [map]. rewrite (fr_strlit _ _ R), IH. reflexivity. Qed.
Lemma concat_tag_spec (l : list (str * option str)) :
  match l with
  | a :: _ => match l with
              | _ :: ((_ :: _) as rest) => if forallb (fun x => tag_eq (snd x) (snd a)) rest then snd a else None
              | _ => snd a
              end
  | [] => None
  end = sp_concat_tag (map snd l).
Proof.
  destruct l as [|[l1 t1] rest]; [reflexivity|]. cbn [map snd sp_concat_tag].
  assert (G : forall t, forallb (fun x : str * option str => tag_eq (snd x) (Some t)) rest
                       = forallb (fun o => match o with Some u => str_eqb_ci u t | None => false end) (map snd rest)).
  { intros t. induction rest as [|[l2 [u|]] rest IH]; cbn [forallb map snd tag_eq opt_eqb]; [reflexivity| |reflexivity].
    rewrite IH. reflexivity. }
  destruct t1 as [t|].
  - destruct rest as [|r1 rest]; [reflexivity|]. rewrite G. reflexivity.
  - destruct rest as [|r1 rest]; [reflexivity|]. destruct (forallb _ _); reflexivity.
Qed.
Lemma concat_correct l : frel (concat X l) (r_str X (flat_map fst l) (sp_concat_tag (map snd l))).
Proof.
  unfold concat. rewrite <- concat_tag_spec. destruct l as [|a [|b rest]]; apply frel_str.
Qed.

(* SUBSTR *)
Lemma select_chars_ext (f g : Z -> bool) : (forall p, f p = g p) -> forall s p, select_chars f p s = sp_positions g p s.
Proof.
  intros E. induction s as [|ch s IH]; intros p; cbn [select_chars sp_positions]; [reflexivity|].
  rewrite E, IH. destruct (g p); reflexivity.
Qed.
Lemma sub_str_correct lex tag start len :
  frel (sub_str X Y lex tag start len) (r_str X (sp_substring X Y lex start len) tag).
Proof.
  unfold sub_str, sp_substring. erewrite select_chars_ext; [apply frel_str|].
  intros p. unfold pos_in, d_le, d_lt, fo_le, fo_lt. rewrite H_rnd_d.
  destruct len as [l|]; cbn [option_map]; [rewrite H_rnd_d|]; reflexivity.
Qed.

(* IRI *)
Lemma vclass_iri v t i : vclass X v t = KIri i -> v = None /\ t = Iri i.
Proof.
  destruct v as [[n|l [tg|]|[b|]|[d|]]|]; cbn [vclass]; try discriminate. destruct t; cbn [vclass]; try discriminate.
  - intros H; injection H as <-. auto.
  - destruct (strip_pre xsd_ns dt); [destruct (is_some (numtype_of s))|]; discriminate.
Qed.
Definition iri_spec (s : sres X) : option (sres X) :=
  match s_class X s with
  | KIri i => Some (ST (Iri i))
  | KStr st => if (if fd_relative_iri FD then iri_ref_ok Y st else iri_abs_ok Y st) then Some (ST (Iri st)) else None
  | _ => None
  end.
Lemma iri_generic a s : frel a s -> (forall i, a <> VTerm (Iri i)) ->
  erel (match as_xsd_string X a with
        | Some st => if iri_ref_ok Y st then FVal (VTerm (Iri st)) else FErr
        | None => FErr
        end) (iri_spec s).
Proof.
  intros R NI. pose proof (fr_class _ _ R) as CL. pose proof (fr_simple _ _ R) as SI. unfold s_simple in SI.
  unfold iri_spec. rewrite SI. destruct (s_class X s) eqn:K; try exact I.
  - cbn [fd_relative_iri FD]. destruct (iri_ref_ok Y s0); [apply frel_term|exact I].
  - exfalso. symmetry in CL. apply vclass_iri in CL as [V T].
    destruct a as [t|v]; [cbn in T; subst t; eapply NI; reflexivity|discriminate V].
Qed.
Lemma iri_correct a s : frel a s ->
  erel (match a with
        | VTerm (Iri i) => FVal (VTerm (Iri i))
        | _ => match as_xsd_string X a with
               | Some st => if iri_ref_ok Y st then FVal (VTerm (Iri st)) else FErr
               | None => FErr
               end
        end) (iri_spec s).
Proof.
  intros R. destruct a as [t|v]; [destruct t as [i|b|lex dt|lex tag|s1 p1 o1|v1]|];
    try (apply (iri_generic _ _ R); intros i0; discriminate).
  unfold iri_spec. rewrite (fr_class _ _ R). cbn. apply frel_term.
Qed.

(* TRIPLE *)
Lemma triple_correct a s b t d u : frel a s -> frel b t -> frel d u ->
  erel (triple_fn X c a b d)
       (match s_term X P s, s_term X P t with
        | (Iri _ | Bnode _) as s', Iri _ as p' => Some (ST (Triple s' p' (s_term X P u)))
        | _, _ => None
        end).
Proof.
  intros R1 R2 R3. rewrite (fr_term _ _ R1), (fr_term _ _ R2), (fr_term _ _ R3). unfold triple_fn.
  destruct a as [ta|[n|l [tg|]|[x|]|[x|]]]; cbn [as_term value_to_term];
  try (destruct b as [tb|[n'|l' [tg'|]|[x'|]|[x'|]]]; cbn [as_term value_to_term]; exact I).
  destruct b as [tb|[n'|l' [tg'|]|[x'|]|[x'|]]]; cbn [as_term value_to_term];
  destruct ta; try exact I; try (destruct tb; try exact I; apply frel_term).
Qed.

(* MAIN, one call: for all argument values, every implemented function computes what the
   specification (in sophia's dialect: relative IRIs, langMatches errors) prescribes, and does
   not panic *)
Theorem call_correct lbl rnd f args sargs :
  Forall2 frel args sargs -> arity_ok f (length args) = true -> implemented f = true ->
  erel (call_function X Y c lbl rnd f args) (s_call X Y P FD lbl rnd f sargs).
Proof.
  intros F A Im. destruct f; try discriminate Im; cbn [arity_ok] in A; cbn [call_function s_call].
  (* STR, LANG, DATATYPE, isIRI, isBLANK, isLITERAL, isNUMERIC *)
  all: try solve [destruct (one_arg _ _ F (proj1 (Nat.eqb_eq _ _) A)) as (a & s & -> & -> & R); apply fn1_correct, R].
  (* IRI *)
  all: try solve [destruct (one_arg _ _ F (proj1 (Nat.eqb_eq _ _) A)) as (a & s & -> & -> & R); apply iri_correct, R].
  (* ABS, CEIL, FLOOR, ROUND *)
  all: try solve [apply num1_correct; [exact F|apply Nat.eqb_eq, A|]; intros n W; split; [apply den_abs, W|apply abs_wf]].
  all: try solve [apply num1_correct; [exact F|apply Nat.eqb_eq, A|]; intros n W; split; [apply den_ceil|apply round_wf; auto]].
  all: try solve [apply num1_correct; [exact F|apply Nat.eqb_eq, A|]; intros n W; split; [apply den_floor|apply round_wf; auto]].
  all: try solve [apply num1_correct; [exact F|apply Nat.eqb_eq, A|]; intros n W; split; [apply den_round|apply round_wf; auto]].
  (* STRLEN, UCASE, LCASE, ENCODE_FOR_URI *)
  all: try solve [apply (strlit1_correct args sargs (fun l _ => vint X (Z.of_nat (length l))) (fun p => SN (XI (Z.of_nat (length (fst p))))));
                  [exact F|apply Nat.eqb_eq, A|intros; apply frel_int]].
  all: try solve [apply (strlit1_correct args sargs (fun l t => vstrl X (flat_map (to_upper Y) l) t) (fun p => r_str X (flat_map (to_upper Y) (fst p)) (snd p)));
                  [exact F|apply Nat.eqb_eq, A|intros; apply frel_str]].
  all: try solve [apply (strlit1_correct args sargs (fun l t => vstrl X (flat_map (to_lower Y) l) t) (fun p => r_str X (flat_map (to_lower Y) (fst p)) (snd p)));
                  [exact F|apply Nat.eqb_eq, A|intros; apply frel_str]].
  all: try solve [apply (strlit1_correct args sargs (fun l _ => encode_for_uri X l) (fun p => r_str X (sp_encode (fst p)) None));
                  [exact F|apply Nat.eqb_eq, A|intros; unfold encode_for_uri; rewrite encode_spec; apply frel_str]].
  (* CONTAINS, STRSTARTS, STRENDS, STRBEFORE, STRAFTER *)
  all: try solve [apply compat2_correct; [exact F|apply Nat.eqb_eq, A|]; intros x xt n; cbn [erel];
                  rewrite ?rust_contains_spec, ?rust_starts_spec, ?rust_ends_spec; apply frel_bool].
  all: try solve [apply compat2_correct; [exact F|apply Nat.eqb_eq, A|]; intros x xt n; rewrite ?strbefore_spec, ?strafter_spec; cbn [erel];
                  destruct (split_at_first n x) as [[u v]|]; apply frel_str].
  (* YEAR .. SECONDS *)
  all: try solve [apply date1_correct; [exact F|apply Nat.eqb_eq, A|]; intros d; destruct (dt_fields Y d) as [[[[y m] dd] h] mi]; apply frel_int].
  all: try solve [apply date1_correct; [exact F|apply Nat.eqb_eq, A|]; intros d;
                  exact (frel_num (Decimal (FL X) (dec_of_big (dt_nanos Y d, 9%Z))) I)].
  - (* LANGMATCHES *)
    destruct (two_args _ _ F (proj1 (Nat.eqb_eq _ _) A)) as (a & s & b & t & -> & -> & R1 & R2).
    cbn [arg2 s2]. rewrite (fr_simple _ _ R1), (fr_simple _ _ R2).
    destruct (s_simple X s) as [tag|]; [|exact I]. destruct (s_simple X t) as [range|]; [|exact I].
    cbn [fd_langmatches_error FD andb]. destruct (lang_tag_ok tag) eqn:T; cbn [negb orb].
    + destruct (str_eqb_spec range [42%N]) as [->|NS]; cbn [negb andb].
      * rewrite lang_matches_ok by (auto; left; reflexivity). apply frel_bool.
      * destruct (lang_tag_ok range) eqn:Rg; cbn [negb].
        -- rewrite lang_matches_ok by auto. apply frel_bool.
        -- unfold lang_matches. rewrite T. cbn [negb]. destruct (str_eqb_spec range star); [contradiction|]. rewrite Rg. exact I.
    + unfold lang_matches. rewrite T. exact I.
  - (* BNODE *)
    destruct F as [|a s args sargs R F]; [apply frel_term|]. destruct F; [|discriminate A].
    cbn [rev app]. rewrite (fr_simple _ _ R). destruct (s_simple X s); [apply frel_term|exact I].
  - (* RAND *)
    apply Nat.eqb_eq in A. destruct F; [|discriminate A]. destruct rnd as [d|]; [exact (frel_num (Double (FL X) d) I)|exact I].
  - (* CONCAT *)
    rewrite (strlits_same _ _ F). destruct (all_some (map (s_strlit X) sargs)); [apply concat_correct|exact I].
  - (* SUBSTR *)
    apply orb_true_iff in A as [A|A]; apply Nat.eqb_eq in A.
    + destruct (two_args _ _ F A) as (a & s & b & t & -> & -> & R1 & R2).
      rewrite (fr_strlit _ _ R1), (fr_dbl _ _ R2). destruct (s_strlit X s) as [[lex tag]|]; [|exact I].
      destruct (as_number X c b); [apply sub_str_correct|exact I].
    + destruct (three_args _ _ F A) as (a & s & b & t & d & u & -> & -> & R1 & R2 & R3).
      rewrite (fr_strlit _ _ R1), (fr_dbl _ _ R2), (fr_dbl _ _ R3). destruct (s_strlit X s) as [[lex tag]|]; [|exact I].
      destruct (as_number X c b); [|exact I]. destruct (as_number X c d); [apply sub_str_correct|exact I].
  - (* TRIPLE *)
    destruct (three_args _ _ F (proj1 (Nat.eqb_eq _ _) A)) as (a & s & b & t & d & u & -> & -> & R1 & R2 & R3).
    apply triple_correct; assumption.
  - (* isTRIPLE *)
    destruct (one_arg _ _ F (proj1 (Nat.eqb_eq _ _) A)) as (a & s & -> & -> & R). cbn [arg1 s1]. rewrite (fr_term _ _ R).
    destruct a as [[]|[n|l [tg|]|[b|]|[d|]]]; apply frel_bool.
Qed.

(* --- expressions --- *)
Lemma i_eval_cwf e : forall mu r, i_eval X c e mu = Some r -> cwf r.
Proof.
  induction e using expr_ind_nested; intros mu r; cbn [i_eval].
  - intros E; injection E as <-; exact I.
  - destruct (lookup v mu); cbn; [intros E; injection E as <-; exact I|discriminate].
  - intros E; injection E as <-; exact I.
  - destruct (truthy_of X c (i_eval X c e1 mu)) as [[|]|], (truthy_of X c (i_eval X c e2 mu)) as [[|]|]; intros E; try discriminate E; injection E as <-; exact I.
  - destruct (truthy_of X c (i_eval X c e1 mu)) as [[|]|], (truthy_of X c (i_eval X c e2 mu)) as [[|]|]; intros E; try discriminate E; injection E as <-; exact I.
  - destruct (truthy_of X c (i_eval X c e mu)); cbn; intros E; try discriminate E; injection E as <-; exact I.
  - destruct (i_eval X c e1 mu) as [x|], (i_eval X c e2 mu) as [y|]; try discriminate. destruct (c_eq X c x y); cbn; intros E; try discriminate E; injection E as <-; exact I.
  - destruct (i_eval X c e1 mu) as [x|], (i_eval X c e2 mu) as [y|]; try discriminate. intros E; injection E as <-; exact I.
  - unfold cmp_arm. destruct (i_eval X c e1 mu) as [x|], (i_eval X c e2 mu) as [y|]; try discriminate. destruct (c_compare X c p_gt x y); cbn; intros E; try discriminate E; injection E as <-; exact I.
  - unfold cmp_arm. destruct (i_eval X c e1 mu) as [x|], (i_eval X c e2 mu) as [y|]; try discriminate. destruct (c_compare X c p_ge x y); cbn; intros E; try discriminate E; injection E as <-; exact I.
  - unfold cmp_arm. destruct (i_eval X c e1 mu) as [x|], (i_eval X c e2 mu) as [y|]; try discriminate. destruct (c_compare X c p_lt x y); cbn; intros E; try discriminate E; injection E as <-; exact I.
  - unfold cmp_arm. destruct (i_eval X c e1 mu) as [x|], (i_eval X c e2 mu) as [y|]; try discriminate. destruct (c_compare X c p_le x y); cbn; intros E; try discriminate E; injection E as <-; exact I.
  - destruct (i_eval X c e mu) as [x|]; [|discriminate]. destruct (in_find X c x _); cbn; intros E; try discriminate E; injection E as <-; exact I.
  - unfold arith_arm. destruct (i_eval X c e1 mu) as [x|], (i_eval X c e2 mu) as [y|]; try discriminate. destruct (as_number X c x) as [n|], (as_number X c y) as [m|]; try discriminate.
    destruct (add (FL X) n m) eqn:O; cbn; intros E; try discriminate E; injection E as <-. eapply (arith_wf X (add (FL X))); eauto.
  - unfold arith_arm. destruct (i_eval X c e1 mu) as [x|], (i_eval X c e2 mu) as [y|]; try discriminate. destruct (as_number X c x) as [n|], (as_number X c y) as [m|]; try discriminate.
    destruct (sub (FL X) n m) eqn:O; cbn; intros E; try discriminate E; injection E as <-. eapply (arith_wf X (sub (FL X))); eauto.
  - unfold arith_arm. destruct (i_eval X c e1 mu) as [x|], (i_eval X c e2 mu) as [y|]; try discriminate. destruct (as_number X c x) as [n|], (as_number X c y) as [m|]; try discriminate.
    destruct (mul (FL X) n m) eqn:O; cbn; intros E; try discriminate E; injection E as <-. eapply (arith_wf X (mul (FL X))); eauto.
  - unfold arith_arm. destruct (i_eval X c e1 mu) as [x|], (i_eval X c e2 mu) as [y|]; try discriminate. destruct (as_number X c x) as [n|], (as_number X c y) as [m|]; try discriminate.
    destruct (div (FL X) n m) eqn:O; cbn; intros E; try discriminate E; injection E as <-. eapply (arith_wf X (div (FL X))); eauto 6.
  - destruct (i_eval X c e mu) as [x|] eqn:Ea; [|discriminate]. cbn [bind]. destruct (as_number X c x) as [n|] eqn:N; cbn; intros E; try discriminate E; injection E as <-.
    eapply as_number_wf; [eapply IHe; eauto|eauto].
  - destruct (i_eval X c e mu) as [x|] eqn:Ea; [|discriminate]. cbn [bind]. destruct (as_number X c x) as [n|] eqn:N; [|discriminate]. cbn [bind].
    destruct (neg (FL X) n) eqn:O; cbn; intros E; try discriminate E; injection E as <-. eapply neg_wf; eauto.
  - destruct (i_eval X c e1 mu) as [x|]; [|discriminate]. destruct (c_truthy X c x) as [[|]|]; cbn [fix_if cfg_fixed]; eauto; discriminate.
  - induction H as [|e0 l H0 H IH]; cbn [map first_some]; [discriminate|].
    destruct (i_eval X c e0 mu) eqn:E0; [intros E; injection E as <-; eapply H0; eauto|exact IH].
  - destruct (i_eval X c e mu) as [x|]; [|discriminate]. cbn [bind]. apply call_fn1_cwf.
Qed.

Section FexprInd.
Variable Q : fexpr -> Prop.
Hypothesis HE : forall e, Q (XE e).
Hypothesis HCall : forall f args, Forall Q args -> Q (XCall f args).
Hypothesis HNot : forall a, Q a -> Q (XNot a).
Hypothesis HOr : forall a b, Q a -> Q b -> Q (XOr a b).
Hypothesis HAnd : forall a b, Q a -> Q b -> Q (XAnd a b).
Hypothesis HEq : forall a b, Q a -> Q b -> Q (XEq a b).
Hypothesis HSame : forall a b, Q a -> Q b -> Q (XSame a b).
Hypothesis HCmp : forall o a b, Q a -> Q b -> Q (XCmp o a b).
Hypothesis HAr : forall o a b, Q a -> Q b -> Q (XAr o a b).
Hypothesis HIf : forall a b d, Q a -> Q b -> Q d -> Q (XIf a b d).
Hypothesis HCoalesce : forall l, Forall Q l -> Q (XCoalesce l).
Fixpoint fexpr_ind_nested (e : fexpr) : Q e :=
  match e with
  | XE e0 => HE e0
  | XCall f args => HCall f args ((fix go (l : list fexpr) : Forall Q l :=
                                     match l with [] => Forall_nil Q | a :: r => Forall_cons a (fexpr_ind_nested a) (go r) end) args)
  | XNot a => HNot a (fexpr_ind_nested a)
  | XOr a b => HOr a b (fexpr_ind_nested a) (fexpr_ind_nested b)
  | XAnd a b => HAnd a b (fexpr_ind_nested a) (fexpr_ind_nested b)
  | XEq a b => HEq a b (fexpr_ind_nested a) (fexpr_ind_nested b)
  | XSame a b => HSame a b (fexpr_ind_nested a) (fexpr_ind_nested b)
  | XCmp o a b => HCmp o a b (fexpr_ind_nested a) (fexpr_ind_nested b)
  | XAr o a b => HAr o a b (fexpr_ind_nested a) (fexpr_ind_nested b)
  | XIf a b d => HIf a b d (fexpr_ind_nested a) (fexpr_ind_nested b) (fexpr_ind_nested d)
  | XCoalesce l => HCoalesce l ((fix go (l : list fexpr) : Forall Q l :=
                                   match l with [] => Forall_nil Q | a :: r => Forall_cons a (fexpr_ind_nested a) (go r) end) l)
  end.
End FexprInd.

Lemma eval_args_rel rs os : Forall2 erel rs os ->
  match eval_args X rs, all_some os with
  | FVal vs, Some ss => Forall2 frel vs ss /\ length vs = length rs
  | FErr, None => True
  | _, _ => False
  end.
Proof.
  induction 1 as [|r o rs os R F IH]; [split; [constructor|reflexivity]|].
  cbn [eval_args all_some]. destruct r as [a| |], o as [s|]; cbn [erel fbind] in *; try tauto.
  destruct (eval_args X rs) as [vs| |], (all_some os) as [ss|]; cbn [fbind option_map]; try tauto.
  destruct IH as [IH L]. split; [constructor; assumption|cbn [length]; rewrite L; reflexivity].
Qed.
Lemma first_rel rs os : Forall2 erel rs os -> erel (first_val X rs) (first_some os).
Proof.
  induction 1 as [|r o rs os R F IH]; [exact I|]. destruct r as [a| |], o as [s|]; cbn [erel first_val first_some] in *; tauto.
Qed.
Lemma erel_truthy r o : erel r o -> truthy_of X c (ev_opt X r) = bind o (ebv X) /\ is_panic r = false.
Proof.
  destruct r as [a| |], o as [s|]; cbn [erel ev_opt truthy_of bind is_panic]; try tauto; try (intros _; split; reflexivity).
  intros [R W]. split; [|reflexivity]. rewrite <- (nz_truthy X a). apply (rel_ebv X H_flt H_dbl), R.
Qed.
Lemma frel_truthy a s : frel a s -> c_truthy X c a = ebv X s.
Proof. intros [R W]. rewrite <- (nz_truthy X a). apply (rel_ebv X H_flt H_dbl), R. Qed.

Variable ent : str * option (dbl X).
(* MAIN: for every expression built from the operators and the implemented functions, every
   solution mapping and every position: same error, same term or same value as the
   specification -- and no panic *)
Theorem feval_correct e : all_supported e = true -> arities_ok e = true -> forall mu path,
  erel (fi_eval X Y c ent e mu path) (fs_eval X Y P D FD ent e mu path).
Proof.
  induction e using fexpr_ind_nested; intros Sup Ar mu path; cbn [all_supported arities_ok] in Sup, Ar; cbn [fi_eval fs_eval].
  - (* the operator fragment *)
    pose proof (eval_correct X H_flt H_dbl e mu) as O. pose proof (i_eval_cwf e mu) as W.
    destruct (i_eval X c e mu) as [a|], (s_eval X P D e mu) as [s|]; cbn [orel fopt erel] in *; try tauto.
    apply mk_frel; [exact O|apply W; reflexivity].
  - (* a call *)
    apply andb_true_iff in Sup as [Im Sup], Ar as [Ary Ar].
    match goal with |- erel (fbind (eval_args X (?g args 0%N)) _) (match all_some (?h args 0%N) with _ => _ end) =>
      assert (G : forall i, Forall2 erel (g args i) (h args i) /\ length (g args i) = length args) end.
    { clear Ary. revert Sup Ar. induction H as [|a args Ha H IH]; intros Sup Ar i; [split; [constructor|reflexivity]|].
      cbn in Sup, Ar. apply andb_true_iff in Sup as [S1 S2], Ar as [A1 A2].
      destruct (IH S2 A2 (i + 1)%N) as [IH1 IH2]. cbn. split; [constructor; [apply Ha; assumption|exact IH1]|rewrite IH2; reflexivity]. }
    destruct (G 0%N) as [G1 G2]. pose proof (eval_args_rel _ _ G1) as E.
    match goal with |- erel (fbind (eval_args X ?rs) _) (match all_some ?os with _ => _ end) =>
      destruct (eval_args X rs) as [vs| |], (all_some os) as [ss|]; cbn [fbind]; try tauto end.
    destruct E as [E L]. apply call_correct; [exact E| |exact Im].
    assert (LE : length vs = length args) by (rewrite L; exact G2). rewrite LE. exact Ary.
  - (* ! *)
    specialize (IHe Sup Ar mu (0%N :: path)).
    destruct (fi_eval X Y c ent e mu (0%N :: path)) as [a| |], (fs_eval X Y P D FD ent e mu (0%N :: path)) as [s|]; cbn [erel fbind bind] in *; try tauto.
    rewrite (frel_truthy _ _ IHe). destruct (ebv X s); cbn [option_map fopt erel]; [apply frel_bool|exact I].
  - (* || *)
    apply andb_true_iff in Sup as [S1 S2], Ar as [A1 A2].
    destruct (erel_truthy _ _ (IHe1 S1 A1 mu (0%N :: path))) as [T1 P1], (erel_truthy _ _ (IHe2 S2 A2 mu (1%N :: path))) as [T2 P2].
    unfold with2. rewrite P1, P2, T1, T2. cbn [orb].
    destruct (bind (fs_eval X Y P D FD ent e1 mu (0%N :: path)) (ebv X)) as [[|]|], (bind (fs_eval X Y P D FD ent e2 mu (1%N :: path)) (ebv X)) as [[|]|];
      cbn [or3 option_map fopt erel orb]; first [exact I|apply frel_bool].
  - (* && *)
    apply andb_true_iff in Sup as [S1 S2], Ar as [A1 A2].
    destruct (erel_truthy _ _ (IHe1 S1 A1 mu (0%N :: path))) as [T1 P1], (erel_truthy _ _ (IHe2 S2 A2 mu (1%N :: path))) as [T2 P2].
    unfold with2. rewrite P1, P2, T1, T2. cbn [orb].
    destruct (bind (fs_eval X Y P D FD ent e1 mu (0%N :: path)) (ebv X)) as [[|]|], (bind (fs_eval X Y P D FD ent e2 mu (1%N :: path)) (ebv X)) as [[|]|];
      cbn [and3 option_map fopt erel andb]; first [exact I|apply frel_bool].
  - (* = *)
    apply andb_true_iff in Sup as [S1 S2], Ar as [A1 A2].
    specialize (IHe1 S1 A1 mu (0%N :: path)). specialize (IHe2 S2 A2 mu (1%N :: path)).
    destruct (fi_eval X Y c ent e1 mu (0%N :: path)) as [a| |], (fs_eval X Y P D FD ent e1 mu (0%N :: path)) as [s|]; cbn [erel fbind] in *; try tauto.
    destruct (fi_eval X Y c ent e2 mu (1%N :: path)) as [b| |], (fs_eval X Y P D FD ent e2 mu (1%N :: path)) as [t|]; cbn [erel fbind] in *; try tauto.
    rewrite <- (nz_eq X a b), (rel_eq X H_flt H_dbl _ _ _ _ (proj1 IHe1) (proj1 IHe2)).
    destruct (s_eq X P D s t); cbn [option_map fopt erel]; [apply frel_bool|exact I].
  - (* sameTerm *)
    apply andb_true_iff in Sup as [S1 S2], Ar as [A1 A2].
    specialize (IHe1 S1 A1 mu (0%N :: path)). specialize (IHe2 S2 A2 mu (1%N :: path)).
    destruct (fi_eval X Y c ent e1 mu (0%N :: path)) as [a| |], (fs_eval X Y P D FD ent e1 mu (0%N :: path)) as [s|]; cbn [erel fbind] in *; try tauto.
    destruct (fi_eval X Y c ent e2 mu (1%N :: path)) as [b| |], (fs_eval X Y P D FD ent e2 mu (1%N :: path)) as [t|]; cbn [erel fbind] in *; try tauto.
    unfold into_term. rewrite (fr_term _ _ IHe1), (fr_term _ _ IHe2). apply frel_bool.
  - (* < <= > >= *)
    apply andb_true_iff in Sup as [S1 S2], Ar as [A1 A2].
    specialize (IHe1 S1 A1 mu (0%N :: path)). specialize (IHe2 S2 A2 mu (1%N :: path)).
    destruct (fi_eval X Y c ent e1 mu (0%N :: path)) as [a| |], (fs_eval X Y P D FD ent e1 mu (0%N :: path)) as [s|]; cbn [erel fbind s_rel2] in *; try tauto.
    destruct (fi_eval X Y c ent e2 mu (1%N :: path)) as [b| |], (fs_eval X Y P D FD ent e2 mu (1%N :: path)) as [t|]; cbn [erel fbind s_rel2 cmp_arm] in *; try tauto.
    rewrite <- (nz_compare X _ a b), (rel_rel X H_flt H_dbl _ _ _ _ _ (proj1 IHe1) (proj1 IHe2)).
    destruct (s_rel X P D (cmp_pred o) s t); cbn [option_map fopt erel]; [apply frel_bool|exact I].
  - (* + - * / *)
    apply andb_true_iff in Sup as [S1 S2], Ar as [A1 A2].
    specialize (IHe1 S1 A1 mu (0%N :: path)). specialize (IHe2 S2 A2 mu (1%N :: path)).
    destruct (fi_eval X Y c ent e1 mu (0%N :: path)) as [a| |], (fs_eval X Y P D FD ent e1 mu (0%N :: path)) as [s|]; cbn [erel fbind s_arith] in *; try tauto.
    destruct (fi_eval X Y c ent e2 mu (1%N :: path)) as [b| |], (fs_eval X Y P D FD ent e2 mu (1%N :: path)) as [t|]; cbn [erel fbind s_arith arith_arm] in *; try tauto.
    rewrite (fr_num _ _ IHe1), (fr_num _ _ IHe2).
    destruct (as_number X c a) as [n|] eqn:Na, (as_number X c b) as [m|] eqn:Nb; cbn [option_map fopt erel]; try exact I.
    assert (OP : option_map den (ar_impl X o n m) = ar_spec X o (den n) (den m)).
    { destruct o; [apply add_den|apply sub_den|apply mul_den|apply div_den]. }
    destruct (ar_impl X o n m) as [r|] eqn:O, (ar_spec X o (den n) (den m)); cbn [option_map] in *; try discriminate; try exact I.
    injection OP as <-. apply frel_num. eapply (arith_wf X (ar_impl X o)); [destruct o; auto 6|exact O].
  - (* IF *)
    apply andb_true_iff in Sup as [S12 S3], Ar as [A12 A3]. apply andb_true_iff in S12 as [S1 S2], A12 as [A1 A2].
    specialize (IHe1 S1 A1 mu (0%N :: path)).
    destruct (fi_eval X Y c ent e1 mu (0%N :: path)) as [a| |], (fs_eval X Y P D FD ent e1 mu (0%N :: path)) as [s|]; cbn [erel fbind bind] in *; try tauto.
    rewrite (frel_truthy _ _ IHe1). destruct (ebv X s) as [[|]|]; cbn [fix_if cfg_fixed]; [apply IHe2|apply IHe3|exact I]; assumption.
  - (* COALESCE *)
    match goal with |- erel (first_val X (?g l 0%N)) (first_some (?h l 0%N)) =>
      assert (G : forall i, Forall2 erel (g l i) (h l i)) end.
    { revert Sup Ar. induction H as [|a l Ha H IH]; intros Sup Ar i; [constructor|].
      cbn in Sup, Ar. apply andb_true_iff in Sup as [S1 S2], Ar as [A1 A2].
      cbn. constructor; [apply Ha; assumption|apply IH; assumption]. }
    apply first_rel, G.
Qed.

(* FILTER keeps, BIND binds exactly what the specification says; the evaluation never panics *)
Theorem fquery_correct e mu : all_supported e = true -> arities_ok e = true ->
  fi_query X Y c ent e mu = QRows (fs_bind X Y P D FD ent e mu) (fs_filter X Y P D FD ent e mu).
Proof.
  intros Sup Ar. pose proof (feval_correct e Sup Ar mu []) as R. unfold fi_query, fs_bind, fs_filter.
  destruct (fi_eval X Y c ent e mu []) as [a| |], (fs_eval X Y P D FD ent e mu []) as [s|]; cbn [erel ev_opt option_map bind] in *; try tauto.
  unfold into_term. rewrite (fr_term _ _ R), (frel_truthy _ _ R). reflexivity.
Qed.
End Corr.

(* ------------------------------------------------------------------------------------ *)
(* 6. totality, the dialect, the functions without implementation                        *)
(* ------------------------------------------------------------------------------------ *)
Section Dialect.
Variable X : xlib.
Variable Y : flib X.
Variable Pr : xnum X -> str.
(* no call panics on a number of arguments the parser can produce (in particular: no slice off a
   character boundary, no arithmetic overflow), whatever the arguments *)
Lemma fopt_np {A} (o : option A) : fopt o <> FPanic.
Proof. destruct o; discriminate. Qed.
Lemma arg1_np args (g : cval X -> fout (cval X)) : (forall a, g a <> FPanic) -> length args = 1%nat -> arg1 X args g <> FPanic.
Proof. intros G L. destruct args as [|a [|b args]]; try discriminate L. apply G. Qed.
Ltac np_body := repeat match goal with |- context [match ?g with _ => _ end] => destruct g end; discriminate.
Theorem call_no_panic cf lbl rnd f args : arity_ok f (length args) = true ->
  call_function X Y cf lbl rnd f args <> FPanic.
Proof.
  intros A. destruct f; cbn [arity_ok] in A; cbn [call_function]; try discriminate.
  all: try solve [unfold num1, date1; apply arg1_np; [intros a; first [apply fopt_np|np_body]|apply Nat.eqb_eq, A]].
  - (* LANGMATCHES *) destruct args as [|a [|b [|d args]]]; try discriminate A. cbn [arg2].
    destruct (as_xsd_string X a) as [tag|]; [|discriminate]. destruct (as_xsd_string X b) as [range|]; [|discriminate].
    unfold lang_matches. destruct (lang_tag_ok tag) eqn:T; cbn [negb]; [|discriminate].
    destruct (str_eqb range star); [discriminate|]. destruct (lang_tag_ok range) eqn:R; cbn [negb]; [|discriminate].
    pose proof (lang_tag_ascii _ T) as AT. pose proof (lang_tag_ascii _ R) as AR.
    rewrite (blen_ascii _ AT), (blen_ascii _ AR).
    destruct (N.leb_spec (N.of_nat (length range)) (N.of_nat (length tag))) as [L|L]; [|discriminate].
    rewrite (bslice_ascii_prefix _ _ AT) by lia. cbn [fbind]. destruct (str_eqb_ci _ range); [|discriminate].
    destruct (N.of_nat (length tag) =? N.of_nat (length range)); [discriminate|].
    rewrite <- (blen_ascii _ AT), (bslice_ascii_suffix _ _ AT) by lia. discriminate.
  - (* BNODE *) destruct (rev args); [discriminate|]. destruct (as_xsd_string X c); discriminate.
  - (* RAND *) destruct rnd; discriminate.
  - (* CONCAT *) destruct (all_some _); discriminate.
  - (* SUBSTR *) destruct args as [|a [|b [|d [|e args]]]]; try discriminate A;
    repeat match goal with |- context [match ?g with _ => _ end] => destruct g end; discriminate.
  - (* CONTAINS *) destruct args as [|a [|b [|d args]]]; try discriminate A. unfold compat2, str2, arg2. np_body.
  - destruct args as [|a [|b [|d args]]]; try discriminate A. unfold compat2, str2, arg2. np_body.
  - destruct args as [|a [|b [|d args]]]; try discriminate A. unfold compat2, str2, arg2. np_body.
  - (* STRBEFORE *) destruct args as [|a [|b [|d args]]]; try discriminate A. unfold compat2, str2, arg2.
    repeat match goal with |- context [match ?g with _ => _ end] => destruct g end; try discriminate. rewrite strbefore_spec; discriminate.
  - (* STRAFTER *) destruct args as [|a [|b [|d args]]]; try discriminate A. unfold compat2, str2, arg2.
    repeat match goal with |- context [match ?g with _ => _ end] => destruct g end; try discriminate. rewrite strafter_spec; discriminate.
  - (* TRIPLE *) destruct args as [|a [|b [|d [|e args]]]]; try discriminate A. unfold triple_fn.
    repeat match goal with |- context [match ?g with _ => _ end] => destruct g end; discriminate.
Qed.
(* a function without implementation is an ordinary expression error, for all arguments: the
   NotImplemented the property asks for never surfaces *)
Theorem unimplemented_is_error cf lbl rnd f args : implemented f = false ->
  call_function X Y cf lbl rnd f args = FErr.
Proof. destruct f; try discriminate; reflexivity. Qed.
(* sophia's dialect of langMatches only loses answers; its dialect of IRI only adds some *)
Theorem langmatches_dialect_sound lbl rnd args r :
  s_call X Y Pr fd_sophia lbl rnd FnLangMatches args = Some r -> s_call X Y Pr fd_strict lbl rnd FnLangMatches args = Some r.
Proof.
  cbn [s_call]. unfold s2. destruct args as [|a [|b [|d args]]]; try discriminate.
  destruct (s_simple X a), (s_simple X b); try discriminate. cbn [fd_langmatches_error fd_sophia fd_strict andb].
  destruct (_ || _); [discriminate|auto].
Qed.
Theorem iri_dialect_complete lbl rnd args r : (forall s, iri_abs_ok Y s = true -> iri_ref_ok Y s = true) ->
  s_call X Y Pr fd_strict lbl rnd FnIri args = Some r -> s_call X Y Pr fd_sophia lbl rnd FnIri args = Some r.
Proof.
  intros H. cbn [s_call]. unfold s1. destruct args as [|a [|b args]]; try discriminate.
  destruct (s_class X a); auto. cbn [fd_relative_iri fd_sophia fd_strict].
  destruct (iri_abs_ok Y s) eqn:E; [|discriminate]. rewrite (H _ E). auto.
Qed.
Theorem dialect_irrelevant fd1 fd2 lbl rnd f args : f <> FnIri -> f <> FnLangMatches ->
  s_call X Y Pr fd1 lbl rnd f args = s_call X Y Pr fd2 lbl rnd f args.
Proof. destruct f; try reflexivity; congruence. Qed.
End Dialect.

(* ------------------------------------------------------------------------------------ *)
(* 7. the laws users rely on (on the specification; they transfer to the implementation by
      call_correct / feval_correct)                                                        *)
(* ------------------------------------------------------------------------------------ *)
Section Laws.
Variable X : xlib.
Variable Y : flib X.
Variable Pr : xnum X -> str.
Variable FD : fdialect.
Notation call := (s_call X Y Pr FD).

Lemma s_strlit_r_str lex tag : s_strlit X (r_str X lex tag) = Some (lex, tag).
Proof. destruct tag; reflexivity. Qed.
(* STRLEN(CONCAT(a, b)) = STRLEN(a) + STRLEN(b) *)
Theorem law_strlen_concat lbl rnd a b la ta lb tb :
  s_strlit X a = Some (la, ta) -> s_strlit X b = Some (lb, tb) ->
  exists r, call lbl rnd FnConcat [a; b] = Some r /\
            call lbl rnd FnStrLen [r] = Some (SN (XI (Z.of_nat (length la) + Z.of_nat (length lb)))).
Proof.
  intros A B. eexists. split.
  - cbn [s_call map all_some]. rewrite A, B. reflexivity.
  - cbn [s_call s1]. rewrite s_strlit_r_str. cbn [option_map fst flat_map]. rewrite app_nil_r, app_length, Nat2Z.inj_add. reflexivity.
Qed.
(* CONTAINS(s, x) -> STRBEFORE(s, x) ++ x ++ STRAFTER(s, x) = s, both with the language tag of s;
   otherwise both are the empty simple literal *)
Theorem law_before_after lbl rnd h ht n nt : sp_compatible ht nt = true ->
  let s := r_str X h ht in let x := r_str X n nt in
  if sp_contains h n then
    exists before after, call lbl rnd FnStrBefore [s; x] = Some (r_str X before ht) /\
                         call lbl rnd FnStrAfter [s; x] = Some (r_str X after ht) /\ before ++ n ++ after = h
  else call lbl rnd FnStrBefore [s; x] = Some (r_str X [] None) /\ call lbl rnd FnStrAfter [s; x] = Some (r_str X [] None).
Proof.
  intros C s x. subst s x. cbn [s_call]. unfold s_str2, s2, sp_contains. rewrite !s_strlit_r_str, C.
  destruct (split_at_first n h) as [[u v]|] eqn:E; cbn [is_some]; [|split; reflexivity].
  exists u, v. repeat split. symmetry. eapply split_at_first_sound, E.
Qed.
(* UCASE / LCASE are idempotent on ASCII strings, given the ASCII rows of the Unicode tables *)
Definition ascii_upper (ch : N) : N := if (97 <=? ch) && (ch <=? 122) then ch - 32 else ch.
Definition ascii_lower (ch : N) : N := if (65 <=? ch) && (ch <=? 90) then ch + 32 else ch.
Definition ascii_case_ok : Prop :=
  forall ch, ch < 128 -> to_upper Y ch = [ascii_upper ch] /\ to_lower Y ch = [ascii_lower ch].
Lemma ascii_upper_idem ch : ch < 128 -> ascii_upper (ascii_upper ch) = ascii_upper ch /\ ascii_upper ch < 128.
Proof.
  intros H. unfold ascii_upper. destruct ((97 <=? ch) && (ch <=? 122)) eqn:E; [|rewrite E; auto].
  apply andb_true_iff in E as [E1 E2]. apply N.leb_le in E1, E2.
  destruct (N.leb_spec 97 (ch - 32)); [lia|]. cbn [andb]. split; [reflexivity|lia].
Qed.
Lemma ascii_lower_idem ch : ch < 128 -> ascii_lower (ascii_lower ch) = ascii_lower ch /\ ascii_lower ch < 128.
Proof.
  intros H. unfold ascii_lower. destruct ((65 <=? ch) && (ch <=? 90)) eqn:E; [|rewrite E; auto].
  apply andb_true_iff in E as [E1 E2]. apply N.leb_le in E1, E2.
  destruct (N.leb_spec (ch + 32) 90); [lia|]. rewrite andb_false_r. split; [reflexivity|lia].
Qed.
Theorem law_case_idempotent s : ascii_case_ok -> ascii s = true ->
  flat_map (to_upper Y) (flat_map (to_upper Y) s) = flat_map (to_upper Y) s /\
  flat_map (to_lower Y) (flat_map (to_lower Y) s) = flat_map (to_lower Y) s /\
  length (flat_map (to_upper Y) s) = length s /\ length (flat_map (to_lower Y) s) = length s.
Proof.
  intros T. induction s as [|ch s IH]; [auto|]. cbn [ascii forallb]. intros H. apply andb_true_iff in H as [A B].
  apply N.ltb_lt in A. destruct (IH B) as (I1 & I2 & I3 & I4). destruct (T ch A) as [U L].
  destruct (ascii_upper_idem ch A) as [UI UA], (ascii_lower_idem ch A) as [LI LA].
  destruct (T _ UA) as [UU _], (T _ LA) as [_ LL].
  cbn [flat_map]. rewrite U, L. cbn [app flat_map]. rewrite UU, LL, UI, LI. cbn [app length]. rewrite I1, I2, I3, I4. auto.
Qed.
(* isIRI, isBLANK, isLITERAL, isTRIPLE partition the RDF terms *)
Theorem law_term_kinds lbl rnd t : match t with Var _ => False | _ => True end ->
  exists bi bb bl bt, call lbl rnd FnIsIri [ST t] = Some (SB bi) /\ call lbl rnd FnIsBlank [ST t] = Some (SB bb) /\
                      call lbl rnd FnIsLiteral [ST t] = Some (SB bl) /\ call lbl rnd FnIsTriple [ST t] = Some (SB bt) /\
                      (Nat.b2n bi + Nat.b2n bb + Nat.b2n bl + Nat.b2n bt = 1)%nat.
Proof. destruct t; try contradiction; intros _; do 4 eexists; repeat split. Qed.
(* STR(IRI(s)) = s for an absolute IRI s *)
Theorem law_str_iri lbl rnd s : iri_abs_ok Y s = true -> iri_ref_ok Y s = true ->
  exists r, call lbl rnd FnIri [ST (LitDt s xsd_string_iri)] = Some r /\ call lbl rnd FnStr [r] = Some (ST (LitDt s xsd_string_iri)).
Proof.
  intros A R. exists (ST (Iri s)). split; [|reflexivity]. cbn [s_call s1]. change (s_class X (ST (LitDt s xsd_string_iri))) with (@KStr X s).
  destruct (fd_relative_iri FD); rewrite ?A, ?R; reflexivity.
Qed.
(* SUBSTR(s, 1) = s, given that 1.0 <= p in xs:double for every position p *)
Lemma sp_positions_all (sel : Z -> bool) : forall s p, (forall q, (p <= q)%Z -> sel q = true) -> sp_positions sel p s = s.
Proof.
  induction s as [|ch s IH]; intros p H; [reflexivity|]. cbn [sp_positions]. rewrite (H p) by lia. cbn [app]. f_equal. apply IH. intros q Q. apply H. lia.
Qed.
Theorem law_substr_from_1 lbl rnd s tag :
  (forall p, (1 <= p)%Z -> fo_le X (d_rnd Y RHalfUp (d_of_Z X 1%Z)) (d_of_Z X p) = true) ->
  call lbl rnd FnSubStr [r_str X s tag; SN (XI 1%Z)] = Some (r_str X s tag).
Proof.
  intros H. cbn [s_call]. rewrite s_strlit_r_str. cbn [s_dbl s_num s_class option_map x2dbl]. unfold sp_substring.
  rewrite sp_positions_all; [reflexivity|]. intros q Q. rewrite (H q Q). reflexivity.
Qed.
End Laws.

(* ------------------------------------------------------------------------------------ *)
(* 8. the instance the model is run with; the code as found; the known findings          *)
(* ------------------------------------------------------------------------------------ *)
(* YC has the ASCII rows of the case tables, and its absolute IRIs are IRI references *)
Theorem YC_ascii_case : ascii_case_ok XC YC.
Proof.
  intros ch H. unfold to_upper, to_lower, YC, uc_upper, uc_lower, ascii_upper, ascii_lower, in_rng.
  destruct (N.leb_spec 97 ch), (N.leb_spec ch 122), (N.leb_spec 65 ch), (N.leb_spec ch 90); cbn [andb]; try (split; reflexivity); try lia;
  repeat match goal with |- context [N.eqb ch ?k] => destruct (N.eqb_spec ch k); [lia|] end;
  repeat match goal with |- context [N.leb ?k ch] => destruct (N.leb_spec k ch); [lia|]; cbn [andb] end; split; reflexivity.
Qed.
Theorem YC_iri_abs_ref s : iri_abs_ok YC s = true -> iri_ref_ok YC s = true.
Proof.
  cbn [iri_abs_ok iri_ref_ok YC]. unfold iri_abs_simple, iri_ref_simple. intros H. apply andb_true_iff in H as [A B].
  rewrite A, B, orb_true_r. reflexivity.
Qed.
(* the two assumptions on xpath_round, on samples around every branch of the helper *)
Definition dbl_of (s : string) : spec_float := match d_lex XC (L s) with Some d => d | None => S754_nan end.
Definition flt_of (s : string) : spec_float := match f_lex XC (L s) with Some d => d | None => S754_nan end.
Example xpath_round_samples :
  forallb (fun s => sf_eqb (xpath_round XC YC (dbl_of s)) (d_rnd YC RHalfUp (dbl_of s)))
    ["0"; "-0.0"; "0.5"; "-0.5"; "1.5"; "-1.5"; "2.5"; "-2.5"; "0.49999999999999994"; "-0.49999999999999994"; "0.4"; "-0.4";
     "0.6"; "-0.6"; "4503599627370497"; "-4503599627370497"; "4503599627370495.5"; "-4503599627370495.5"; "1e30"; "-1e30";
     "INF"; "-INF"; "NaN"; "5e-324"; "-5e-324"; "1.7976931348623157e308"; "-3.5"; "3.5"; "1e15"; "-1e-300"]%string = true
  /\ forallb (fun s => sf_eqb (f_of_dbl XC (xpath_round XC YC (d_of_flt XC (flt_of s)))) (f_rnd YC RHalfUp (flt_of s)))
    ["0"; "-0.0"; "0.5"; "-0.5"; "1.5"; "-1.5"; "2.5"; "-2.5"; "0.49999997"; "-0.49999997"; "8388609"; "-8388609"; "8388607.5";
     "-8388607.5"; "1e30"; "-1e30"; "INF"; "-INF"; "NaN"; "1e-45"; "3.4e38"]%string = true.
Proof. vm_compute. auto. Qed.

Definition slit (s : string) : fexpr := XE (EConst (LitDt (L s) xsd_string_iri)).
Definition nlit (l d : string) : fexpr := XE (EConst (LitDt (L l) (xsd d))).
Definition tstr (s : string) : term := LitDt (L s) xsd_string_iri.
Definition q0 := fi_query XC YC cfg_fixed ([], None).
Definition sq0 := fs_bind XC YC (P_sophia XC cfg_fixed) sophia_dialect fd_strict ([], None).

(* (results are compared through projections to plain data: an equation at type [cval XC] would
   make vm_compute normalise the whole float library inside the type) *)
Definition sview (r : fout (cval XC)) : N * str :=
  match r with FPanic => (0%N, []) | FErr => (1%N, []) | FVal (VVal (SStr l _)) => (2%N, l) | FVal _ => (3%N, []) end.
Definition panics : N * str := (0%N, []). Definition errs : N * str := (1%N, []). Definition gives (s : string) : N * str := (2%N, L s).
(* SUBSTR as found (before a02a275): byte offsets applied at character positions *)
Definition e_acute : str := [233]. Definition e_acute_a : str := [233; 97]. Definition a_e_acute : str := [97; 233].
Example substr0_byte_index_refuted :
  sview (sub_str0 XC e_acute None (RFin 2 0) None) = panics                        (* SUBSTR("é", 2): spec "" *)
  /\ sview (sub_str0 XC a_e_acute None (RFin 1 0) (Some (RFin 2 0))) = panics         (* SUBSTR("aé", 1, 2): spec "aé" *)
  /\ sview (sub_str0 XC e_acute_a None (RFin 3 0) None) = gives "a"                  (* SUBSTR("éa", 3) = "a": spec "" *)
  /\ sq0 (XCall FnSubStr [XE (EConst (LitDt e_acute xsd_string_iri)); nlit "2" "integer"]) [] = Some (tstr "")
  /\ sq0 (XCall FnSubStr [XE (EConst (LitDt a_e_acute xsd_string_iri)); nlit "1" "integer"; nlit "2" "integer"]) [] = Some (LitDt a_e_acute xsd_string_iri)
  /\ sq0 (XCall FnSubStr [XE (EConst (LitDt e_acute_a xsd_string_iri)); nlit "3" "integer"]) [] = Some (tstr "").
Proof. vm_compute. auto 7. Qed.
(* f64::round rounds -0.5 to -1, fn:round to -0: SUBSTR("12345", -0.5, 3) *)
Example substr0_rounding_refuted :
  sview (sub_str0 XC (L "12345") None (RFin (-1) (-1)) (Some (RFin 3 0))) = gives "1"
  /\ sq0 (XCall FnSubStr [slit "12345"; nlit "-0.5" "double"; nlit "3" "integer"]) [] = Some (tstr "12").
Proof. vm_compute. auto. Qed.
(* isize arithmetic: SUBSTR("abc", 1e30, 1e30), SUBSTR("abc", -INF, 5), SUBSTR("abc", 0, -INF) *)
Example substr0_overflow_refuted :
  sview (sub_str0 XC (L "abc") None (RFin (10 ^ 30) 0) (Some (RFin (10 ^ 30) 0))) = panics
  /\ sview (sub_str0 XC (L "abc") None (RInf true) (Some (RFin 5 0))) = panics
  /\ sview (sub_str0 XC (L "abc") None (RFin 0 0) (Some (RInf true))) = panics
  /\ sq0 (XCall FnSubStr [slit "abc"; nlit "1e30" "double"; nlit "1e30" "double"]) [] = Some (tstr "")
  /\ sq0 (XCall FnSubStr [slit "abc"; nlit "-INF" "double"; nlit "5" "integer"]) [] = Some (tstr "")
  /\ sq0 (XCall FnSubStr [slit "abc"; nlit "0" "integer"; nlit "-INF" "double"]) [] = Some (tstr "").
Proof. vm_compute. auto 7. Qed.
(* -INF + INF = NaN selects nothing; a NaN argument gives "", not an error *)
Example substr0_inf_nan_refuted :
  sview (sub_str0 XC (L "abc") None (RInf true) (Some (RInf false))) = gives "abc"
  /\ sview (sub_str0 XC (L "abc") None RNaN None) = errs
  /\ sq0 (XCall FnSubStr [slit "abc"; nlit "-INF" "double"; nlit "INF" "double"]) [] = Some (tstr "")
  /\ sq0 (XCall FnSubStr [slit "abc"; nlit "NaN" "double"]) [] = Some (tstr "").
Proof. vm_compute. auto. Qed.
(* after the fix the same queries give what the specification gives *)
Example substr_fixed :
  q0 (XCall FnSubStr [XE (EConst (LitDt e_acute xsd_string_iri)); nlit "2" "integer"]) [] = QRows (Some (tstr "")) false
  /\ q0 (XCall FnSubStr [slit "12345"; nlit "-0.5" "double"; nlit "3" "integer"]) [] = QRows (Some (tstr "12")) true
  /\ q0 (XCall FnSubStr [slit "abc"; nlit "1e30" "double"; nlit "1e30" "double"]) [] = QRows (Some (tstr "")) false
  /\ q0 (XCall FnSubStr [slit "abc"; nlit "-INF" "double"; nlit "INF" "double"]) [] = QRows (Some (tstr "")) false
  /\ q0 (XCall FnSubStr [slit "abc"; nlit "NaN" "double"]) [] = QRows (Some (tstr "")) false.
Proof. vm_compute. auto 6. Qed.

(* CEIL / FLOOR / ROUND as found (before 5a72fb8) *)
Definition dec_n (m : Z) (s : N) : inum XC := Decimal (FL XC) (m, s).
Definition dview (n : inum XC) : option (Z * N) := match n with Decimal _ d => Some d | _ => None end.
Definition xdview (n : xnum XC) : option (Z * N) := match n with XD d => Some d | _ => None end.
Definition ddbl (s : string) : inum XC := Double (FL XC) (dbl_of s : NumModel.dbl (FL XC)).
Definition dflt (s : string) : inum XC := Float (FL XC) (flt_of s : NumModel.flt (FL XC)).
Definition xdbl (s : string) : xnum XC := XDb (dbl_of s : ExprModel.dbl XC).
Definition fview (n : inum XC) : str := match n with Double _ d => d_print XC d | Float _ f => f_print XC f | _ => [] end.
Definition xfview (n : xnum XC) : str := match n with XDb d => d_print XC d | XF f => f_print XC f | _ => [] end.
Example ceil_floor0_refuted :
  dview (num_ceil0 XC YC (dec_n 30 1)) = Some ((4)%Z, 0%N) /\ dview (num_floor0 XC YC (dec_n 30 1)) = Some ((2)%Z, 0%N)   (* CEIL(3.0) = 4, FLOOR(3.0) = 2 *)
  /\ dview (num_ceil0 XC YC (dec_n (-30) 1)) = Some ((-2)%Z, 0%N)                                                    (* CEIL(-3.0) = -2 *)
  /\ xdview (x_round XC YC RCeil (XD ((30)%Z, 1%N))) = Some ((3)%Z, 0%N) /\ xdview (x_round XC YC RFloor (XD ((30)%Z, 1%N))) = Some ((3)%Z, 0%N)
  /\ dview (num_ceil XC YC (dec_n 30 1)) = Some ((3)%Z, 0%N) /\ dview (num_floor XC YC (dec_n 30 1)) = Some ((3)%Z, 0%N).
Proof. vm_compute. auto 8. Qed.
Example round0_decimal_refuted :
  dview (num_round0 XC YC (dec_n 25 1)) = Some ((2)%Z, 0%N) /\ dview (num_round0 XC YC (dec_n 5 1)) = Some ((0)%Z, 0%N)
  /\ dview (num_round0 XC YC (dec_n (-15) 1)) = Some ((-2)%Z, 0%N)
  /\ xdview (x_round XC YC RHalfUp (XD ((25)%Z, 1%N))) = Some ((3)%Z, 0%N) /\ xdview (x_round XC YC RHalfUp (XD ((5)%Z, 1%N))) = Some ((1)%Z, 0%N)
  /\ xdview (x_round XC YC RHalfUp (XD ((-15)%Z, 1%N))) = Some ((-1)%Z, 0%N)
  /\ dview (num_round XC YC (dec_n 25 1)) = Some ((3)%Z, 0%N) /\ dview (num_round XC YC (dec_n (-15) 1)) = Some ((-1)%Z, 0%N).
Proof. vm_compute. auto 9. Qed.
Example round0_float_refuted :
  fview (num_round0 XC YC (ddbl "-2.5")) = L "-3e0"
  /\ xfview (x_round XC YC RHalfUp (xdbl "-2.5")) = L "-2e0"
  /\ fview (num_round XC YC (ddbl "-2.5")) = L "-2e0"
  /\ fview (num_round XC YC (ddbl "-0.5")) = L "-0e0"
  /\ fview (num_round0 XC YC (dflt "-2.5")) = L "-3e0"
  /\ fview (num_round XC YC (dflt "-2.5")) = L "-2e0".
Proof. vm_compute. auto 7. Qed.

(* the known findings, in the code as it is *)
(* langMatches("", "*") is an error (17.4.1.8 with RFC 4647: false), so !langMatches(lang(?x), "*")
   never keeps a literal without language tag *)
Example langmatches_empty_refuted :
  q0 (XCall FnLangMatches [slit ""; slit "*"]) [] = QRows None false
  /\ sq0 (XCall FnLangMatches [slit ""; slit "*"]) [] = Some (LitDt l_false xsd_boolean_iri)
  /\ q0 (XNot (XCall FnLangMatches [XCall FnLang [slit "abc"]; slit "*"])) [] = QRows None false
  /\ fs_filter XC YC (P_sophia XC cfg_fixed) sophia_dialect fd_strict ([], None) (XNot (XCall FnLangMatches [XCall FnLang [slit "abc"]; slit "*"])) [] = true.
Proof. vm_compute. auto. Qed.
(* STRLANG("abc", "en") is unbound instead of "abc"@en or a NotImplemented error *)
Example not_implemented_silent_refuted :
  q0 (XCall FnStrLang [slit "abc"; slit "en"]) [] = QRows None false
  /\ sq0 (XCall FnStrLang [slit "abc"; slit "en"]) [] = Some (LitLang (L "abc") (L "en")).
Proof. vm_compute. auto. Qed.
(* IRI("a") is the relative reference <a> *)
Example iri_relative_refuted :
  q0 (XCall FnIri [slit "a"]) [] = QRows (Some (Iri (L "a"))) false /\ sq0 (XCall FnIri [slit "a"]) [] = None.
Proof. vm_compute. auto. Qed.
(* sameTerm(BNODE("a"), BNODE("a")) is false: each call draws a fresh label (17.4.2.9: the same
   node for the same string within one solution) *)
Example bnode_same_argument_refuted :
  q0 (XSame (XCall FnBNode [slit "a"]) (XCall FnBNode [slit "a"])) [] = QRows (Some (LitDt l_false xsd_boolean_iri)) false.
Proof. vm_compute. auto. Qed.
Theorem bnode_ignores_argument X Y cf lbl rnd a b :
  as_xsd_string X a <> None -> as_xsd_string X b <> None ->
  call_function X Y cf lbl rnd FnBNode [a] = call_function X Y cf lbl rnd FnBNode [b].
Proof. cbn. destruct (as_xsd_string X a), (as_xsd_string X b); congruence. Qed.
